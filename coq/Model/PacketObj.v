(* Packet OBJECTS and their histories (property C15): what the harness's reuse / error-path / numpy / buffer
   streams exercise, as an executable model on top of the pure codec of Model/Packet.v.  Definitions only.

   * Field values are Python values: None, a Python int (True / False are 1 / 0), or a numpy integer scalar of
     some width and signedness.  struct.pack takes the integer value of a field (__index__); the port and core
     operands are reduced with int(...) before `& 7` / `<< 5` -- Generated/GenPackets.v records on every run that
     all four operands of the source are so coerced (sdp_port_operands_coerced); without the coercion numpy's
     fixed-width arithmetic applies, which is not modelled (the object then encodes only with Python ints).
   * reply_expected is used for its truth value.
   * A required field that is None makes the encode raise (TypeError from int(None), struct.error from
     struct.pack(None)): OtherError.  An absent argument is None.
   * An object is a record of current values; assignments replace a value, the bytearray payload can be changed in
     place; an encode (successful or raising) leaves every value as it was.
   * Decoding builds a NEW object from the CONTENTS of the caller's buffer at that time (bytes / bytearray slices
     are copies): overwriting the buffer later, or editing another decoded object, does not touch it. *)
From Coq Require Import ZArith List Bool.
Require Import Rig.Generated.GenPackets Rig.Model.Base Rig.Model.Packet.
Import ListNotations.
Open Scope Z_scope.

Inductive pyval :=
| PNone
| PInt (z : Z)
| PNp (bits : Z) (signed : bool) (z : Z).     (* numpy.uint8(z) = PNp 8 false z; numpy.bool_ = PNp 1 false *)

Definition int_of (v : pyval) : option Z :=
  match v with PNone => None | PInt z => Some z | PNp _ _ z => Some z end.

(* the operands of the port/core byte: int(x) when the source coerces, else only a Python int is modelled *)
Definition port_int (v : pyval) : option Z :=
  match v with
  | PNone => None
  | PInt z => Some z
  | PNp _ _ z => if sdp_port_operands_coerced then Some z else None
  end.

Definition truth (v : pyval) : bool :=
  match v with PNone => false | PInt z => negb (z =? 0) | PNp _ _ z => negb (z =? 0) end.

Record obj := {
  o_scp : bool;                                  (* an SCPPacket (or a subclass of it), else an SDPPacket *)
  o_reply : pyval; o_tag : pyval; o_dest_port : pyval; o_dest_cpu : pyval; o_src_port : pyval;
  o_src_cpu : pyval; o_dest_x : pyval; o_dest_y : pyval; o_src_x : pyval; o_src_y : pyval;
  o_data : list Z;
  o_cmd : pyval; o_seq : pyval; o_arg1 : pyval; o_arg2 : pyval; o_arg3 : pyval }.

Definition obj_sdp (o : obj) : option sdp :=
  match int_of (o_tag o), port_int (o_dest_port o), port_int (o_dest_cpu o), port_int (o_src_port o),
        port_int (o_src_cpu o), int_of (o_dest_x o), int_of (o_dest_y o), int_of (o_src_x o), int_of (o_src_y o) with
  | Some t, Some dp, Some dc, Some sp, Some sc, Some dx, Some dy, Some sx, Some sy =>
      Some {| reply_expected := truth (o_reply o); tag := t; dest_port := dp; dest_cpu := dc; src_port := sp;
              src_cpu := sc; dest_x := dx; dest_y := dy; src_x := sx; src_y := sy; data := o_data o |}
  | _, _, _, _, _, _, _, _, _ => None
  end.

Definition obj_scp (o : obj) : option scp :=
  match obj_sdp o, int_of (o_cmd o), int_of (o_seq o) with
  | Some p, Some c, Some s =>
      Some {| sdp_part := p; cmd_rc := c; seq := s; arg1 := int_of (o_arg1 o); arg2 := int_of (o_arg2 o);
              arg3 := int_of (o_arg3 o) |}
  | _, _, _ => None
  end.

(* obj.bytestring *)
Definition obj_bytes (o : obj) : result (list Z) :=
  if o_scp o then match obj_scp o with Some q => scp_bytes q | None => OtherError end
  else match obj_sdp o with Some p => sdp_bytes p | None => OtherError end.

(* ------------------------------------------------------------------ histories on one object *)
Inductive fld :=
| LReply | LTag | LDestPort | LDestCpu | LSrcPort | LSrcCpu | LDestX | LDestY | LSrcX | LSrcY
| LCmd | LSeq | LArg1 | LArg2 | LArg3.

Inductive oop :=
| OEnc                                  (* obj.bytestring: an output, no change *)
| OSet (f : fld) (v : pyval)            (* obj.<f> = v *)
| OSetData (d : list Z)                 (* obj.data = <new object> *)
| OPoke (i : nat) (v : Z)               (* obj.data[i] = v   (bytearray payload, i in range) *)
| OTrunc (n : nat)                      (* del obj.data[n:] *)
| ORefill (d : list Z)                  (* obj.data[:] = d *)
| OExtend (d : list Z).                 (* obj.data.extend(d) *)

Definition with_o_data (o : obj) (d : list Z) : obj :=
  {| o_scp := o_scp o; o_reply := o_reply o; o_tag := o_tag o; o_dest_port := o_dest_port o;
     o_dest_cpu := o_dest_cpu o; o_src_port := o_src_port o; o_src_cpu := o_src_cpu o; o_dest_x := o_dest_x o;
     o_dest_y := o_dest_y o; o_src_x := o_src_x o; o_src_y := o_src_y o; o_data := d;
     o_cmd := o_cmd o; o_seq := o_seq o; o_arg1 := o_arg1 o; o_arg2 := o_arg2 o; o_arg3 := o_arg3 o |}.

Definition obj_set (o : obj) (f : fld) (v : pyval) : obj :=
  let g (f' : fld) (old : pyval) : pyval :=
      match f, f' with
      | LReply, LReply | LTag, LTag | LDestPort, LDestPort | LDestCpu, LDestCpu | LSrcPort, LSrcPort
      | LSrcCpu, LSrcCpu | LDestX, LDestX | LDestY, LDestY | LSrcX, LSrcX | LSrcY, LSrcY
      | LCmd, LCmd | LSeq, LSeq | LArg1, LArg1 | LArg2, LArg2 | LArg3, LArg3 => v
      | _, _ => old
      end in
  {| o_scp := o_scp o; o_reply := g LReply (o_reply o); o_tag := g LTag (o_tag o);
     o_dest_port := g LDestPort (o_dest_port o); o_dest_cpu := g LDestCpu (o_dest_cpu o);
     o_src_port := g LSrcPort (o_src_port o); o_src_cpu := g LSrcCpu (o_src_cpu o);
     o_dest_x := g LDestX (o_dest_x o); o_dest_y := g LDestY (o_dest_y o); o_src_x := g LSrcX (o_src_x o);
     o_src_y := g LSrcY (o_src_y o); o_data := o_data o;
     o_cmd := g LCmd (o_cmd o); o_seq := g LSeq (o_seq o); o_arg1 := g LArg1 (o_arg1 o);
     o_arg2 := g LArg2 (o_arg2 o); o_arg3 := g LArg3 (o_arg3 o) |}.

Fixpoint list_set (l : list Z) (i : nat) (v : Z) : list Z :=
  match l, i with
  | [], _ => []
  | _ :: r, O => v :: r
  | x :: r, S j => x :: list_set r j v
  end.

Definition obj_apply (o : obj) (op : oop) : obj :=
  match op with
  | OEnc => o
  | OSet f v => obj_set o f v
  | OSetData d => with_o_data o d
  | OPoke i v => with_o_data o (list_set (o_data o) i v)
  | OTrunc n => with_o_data o (firstn n (o_data o))
  | ORefill d => with_o_data o d
  | OExtend d => with_o_data o (o_data o ++ d)
  end.

(* the outputs of the encodes of a history *)
Fixpoint run_obj (o : obj) (ops : list oop) : list (result (list Z)) :=
  match ops with
  | [] => []
  | OEnc :: r => obj_bytes o :: run_obj o r
  | op :: r => run_obj (obj_apply o op) r
  end.

(* ------------------------------------------------------------------ decoding from caller's buffers *)
Inductive pkt := KSdp (p : sdp) | KScp (q : scp).

Record dstate := {
  bufs : list (list Z);                 (* the caller's buffers, by number of the decode that used them *)
  objs : list (option pkt) }.           (* the decoded objects (None: the decode raised) *)

Inductive dop :=
| DDec (is_scp : bool) (bs : list Z) (n_args : Z)   (* decode from a (new) buffer of the caller holding bs *)
| DOverwrite (b : nat) (bs : list Z)                 (* the caller refills its buffer b in place *)
| DSetInt (i : nat) (f : fld) (z : Z)                (* objs[i].<f> = z   (an int field) *)
| DSetReply (i : nat) (r : bool)
| DSetArg (i : nat) (f : fld) (a : option Z)
| DSetData (i : nat) (d : list Z)
| DTurn (i : nat)                                    (* swap source and destination, reply False, tag 255 *)
| DRecheck (i : nat).                                (* look at objs[i] again: its fields, its own encoding *)

Definition decode (is_scp : bool) (bs : list Z) (n_args : Z) : option pkt :=
  if is_scp then match scp_of_bytes bs n_args with Ok q => Some (KScp q) | _ => None end
  else match sdp_of_bytes bs with Ok p => Some (KSdp p) | _ => None end.

Definition sdp_set_int (p : sdp) (f : fld) (z : Z) : sdp :=
  {| reply_expected := reply_expected p;
     tag := match f with LTag => z | _ => tag p end;
     dest_port := match f with LDestPort => z | _ => dest_port p end;
     dest_cpu := match f with LDestCpu => z | _ => dest_cpu p end;
     src_port := match f with LSrcPort => z | _ => src_port p end;
     src_cpu := match f with LSrcCpu => z | _ => src_cpu p end;
     dest_x := match f with LDestX => z | _ => dest_x p end;
     dest_y := match f with LDestY => z | _ => dest_y p end;
     src_x := match f with LSrcX => z | _ => src_x p end;
     src_y := match f with LSrcY => z | _ => src_y p end;
     data := data p |}.

Definition sdp_set_reply (p : sdp) (r : bool) : sdp :=
  {| reply_expected := r; tag := tag p; dest_port := dest_port p; dest_cpu := dest_cpu p;
     src_port := src_port p; src_cpu := src_cpu p; dest_x := dest_x p; dest_y := dest_y p;
     src_x := src_x p; src_y := src_y p; data := data p |}.

Definition sdp_turn (p : sdp) : sdp :=
  {| reply_expected := false; tag := 255; dest_port := src_port p; dest_cpu := src_cpu p;
     src_port := dest_port p; src_cpu := dest_cpu p; dest_x := src_x p; dest_y := src_y p;
     src_x := dest_x p; src_y := dest_y p; data := data p |}.

Definition pkt_map_sdp (g : sdp -> sdp) (k : pkt) : pkt :=
  match k with
  | KSdp p => KSdp (g p)
  | KScp q => KScp {| sdp_part := g (sdp_part q); cmd_rc := cmd_rc q; seq := seq q;
                      arg1 := arg1 q; arg2 := arg2 q; arg3 := arg3 q |}
  end.

Definition pkt_set_int (k : pkt) (f : fld) (z : Z) : pkt :=
  match k, f with
  | KScp q, LCmd => KScp {| sdp_part := sdp_part q; cmd_rc := z; seq := seq q; arg1 := arg1 q; arg2 := arg2 q; arg3 := arg3 q |}
  | KScp q, LSeq => KScp {| sdp_part := sdp_part q; cmd_rc := cmd_rc q; seq := z; arg1 := arg1 q; arg2 := arg2 q; arg3 := arg3 q |}
  | _, _ => pkt_map_sdp (fun p => sdp_set_int p f z) k
  end.

Definition pkt_set_arg (k : pkt) (f : fld) (a : option Z) : pkt :=
  match k with
  | KSdp p => KSdp p
  | KScp q =>
      KScp {| sdp_part := sdp_part q; cmd_rc := cmd_rc q; seq := seq q;
              arg1 := match f with LArg1 => a | _ => arg1 q end;
              arg2 := match f with LArg2 => a | _ => arg2 q end;
              arg3 := match f with LArg3 => a | _ => arg3 q end |}
  end.

Definition pkt_bytes (k : pkt) : result (list Z) :=
  match k with KSdp p => sdp_bytes p | KScp q => scp_bytes q end.

Fixpoint update_nth {A} (l : list A) (i : nat) (g : A -> A) : list A :=
  match l, i with
  | [], _ => []
  | x :: r, O => g x :: r
  | x :: r, S j => x :: update_nth r j g
  end.

Definition on_obj (st : dstate) (i : nat) (g : pkt -> pkt) : dstate :=
  {| bufs := bufs st; objs := update_nth (objs st) i (option_map g) |}.

Definition dstep (st : dstate) (op : dop) : dstate :=
  match op with
  | DDec is_scp bs n => {| bufs := bufs st ++ [bs]; objs := objs st ++ [decode is_scp bs n] |}
  | DOverwrite b bs => {| bufs := update_nth (bufs st) b (fun _ => bs); objs := objs st |}
  | DSetInt i f z => on_obj st i (fun k => pkt_set_int k f z)
  | DSetReply i r => on_obj st i (pkt_map_sdp (fun p => sdp_set_reply p r))
  | DSetArg i f a => on_obj st i (fun k => pkt_set_arg k f a)
  | DSetData i d => on_obj st i (pkt_map_sdp (fun p => with_data p d))
  | DTurn i => on_obj st i (pkt_map_sdp sdp_turn)
  | DRecheck _ => st
  end.

(* what a history shows: the result of every decode, and for every recheck the object and its encoding *)
Inductive dout :=
| ODecoded (k : option pkt)
| ORechecked (k : option pkt) (enc : option (result (list Z))).

Definition dshow (st : dstate) (op : dop) : list dout :=
  match op with
  | DDec is_scp bs n => [ODecoded (decode is_scp bs n)]
  | DRecheck i => let k := nth i (objs st) None in [ORechecked k (option_map pkt_bytes k)]
  | _ => []
  end.

Fixpoint drun (st : dstate) (ops : list dop) : list dout :=
  match ops with
  | [] => []
  | op :: r => dshow st op ++ drun (dstep st op) r
  end.

Definition dstate0 : dstate := {| bufs := []; objs := [] |}.

(* an operation that assigns to object i *)
Definition touches (i : nat) (op : dop) : bool :=
  match op with
  | DSetInt j _ _ | DSetReply j _ | DSetArg j _ _ | DSetData j _ | DTurn j => Nat.eqb i j
  | _ => false
  end.
