(* C17 -- library calls neither modify their arguments nor remember earlier calls.
   Part (a) of DESIGN 4 C17: explicit library state.  In Gallina a function cannot mutate its argument, so
   the property is made non-vacuous by modelling the state that DOES survive between calls of the Python
   library: the inventory of its carriers is regenerated from the source on every run
   (Generated/GenSharedState.v, tools/dump_c17.py) and must coincide with what the model accounts for. *)
From Coq Require Import ZArith List String Bool.
Require Import Rig.Generated.GenSharedState Rig.Model.Base Rig.Model.LibState Rig.Proofs.LibState.
Import ListNotations.
Open Scope Z_scope.

(* Every carrier of cross-call state present in rig/ today -- with its number of write sites and of
   unprotected escapes -- is one the model accounts for, and nothing else is.  A new module-level mutable,
   a new mutable default, a new write to a table or a default that starts to be written before being
   copied changes the generated list and breaks this theorem. *)
Theorem C17_inventory_accounted : carriers_eqb (map fst accounted) carriers = true.
Proof. vm_compute. reflexivity. Qed.

(* Each accounted carrier's class is consistent with its write/escape counts: only the memo and tables
   filled at import time are ever written, only forwarded defaults escape. *)
Theorem C17_classes_consistent : forallb class_consistent accounted = true.
Proof. exact accounted_consistent. Qed.

(* The memo (rig.place_and_route.route.ner._concentric_hexagons) never changes a result: after ANY history
   of earlier calls the memoised function returns what it returns from the initial (empty) state, for any
   underlying function f (in particular geometry.concentric_hexagons). *)
Theorem C17_memo_result_independent_of_history :
  forall (A : Type) (f : Z -> A) (history : list Z) (r : Z),
    fst (memo_call f (memo_after f history) r) = fst (memo_call f (memo_after f []) r).
Proof. exact @memo_transparent. Qed.

(* ... and what it returns is f r itself (the cache is invisible). *)
Theorem C17_memo_returns_f :
  forall (A : Type) (f : Z -> A) (history : list Z) (r : Z),
    fst (memo_call f (memo_after f history) r) = f r.
Proof. exact @memo_returns_f. Qed.

(* A default object that is only ever copied is the same object after the call. *)
Theorem C17_copied_default_unchanged :
  forall (S : Type) (default : S) (arg : option S) (write : S -> S),
    snd (call_with_default default arg write) = default.
Proof. exact @default_untouched. Qed.

(* Non-vacuity: a non-empty history really populates the memo, and the inventory is not empty. *)
Example C17_memo_nonvacuous :
  memo_after (fun r => r * r) [3; 5; 3] = [(3, 9); (5, 25)] /\ carriers <> [].
Proof. split; [vm_compute; reflexivity | discriminate]. Qed.
