"""Shape of the two top-level wrappers as far as the ALLOCATOR's inputs are concerned (ast of
rig/place_and_route/wrapper.py; nothing is imported).  Fail closed: any other shape of the statements that build
the constraint list handed to `allocate` is Unsupported.

wrapper():   constraints = constraints[:]
             if reserve_monitor: constraints.append(ReserveResourceConstraint(core_resource, slice(A, B)))
             if align_sdram:     constraints.append(AlignResourceConstraint(sdram_resource, N))
             allocations = allocate(vertices_resources, nets, machine, constraints, placements, **allocate_kwargs)
place_and_route_wrapper():
             machine = build_machine(system_info, core_resource=core_resource, sdram_resource=..., sram_resource=...)
             base_constraints = build_core_constraints(system_info, core_resource)
             constraints = base_constraints + constraints
             allocations = allocate(vertices_resources, nets, machine, constraints, placements, **allocate_kwargs)
Emits the constants A, B, N and the order of the appended constraints."""
import ast
import os
import sys

sys.path.insert(0, os.path.dirname(os.path.abspath(__file__)))
import dumplib as D  # noqa: E402

REPO = os.environ.get("PYTHONPATH", "/repo").split(os.pathsep)[0]


class Unsupported(Exception):
    pass


def need(cond, what):
    if not cond:
        raise Unsupported(what)


def dump(n):
    return ast.dump(n, annotate_fields=False)


def body_of(tree, name):
    for n in tree.body:
        if isinstance(n, ast.FunctionDef) and n.name == name:
            b = n.body
            if b and isinstance(b[0], ast.Expr) and isinstance(b[0].value, ast.Constant) and isinstance(b[0].value.value, str):
                b = b[1:]
            return n, b
    raise Unsupported("function %s not found" % name)


def mentions(n, name):
    return any(isinstance(x, ast.Name) and x.id == name for x in ast.walk(n))


def is_call(n, fname):
    return isinstance(n, ast.Call) and isinstance(n.func, ast.Name) and n.func.id == fname


def intconst(n):
    need(isinstance(n, ast.Constant) and type(n.value) is int, "integer literal expected, got " + dump(n))
    return n.value


def allocate_call(stmts, fname):
    calls = [s for s in stmts if isinstance(s, ast.Assign) and is_call(s.value, "allocate")]
    need(len(calls) == 1, fname + ": exactly one `x = allocate(...)` statement expected")
    c = calls[0].value
    need([a.id if isinstance(a, ast.Name) else None for a in c.args] ==
         ["vertices_resources", "nets", "machine", "constraints", "placements"],
         fname + ": allocate is not called with (vertices_resources, nets, machine, constraints, placements)")
    need(len(c.keywords) == 1 and c.keywords[0].arg is None and dump(c.keywords[0].value) == dump(ast.parse("allocate_kwargs").body[0].value),
         fname + ": allocate keyword arguments are not **allocate_kwargs")
    return stmts.index(calls[0])


def main():
    src = open(os.path.join(REPO, "rig/place_and_route/wrapper.py")).read()
    tree = ast.parse(src)
    # ---------------------------------------------------------------- wrapper()
    f, b = body_of(tree, "wrapper")
    k = allocate_call(b, "wrapper")
    touching = [s for s in b[:k] if mentions(s, "constraints") and not is_call(getattr(s, "value", None), "place")]
    need(len(touching) == 3, "wrapper: %d statements touch `constraints` before allocate (3 expected)" % len(touching))
    need(dump(touching[0]) == dump(ast.parse("constraints = constraints[:]").body[0]),
         "wrapper: first statement is not `constraints = constraints[:]`")
    mon, al = touching[1], touching[2]
    need(isinstance(mon, ast.If) and dump(mon.test) == dump(ast.parse("reserve_monitor").body[0].value) and not mon.orelse
         and len(mon.body) == 1, "wrapper: `if reserve_monitor:` block has another shape")
    e = mon.body[0]
    need(isinstance(e, ast.Expr) and isinstance(e.value, ast.Call) and dump(e.value.func) == dump(ast.parse("constraints.append").body[0].value)
         and len(e.value.args) == 1 and not e.value.keywords and is_call(e.value.args[0], "ReserveResourceConstraint"),
         "wrapper: reserve_monitor does not append one ReserveResourceConstraint")
    r = e.value.args[0]
    need(len(r.args) == 2 and not r.keywords and isinstance(r.args[0], ast.Name) and r.args[0].id == "core_resource"
         and is_call(r.args[1], "slice") and len(r.args[1].args) == 2 and not r.args[1].keywords,
         "wrapper: monitor reservation is not ReserveResourceConstraint(core_resource, slice(A, B))")
    A, B = intconst(r.args[1].args[0]), intconst(r.args[1].args[1])
    need(isinstance(al, ast.If) and dump(al.test) == dump(ast.parse("align_sdram").body[0].value) and not al.orelse
         and len(al.body) == 1, "wrapper: `if align_sdram:` block has another shape")
    e = al.body[0]
    need(isinstance(e, ast.Expr) and isinstance(e.value, ast.Call) and dump(e.value.func) == dump(ast.parse("constraints.append").body[0].value)
         and len(e.value.args) == 1 and not e.value.keywords and is_call(e.value.args[0], "AlignResourceConstraint"),
         "wrapper: align_sdram does not append one AlignResourceConstraint")
    a = e.value.args[0]
    need(len(a.args) == 2 and not a.keywords and isinstance(a.args[0], ast.Name) and a.args[0].id == "sdram_resource",
         "wrapper: alignment is not AlignResourceConstraint(sdram_resource, N)")
    N = intconst(a.args[1])
    # defaults of the switches and resources
    names = [x.arg for x in f.args.args]
    defaults = dict(zip(names[len(names) - len(f.args.defaults):], f.args.defaults))
    need(dump(defaults["reserve_monitor"]) == dump(ast.Constant(True)) and dump(defaults["align_sdram"]) == dump(ast.Constant(True)),
         "wrapper: the switches no longer default to True")
    # ---------------------------------------------------------------- place_and_route_wrapper()
    f2, b2 = body_of(tree, "place_and_route_wrapper")
    k2 = allocate_call(b2, "place_and_route_wrapper")
    touching = [s for s in b2[:k2] if (mentions(s, "constraints") or mentions(s, "base_constraints"))
                and not is_call(getattr(s, "value", None), "place")]
    need([dump(s) for s in touching] == [dump(s) for s in ast.parse(
        "base_constraints = build_core_constraints(system_info, core_resource)\n"
        "constraints = base_constraints + constraints").body],
        "place_and_route_wrapper: the constraint list is not `build_core_constraints(system_info, core_resource) + constraints`")
    mach = [s for s in b2[:k2] if isinstance(s, ast.Assign) and is_call(s.value, "build_machine")]
    need(len(mach) == 1 and dump(mach[0]) == dump(ast.parse(
        "machine = build_machine(system_info, core_resource=core_resource, sdram_resource=sdram_resource, "
        "sram_resource=sram_resource)").body[0]),
        "place_and_route_wrapper: the machine is not build_machine(system_info, core_resource=…, sdram_resource=…, sram_resource=…)")
    print(D.HEADER % "dump_c05w.py")
    print("(* rig/place_and_route/wrapper.py : wrapper(), line %d; place_and_route_wrapper(), line %d *)" % (f.lineno, f2.lineno))
    print(D.definition("wrapper_monitor_slice", "Z * Z", D.pair(D.z(A), D.z(B))))
    print(D.definition("wrapper_sdram_alignment", "Z", D.z(N)))
    print("(* wrapper(): caller's constraints (copied), then the monitor reservation, then the SDRAM alignment;\n"
          "   place_and_route_wrapper(): build_core_constraints(system_info, core_resource) first, then the caller's *)")
    print(D.definition("wrapper_order_user_monitor_align", "bool", "true"))
    print(D.definition("pnr_wrapper_order_base_user", "bool", "true"))


if __name__ == "__main__":
    try:
        main()
    except Unsupported as e:
        sys.stderr.write("Unsupported: %s\n" % e)
        sys.exit(2)
