(* Executable model of rig.machine_control.scp_connection.SCPConnection.send_scp_burst
   (send_scp is the burst of one command with window 1).  Definitions only; proofs are in Proofs/SCP.v.

   One iteration of the `while queued_packets or outstanding_packets or outstanding_callbacks` loop is
       fill the window -> invoke pending callbacks -> select -> receive loop -> timeout scan
   and consumes one environment *event*: the datagrams that arrived on the socket up to this select and the
   value of the clock after it.  The clock moves in select and while user code runs: while the command
   iterable yields its next command (before TransmittedPacket reads the clock for the deadline) and inside
   each callback (before the clock is read for the select timeout); the reads of the clock are modelled in
   the order the code makes them.  Loss = a datagram is never listed, duplication = it is
   listed twice, delay / reordering = it is listed later.

   Return codes, the retryable set and the sequence mask come from Generated/GenSCP.v (dumped from the
   live modules on every run). *)
From Coq Require Import ZArith List Bool Uint63.
Require Import Rig.Generated.GenSCP Rig.Model.Base.
Import ListNotations.
Open Scope Z_scope.

(* ------------------------------------------------------------------------------------------------ *)
(* Data                                                                                               *)
(* ------------------------------------------------------------------------------------------------ *)

(* window_size (per burst), self.n_tries, self.default_timeout; and how long user code keeps the thread
   (ticks of the clock, looked up by command identity, 0 when absent): [cf_iter] the time the iterable
   parameters_and_callbacks takes to yield a command, [cf_cb] the time the command's callback runs *)
Record config := Cf { cf_window : Z; cf_tries : Z; cf_timeout : Z;
                      cf_iter : list (Z * Z); cf_cb : list (Z * Z) }.

Definition dur (l : list (Z * Z)) (c : Z) : Z :=
  match zassoc c l with Some d => d | None => 0 end.

(* one scpcall: its identity (stands for all its fields and its callback) and its extra timeout *)
Record cmd := Cmd { c_id : Z; c_extra : Z }.

(* a datagram read from the socket: the two fields send_scp_burst parses (rc, seq at offset
   SDP_HEADER_LENGTH + 2) and [d_src], which stands for the rest of its bytes.  The simulated machine writes
   there the number of the transmission it answers; the model never looks at it. *)
Record dgram := Dg { d_rc : Z; d_seq : Z; d_src : Z }.

(* TransmittedPacket, keyed by its sequence number in outstanding_packets (dict in insertion order) *)
Record entry := { e_seq : Z; e_cmd : Z; e_tries : Z; e_timeout : Z; e_deadline : Z }.

Record event := Ev { ev_data : list dgram; ev_time : Z }.

(* what the burst does to the world, in order.  OSend tx c s t: the tx-th sock.send of this connection
   carries command c with sequence number s while the clock reads t. *)
Inductive output :=
| OSend (tx c s t : Z)
| OSelect (timeout : Z)
| ORecv (d : dgram)
| OCallback (c : Z) (d : dgram).

Inductive outcome :=
| Returned
| RaisedTimeout (c : Z)                      (* scp_connection.TimeoutError, .packet = command c *)
| RaisedFatal (rc : Z) (c : option Z)        (* FatalReturnCodeError(rc, packet of c or None) *)
| RaisedKeyError (rc : Z)                    (* FatalReturnCodeError.__init__ itself fails: see fatal_outcome *)
| NeedEvent                                  (* the event list ran out while the loop was still running *)
| SeqSearchDiverges.                         (* `while seq in outstanding_packets` can never exit *)

(* what survives a burst: the generator self.seq, the socket's receive buffer, the clock; k_ntx counts the
   sends made so far (it only names transmissions) *)
Record conn := { k_seq : Z; k_ntx : Z; k_now : Z; k_buf : list dgram }.

(* the locals of send_scp_burst *)
Record bstate := {
  b_queue : list cmd;               (* what the iterator parameters_and_callbacks still holds *)
  b_queued : bool;                  (* queued_packets *)
  b_out : list entry;               (* outstanding_packets *)
  b_cbs : list (Z * dgram) }.       (* outstanding_callbacks, in the order they will be invoked *)

Definition conn0 : conn := {| k_seq := 0; k_ntx := 0; k_now := 0; k_buf := [] |}.
Definition bstate0 (cmds : list cmd) : bstate :=
  {| b_queue := cmds; b_queued := true; b_out := []; b_cbs := [] |}.

(* ------------------------------------------------------------------------------------------------ *)
(* Sequence numbers: seqs(mask) and the skip-if-outstanding rule                                      *)
(* ------------------------------------------------------------------------------------------------ *)

Definition seq_next (s : Z) : Z := Z.land (s + 1) seq_mask.

Fixpoint find_entry (s : Z) (out : list entry) : option entry :=
  match out with
  | [] => None
  | e :: out' => if e_seq e =? s then Some e else find_entry s out'
  end.

Fixpoint remove_entry (s : Z) (out : list entry) : list entry :=
  match out with
  | [] => []
  | e :: out' => if e_seq e =? s then out' else e :: remove_entry s out'
  end.

Definition seq_taken (s : Z) (out : list entry) : bool :=
  match find_entry s out with Some _ => true | None => false end.

(* seq = next(self.seq); while seq in outstanding_packets: seq = next(self.seq)
   [s] is the value the generator yields next; result: (seq chosen, value the generator yields next).
   fuel: the loop of the code is unbounded; it exits within length out + 1 draws unless all 2^16
   numbers are outstanding (then the code spins for ever: None). *)
Fixpoint free_seq (fuel : nat) (s : Z) (out : list entry) : option (Z * Z) :=
  match fuel with
  | O => None
  | S f => if seq_taken s out then free_seq f (seq_next s) out else Some (s, seq_next s)
  end.

(* ------------------------------------------------------------------------------------------------ *)
(* Phase 1: fill the window                                                                           *)
(* ------------------------------------------------------------------------------------------------ *)

Record filled := { f_queue : list cmd; f_queued : bool; f_conn : conn; f_out : list entry;
                   f_outputs : list output }.

(* while len(outstanding_packets) < window_size and queued_packets: ... *)
Fixpoint fill (cf : config) (q : list cmd) (queued : bool) (k : conn) (out : list entry)
  : option filled :=
  if (Z.of_nat (length out) <? cf_window cf) && queued then
    match q with
    | [] => (* StopIteration *)
        Some {| f_queue := []; f_queued := false; f_conn := k; f_out := out; f_outputs := [] |}
    | c :: q' =>
        match free_seq (S (length out)) (k_seq k) out with
        | None => None
        | Some (s, s') =>
            let tmo := cf_timeout cf + c_extra c in
            (* next(parameters_and_callbacks) took dur (cf_iter cf) c; then time.time() + timeout; then send *)
            let now := k_now k + dur (cf_iter cf) (c_id c) in
            let e := {| e_seq := s; e_cmd := c_id c; e_tries := 1; e_timeout := tmo;
                        e_deadline := now + tmo |} in
            let k' := {| k_seq := s'; k_ntx := k_ntx k + 1; k_now := now; k_buf := k_buf k |} in
            match fill cf q' true k' (out ++ [e]) with
            | None => None
            | Some r => Some {| f_queue := f_queue r; f_queued := f_queued r; f_conn := f_conn r;
                                f_out := f_out r;
                                f_outputs := OSend (k_ntx k) (c_id c) s now :: f_outputs r |}
            end
        end
    end
  else Some {| f_queue := q; f_queued := queued; f_conn := k; f_out := out; f_outputs := [] |}.

(* ------------------------------------------------------------------------------------------------ *)
(* Phase 2: callbacks; phase 3: the timeout handed to select                                          *)
(* ------------------------------------------------------------------------------------------------ *)

Definition callback_outputs (cbs : list (Z * dgram)) : list output :=
  map (fun cd => OCallback (fst cd) (snd cd)) cbs.

(* the time all pending callbacks take *)
Fixpoint callbacks_time (cf : config) (cbs : list (Z * dgram)) : Z :=
  match cbs with
  | [] => 0
  | cd :: cbs' => dur (cf_cb cf) (fst cd) + callbacks_time cf cbs'
  end.

Fixpoint min_deadline (e : entry) (out : list entry) : Z :=
  match out with
  | [] => e_deadline e
  | e' :: out' => Z.min (e_deadline e) (min_deadline e' out')
  end.

(* max(min(o.timeout_time ...) - time.time(), 0.0), or 0.0 when nothing is outstanding *)
Definition select_timeout (now : Z) (out : list entry) : Z :=
  match out with
  | [] => 0
  | e :: out' => Z.max (min_deadline e out' - now) 0
  end.

(* ------------------------------------------------------------------------------------------------ *)
(* Phase 4: the receive loop -- drains the socket buffer or stops at a fatal return code              *)
(* ------------------------------------------------------------------------------------------------ *)

Definition is_retryable (rc : Z) : bool := existsb (Z.eqb rc) retryable_codes.

Record received := { r_out : list entry; r_cbs : list (Z * dgram); r_outputs : list output;
                     r_fatal : option (Z * option Z); r_left : list dgram }.

Fixpoint recv_loop (buf : list dgram) (out : list entry) (cbs : list (Z * dgram)) : received :=
  match buf with
  | [] => {| r_out := out; r_cbs := cbs; r_outputs := []; r_fatal := None; r_left := [] |}
  | d :: buf' =>
      if d_rc d =? rc_ok then
        let r := match find_entry (d_seq d) out with
                 | Some e => recv_loop buf' (remove_entry (d_seq d) out) (cbs ++ [(e_cmd e, d)])
                 | None => recv_loop buf' out cbs
                 end in
        {| r_out := r_out r; r_cbs := r_cbs r; r_outputs := ORecv d :: r_outputs r;
           r_fatal := r_fatal r; r_left := r_left r |}
      else if is_retryable (d_rc d) then
        let r := recv_loop buf' out cbs in
        {| r_out := r_out r; r_cbs := r_cbs r; r_outputs := ORecv d :: r_outputs r;
           r_fatal := r_fatal r; r_left := r_left r |}
      else
        {| r_out := out; r_cbs := cbs; r_outputs := [ORecv d];
           r_fatal := Some (d_rc d, option_map e_cmd (find_entry (d_seq d) out)); r_left := buf' |}
  end.

(* ------------------------------------------------------------------------------------------------ *)
(* Phase 5: the timeout scan, in dict (insertion) order                                               *)
(* ------------------------------------------------------------------------------------------------ *)

Record scanned := { s_out : list entry; s_outputs : list output; s_ntx : Z; s_timeout : option Z }.

Fixpoint scan (cf : config) (now ntx : Z) (todo : list entry) : scanned :=
  match todo with
  | [] => {| s_out := []; s_outputs := []; s_ntx := ntx; s_timeout := None |}
  | e :: rest =>
      if e_deadline e <? now then
        if cf_tries cf <=? e_tries e then
          {| s_out := e :: rest; s_outputs := []; s_ntx := ntx; s_timeout := Some (e_cmd e) |}
        else
          let e' := {| e_seq := e_seq e; e_cmd := e_cmd e; e_tries := e_tries e + 1;
                       e_timeout := e_timeout e; e_deadline := now + e_timeout e |} in
          let r := scan cf now (ntx + 1) rest in
          {| s_out := e' :: s_out r; s_outputs := OSend ntx (e_cmd e) (e_seq e) now :: s_outputs r;
             s_ntx := s_ntx r; s_timeout := s_timeout r |}
      else
        let r := scan cf now ntx rest in
        {| s_out := e :: s_out r; s_outputs := s_outputs r; s_ntx := s_ntx r; s_timeout := s_timeout r |}
  end.

(* ------------------------------------------------------------------------------------------------ *)
(* One iteration = [pre] (up to the call of select) + [post] (from its return)                        *)
(* ------------------------------------------------------------------------------------------------ *)

(* the loop condition *)
Definition running (b : bstate) : bool :=
  b_queued b || negb (match b_out b with [] => true | _ => false end)
             || negb (match b_cbs b with [] => true | _ => false end).

Record pre_result := { p_conn : conn; p_state : bstate; p_outputs : list output; p_select : Z }.

Definition pre (cf : config) (k : conn) (b : bstate) : option pre_result :=
  match fill cf (b_queue b) (b_queued b) k (b_out b) with
  | None => None
  | Some f =>
      let k1 := {| k_seq := k_seq (f_conn f); k_ntx := k_ntx (f_conn f);
                   k_now := k_now (f_conn f) + callbacks_time cf (b_cbs b); k_buf := k_buf (f_conn f) |} in
      let tmo := select_timeout (k_now k1) (f_out f) in
      Some {| p_conn := k1;
              p_state := {| b_queue := f_queue f; b_queued := f_queued f; b_out := f_out f; b_cbs := [] |};
              p_outputs := f_outputs f ++ callback_outputs (b_cbs b) ++ [OSelect tmo];
              p_select := tmo |}
  end.

Inductive post_result :=
| Continue (k : conn) (b : bstate)
| Stop (oc : outcome) (k : conn).

(* raise FatalReturnCodeError(rc, packet): the constructor looks a *known* code up in
   FATAL_SCP_RETURN_CODES (KeyError if it is not there); an unknown code takes the ValueError branch and
   the error is raised with the raw integer. *)
Definition fatal_outcome (rc : Z) (c : option Z) : outcome :=
  if existsb (Z.eqb rc) all_return_codes && negb (existsb (Z.eqb rc) fatal_codes)
  then RaisedKeyError rc else RaisedFatal rc c.

Definition post (cf : config) (ev : event) (k : conn) (b : bstate) : list output * post_result :=
  let r := recv_loop (k_buf k ++ ev_data ev) (b_out b) (b_cbs b) in
  match r_fatal r with
  | Some (rc, c) =>
      (r_outputs r, Stop (fatal_outcome rc c)
                         {| k_seq := k_seq k; k_ntx := k_ntx k; k_now := ev_time ev; k_buf := r_left r |})
  | None =>
      let s := scan cf (ev_time ev) (k_ntx k) (r_out r) in
      let k' := {| k_seq := k_seq k; k_ntx := s_ntx s; k_now := ev_time ev; k_buf := [] |} in
      match s_timeout s with
      | Some c => (r_outputs r ++ s_outputs s, Stop (RaisedTimeout c) k')
      | None => (r_outputs r ++ s_outputs s,
                 Continue k' {| b_queue := b_queue b; b_queued := b_queued b; b_out := s_out s;
                                b_cbs := r_cbs r |})
      end
  end.

(* the whole call: outputs, how it ended, the connection afterwards, the events not consumed *)
Fixpoint run (cf : config) (evs : list event) (k : conn) (b : bstate)
  : list output * outcome * conn * list event :=
  if running b then
    match pre cf k b with
    | None => ([], SeqSearchDiverges, k, evs)
    | Some p =>
        match evs with
        | [] => (p_outputs p, NeedEvent, p_conn p, [])
        | ev :: evs' =>
            match post cf ev (p_conn p) (p_state p) with
            | (os, Stop oc k') => (p_outputs p ++ os, oc, k', evs')
            | (os, Continue k' b') =>
                match run cf evs' k' b' with
                | (tr, oc, k'', rest) => (p_outputs p ++ os ++ tr, oc, k'', rest)
                end
            end
        end
    end
  else ([], Returned, k, evs).

Definition burst (cf : config) (cmds : list cmd) (evs : list event) (k : conn) :=
  run cf evs k (bstate0 cmds).

(* ------------------------------------------------------------------------------------------------ *)
(* Several calls on one connection (the clock may advance by [u_idle] before a call)                  *)
(* ------------------------------------------------------------------------------------------------ *)

Record call := Call { u_cf : config; u_cmds : list cmd; u_idle : Z; u_events : list event }.

Fixpoint run_conn (k : conn) (calls : list call) : list (list output * outcome * nat) :=
  match calls with
  | [] => []
  | u :: calls' =>
      let k0 := {| k_seq := k_seq k; k_ntx := k_ntx k; k_now := k_now k + u_idle u; k_buf := k_buf k |} in
      match burst (u_cf u) (u_cmds u) (u_events u) k0 with
      | (tr, oc, k', rest) => (tr, oc, length rest) :: run_conn k' calls'
      end
  end.

(* a connection whose generator has already been drawn n times *)
Definition conn_after (n : N) : conn :=
  {| k_seq := N.iter n seq_next 0; k_ntx := 0; k_now := 0; k_buf := [] |}.

(* ------------------------------------------------------------------------------------------------ *)
(* Comparison with the trace observed on the implementation (used by the correspondence harness)      *)
(* ------------------------------------------------------------------------------------------------ *)

Definition dgram_eqb (a b : dgram) : bool :=
  (d_rc a =? d_rc b) && (d_seq a =? d_seq b) && (d_src a =? d_src b).

Definition output_eqb (a b : output) : bool :=
  match a, b with
  | OSend t c s n, OSend t' c' s' n' => (t =? t') && (c =? c') && (s =? s') && (n =? n')
  | OSelect t, OSelect t' => t =? t'
  | ORecv d, ORecv d' => dgram_eqb d d'
  | OCallback c d, OCallback c' d' => (c =? c') && dgram_eqb d d'
  | _, _ => false
  end.

Definition outcome_eqb (a b : outcome) : bool :=
  match a, b with
  | Returned, Returned => true
  | RaisedTimeout c, RaisedTimeout c' => c =? c'
  | RaisedFatal rc None, RaisedFatal rc' None => rc =? rc'
  | RaisedFatal rc (Some c), RaisedFatal rc' (Some c') => (rc =? rc') && (c =? c')
  | RaisedKeyError rc, RaisedKeyError rc' => rc =? rc'
  | NeedEvent, NeedEvent => true
  | SeqSearchDiverges, SeqSearchDiverges => true
  | _, _ => false
  end.

Fixpoint list_eqb {A} (eqb : A -> A -> bool) (l l' : list A) : bool :=
  match l, l' with
  | [], [] => true
  | a :: l, a' :: l' => eqb a a' && list_eqb eqb l l'
  | _, _ => false
  end.

Definition call_result_eqb (a b : list output * outcome * nat) : bool :=
  match a, b with
  | (tr, oc, n), (tr', oc', n') => list_eqb output_eqb tr tr' && outcome_eqb oc oc' && Nat.eqb n n'
  end.

(* does the model, run on the events the implementation consumed, produce what the implementation did? *)
Definition agrees (k : conn) (calls : list call) (observed : list (list output * outcome * nat)) : bool :=
  list_eqb call_result_eqb (run_conn k calls) observed.

(* ------------------------------------------------------------------------------------------------ *)
(* Compact notation for long observed schedules (harness only): runs of events / commands whose       *)
(* fields advance by one, and a digest of a long trace                                                *)
(* ------------------------------------------------------------------------------------------------ *)

Inductive evspec := ELit (e : event) | ERun (n : N) (rc s x t : Z).
Inductive cmdspec := CLit (c : cmd) | CRun (n : N) (id extra : Z).

(* n events, the i-th carrying the single datagram (rc, (s+i) mod 2^16, x+i) with the clock at t+i *)
Fixpoint run_events (n : nat) (rc s x t : Z) : list event :=
  match n with
  | O => []
  | S n' => Ev [Dg rc s x] t :: run_events n' rc ((s + 1) mod 65536) (x + 1) (t + 1)
  end.

Fixpoint expand_events (l : list evspec) : list event :=
  match l with
  | [] => []
  | ELit e :: l' => e :: expand_events l'
  | ERun n rc s x t :: l' => run_events (N.to_nat n) rc s x t ++ expand_events l'
  end.

Fixpoint run_cmds (n : nat) (id extra : Z) : list cmd :=
  match n with
  | O => []
  | S n' => Cmd id extra :: run_cmds n' (id + 1) extra
  end.

Fixpoint expand_cmds (l : list cmdspec) : list cmd :=
  match l with
  | [] => []
  | CLit c :: l' => c :: expand_cmds l'
  | CRun n id extra :: l' => run_cmds (N.to_nat n) id extra ++ expand_cmds l'
  end.

(* 63-bit polynomial digest on primitive integers (Z arithmetic is too slow for 10^6 steps) *)
Definition digest_step (h : Uint63.int) (x : Z) : Uint63.int :=
  Uint63.add (Uint63.add (Uint63.mul h (Uint63.of_Z 1000003)) (Uint63.of_Z x)) (Uint63.of_Z 7).
Definition digest_dgram (h : Uint63.int) (d : dgram) : Uint63.int :=
  digest_step (digest_step (digest_step h (d_rc d)) (d_seq d)) (d_src d).
Definition digest_output (h : Uint63.int) (o : output) : Uint63.int :=
  match o with
  | OSend tx c s t => digest_step (digest_step (digest_step (digest_step (digest_step h 1) tx) c) s) t
  | OSelect t => digest_step (digest_step h 2) t
  | ORecv d => digest_dgram (digest_step h 3) d
  | OCallback c d => digest_dgram (digest_step (digest_step h 4) c) d
  end.
Definition digest (tr : list output) : Z := Uint63.to_Z (fold_left digest_output tr (Uint63.of_Z 0)).

(* long calls: compare digest, length, the last outputs, the outcome *)
Definition summary (n : nat) (r : list output * outcome * nat) : Z * nat * list output * outcome * nat :=
  match r with
  | (tr, oc, rest) => (digest tr, length tr, skipn (length tr - n) tr, oc, rest)
  end.

Definition summary_eqb (a b : Z * nat * list output * outcome * nat) : bool :=
  match a, b with
  | (h, n, tl, oc, r), (h', n', tl', oc', r') =>
      (h =? h') && Nat.eqb n n' && list_eqb output_eqb tl tl' && outcome_eqb oc oc' && Nat.eqb r r'
  end.

Definition agrees_summary (n : nat) (k : conn) (calls : list call)
           (observed : list (Z * nat * list output * outcome * nat)) : bool :=
  list_eqb summary_eqb (map (summary n) (run_conn k calls)) observed.
