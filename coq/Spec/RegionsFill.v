(* C12, around the core: what is asked of a tree object that is read while it is filled, and of the packets of a
   flood fill.  Definitions only. *)
From Coq Require Import ZArith List Bool.
Require Import Rig.Model.Regions Rig.Model.RegionsFill Rig.Spec.Regions.
Import ListNotations.
Open Scope Z_scope.

(* the cores added before each traversal, traversal by traversal *)
Fixpoint read_prefixes (ops : list tree_op) (done : list core) : list (list core) :=
  match ops with
  | [] => []
  | OpAdd x y p :: r => read_prefixes r (done ++ [(x, y, p)])
  | OpRead :: r => done :: read_prefixes r done
  end.

Fixpoint adds_of (ops : list tree_op) : list core :=
  match ops with
  | [] => []
  | OpAdd x y p :: r => (x, y, p) :: adds_of r
  | OpRead :: r => adds_of r
  end.

(* the pairs [out] select exactly the cores of [cs], each once *)
Definition exact_cover (out : list (Z * Z)) (cs : list core) : Prop :=
  forall x y p, times_selected out x y p = if requested cs x y p then 1%nat else 0%nat.

(* what the machine reads out of an FFCS packet (arg1, arg2): the command in bits 31:24 of arg1, the core mask
   below it, the region word in arg2 (docstring of _send_ffcs) *)
Definition packet_command (a : Z * Z) : Z := fst a / 2 ^ 24.
Definition packet_pair (a : Z * Z) : Z * Z := (snd a, fst a mod 2 ^ 24).
(* the same, reading the core mask as its documented 18 bits (one per core) rather than everything below the
   command byte; the two readings agree on every packet flood_fill_aplx sends (C12_flood_fill_packets_mask18) *)
Definition packet_pair18 (a : Z * Z) : Z * Z := (snd a, fst a mod 2 ^ 18).
