(* What C02 asks of a placement, stated on the problem (vertices_resources, machine, constraints) and the
   returned placement only -- no reference to how any placer computes.  Also the executable checker
   [check_placement] whose soundness is proved in Proofs/Place.v (verified validator, reused by C01/C17).
   Definitions only. *)
From Coq Require Import ZArith List Bool.
Require Import Rig.Model.Base Rig.Model.Place.
Import ListNotations.
Open Scope Z_scope.

(* what vertex v needs of resource r (a resource it does not mention: nothing) *)
Definition demand (vr : vresources) (v : vertex) (r : res) : Z :=
  match zassoc v vr with Some d => rget r d | None => 0 end.

(* what chip c offers of resource r before any reservation (a resource it does not list: nothing) *)
Definition capacity (m : pmachine) (c : chip) (r : res) : Z := rget r (chip_res m c).

Definition reserve_applies (c : chip) (r : res) (r' : res) (loc : option chip) : bool :=
  (r =? r') && match loc with None => true | Some c' => chip_eqb c c' end.

(* the total size of the reservations of resource r that apply to chip c: the global ones and c's own *)
Fixpoint reserved (cs : list pconstr) (c : chip) (r : res) : Z :=
  match cs with
  | [] => 0
  | PCReserve r' start stop loc :: t =>
      (if reserve_applies c r r' loc then stop - start else 0) + reserved t c r
  | _ :: t => reserved t c r
  end.

Definition on_chip (pl : placement) (v : vertex) (c : chip) : bool :=
  match zassoc v pl with Some c' => chip_eqb c' c | None => false end.

(* the sum of the demands for r of the vertices placed on c *)
Definition load (vr : vresources) (pl : placement) (c : chip) (r : res) : Z :=
  fold_right Z.add 0 (map (fun vd => if on_chip pl (fst vd) c then rget r (snd vd) else 0) vr).

Record Feasible (vr : vresources) (m : pmachine) (cs : list pconstr) (pl : placement) : Prop := {
  (* every vertex, and nothing else, is placed, exactly once ... *)
  feas_once : NoDup (map fst pl);
  feas_vertices : forall v, In v (map fst pl) <-> In v (map fst vr);
  (* ... on a working chip *)
  feas_live : forall v c, zassoc v pl = Some c -> live m c = true;
  (* no chip's resources are exceeded once the reservations are subtracted (what is left of a resource is
     never counted as less than nothing: a chip whose reservations exceed its capacity can host only
     vertices that need none of that resource -- in particular the empty placement is feasible) *)
  feas_capacity : forall c r, live m c = true ->
                              load vr pl c r <= Z.max 0 (capacity m c r - reserved cs c r);
  (* every location constraint is honoured *)
  feas_location : forall v c, In (PCLocation v c) cs -> zassoc v pl = Some c;
  (* all members of every same-chip group share a chip *)
  feas_same_chip : forall vs, In (PCSameChip vs) cs ->
                              exists c, forall v, In v vs -> zassoc v pl = Some c }.

(* ---------------------------------------------------------------------------------------------- *)
(* The executable checker                                                                           *)
(* ---------------------------------------------------------------------------------------------- *)
Fixpoint nodupb (l : list Z) : bool :=
  match l with
  | [] => true
  | x :: t => negb (zmem x t) && nodupb t
  end.

Fixpoint reserve_resources (cs : list pconstr) : list res :=
  match cs with
  | [] => []
  | PCReserve r _ _ _ :: t => r :: reserve_resources t
  | _ :: t => reserve_resources t
  end.

(* every resource anything mentions; for all others load, capacity and reservation are 0 *)
Definition all_resources (vr : vresources) (m : pmachine) (cs : list pconstr) : list res :=
  map fst (pm_res m) ++ flat_map (fun e => map fst (snd e)) (pm_exc m)
  ++ flat_map (fun vd => map fst (snd vd)) vr ++ reserve_resources cs.

Definition check_constraint (pl : placement) (k : pconstr) : bool :=
  match k with
  | PCLocation v c => on_chip pl v c
  | PCSameChip [] => true
  | PCSameChip (v0 :: vs) =>
      match zassoc v0 pl with
      | None => false
      | Some c => forallb (fun v => on_chip pl v c) vs
      end
  | _ => true
  end.

Definition check_placement (vr : vresources) (m : pmachine) (cs : list pconstr) (pl : placement) : bool :=
  nodupb (map fst pl)
  && forallb (fun v => zmem v (map fst vr)) (map fst pl)
  && forallb (fun v => zmem v (map fst pl)) (map fst vr)
  && forallb (fun vc => live m (snd vc)) pl
  && forallb (fun c => forallb (fun r => load vr pl c r <=? Z.max 0 (capacity m c r - reserved cs c r))
                               (all_resources vr m cs)) (raster m)
  && forallb (check_constraint pl) cs.

(* ---------------------------------------------------------------------------------------------- *)
(* The domain of the placers (the guards under which the Python code is documented to work)         *)
(* ---------------------------------------------------------------------------------------------- *)
Definition constr_vertices (k : pconstr) : list vertex :=
  match k with
  | PCLocation v _ => [v]
  | PCSameChip vs => vs
  | _ => []
  end.

(* resource r is a key of chip_resources and of every exception dictionary ("every exception must specify
   exactly the same set of keys as chip_resources") *)
Definition resource_known (m : pmachine) (r : res) : Prop :=
  In r (map fst (pm_res m)) /\ forall c d, In (c, d) (pm_exc m) -> In r (map fst d).

Record wf_problem (vr : vresources) (m : pmachine) (cs : list pconstr) : Prop := {
  (* vertices_resources is a dictionary of non-negative requirements; the caller's vertices are >= 0 *)
  wf_vr_nodup : NoDup (map fst vr);
  wf_vr_ids : forall v, In v (map fst vr) -> 0 <= v;
  wf_demand_nodup : forall v d, In (v, d) vr -> NoDup (map fst d);
  wf_demand_nonneg : forall v d r q, In (v, d) vr -> In (r, q) d -> 0 <= q;
  (* subtract_resources: "res_b must be a (non-strict) subset of res_a" *)
  wf_demand_known : forall v d r q, In (v, d) vr -> In (r, q) d -> resource_known m r;
  (* chip_resource_exceptions is a dictionary; quantities of the machine are non-negative *)
  wf_exc_nodup : NoDup (map fst (pm_exc m));
  wf_caps_nonneg : (forall r q, In (r, q) (pm_res m) -> 0 <= q)
                   /\ (forall c d r q, In (c, d) (pm_exc m) -> In (r, q) d -> 0 <= q);
  (* constraints mention only vertices of the problem and resources of the machine *)
  wf_constr_vertices : forall k v, In k cs -> In v (constr_vertices k) -> In v (map fst vr);
  wf_reserve_known : forall r s e loc, In (PCReserve r s e loc) cs -> resource_known m r }.

(* a "consistent mix": some assignment of chips satisfies every location and same-chip constraint *)
Definition consistent (cs : list pconstr) : Prop :=
  exists f : vertex -> chip,
    (forall v c, In (PCLocation v c) cs -> f v = c)
    /\ (forall vs a b, In (PCSameChip vs) cs -> In a vs -> In b vs -> f a = f b).


(* ---------------------------------------------------------------------------------------------- *)
(* The premise of the property's completeness clause                                                *)
(* ---------------------------------------------------------------------------------------------- *)
(* the total size of the global (location = None) reservations of resource r *)
Fixpoint greserved (cs : list pconstr) (r : res) : Z :=
  match cs with
  | [] => 0
  | PCReserve r' start stop None :: t => (if r =? r' then stop - start else 0) + greserved t r
  | _ :: t => greserved t r
  end.

Definition is_location (v : vertex) (c : chip) (k : pconstr) : bool :=
  match k with PCLocation v' c' => (v =? v') && chip_eqb c c' | _ => false end.

(* what the vertices location-constrained to chip c need of resource r (each vertex counted once) *)
Definition located (vr : vresources) (cs : list pconstr) (c : chip) (r : res) : Z :=
  fold_right Z.add 0 (map (fun vd => if existsb (is_location (fst vd) c) cs then rget r (snd vd) else 0) vr).

Record unit_premise (vr : vresources) (m : pmachine) (cs : list pconstr) (r0 : res) : Prop := {
  (* every vertex needs at most one unit of the single resource r0 (and nothing of any other) *)
  up_unit : forall v d r q, In (v, d) vr -> In (r, q) d -> (r = r0 /\ (q = 0 \/ q = 1)) \/ q = 0;
  (* there are no same-chip groups *)
  up_no_groups : forall vs, ~ In (PCSameChip vs) cs;
  (* something can be placed at all: a problem with vertices has a working chip *)
  up_some_chip : vr <> [] -> exists c, live m c = true;
  (* resource dictionaries are dictionaries *)
  up_res_nodup : NoDup (map fst (pm_res m)) /\ (forall c d, In (c, d) (pm_exc m) -> NoDup (map fst d));
  (* reservations are ranges on working chips that fit: "reserved ranges must not be partly or fully
     outside the available resources for a chip" *)
  up_reserve_range : forall r s e loc, In (PCReserve r s e loc) cs ->
                                       s <= e /\ (forall c, loc = Some c -> live m c = true);
  up_reservations_fit : (forall r, 0 <= rget r (pm_res m) - greserved cs r)
                        /\ (forall c r, live m c = true -> 0 <= capacity m c r - reserved cs c r);
  (* location constraints name working chips, one chip per vertex, and the constrained vertices fit *)
  up_locations_live : forall v c, In (PCLocation v c) cs -> live m c = true;
  up_locations_once : forall v c c', In (PCLocation v c) cs -> In (PCLocation v c') cs -> c = c';
  up_locations_fit : forall c, live m c = true ->
                               located vr cs c r0 <= capacity m c r0 - reserved cs c r0;
  (* the total free capacity suffices *)
  up_total : fold_right Z.add 0 (map (fun vd => rget r0 (snd vd)) vr)
             <= fold_right Z.add 0 (map (fun c => capacity m c r0 - reserved cs c r0) (raster m)) }.

(* a caller-supplied chip order lists every working chip exactly once (other coordinates are allowed) *)
Definition chip_order_ok (m : pmachine) (co : list chip) : Prop :=
  NoDup (filter (live m) co) /\ forall c, live m c = true -> In c co.

(* a caller-supplied vertex order lists exactly the vertices of the problem *)
Definition vertex_order_ok (vr : vresources) (vo : list vertex) : Prop :=
  forall v, In v vo <-> In v (map fst vr).

(* ---------------------------------------------------------------------------------------------- *)
(* A cheaper checker for large placements: the loads of all chips are accumulated in one pass       *)
(* ---------------------------------------------------------------------------------------------- *)
Fixpoint cadd (c : chip) (x : Z) (l : list (chip * Z)) : list (chip * Z) :=
  match l with
  | [] => [(c, x)]
  | (c', v) :: t => if chip_eqb c c' then (c', v + x) :: t else (c', v) :: cadd c x t
  end.

Definition chip_loads (vr : vresources) (pl : placement) (r : res) : list (chip * Z) :=
  fold_left (fun acc vd => match zassoc (fst vd) pl with
                           | Some c => cadd c (rget r (snd vd)) acc
                           | None => acc
                           end) vr [].

Definition check_placement_fast (vr : vresources) (m : pmachine) (cs : list pconstr) (pl : placement) : bool :=
  nodupb (map fst pl)
  && forallb (fun v => zmem v (map fst vr)) (map fst pl)
  && forallb (fun v => zmem v (map fst pl)) (map fst vr)
  && forallb (fun vc => live m (snd vc)) pl
  && forallb (fun r => forallb (fun cq => negb (live m (fst cq))
                                          || (snd cq <=? Z.max 0 (capacity m (fst cq) r - reserved cs (fst cq) r)))
                               (chip_loads vr pl r))
             (dedup (all_resources vr m cs))
  && forallb (check_constraint pl) cs.

(* ---------------------------------------------------------------------------------------------- *)
(* Predicates used in the statements of Props/C02.v about the annealer and the entry points         *)
(* ---------------------------------------------------------------------------------------------- *)
(* the outcome is a placement or one of the two documented placement errors *)
Definition documented_outcome (r : result placement) : Prop :=
  (exists pl, r = Ok pl) \/ r = Failed E_insufficient \/ r = Failed E_invalid.

(* two machines with the same dimensions and dead chips *)
Definition same_frame (m0 m : pmachine) : Prop :=
  pm_width m = pm_width m0 /\ pm_height m = pm_height m0 /\ pm_dead m = pm_dead m0.

(* the part of wf_problem that survives same-chip merging (merged vertices have negative identifiers) *)
Record wf_core (vr : vresources) (m0 : pmachine) : Prop := {
  wc_nodup : NoDup (map fst vr);
  wc_nonneg : forall v d r q, In (v, d) vr -> In (r, q) d -> 0 <= q;
  wc_known : forall v d r q, In (v, d) vr -> In (r, q) d -> resource_known m0 r }.

(* bookkeeping invariant of every placer: what a working chip still offers + what the constraints processed so far
   reserve + what the vertices placed so far need never exceeds what the chip had; nothing is negative *)
Record Inv (vr : vresources) (m0 : pmachine) (done : list pconstr) (m : pmachine) (pl : placement) : Prop := {
  inv_frame : same_frame m0 m;
  inv_keys : forall c, live m0 c = true -> map fst (chip_res m c) = map fst (chip_res m0 c);
  inv_le : forall c r, live m0 c = true -> In r (map fst (chip_res m0 c)) ->
           rget r (chip_res m c) + reserved done c r + load vr pl c r <= rget r (chip_res m0 c);
  inv_nonneg : forall c r q, live m0 c = true -> In (r, q) (chip_res m c) -> 0 <= q;
  inv_exc_nodup : NoDup (map fst (pm_exc m)) }.

(* a partial placement: a dictionary of vertices of the problem on working chips *)
Record PlInv (vr : vresources) (m0 : pmachine) (pl : placement) : Prop := {
  pi_nodup : NoDup (map fst pl);
  pi_live : forall v c, zassoc v pl = Some c -> live m0 c = true;
  pi_known : forall v, In v (map fst pl) -> In v (map fst vr) }.

(* state invariant of the annealing kernel: bookkeeping, every vertex placed, location constraints honoured and their
   vertices fixed, l2v lists only vertices that are on the chip, each once *)
Record SAInv (vr : vresources) (m0 : pmachine) (cs : list pconstr) (fixed : list vertex) (s : sa_state) : Prop := {
  sv_inv : Inv vr m0 cs (st_m s) (st_pl s);
  sv_pl : PlInv vr m0 (st_pl s);
  sv_all : forall v, In v (map fst vr) -> In v (map fst (st_pl s));
  sv_loc : forall v c, In (PCLocation v c) cs -> zassoc v (st_pl s) = Some c;
  sv_fixed : forall v c, In (PCLocation v c) cs -> In v fixed;
  sv_l2v : forall c vs v, cassoc c (st_l2v s) = Some vs -> In v vs -> zassoc v (st_pl s) = Some c;
  sv_l2v_nodup : forall c vs, cassoc c (st_l2v s) = Some vs -> NoDup vs }.

(* the state place() hands to the kernel *)
Definition sa_init_state (s0 : sa_start) : sa_state :=
  {| st_pl := ss_placement s0; st_l2v := init_l2v (ss_machine s0) (ss_placement s0); st_m := ss_machine s0 |}.
