(* Executable model of rig.machine_control.boot.boot / boot_packet and of
   rig.machine_control.struct_file.Struct.update_default_values / Struct.pack.
   Definitions only; the proofs are in Proofs/Boot*.v.

   Everything the code reads from constants, formats, the struct file and the presets comes from
   Generated/GenBoot.v (regenerated from /repo on every run): block sizes, the offset and length of the
   configuration area, command numbers, the protocol version, the header format '!H4I' and the word
   formats '<I' / '!I' (interpreted by [pack_fmt] / [unpack_fmt] below), the fields boot() writes after the
   options, the default value of the parameter sv_overrides, the parsed `sv` struct.

   Representation: bytes objects are lists of Z (each 0..255), dictionaries are association lists in
   insertion order with distinct keys, field names / option names are Coq strings (ASCII).
   The sockets and the clock are explicit: the datagrams passed to sock.send are an output, the k-th call
   of time.time() (truncated by int()) is [c_clock k]. *)
From Coq Require Import ZArith List Bool String Ascii Uint63.
Require Import Rig.Generated.GenBoot Rig.Model.Base.
Import ListNotations.
Open Scope Z_scope.

Definition bytes := list Z.
Definition dict := list (string * Z).
Definition len {A} (l : list A) : Z := Z.of_nat (List.length l).

(* ------------------------------------------------------------------ dictionaries *)
Fixpoint lookup (k : string) (d : dict) : option Z :=
  match d with
  | [] => None
  | (k', v) :: d' => if String.eqb k k' then Some v else lookup k d'
  end.

(* d[k] = v : an existing key keeps its position *)
Fixpoint dict_set (k : string) (v : Z) (d : dict) : dict :=
  match d with
  | [] => [(k, v)]
  | (k', v') :: d' => if String.eqb k k' then (k, v) :: d' else (k', v') :: dict_set k v d'
  end.

(* d.update(u), on a copy *)
Definition dict_update (d u : dict) : dict :=
  fold_left (fun acc kv => dict_set (fst kv) (snd kv) acc) u d.

(* ------------------------------------------------------------------ little-endian numbers *)
Fixpoint le_bytes (n : nat) (v : Z) : bytes :=
  match n with
  | O => []
  | S n' => Z.land v 255 :: le_bytes n' (Z.shiftr v 8)       (* v mod 256, then v / 256 (two's complement) *)
  end.

Fixpoint le_value (b : bytes) : Z :=
  match b with
  | [] => 0
  | x :: r => x + 256 * le_value r
  end.

(* the range struct.pack accepts for an integer code of w bytes *)
Definition in_range (signed : bool) (w : nat) (v : Z) : bool :=
  if signed then (- Z.shiftl 1 (8 * Z.of_nat w - 1) <=? v) && (v <? Z.shiftl 1 (8 * Z.of_nat w - 1))
  else (0 <=? v) && (v <? Z.shiftl 1 (8 * Z.of_nat w)).

(* ------------------------------------------------------------------ struct format strings *)
Inductive endian := Little | Big.

Definition code_width (c : ascii) : option nat :=
  if Ascii.eqb c "B" then Some 1%nat
  else if Ascii.eqb c "H" then Some 2%nat
  else if Ascii.eqb c "I" then Some 4%nat
  else None.

Definition digit_of (c : ascii) : option nat :=
  let n := nat_of_ascii c in
  if (48 <=? n)%nat && (n <=? 57)%nat then Some (n - 48)%nat else None.

(* "H4I" -> [2;4;4;4;4]; only the unsigned integer codes B H I with optional repeat counts *)
Fixpoint parse_codes (s : string) (count : option nat) : option (list nat) :=
  match s with
  | EmptyString => match count with None => Some [] | Some _ => None end
  | String c r =>
      match digit_of c with
      | Some d => parse_codes r (Some (match count with None => d | Some n => 10 * n + d end)%nat)
      | None =>
          match code_width c with
          | Some w =>
              match parse_codes r None with
              | Some ws => Some (repeat w (match count with None => 1%nat | Some n => n end) ++ ws)
              | None => None
              end
          | None => None
          end
      end
  end.

(* the byte order prefix is compulsory (standard sizes, no padding) *)
Definition parse_format (s : string) : option (endian * list nat) :=
  match s with
  | EmptyString => None
  | String c r =>
      let e := if Ascii.eqb c "<" then Some Little
               else if Ascii.eqb c "!" || Ascii.eqb c ">" then Some Big else None in
      match e, parse_codes r None with
      | Some e, Some ws => Some (e, ws)
      | _, _ => None
      end
  end.

Definition put (e : endian) (w : nat) (v : Z) : bytes :=
  match e with Little => le_bytes w v | Big => rev (le_bytes w v) end.

Fixpoint pack_fields (e : endian) (ws : list nat) (vs : list Z) : option bytes :=
  match ws, vs with
  | [], [] => Some []
  | w :: ws', v :: vs' =>
      if in_range false w v then
        match pack_fields e ws' vs' with Some r => Some (put e w v ++ r) | None => None end
      else None
  | _, _ => None
  end.

(* struct.pack(fmt, *vs): None = struct.error *)
Definition pack_fmt (fmt : string) (vs : list Z) : option bytes :=
  match parse_format fmt with
  | Some (e, ws) => pack_fields e ws vs
  | None => None
  end.

Fixpoint unpack_fields (e : endian) (ws : list nat) (b : bytes) : option (list Z) :=
  match ws with
  | [] => match b with [] => Some [] | _ => None end
  | w :: ws' =>
      if (List.length b <? w)%nat then None
      else
        let x := firstn w b in
        let v := le_value (match e with Little => x | Big => rev x end) in
        match unpack_fields e ws' (skipn w b) with Some r => Some (v :: r) | None => None end
  end.

(* struct.unpack(fmt, b) *)
Definition unpack_fmt (fmt : string) (b : bytes) : option (list Z) :=
  match parse_format fmt with
  | Some (e, ws) => unpack_fields e ws b
  | None => None
  end.

(* ------------------------------------------------------------------ struct_file.Struct *)
Record field := mkfield {
  f_name : string;      (* key in Struct.fields *)
  f_pack : string;      (* StructField.pack_chars (python code) *)
  f_offset : Z;
  f_default : Z;
  f_length : Z }.       (* array length; Struct.pack ignores it *)

Record sdef := mksdef { s_size : Z; s_fields : list field }.   (* Struct.fields in dict order *)

Definition field_of_row (r : string * string * Z * Z * Z) : field :=
  let '(n, p, o, d, l) := r in mkfield n p o d l.

(* the `sv` struct of the bundled sark.struct as rig's parser reads it *)
Definition live_sv : sdef := mksdef sv_size (map field_of_row sv_fields).

Definition with_default (f : field) (v : Z) : field :=
  mkfield (f_name f) (f_pack f) (f_offset f) v (f_length f).

Definition has_field (k : string) (fs : list field) : bool :=
  existsb (fun f => String.eqb (f_name f) k) fs.

(* self[k] = self[k]._replace(default=v); names are keys of a dict, hence distinct *)
Definition set_default (k : string) (v : Z) (fs : list field) : list field :=
  map (fun f => if String.eqb (f_name f) k then with_default f v else f) fs.

(* Struct.update_default_values( **u): in the order of u; KeyError at the first unknown name *)
Fixpoint update_defaults (fs : list field) (u : dict) : result (list field) :=
  match u with
  | [] => Ok fs
  | (k, v) :: u' => if has_field k fs then update_defaults (set_default k v fs) u' else OtherError
  end.

(* struct.pack(b"<" + pack_chars, default) for the codes read from struct files: B b H I.
   Anything else (e.g. "16s" with an integer default, or a repeat count with one value) is struct.error. *)
Definition pack_kind (p : string) : option (bool * nat) :=
  if String.eqb p "B" then Some (false, 1%nat)
  else if String.eqb p "b" then Some (true, 1%nat)
  else if String.eqb p "H" then Some (false, 2%nat)
  else if String.eqb p "I" then Some (false, 4%nat)
  else None.

Definition pack_value (p : string) (v : Z) : option bytes :=
  match pack_kind p with
  | Some (sg, w) => if in_range sg w v then Some (le_bytes w v) else None
  | None => None
  end.

(* data[a:b] = x on a bytearray, 0 <= a <= b (indices beyond the end are clamped: the data grows) *)
Definition splice (data : bytes) (a b : Z) (x : bytes) : bytes :=
  firstn (Z.to_nat a) data ++ x ++ skipn (Z.to_nat b) data.

Definition pack_field (data : result bytes) (f : field) : result bytes :=
  bind data (fun d =>
    match pack_value (f_pack f) (f_default f) with
    | Some p => Ok (splice d (f_offset f) (len p + f_offset f) p)
    | None => OtherError
    end).

(* Struct.pack: zeros, then every field in dict order (a later field overwrites an earlier one) *)
Definition pack_struct (s : sdef) : result bytes :=
  fold_left pack_field (s_fields s) (Ok (repeat 0 (Z.to_nat (s_size s)))).

(* ------------------------------------------------------------------ boot_packet *)
Definition cast_err {A B} (r : result A) : result B :=
  match r with
  | Ok _ => OtherError
  | Failed k => Failed k
  | OtherError => OtherError
  | OutOfFuel => OutOfFuel
  end.

(* struct.pack("!I", struct.unpack("<I", word)[0]) *)
Definition swap_word (w : bytes) : option bytes :=
  match unpack_fmt boot_word_in_format w with
  | Some [v] => pack_fmt boot_word_out_format [v]
  | _ => None
  end.

(* the `while len(data) > 0: word, data = data[:4], data[4:]` loop *)
Fixpoint swap_words (data : bytes) : option bytes :=
  match data with
  | [] => Some []
  | a :: b :: c :: d :: rest =>
      match swap_word [a; b; c; d], swap_words rest with
      | Some w, Some r => Some (w ++ r)
      | _, _ => None
      end
  | _ => None
  end.

(* the datagram handed to sock.send, or the exception *)
Definition boot_packet (cmd a1 a2 a3 : Z) (data : bytes) : result bytes :=
  match pack_fmt boot_header_format [PROTOCOL_VERSION; cmd; a1; a2; a3] with
  | None => OtherError                                       (* struct.error *)
  | Some h =>
      if len data mod 4 =? 0 then
        match swap_words data with Some f => Ok (h ++ f) | None => OtherError end
      else OtherError                                        (* assert len(data) % 4 == 0 *)
  end.

(* ------------------------------------------------------------------ boot *)
(* the `while len(boot_data) > 0` loop: datagrams sent, and how the loop ended *)
Fixpoint send_blocks (fuel : nat) (block : Z) (data : bytes) : list bytes * result unit :=
  match data with
  | [] => ([], Ok tt)
  | _ :: _ =>
      match fuel with
      | O => ([], OutOfFuel)
      | S fuel' =>
          let a1 := Z.lor (Z.shiftl (BOOT_WORD_SIZE - 1) 8) block in
          match boot_packet BootCommand_send_block a1 0 0 (firstn (Z.to_nat BOOT_BYTE_SIZE) data) with
          | Ok d =>
              let '(ds, r) := send_blocks fuel' (block + 1) (skipn (Z.to_nat BOOT_BYTE_SIZE) data) in
              (d :: ds, r)
          | e => ([], cast_err e)
          end
      end
  end.

(* keyword arguments of the second update_default_values call: int(time.time()) is read left to right *)
Fixpoint fill_times (spec : list (string * option Z)) (clock : nat -> Z) (k : nat) : dict :=
  match spec with
  | [] => []
  | (n, Some v) :: r => (n, v) :: fill_times r clock k
  | (n, None) :: r => (n, clock k) :: fill_times r clock (S k)
  end.

(* boot() from the point where the options dictionary has been formed.
   Result: the address the socket was connected to (None: no socket was created), the datagrams sent,
   and the returned `sv` fields or the exception. *)
Definition boot_core (host port : Z) (image : bytes) (sv : sdef) (options : dict) (clock : nat -> Z)
  : option (Z * Z) * list bytes * result (list field) :=
  match update_defaults (s_fields sv) options with
  | Ok f1 =>
      match update_defaults f1 (fill_times boot_fixed_fields clock 0) with
      | Ok f2 =>
          match pack_struct (mksdef (s_size sv) f2) with
          | Ok packed =>
              if len packed <? 128 then (None, [], OtherError)            (* assert len(struct_packed) >= 128 *)
              else
                let buf := splice image BOOT_DATA_OFFSET (BOOT_DATA_OFFSET + BOOT_DATA_LENGTH)
                                  (firstn (Z.to_nat BOOT_DATA_LENGTH) packed) in
                if negb (len buf <? DTCM_SIZE) then (None, [], OtherError)   (* assert len(buf) < DTCM_SIZE *)
                else
                  let dest := Some (host, port) in
                  let n_blocks := (len buf + BOOT_BYTE_SIZE - 1) / BOOT_BYTE_SIZE in
                  if negb (n_blocks <=? BOOT_MAX_BLOCKS) then (dest, [], OtherError)
                  else
                    match boot_packet BootCommand_start 0 0 (n_blocks - 1) [] with
                    | Ok d0 =>
                        let '(ds, r) := send_blocks (List.length buf) 0 buf in
                        match r with
                        | Ok _ =>
                            match boot_packet BootCommand_end 1 0 0 [] with
                            | Ok de => (dest, d0 :: ds ++ [de], Ok f2)
                            | e => (dest, d0 :: ds, cast_err e)
                            end
                        | e => (dest, d0 :: ds, cast_err e)
                        end
                    | e => (dest, [], cast_err e)
                    end
          | e => (None, [], cast_err e)
          end
      | e => (None, [], e)
      end
  | e => (None, [], e)
  end.

(* One call boot(host, boot_port, scamp_binary=<image>, sark_struct=<file defining sv>,
                 [sv_overrides=<dict>,] **kwargs). *)
Record call := mkcall {
  c_host : Z;                    (* which board *)
  c_port : option Z;             (* None: the default of the parameter *)
  c_image : bytes;
  c_sv : sdef;
  c_overrides : option dict;     (* None: parameter not passed, the shared default object is used *)
  c_kwargs : dict;
  c_clock : nat -> Z }.

Record outcome := mkout {
  o_dest : option (Z * Z);
  o_datagrams : list bytes;
  o_result : result (list field);
  o_caller_dict : option dict }. (* the dictionary the caller passed, as it is after the call *)

Definition port_of (c : call) : Z :=
  match c_port c with Some p => p | None => boot_default_port end.

(* Library state: the content of the dictionary object that is the default value of sv_overrides. *)
Definition initial_shared : dict := boot_default_sv_overrides.

(* sv_overrides = dict(sv_overrides); sv_overrides.update(kwargs): the update is made on a copy. *)
Definition boot_fixed_step (shared : dict) (c : call) : dict * outcome :=
  let d0 := match c_overrides c with Some d => d | None => shared end in
  let options := dict_update d0 (c_kwargs c) in
  let '(dest, ds, r) := boot_core (c_host c) (port_of c) (c_image c) (c_sv c) options (c_clock c) in
  (shared, mkout dest ds r (c_overrides c)).

(* The code as found: sv_overrides.update(kwargs) on the object itself -- the shared default when the
   caller passes none, the caller's own dictionary otherwise. *)
Definition boot_orig_step (shared : dict) (c : call) : dict * outcome :=
  match c_overrides c with
  | Some d =>
      let options := dict_update d (c_kwargs c) in
      let '(dest, ds, r) := boot_core (c_host c) (port_of c) (c_image c) (c_sv c) options (c_clock c) in
      (shared, mkout dest ds r (Some options))
  | None =>
      let options := dict_update shared (c_kwargs c) in
      let '(dest, ds, r) := boot_core (c_host c) (port_of c) (c_image c) (c_sv c) options (c_clock c) in
      (options, mkout dest ds r None)
  end.

(* The code as it is NOW: which of the two it is is read from the source on every run
   (Generated/GenBoot.boot_copies_overrides: is `sv_overrides = dict(sv_overrides)` there, before the update?).
   Removing the copy from boot.py turns this model into boot_orig_step -- and the history theorems false. *)
Definition boot_step (shared : dict) (c : call) : dict * outcome :=
  if boot_copies_overrides then boot_fixed_step shared c else boot_orig_step shared c.

(* a sequence of boots in one process *)
Fixpoint run (step : dict -> call -> dict * outcome) (st : dict) (cs : list call) : dict * list outcome :=
  match cs with
  | [] => (st, [])
  | c :: cs' =>
      let '(st1, o) := step st c in
      let '(st2, os) := run step st1 cs' in
      (st2, o :: os)
  end.

(* ------------------------------------------------------------------ helpers of the correspondence harness *)
(* pseudo-random image content, reproduced by the harness in Python (machine integers: evaluation only) *)
Fixpoint lcg_bytes (n : nat) (x : int) : bytes :=
  match n with
  | O => []
  | S n' =>
      let x' := Uint63.land (Uint63.add (Uint63.mul x 1103515245) 12345) 2147483647 in
      Uint63.to_Z (Uint63.land (Uint63.lsr x' 16) 255) :: lcg_bytes n' x'
  end.

Definition lcg_image (n seed : Z) : bytes := lcg_bytes (Z.to_nat n) (Uint63.of_Z seed).

(* 63-bit polynomial digest of a byte string (wrapping machine arithmetic) *)
Definition digest (b : bytes) : Z :=
  Uint63.to_Z (fold_left (fun h x => Uint63.add (Uint63.mul h 1000003) (Uint63.add (Uint63.of_Z x) 1)) b 7%uint63).

Definition clock_of (ts : list Z) : nat -> Z := fun k => nth k ts 0.

Definition observe (o : outcome) :=
  (o_dest o, map (fun d => (len d, digest d)) (o_datagrams o),
   match o_result o with
   | Ok fs => Ok (map f_default fs)
   | Failed k => Failed k
   | OtherError => OtherError
   | OutOfFuel => OutOfFuel
   end,
   o_caller_dict o).

Definition observe_run (step : dict -> call -> dict * outcome) (cs : list call) :=
  let '(st, os) := run step initial_shared cs in (st, map observe os).
