(* Simulated annealing placer: the initial placement (sa/algorithm.py up to the kernel) is feasible; one
   swap attempt of the Python kernel (sa/python_kernel.py:_step) preserves the state invariant [SAInv]
   (free-resource bookkeeping, location constraints, l2v consistency); the placement of ANY state satisfying
   the invariant expands to a feasible placement of the original problem.  The float-valued temperature
   schedule is not modelled: the theorems hold for every sequence of draws / every number of steps. *)
From Coq Require Import ZArith List Bool Lia.
Require Import Rig.Model.Base Rig.Model.Place Rig.Spec.Place Rig.Proofs.Place Rig.Proofs.PlaceCore
        Rig.Proofs.PlaceMerge Rig.Proofs.PlaceSeq.
Import ListNotations.
Open Scope Z_scope.

(* ---------------------------------------------------------------------------------------------- *)
(* The invariants depend on a placement only through its lookup function                            *)
(* ---------------------------------------------------------------------------------------------- *)
Lemma load_ext : forall (vr : vresources) pl pl' c r,
  (forall u, zassoc u pl = zassoc u pl') -> load vr pl c r = load vr pl' c r.
Proof.
  intros vr pl pl' c r H. rewrite !load_sumf. apply sumf_ext. intros [u d] _. cbn [fst snd].
  unfold on_chip. rewrite (H u). reflexivity.
Qed.

Lemma Inv_pl_ext : forall vr m0 cs m pl pl',
  (forall u, zassoc u pl = zassoc u pl') -> Inv vr m0 cs m pl -> Inv vr m0 cs m pl'.
Proof.
  intros vr m0 cs m pl pl' H [H1 H2 H3 H4 H5]. constructor; try assumption.
  intros c r Hl Hr. rewrite <- (load_ext vr pl pl' c r H). apply H3; assumption.
Qed.

(* initial_placements.update(fixed_vertices) *)
Definition over (fixed pl : placement) : placement :=
  fold_left (fun p vc => pl_set (fst vc) (snd vc) p) fixed pl.

Lemma over_spec : forall fixed, NoDup (map fst fixed) -> forall pl u,
  zassoc u (over fixed pl) = match zassoc u fixed with Some c => Some c | None => zassoc u pl end.
Proof.
  unfold over. induction fixed as [|[v c] t IH]; intros Hnd pl u; cbn [fold_left zassoc fst snd].
  - reflexivity.
  - cbn [map fst] in Hnd. inversion Hnd as [|? ? Hni Hnd']. subst.
    rewrite (IH Hnd'). unfold pl_set. rewrite zassoc_zupdate. destruct (u =? v) eqn:E.
    + apply Z.eqb_eq in E. subst u.
      assert (Hz : zassoc v t = None) by (apply zassoc_None; exact Hni). rewrite Hz. reflexivity.
    + reflexivity.
Qed.

Lemma over_NoDup : forall fixed pl, NoDup (map fst pl) -> NoDup (map fst (over fixed pl)).
Proof.
  unfold over. induction fixed as [|[v c] t IH]; intros pl H; cbn [fold_left]; [exact H|].
  apply IH. apply zupdate_NoDup. exact H.
Qed.

(* ---------------------------------------------------------------------------------------------- *)
(* shuffle is a permutation (as far as membership goes)                                             *)
(* ---------------------------------------------------------------------------------------------- *)
Lemma take_nth_spec : forall {A} n (l : list A) x l', take_nth n l = Some (x, l') ->
  (forall y, In y l <-> y = x \/ In y l') /\ length l = S (length l').
Proof.
  intros A n l. revert n. induction l as [|h t IH]; intros n x l' H; [destruct n; discriminate|].
  destruct n as [|n]; cbn [take_nth] in H.
  - inversion H. subst. split; [intros y; cbn [In]; split; intros [E | E]; auto | reflexivity].
  - destruct (take_nth n t) as [[x1 t1]|] eqn:E; [|discriminate]. inversion H. subst.
    destruct (IH n x t1 E) as [G1 G2]. split.
    + intros y. cbn [In]. rewrite G1. tauto.
    + cbn [length]. rewrite G2. reflexivity.
Qed.

Lemma take_nth_some : forall {A} n (l : list A), (n < length l)%nat -> exists x l', take_nth n l = Some (x, l').
Proof.
  intros A n l. revert n. induction l as [|h t IH]; intros n H; cbn [length] in H; [lia|].
  destruct n as [|n]; cbn [take_nth]; [eexists; eexists; reflexivity|].
  destruct (IH n) as [x [l' E]]; [lia|]. rewrite E. eexists; eexists; reflexivity.
Qed.

Lemma shuffle_In : forall {A} fuel picks (l : list A), (length l <= fuel)%nat ->
  forall x, In x (shuffle fuel picks l) <-> In x l.
Proof.
  intros A fuel. induction fuel as [|fuel IH]; intros picks l Hlen x.
  - destruct l; [|cbn [length] in Hlen; lia]. reflexivity.
  - cbn [shuffle]. destruct l as [|h t] eqn:El; [reflexivity|]. rewrite <- El in *.
    set (n := match picks with [] => O | p :: _ => Nat.modulo p (length l) end).
    assert (Hn : (n < length l)%nat).
    { unfold n. destruct picks; [subst l; cbn [length]; lia|]. apply Nat.mod_upper_bound. subst l. cbn [length]. lia. }
    destruct (take_nth_some n l Hn) as [y [l' E]]. rewrite E.
    destruct (take_nth_spec n l y l' E) as [G1 G2]. cbn [In]. rewrite (IH (tl picks) l') by lia.
    rewrite G1. split; intros [H | H]; auto.
Qed.

(* ---------------------------------------------------------------------------------------------- *)
(* _initial_placement                                                                               *)
(* ---------------------------------------------------------------------------------------------- *)
Lemma initial_vertex_some : forall m d locs c r' locs',
  initial_vertex m d locs = Ok (c, r', locs') ->
  In c locs /\ live m c = true /\ r' = subtract_resources (chip_res m c) d /\ overallocated r' = false
  /\ (forall x, In x locs' -> In x locs).
Proof.
  intros m d locs. induction locs as [|x t IH]; intros c r' locs' H; cbn [initial_vertex] in H; [discriminate|].
  destruct (try_chip m d x) as [o| | |] eqn:Et; cbn [bind] in H; try discriminate. destruct o as [r1|].
  - inversion H. subst. apply try_chip_some in Et. destruct Et as [T1 [T2 T3]].
    split; [left; reflexivity|]. split; [exact T1|]. split; [exact T2|]. split; [exact T3|]. intros y Hy. exact Hy.
  - destruct (IH _ _ _ H) as [G1 [G2 [G3 [G4 G5]]]].
    split; [right; exact G1|]. split; [exact G2|]. split; [exact G3|]. split; [exact G4|].
    intros y Hy. right. apply G5. exact Hy.
Qed.

Lemma PlInv_over : forall vr m0 fixed pl,
  PlInv vr m0 fixed -> PlInv vr m0 pl -> PlInv vr m0 (over fixed pl).
Proof.
  intros vr m0 fixed pl [F1 F2 F3] [P1 P2 P3]. constructor.
  - apply over_NoDup. exact P1.
  - intros v c Hz. rewrite (over_spec fixed F1) in Hz. destruct (zassoc v fixed) as [c'|] eqn:E.
    + inversion Hz. subst. apply (F2 v c E).
    + apply (P2 v c Hz).
  - intros v Hv. apply zassoc_key_Some in Hv. destruct Hv as [c Hc]. rewrite (over_spec fixed F1) in Hc.
    destruct (zassoc v fixed) as [c'|] eqn:E.
    + apply F3. apply zassoc_Some_key in E. exact E.
    + apply P3. apply zassoc_Some_key in Hc. exact Hc.
Qed.

Lemma initial_loop_inv : forall vr m0 cs fixed vs m pl locs m' pl',
  wf_core vr m0 -> PlInv vr m0 fixed ->
  Inv vr m0 cs m (over fixed pl) -> PlInv vr m0 pl ->
  (forall c, In c locs -> live m0 c = true) ->
  (forall v, In v vs -> ~ In v (map fst fixed)) ->
  initial_loop vr vs m pl locs = Ok (m', pl') ->
  Inv vr m0 cs m' (over fixed pl') /\ PlInv vr m0 pl'
  /\ (forall v, In v vs -> In v (map fst pl')) /\ (forall v, In v (map fst pl) -> In v (map fst pl')).
Proof.
  intros vr m0 cs fixed vs. induction vs as [|v vs IH]; intros m pl locs m' pl' Hwf Hfix Hinv Hpl Hlocs Hvs H;
    cbn [initial_loop] in H.
  - inversion H. subst. split; [exact Hinv|]. split; [exact Hpl|]. split; [intros v []|intros v Hv; exact Hv].
  - destruct (zassoc v vr) as [d|] eqn:Ev; [|discriminate].
    destruct (initial_vertex m d locs) as [[[c r'] locs']| | |] eqn:Ei; cbn [bind] in H; try discriminate.
    apply initial_vertex_some in Ei. destruct Ei as [I1 [I2 [I3 [I4 I5]]]].
    destruct (mset m c r') as [m1|] eqn:Es; [|discriminate]. subst r'.
    assert (Hl0 : live m0 c = true) by (apply Hlocs; exact I1).
    assert (Hvk : In v (map fst vr)) by (apply zassoc_Some_key in Ev; exact Ev).
    assert (Hvf : zassoc v fixed = None) by (apply zassoc_None; apply Hvs; left; reflexivity).
    assert (Hi1 : Inv vr m0 cs m1 (over fixed (pl_set v c pl))).
    { apply (Inv_pl_ext vr m0 cs m1 (pl_set v c (over fixed pl))).
      - intros u. rewrite (over_spec fixed (pi_nodup _ _ _ Hfix)). unfold pl_set. rewrite !zassoc_zupdate.
        rewrite (over_spec fixed (pi_nodup _ _ _ Hfix)).
        destruct (u =? v) eqn:E; [|reflexivity]. apply Z.eqb_eq in E. subst u. rewrite Hvf. reflexivity.
      - eapply Inv_place; eassumption. }
    assert (Hp1 : PlInv vr m0 (pl_set v c pl)) by (apply PlInv_set; assumption).
    destruct (IH m1 (pl_set v c pl) locs' m' pl' Hwf Hfix Hi1 Hp1) as [G1 [G2 [G3 G4]]].
    + intros x Hx. apply Hlocs. apply I5. exact Hx.
    + intros u Hu. apply Hvs. right. exact Hu.
    + exact H.
    + split; [exact G1|]. split; [exact G2|]. split.
      * intros u [Hu | Hu]; [|apply G3; exact Hu]. subst u. apply G4. unfold pl_set. apply zupdate_In_keys. left. reflexivity.
      * intros u Hu. apply G4. unfold pl_set. apply zupdate_In_keys. right. exact Hu.
Qed.

(* ---------------------------------------------------------------------------------------------- *)
(* The state invariant of the annealer                                                              *)
(* ---------------------------------------------------------------------------------------------- *)
Record SAInv (vr : vresources) (m0 : pmachine) (cs : list pconstr) (fixed : list vertex) (s : sa_state) : Prop := {
  sv_inv : Inv vr m0 cs (st_m s) (st_pl s);
  sv_pl : PlInv vr m0 (st_pl s);
  sv_all : forall v, In v (map fst vr) -> In v (map fst (st_pl s));
  sv_loc : forall v c, In (PCLocation v c) cs -> zassoc v (st_pl s) = Some c;
  sv_fixed : forall v c, In (PCLocation v c) cs -> In v fixed;
  sv_l2v : forall c vs v, cassoc c (st_l2v s) = Some vs -> In v vs -> zassoc v (st_pl s) = Some c;
  sv_l2v_nodup : forall c vs, cassoc c (st_l2v s) = Some vs -> NoDup vs }.

Definition sa_init_state (s0 : sa_start) : sa_state :=
  {| st_pl := ss_placement s0; st_l2v := init_l2v (ss_machine s0) (ss_placement s0); st_m := ss_machine s0 |}.

(* l2v as built by PythonKernel.__init__ lists, per chip, vertices placed on it, each once *)
Lemma init_l2v_spec : forall (pl : placement) (base : l2v),
  NoDup (map fst pl) ->
  (forall c vs, cassoc c base = Some vs -> vs = []) ->
  forall c vs, cassoc c (fold_left (fun l vc => match cassoc (snd vc) l with
                                                  | Some vs => cupdate (snd vc) (vs ++ [fst vc]) l
                                                  | None => l end) pl base) = Some vs ->
  NoDup vs /\ forall v, In v vs -> In (v, c) pl.
Proof.
  intros pl.
  assert (Hgen : forall (done : placement) (base : l2v),
            NoDup (map fst (done ++ pl)) ->
            (forall c vs, cassoc c base = Some vs -> NoDup vs /\ forall v, In v vs -> In (v, c) done) ->
            forall c vs, cassoc c (fold_left (fun l vc => match cassoc (snd vc) l with
                                                            | Some vs => cupdate (snd vc) (vs ++ [fst vc]) l
                                                            | None => l end) pl base) = Some vs ->
            NoDup vs /\ forall v, In v vs -> In (v, c) (done ++ pl)).
  { induction pl as [|[v0 c0] t IH]; intros done base Hnd Hb c vs H; cbn [fold_left] in H.
    - rewrite app_nil_r. apply (Hb c vs H).
    - cbn [fst snd] in H.
      assert (Happ : done ++ (v0, c0) :: t = (done ++ [(v0, c0)]) ++ t) by (rewrite <- app_assoc; reflexivity).
      rewrite Happ in *. refine (IH (done ++ [(v0, c0)]) _ Hnd _ c vs H).
      intros c1 vs1 H1. destruct (cassoc c0 base) as [vs0|] eqn:E0.
      + rewrite cassoc_cupdate in H1. destruct (chip_eqb c1 c0) eqn:Ec.
        * apply chip_eqb_eq in Ec. subst c1. inversion H1. subst vs1. destruct (Hb c0 vs0 E0) as [B1 B2]. split.
          -- apply NoDup_snoc; [exact B1|]. intros Hin. apply B2 in Hin.
             rewrite !map_app in Hnd. cbn [map fst] in Hnd. rewrite <- app_assoc in Hnd. cbn [app] in Hnd.
             apply NoDup_remove_2 in Hnd. apply Hnd.
             rewrite in_app_iff. left. apply in_map_iff. exists (v0, c0). split; [reflexivity | exact Hin].
          -- intros u Hu. apply in_app_iff in Hu. apply in_app_iff. destruct Hu as [Hu | [Hu | []]].
             ++ left. apply B2. exact Hu.
             ++ subst u. right. left. reflexivity.
        * destruct (Hb c1 vs1 H1) as [B1 B2]. split; [exact B1|]. intros u Hu. apply in_app_iff. left. apply B2. exact Hu.
      + destruct (Hb c1 vs1 H1) as [B1 B2]. split; [exact B1|]. intros u Hu. apply in_app_iff. left. apply B2. exact Hu. }
  intros base Hnd Hb c vs H. refine (Hgen [] base Hnd _ c vs H).
  intros c1 vs1 H1. rewrite (Hb c1 vs1 H1). split; [constructor | intros v []].
Qed.

Lemma cassoc_empty_lists : forall (L : list chip) c vs,
  cassoc c (map (fun c0 : chip => (c0, @nil vertex)) L) = Some vs -> vs = [].
Proof.
  induction L as [|h t IH]; intros c vs H; cbn [map cassoc] in H; [discriminate|].
  destruct (chip_eqb c h); [inversion H; reflexivity | apply (IH c vs H)].
Qed.

Lemma SAInv_feasible : forall vr m cs fixed s,
  wf_core vr m -> (forall k v, In k cs -> In v (constr_vertices k) -> In v (map fst vr)) ->
  Forall degenerate cs -> SAInv vr m cs fixed s -> Feasible vr m cs (st_pl s).
Proof.
  intros vr m cs fixed s Hwc Hcv Hdeg [S1 S2 S3 S4 S5 S6 S7].
  apply (feasible_of_inv vr m cs (st_m s) (st_pl s) Hwc S1 S2 S3 S4 Hcv Hdeg).
Qed.

Lemma sa_prepare_inv : forall vr m cs lp vp s0,
  wf_problem vr m cs -> consistent cs -> sa_prepare vr m cs lp vp = Ok s0 ->
  exists cs1, apply_same_chip vr cs = Ok (ss_vr s0, cs1, ss_subs s0)
    /\ SAInv (ss_vr s0) m cs1 (map fst (ss_fixed s0)) (sa_init_state s0).
Proof.
  intros vr m cs lp vp s0 W Hc H. unfold sa_prepare in H.
  destruct (apply_same_chip vr cs) as [[[vr1 cs1] subs]| | |] eqn:Ea; cbn [bind] in H; try discriminate.
  destruct (merged_problem vr m cs vr1 cs1 subs W Hc Ea) as [Hp [Hdeg [_ Hfin]]].
  destruct (handle_cs vr1 cs1 m []) as [[m1 fixed]| | |] eqn:Eh; cbn [bind] in H; try discriminate.
  set (movable := filter (fun v => negb (pl_mem v fixed)) (map fst vr1)) in *.
  set (locs := shuffle (length (raster m1)) lp (raster m1)) in *.
  set (vs := shuffle (length movable) vp movable) in *.
  destruct locs as [|l0 lt] eqn:Elocs; [discriminate|]. rewrite <- Elocs in *.
  destruct (initial_loop vr1 vs m1 [] locs) as [[m2 pl]| | |] eqn:Ei; cbn [bind] in H; try discriminate.
  inversion H. subst s0. clear H. cbn [ss_vr ss_subs ss_fixed]. exists cs1. split; [reflexivity|].
  pose proof (pwf_core _ _ _ Hp) as Hwc.
  destruct (handle_cs_inv vr1 m cs1 [] m [] m1 fixed Hwc (Inv_init vr1 m (wf_problem_machine _ _ _ W))
              (PlInv_init vr1 m) Eh) as [Hinv [Hplf [_ Hlocs]]].
  cbn [app] in Hinv. destruct (Hlocs (consistent_agree _ (pwf_consistent _ _ _ Hp))) as [_ Hloc0].
  assert (Hfnd : NoDup (map fst fixed)) by exact (pi_nodup _ _ _ Hplf).
  assert (Hmov : forall v, In v movable <-> In v (map fst vr1) /\ ~ In v (map fst fixed)).
  { intros v. unfold movable. rewrite filter_In, negb_true_iff. split.
    - intros [H1 H2]. split; [exact H1|]. intros Hin. apply pl_mem_true in Hin. congruence.
    - intros [H1 H2]. split; [exact H1|]. destruct (pl_mem v fixed) eqn:E; [|reflexivity]. apply pl_mem_true in E. contradiction. }
  destruct (initial_loop_inv vr1 m cs1 fixed vs m1 [] locs m2 pl Hwc Hplf) as [Hinv2 [Hpl2 [Hplaced _]]].
  - apply (Inv_pl_ext vr1 m cs1 m1 fixed); [|exact Hinv].
    intros u. rewrite (over_spec fixed Hfnd). destruct (zassoc u fixed); reflexivity.
  - apply PlInv_init.
  - intros c Hin. unfold locs in Hin. apply shuffle_In in Hin; [|lia]. apply raster_In in Hin.
    rewrite <- (live_frame m m1 c (inv_frame _ _ _ _ _ Hinv)). exact Hin.
  - intros v Hin. unfold vs in Hin. apply shuffle_In in Hin; [|lia]. apply Hmov in Hin. tauto.
  - exact Ei.
  - assert (Hov : forall u, zassoc u (over fixed pl) = match zassoc u fixed with Some c => Some c | None => zassoc u pl end)
      by (intros u; apply (over_spec fixed Hfnd)).
    assert (Hfinal_nd : NoDup (map fst (over fixed pl))) by (apply over_NoDup; exact (pi_nodup _ _ _ Hpl2)).
    constructor; unfold sa_init_state; cbn [st_pl st_m st_l2v ss_placement ss_machine];
      fold (over fixed pl).
    + exact Hinv2.
    + apply PlInv_over; assumption.
    + intros v Hv. destruct (zassoc v fixed) as [c|] eqn:E.
      * apply (zassoc_Some_key v _ c). rewrite Hov, E. reflexivity.
      * assert (Hvm : In v vs).
        { unfold vs. apply shuffle_In; [lia|]. apply Hmov. split; [exact Hv | apply zassoc_None; exact E]. }
        apply Hplaced in Hvm. apply zassoc_key_Some in Hvm. destruct Hvm as [c Hc'].
        apply (zassoc_Some_key v _ c). rewrite Hov, E. exact Hc'.
    + intros v c Hin. rewrite Hov, (Hloc0 v c Hin). reflexivity.
    + intros v c Hin. apply (zassoc_Some_key v fixed c). apply Hloc0. exact Hin.
    + intros c ws v Hc' Hv. unfold init_l2v in Hc'.
      destruct (init_l2v_spec (over fixed pl) _ Hfinal_nd (cassoc_empty_lists (raster m2)) c ws Hc') as [_ Hin].
      apply zassoc_NoDup_In; [exact Hfinal_nd | apply Hin; exact Hv].
    + intros c ws Hc'. unfold init_l2v in Hc'.
      destruct (init_l2v_spec (over fixed pl) _ Hfinal_nd (cassoc_empty_lists (raster m2)) c ws Hc') as [Hn _]. exact Hn.
Qed.

(* the result of place() when no annealing is done (effort 0, no nets, one chip, ...) *)
Theorem sa_trivial_sound : forall vr m cs lp vp pl,
  wf_problem vr m cs -> consistent cs ->
  sa_place_trivial vr m cs lp vp = Ok pl -> Feasible vr m cs pl.
Proof.
  intros vr m cs lp vp pl W Hc H. unfold sa_place_trivial in H.
  destruct (length vr =? 0)%nat eqn:Elen.
  - apply Nat.eqb_eq in Elen. destruct vr; [|discriminate]. inversion H. subst pl.
    apply feasible_empty. intros k v Hk Hv. apply (wf_constr_vertices _ _ _ W k v Hk Hv).
  - destruct (sa_prepare vr m cs lp vp) as [s0| | |] eqn:Ep; cbn [bind] in H; try discriminate.
    destruct (sa_prepare_inv vr m cs lp vp s0 W Hc Ep) as [cs1 [Ea Hsa]].
    destruct (merged_problem vr m cs (ss_vr s0) cs1 (ss_subs s0) W Hc Ea) as [Hp [Hdeg [_ Hfin]]].
    pose proof (SAInv_feasible _ _ _ _ _ (pwf_core _ _ _ Hp) (pwf_cv _ _ _ Hp) Hdeg Hsa) as Hf1.
    destruct (Hfin _ Hf1) as [pl' [Hfe Hf]]. cbn [sa_init_state st_pl] in Hfe. rewrite Hfe in H.
    inversion H. subst pl'. exact Hf.
Qed.

(* ---------------------------------------------------------------------------------------------- *)
(* Resource arithmetic of the kernel: every intermediate dictionary is the chip's dictionary with a *)
(* per-resource offset                                                                              *)
(* ---------------------------------------------------------------------------------------------- *)
Definition adj (f : res -> Z) (a : resources) : resources :=
  map (fun rq => (fst rq, snd rq + f (fst rq))) a.

Lemma adj_keys : forall f a, map fst (adj f a) = map fst a.
Proof. intros f a. unfold adj. rewrite map_map. reflexivity. Qed.

Lemma adj_adj : forall f g a, adj f (adj g a) = adj (fun r => g r + f r) a.
Proof.
  intros f g a. unfold adj. rewrite map_map. apply map_ext. intros [r q]. cbn [fst snd]. f_equal. lia.
Qed.

Lemma adj_ext : forall f g a, (forall r, f r = g r) -> adj f a = adj g a.
Proof. intros f g a H. unfold adj. apply map_ext. intros [r q]. cbn [fst snd]. rewrite H. reflexivity. Qed.

Lemma adj_zero : forall f a, (forall r, f r = 0) -> adj f a = a.
Proof.
  intros f a H. unfold adj. rewrite <- (map_id a) at 2. apply map_ext. intros [r q]. cbn [fst snd]. rewrite H.
  f_equal. lia.
Qed.

Lemma add_adj : forall a d, add_resources a d = adj (fun r => rget r d) a.
Proof. reflexivity. Qed.

Lemma sub_adj : forall a d, subtract_resources a d = adj (fun r => - rget r d) a.
Proof. intros a d. unfold subtract_resources, adj. apply map_ext. intros [r q]. cbn [fst snd]. f_equal. Qed.

Lemma rget_adj : forall f a r, In r (map fst a) -> rget r (adj f a) = rget r a + f r.
Proof.
  intros f a r H. unfold adj. rewrite (rget_map_entry (fun rq => snd rq + f (fst rq)) a r H). reflexivity.
Qed.

Definition dsum (vr : vresources) (vs : list vertex) (r : res) : Z := sumz (fun v => demand vr v r) vs.

Lemma dsum_cons : forall vr v vs r, dsum vr (v :: vs) r = demand vr v r + dsum vr vs r.
Proof. reflexivity. Qed.

Lemma demand_some : forall (vr : vresources) v d r, zassoc v vr = Some d -> demand vr v r = rget r d.
Proof. intros vr v d r H. unfold demand. rewrite H. reflexivity. Qed.

(* _get_candidate_swap *)
Lemma candidate_swap_spec : forall vr fixed need vs cr tm res,
  candidate_swap vr fixed need cr vs tm = Ok (Some res) ->
  exists added, res = tm ++ added
    /\ (forall v, In v added -> In v vs /\ zmem v fixed = false /\ exists d, zassoc v vr = Some d)
    /\ (NoDup vs -> NoDup added)
    /\ overallocated (subtract_resources (adj (dsum vr added) cr) need) = false.
Proof.
  intros vr fixed need vs. induction vs as [|v vs IH]; intros cr tm res H.
  - cbn [candidate_swap] in H. destruct (negb (overallocated (subtract_resources cr need))) eqn:E; [|discriminate].
    inversion H. subst res. exists []. rewrite app_nil_r. split; [reflexivity|]. split; [intros v []|].
    split; [intros _; constructor|]. rewrite adj_zero by (intros r; reflexivity).
    apply negb_true_iff in E. exact E.
  - cbn [candidate_swap] in H. destruct (negb (overallocated (subtract_resources cr need))) eqn:E.
    + inversion H. subst res. exists []. rewrite app_nil_r. split; [reflexivity|]. split; [intros u []|].
      split; [intros _; constructor|]. rewrite adj_zero by (intros r; reflexivity).
      apply negb_true_iff in E. exact E.
    + destruct (zmem v fixed) eqn:Ef.
      * destruct (IH cr tm res H) as [added [A1 [A2 [A3 A4]]]]. exists added. split; [exact A1|]. split.
        -- intros u Hu. destruct (A2 u Hu) as [B1 B2]. split; [right; exact B1 | exact B2].
        -- split; [|exact A4]. intros Hnd. apply A3. inversion Hnd. assumption.
      * unfold demand_of in H. destruct (zassoc v vr) as [d|] eqn:Ed; [|discriminate].
        destruct (IH (add_resources cr d) (tm ++ [v]) res H) as [added [A1 [A2 [A3 A4]]]].
        exists (v :: added). split; [rewrite A1, <- app_assoc; reflexivity|]. split.
        -- intros u [Hu | Hu].
           ++ subst u. split; [left; reflexivity|]. split; [exact Ef|]. exists d. exact Ed.
           ++ destruct (A2 u Hu) as [B1 B2]. split; [right; exact B1 | exact B2].
        -- split.
           ++ intros Hnd. inversion Hnd as [|? ? Hni Hnd']. subst. constructor; [|apply A3; exact Hnd'].
              intros Hin. apply Hni. apply (proj1 (A2 v Hin)).
           ++ rewrite add_adj, adj_adj in A4.
              rewrite (adj_ext (dsum vr (v :: added)) (fun r => rget r d + dsum vr added r) cr); [exact A4|].
              intros r. rewrite dsum_cons, (demand_some vr v d r Ed). reflexivity.
Qed.

Lemma back_fold : forall vr vs base,
  (forall v, In v vs -> exists d, zassoc v vr = Some d) ->
  fold_left (fun r v => match demand_of vr v with Some d => subtract_resources r d | None => r end) vs base
  = adj (fun r => - dsum vr vs r) base.
Proof.
  intros vr vs. induction vs as [|v vs IH]; intros base H; cbn [fold_left].
  - symmetry. apply adj_zero. intros r. reflexivity.
  - destruct (H v (or_introl eq_refl)) as [d Hd].
    assert (E : demand_of vr v = Some d) by (unfold demand_of; exact Hd). rewrite E.
    rewrite IH by (intros u Hu; apply H; right; exact Hu). rewrite sub_adj, adj_adj.
    apply adj_ext. intros r. rewrite dsum_cons, (demand_some vr v d r Hd). lia.
Qed.

Lemma move_all_spec : forall vr vs b pl la lb ra rb pl' la' lb' ra' rb',
  move_all vr vs b pl la lb ra rb = Ok (pl', la', lb', ra', rb') ->
  (forall v, In v vs -> exists d, zassoc v vr = Some d)
  /\ pl' = fold_left (fun p v => pl_set v b p) vs pl
  /\ la' = fold_left (fun l v => list_remove_first v l) vs la
  /\ lb' = lb ++ vs
  /\ ra' = adj (dsum vr vs) ra
  /\ rb' = adj (fun r => - dsum vr vs r) rb.
Proof.
  intros vr vs. induction vs as [|v vs IH]; intros b pl la lb ra rb pl' la' lb' ra' rb' H; cbn [move_all] in H.
  - inversion H. subst. split; [intros v []|]. split; [reflexivity|]. split; [reflexivity|].
    split; [rewrite app_nil_r; reflexivity|].
    split; symmetry; apply adj_zero; intros r; reflexivity.
  - unfold demand_of in H. destruct (zassoc v vr) as [d|] eqn:Ed; [|discriminate].
    destruct (IH _ _ _ _ _ _ _ _ _ _ _ H) as [G1 [G2 [G3 [G4 [G5 G6]]]]].
    split; [intros u [Hu | Hu]; [subst u; exists d; exact Ed | apply G1; exact Hu]|].
    split; [exact G2|]. split; [exact G3|]. split; [rewrite G4, <- app_assoc; reflexivity|]. split.
    + rewrite G5, add_adj, adj_adj. apply adj_ext. intros r. rewrite dsum_cons, (demand_some vr v d r Ed). reflexivity.
    + rewrite G6, sub_adj, adj_adj. apply adj_ext. intros r. rewrite dsum_cons, (demand_some vr v d r Ed). lia.
Qed.

Lemma swap_spec : forall vr vas a vbs b s s1,
  swap vr vas a vbs b s = Ok s1 ->
  live (st_m s) a = true /\ live (st_m s) b = true
  /\ (forall v, In v vas \/ In v vbs -> exists d, zassoc v vr = Some d)
  /\ exists la lb, cassoc a (st_l2v s) = Some la /\ cassoc b (st_l2v s) = Some lb
     /\ st_pl s1 = fold_left (fun p v => pl_set v a p) vbs (fold_left (fun p v => pl_set v b p) vas (st_pl s))
     /\ st_l2v s1 = cupdate b (fold_left (fun l v => list_remove_first v l) vbs (lb ++ vas))
                      (cupdate a (fold_left (fun l v => list_remove_first v l) vas la ++ vbs) (st_l2v s))
     /\ same_frame (st_m s) (st_m s1)
     /\ pm_exc (st_m s1)
        = cupdate b (adj (fun r => dsum vr vbs r - dsum vr vas r) (chip_res (st_m s) b))
            (cupdate a (adj (fun r => dsum vr vas r - dsum vr vbs r) (chip_res (st_m s) a)) (pm_exc (st_m s)))
     /\ pm_res (st_m s1) = pm_res (st_m s).
Proof.
  intros vr vas a vbs b s s1 H. unfold swap, lv_get in H.
  destruct (cassoc a (st_l2v s)) as [la|] eqn:Ela; [|discriminate].
  destruct (cassoc b (st_l2v s)) as [lb|] eqn:Elb; [|discriminate].
  destruct (mget (st_m s) a) as [ra|] eqn:Ega; [|discriminate].
  destruct (mget (st_m s) b) as [rb|] eqn:Egb; [|discriminate].
  apply mget_spec in Ega. destruct Ega as [Hla Hra]. apply mget_spec in Egb. destruct Egb as [Hlb Hrb]. subst ra rb.
  destruct (move_all vr vas b (st_pl s) la lb (chip_res (st_m s) a) (chip_res (st_m s) b))
    as [[[[[pl1 la1] lb1] ra1] rb1]| | |] eqn:E1; cbn [bind] in H; try discriminate.
  destruct (move_all vr vbs a pl1 lb1 la1 rb1 ra1) as [[[[[pl2 lb2] la2] rb2] ra2]| | |] eqn:E2; cbn [bind] in H;
    try discriminate.
  destruct (mset (st_m s) a ra2) as [m1|] eqn:Es1; [|discriminate].
  destruct (mset m1 b rb2) as [m2|] eqn:Es2; [|discriminate]. inversion H. subst s1. clear H.
  cbn [st_pl st_l2v st_m].
  destruct (move_all_spec _ _ _ _ _ _ _ _ _ _ _ _ _ E1) as [M1 [M2 [M3 [M4 [M5 M6]]]]].
  destruct (move_all_spec _ _ _ _ _ _ _ _ _ _ _ _ _ E2) as [N1 [N2 [N3 [N4 [N5 N6]]]]].
  apply mset_spec in Es1. destruct Es1 as [F1 [R1 [_ [X1 _]]]].
  apply mset_spec in Es2. destruct Es2 as [F2 [R2 [_ [X2 _]]]].
  split; [exact Hla|]. split; [exact Hlb|]. split; [intros v [Hv | Hv]; [apply M1 | apply N1]; exact Hv|].
  exists la, lb. split; [reflexivity|]. split; [reflexivity|].
  split; [rewrite N2, M2; reflexivity|].
  split; [rewrite N3, N4, M3, M4; reflexivity|].
  split; [eapply same_frame_trans; eassumption|]. split.
  - rewrite X2, X1. f_equal.
    + rewrite N5, M6, adj_adj. apply adj_ext. intros r. lia.
    + f_equal. rewrite N6, M5, adj_adj. apply adj_ext. intros r. lia.
  - rewrite R2, R1. reflexivity.
Qed.
