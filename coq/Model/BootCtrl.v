(* Executable model of the other entry points to boot (definitions only; proofs in Proofs/BootCtrl.v):
     MachineController(host, boot_port=..., structs=...)                       -- OpNew
     rig.machine_control.boot.boot(...)                                        -- OpBoot
     controller.boot(width, height, only_if_needed=False, check_booted=False, **boot_kwargs)   -- OpCtrlBoot
     rig-boot HOST [--flag]  (rig/scripts/rig_boot.py)                         -- cli_ops
   The shape this model relies on is re-extracted from the source on every run by tools/dump_c20w.py
   (Generated/GenBootCtrl.v; anything else is a broken obligation): the controller forwards
   self.initial_host and **boot_kwargs unchanged, completes boot_port with self.boot_port, only warns about
   the deprecated width / height, REPLACES self.structs by what boot() returns, and nothing else in the class
   binds or mutates self.structs; boot() reads the image and the struct file afresh on every call.
   The SCP probing of only_if_needed / check_booted talks to the machine and is outside the model. *)
From Coq Require Import ZArith List Bool String.
Require Import Rig.Generated.GenBoot Rig.Generated.GenBootImage Rig.Generated.GenBootCtrl.
Require Import Rig.Model.Base Rig.Model.Boot.
Import ListNotations.
Open Scope Z_scope.

(* what a controller knows that matters for booting: initial_host, boot_port, structs[b"sv"] *)
Record ctrl := mkctrl { k_host : Z; k_boot_port : Z; k_sv : sdef }.

(* state of the process: the shared default dictionary of boot() and the controllers created so far *)
Record pstate := mkpstate { p_shared : dict; p_ctrls : list ctrl }.
Definition initial_pstate : pstate := mkpstate initial_shared [].

Inductive op :=
| OpNew (host : Z) (boot_port : option Z) (structs : option sdef)   (* None: the parameter's default *)
| OpBoot (c : call)
| OpCtrlBoot (k : nat) (width height : option Z) (c : call).
  (* controller number k; of c the fields c_host is unused (the controller supplies it), c_port is the
     boot_port keyword if given, c_overrides the sv_overrides keyword if given, c_kwargs the other keywords *)

(* the arguments boot.boot receives from controller.boot: width and height do not occur *)
Definition ctrl_call (ct : ctrl) (c : call) : call :=
  mkcall (k_host ct) (Some (match c_port c with Some p => p | None => k_boot_port ct end))
         (c_image c) (c_sv c) (c_overrides c) (c_kwargs c) (c_clock c).

Fixpoint set_nth {A} (k : nat) (x : A) (l : list A) : list A :=
  match l, k with
  | [], _ => []
  | _ :: r, O => x :: r
  | y :: r, S k' => y :: set_nth k' x r
  end.

Definition new_ctrl (host : Z) (boot_port : option Z) (structs : option sdef) : ctrl :=
  mkctrl host (match boot_port with Some p => p | None => ctrl_default_boot_port end)
         (match structs with Some s => s | None => live_sv end).    (* a fresh parse of the bundled struct file *)

(* self.structs = boot.boot(...): only a boot that returns replaces the controller's structs *)
Definition ctrl_after (ct : ctrl) (c : call) (r : result (list field)) : ctrl :=
  match r with
  | Ok fs => mkctrl (k_host ct) (k_boot_port ct) (mksdef (s_size (c_sv c)) fs)
  | _ => ct
  end.

(* no such controller: not an operation of the library (the harness never does it) *)
Definition no_outcome : outcome := mkout None [] OtherError None.

Definition op_step (step : dict -> call -> dict * outcome) (st : pstate) (o : op) : pstate * option outcome :=
  match o with
  | OpNew h p s => (mkpstate (p_shared st) (p_ctrls st ++ [new_ctrl h p s]), None)
  | OpBoot c => let '(sh, out) := step (p_shared st) c in (mkpstate sh (p_ctrls st), Some out)
  | OpCtrlBoot k w h c =>
      match nth_error (p_ctrls st) k with
      | None => (st, Some no_outcome)
      | Some ct =>
          let '(sh, out) := step (p_shared st) (ctrl_call ct c) in
          (mkpstate sh (set_nth k (ctrl_after ct c (o_result out)) (p_ctrls st)), Some out)
      end
  end.

Fixpoint run_ops (step : dict -> call -> dict * outcome) (st : pstate) (ops : list op)
  : pstate * list (option outcome) :=
  match ops with
  | [] => (st, [])
  | o :: ops' =>
      let '(st1, out) := op_step step st o in
      let '(st2, outs) := run_ops step st1 ops' in
      (st2, out :: outs)
  end.

(* ------------------------------------------------------------------ rig-boot HOST [--flag] *)
Fixpoint flag_options (flag : string) (table : list (string * dict)) : option dict :=
  match table with
  | [] => None
  | (f, o) :: r => if String.eqb flag f then Some o else flag_options flag r
  end.

(* the options the tool passes for a flag; an unknown flag makes argparse exit before anything happens *)
Definition rig_boot_options (flag : option string) : option dict :=
  match flag with
  | None => Some rig_boot_no_flag
  | Some f => flag_options f rig_boot_flags
  end.

(* MachineController(HOST).boot( **options ) with the bundled image and struct file; the controller is the
   [k]-th of the process *)
Definition cli_ops (host : Z) (flag : option string) (clock : nat -> Z) (k : nat) : list op :=
  match rig_boot_options flag with
  | Some opts => [OpNew host None None;
                  OpCtrlBoot k None None (mkcall host None scamp_boot live_sv None opts clock)]
  | None => []
  end.

(* ------------------------------------------------------------------ for the correspondence harness *)
Definition observe_ops (step : dict -> call -> dict * outcome) (ops : list op) :=
  let '(st, outs) := run_ops step initial_pstate ops in
  (p_shared st,
   map observe (flat_map (fun o => match o with Some x => [x] | None => [] end) outs),
   map (fun ct => (k_host ct, k_boot_port ct, map f_default (s_fields (k_sv ct)))) (p_ctrls st)).
