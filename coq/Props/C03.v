(* C03 -- Routing trees are loop-free, connected and use only live hardware.
   Property theorems only; each is closed by `exact` of a lemma of Proofs/Route*.v.

   What is proved for ALL inputs (U) and what is certified per instance (V):
   * V  C03_check_tree_sound / C03_check_connected_sound: the two validators evaluated inside Coq by
        ./check on every real output of route() are sound for the property's sentence (ValidTree) and for
        "all working chips reach each other over working links" (Connected).
   The universal theorems about the model of ner_net follow below as they are closed. *)
From Coq Require Import ZArith List Bool.
Require Import Rig.Model.Base Rig.Model.Route Rig.Spec.Route Rig.Proofs.Route.
Import ListNotations.
Open Scope Z_scope.

(* V: a tree accepted by the validator satisfies the property's sentence, for every machine, source chip,
   sink requirements and tree. *)
Theorem C03_check_tree_sound :
  forall m src sinks t, check_tree m src sinks t = true -> ValidTree m src sinks t.
Proof. exact check_tree_sound. Qed.

(* V: a machine accepted by the connectivity validator has all working chips mutually reachable over
   working links (so MachineHasDisconnectedSubregion is not a permitted outcome on it). *)
Theorem C03_check_connected_sound :
  forall m, check_connected m = true -> Connected m.
Proof. exact check_connected_sound. Qed.
