(* Ordered covering, part 2: _get_all_merges yields well-formed index sets; _refine_upcheck and
   _refine_downcheck establish the conditions UP and DOWN under which _Merge.apply preserves the
   invariant (Proofs/TableOC.v); the down-check loop terminates. *)
From Coq Require Import ZArith List Bool Lia Arith.
Require Import Rig.Generated.GenTable.
Require Import Rig.Model.Base Rig.Model.Table Rig.Spec.Table.
Require Import Rig.Proofs.TableCheck Rig.Proofs.Table Rig.Proofs.TableBits Rig.Proofs.TableIns.
Require Import Rig.Proofs.TableOC.
Import ListNotations.
Open Scope Z_scope.

(* ------------------------------------------------------------------------------------------------ *)
(** * Index sets *)

Fixpoint incr (l : list nat) : Prop :=
  match l with
  | [] => True
  | x :: r => (forall y, In y r -> (x < y)%nat) /\ incr r
  end.

Lemma incr_NoDup : forall l, incr l -> NoDup l.
Proof.
  induction l as [| x r IH]; intros H; [constructor |]. destruct H as [Hx Hr].
  constructor; [| apply IH; exact Hr]. intro Hin. specialize (Hx x Hin). lia.
Qed.

Lemma incr_filter : forall f l, incr l -> incr (filter f l).
Proof.
  intros f. induction l as [| x r IH]; intros H; simpl; [exact I |]. destruct H as [Hx Hr].
  destruct (f x); [| apply IH; exact Hr]. split; [| apply IH; exact Hr].
  intros y Hy. apply filter_In in Hy. apply Hx. apply Hy.
Qed.

Lemma ndiff_incl : forall a b, incl (ndiff a b) a.
Proof. intros a b x H. unfold ndiff in H. apply filter_In in H. apply H. Qed.

Lemma ndiff_In : forall a b x, In x (ndiff a b) <-> In x a /\ ~ In x b.
Proof.
  intros a b x. unfold ndiff. rewrite filter_In. split; intros [H1 H2]; split; try exact H1.
  - intro Hb. apply nmem_In in Hb. rewrite Hb in H2. discriminate.
  - destruct (nmem x b) eqn:Hm; [apply nmem_In in Hm; contradiction | reflexivity].
Qed.

Lemma members_incl : forall T E' E, incl E' E -> incl (members T E') (members T E).
Proof.
  intros T E' E H x Hx. apply In_members in Hx. destruct Hx as [i [Hi Hx]].
  apply In_members. exists i. split; [apply H; exact Hi | exact Hx].
Qed.

Lemma members_nonempty : forall T E i, In i E -> (i < length T)%nat -> members T E <> [].
Proof.
  intros T E i Hi Hlt H0. destruct (nth_error T i) as [x |] eqn:Hx.
  - assert (Hin : In x (members T E)) by (apply In_members; exists i; split; assumption).
    rewrite H0 in Hin. destruct Hin.
  - apply nth_error_None in Hx. lia.
Qed.

Lemma same_route_incl : forall T E' E, incl E' E -> same_route T E -> same_route T E'.
Proof.
  intros T E' E H Hs a b Ha Hb. apply Hs; apply (members_incl T E' E H); assumption.
Qed.

(* ------------------------------------------------------------------------------------------------ *)
(** * _get_all_merges *)

Lemma same_route_from_spec : forall r l start j,
  In j (same_route_from r l start) ->
  (start <= j)%nat /\ exists e, nth_error l (j - start) = Some e /\ e_route e = r.
Proof.
  intros r l. induction l as [| e l IH]; intros start j H; simpl in H; [destruct H |].
  destruct (e_route e =? r) eqn:Hr.
  - destruct H as [<- | H].
    + split; [lia |]. exists e. rewrite Nat.sub_diag. split; [reflexivity | apply Z.eqb_eq; exact Hr].
    + destruct (IH (S start) j H) as [Hle [e' [He' Hr']]]. split; [lia |]. exists e'.
      replace (j - start)%nat with (S (j - S start)) by lia. split; assumption.
  - destruct (IH (S start) j H) as [Hle [e' [He' Hr']]]. split; [lia |]. exists e'.
    replace (j - start)%nat with (S (j - S start)) by lia. split; assumption.
Qed.

Lemma same_route_from_incr : forall r l start,
  incr (same_route_from r l start) /\ forall j, In j (same_route_from r l start) -> (start <= j)%nat.
Proof.
  intros r l. induction l as [| e l IH]; intros start; simpl; [split; [exact I | intros j []] |].
  destruct (IH (S start)) as [Hi Hb].
  destruct (e_route e =? r).
  - split.
    + split; [| exact Hi]. intros y Hy. specialize (Hb y Hy). lia.
    + intros j [<- | Hj]; [lia | specialize (Hb j Hj); lia].
  - split; [exact Hi |]. intros j Hj. specialize (Hb j Hj). lia.
Qed.

(* what every index set yielded by _get_all_merges satisfies *)
Definition idxs_ok (T : table) (E : list nat) : Prop :=
  incr E /\ (forall i, In i E -> (i < length T)%nat) /\ same_route T E.

Lemma skipn_S_cons : forall {X} i (T : list X) e r, skipn i T = e :: r -> skipn (S i) T = r.
Proof.
  intros X i. induction i as [| i IH]; intros T e r H.
  - simpl in H. subst T. reflexivity.
  - destruct T as [| x T]; [discriminate |]. simpl in H. apply IH in H. exact H.
Qed.

Lemma all_merges_go_ok : forall T rest i considered E,
  rest = skipn i T ->
  In E (all_merges_go rest i considered) -> idxs_ok T E.
Proof.
  intros T rest. induction rest as [| e rest' IH]; intros i considered E Hrest HE; cbn [all_merges_go] in HE; [destruct HE |].
  assert (Hrest' : rest' = skipn (S i) T).
  { symmetry. apply (skipn_S_cons i T e rest'). symmetry. exact Hrest. }
  assert (Hei : nth_error T i = Some e).
  { rewrite <- (Nat.add_0_r i). rewrite <- nth_error_skipn_add. rewrite <- Hrest. reflexivity. }
  destruct (nmem i considered); [apply (IH (S i) considered E Hrest' HE) |].
  set (m := i :: same_route_from (e_route e) rest' (S i)) in *.
  assert (Hm : idxs_ok T m).
  { destruct (same_route_from_incr (e_route e) rest' (S i)) as [Hinc Hb].
    assert (Hroute_of : forall j, In j m -> exists x, nth_error T j = Some x /\ e_route x = e_route e).
    { intros j [<- | Hj]; [exists e; split; [exact Hei | reflexivity] |].
      destruct (same_route_from_spec _ _ _ _ Hj) as [Hle [x [Hx Hr]]]. exists x. split; [| exact Hr].
      rewrite Hrest' in Hx. rewrite nth_error_skipn_add in Hx.
      replace (S i + (j - S i))%nat with j in Hx by lia. exact Hx. }
    split; [| split].
    - split; [| exact Hinc]. intros y Hy. specialize (Hb y Hy). lia.
    - intros j Hj. destruct (Hroute_of j Hj) as [x [Hx _]]. apply nth_error_Some. congruence.
    - intros a b Ha Hb'. apply In_members in Ha. apply In_members in Hb'.
      destruct Ha as [ja [Hja Ha]]. destruct Hb' as [jb [Hjb Hb']].
      destruct (Hroute_of ja Hja) as [xa [Hxa Hra]]. destruct (Hroute_of jb Hjb) as [xb [Hxb Hrb]].
      assert (xa = a) by congruence. assert (xb = b) by congruence. subst. congruence. }
  destruct (Nat.ltb 1 (length m)).
  - destruct HE as [<- | HE]; [exact Hm | apply (IH (S i) (m ++ considered) E Hrest' HE)].
  - apply (IH (S i) (m ++ considered) E Hrest' HE).
Qed.

Lemma all_merges_ok : forall T E, In E (all_merges T) -> idxs_ok T E.
Proof. intros T E H. apply (all_merges_go_ok T T 0 [] E); [reflexivity | exact H]. Qed.

Lemma idxs_ok_sub : forall T E E', idxs_ok T E -> incl E' E -> incr E' -> idxs_ok T E'.
Proof.
  intros T E E' [_ [Hlt Hr]] Hincl Hinc. split; [exact Hinc | split].
  - intros i Hi. apply Hlt. apply Hincl. exact Hi.
  - apply (same_route_incl T E' E Hincl Hr).
Qed.

Lemma idxs_ok_ndiff : forall T E R, idxs_ok T E -> idxs_ok T (ndiff E R).
Proof.
  intros T E R H. apply (idxs_ok_sub T E); [exact H | apply ndiff_incl |].
  unfold ndiff. apply incr_filter. apply H.
Qed.

(* ------------------------------------------------------------------------------------------------ *)
(** * Insertion index of a merge never grows when entries are removed *)

Definition is_merge (T : table) (M : merge) : Prop := M = mk_merge T (gens_of T) (m_entries M).

Lemma is_merge_mk : forall T E, is_merge T (mk_merge T (gens_of T) E).
Proof.
  intros T E. unfold is_merge. destruct (mk_merge_fields T (gens_of T) E) as [-> _]. reflexivity.
Qed.

Lemma mk_merge_entries : forall T g E, m_entries (mk_merge T g E) = E.
Proof. intros T g E. apply (mk_merge_fields T g E). Qed.

Lemma mk_merge_goodness : forall T g E, m_goodness (mk_merge T g E) = len E - 1.
Proof. intros T g E. apply (mk_merge_fields T g E). Qed.

Lemma goodness_two : forall T g E mg, 0 <= mg -> m_goodness (mk_merge T g E) > mg -> (2 <= length E)%nat.
Proof. intros T g E mg Hmg H. rewrite mk_merge_goodness in H. unfold len in H. lia. Qed.

Lemma mk_merge_ins_mono : forall T E' E,
  sortedz (gens_of T) -> incl E' E -> members T E' <> [] ->
  (m_ins (mk_merge T (gens_of T) E') <= m_ins (mk_merge T (gens_of T) E))%nat.
Proof.
  intros T E' E Hs Hincl Hne.
  destruct (mk_merge_fields T (gens_of T) E') as [_ [Hkm' [_ [_ [Hins' _]]]]].
  destruct (mk_merge_fields T (gens_of T) E) as [_ [Hkm [_ [_ [Hins _]]]]].
  apply (ins_spec_mono (gens_of T)
           (get_generality (m_key (mk_merge T (gens_of T) E)) (m_mask (mk_merge T (gens_of T) E)))
           (get_generality (m_key (mk_merge T (gens_of T) E')) (m_mask (mk_merge T (gens_of T) E')))).
  - rewrite Hins. apply insertion_index_spec. exact Hs.
  - rewrite Hins'. apply insertion_index_spec. exact Hs.
  - pose proof (merge_km_gen_mono (members T E') (members T E) Hne (members_incl T E' E Hincl)) as H.
    rewrite <- Hkm', <- Hkm in H. exact H.
Qed.

Lemma UP_mono : forall T E E' ins ins',
  UP T E ins -> incl E' E -> (ins' <= ins)%nat -> UP T E' ins'.
Proof.
  intros T E E' ins ins' H Hincl Hle i j a b Hi Hij Hj Ha Hb.
  apply (H i j a b); try assumption; [apply Hincl; exact Hi | lia].
Qed.

(* ------------------------------------------------------------------------------------------------ *)
(** * The down-check *)

Lemma flat_map_nil : forall {X Y} (f : X -> list Y) l, flat_map f l = [] -> forall x, In x l -> f x = [].
Proof.
  intros X Y f l. induction l as [| y l IH]; intros H x Hx; [destruct Hx |]. simpl in H.
  apply app_eq_nil in H. destruct H as [H1 H2]. destruct Hx as [<- | Hx]; [exact H1 | apply IH; assumption].
Qed.

Lemma filter_nil : forall {X} (f : X -> bool) l, filter f l = [] -> forall x, In x l -> f x = false.
Proof.
  intros X f l. induction l as [| y l IH]; intros H x Hx; [destruct Hx |]. simpl in H.
  destruct (f y) eqn:Hy; [discriminate |]. destruct Hx as [<- | Hx]; [exact Hy | apply IH; assumption].
Qed.

Lemma covered_nil_DOWN : forall T A M,
  covered_kms T A M = [] -> DOWN T A (m_key M, m_mask M) (m_ins M).
Proof.
  intros T A M H x c Hx Hc. unfold covered_kms in H.
  pose proof (flat_map_nil _ _ H x Hx) as Hf. cbv beta in Hf.
  unfold al in Hc. simpl.
  destruct (alias_get (km_of x) A) as [s |]; apply (filter_nil _ _ Hf c Hc).
Qed.

(* what _refine_downcheck returns *)
Lemma downcheck_spec : forall fuel T A mg M M',
  0 <= mg -> is_merge T M -> idxs_ok T (m_entries M) ->
  downcheck fuel T (gens_of T) A mg M = Ok M' ->
  is_merge T M' /\ idxs_ok T (m_entries M') /\ incl (m_entries M') (m_entries M)
  /\ (m_goodness M' > mg -> DOWN T A (m_key M', m_mask M') (m_ins M')).
Proof.
  induction fuel as [| f IH]; intros T A mg M M' Hmg HM Hok H; simpl in H.
  - destruct (m_goodness M <=? mg) eqn:Hg; [| discriminate].
    injection H as <-. split; [apply is_merge_mk | split; [| split]].
    + rewrite mk_merge_entries. split; [exact I | split; [intros i [] | intros a b []]].
    + rewrite mk_merge_entries. intros i [].
    + rewrite mk_merge_goodness. unfold len. simpl. lia.
  - destruct (m_goodness M <=? mg) eqn:Hg.
    + injection H as <-. split; [apply is_merge_mk | split; [| split]].
      * rewrite mk_merge_entries. split; [exact I | split; [intros i [] | intros a b []]].
      * rewrite mk_merge_entries. intros i [].
      * rewrite mk_merge_goodness. unfold len. simpl. lia.
    + destruct (covered_kms T A M) as [| c0 cs] eqn:Hcov.
      * injection H as <-. split; [exact HM | split; [exact Hok | split; [apply incl_refl |]]].
        intros _. apply covered_nil_DOWN. exact Hcov.
      * destruct (stringency (c0 :: cs) (m_mask M)) as [[ms bt] bf].
        destruct (ms =? 0).
        -- injection H as <-. split; [apply is_merge_mk | split; [| split]].
           ++ rewrite mk_merge_entries. split; [exact I | split; [intros i [] | intros a b []]].
           ++ rewrite mk_merge_entries. intros i [].
           ++ rewrite mk_merge_goodness. unfold len. simpl. lia.
        -- apply IH in H; try assumption.
           ++ rewrite mk_merge_entries in H. destruct H as [H1 [H2 [H3 H4]]].
              split; [exact H1 | split; [exact H2 | split; [| exact H4]]].
              intros i Hi. apply (ndiff_incl _ _ i (H3 i Hi)).
           ++ apply is_merge_mk.
           ++ rewrite mk_merge_entries. apply idxs_ok_ndiff. exact Hok.
Qed.

(* ------------------------------------------------------------------------------------------------ *)
(** * The up-check *)

Lemma In_slice_between : forall T i ins j b,
  (i < j)%nat -> (j < ins)%nat -> nth_error T j = Some b -> In b (slice_between T i ins).
Proof.
  intros T i ins j b Hij Hj Hb. unfold slice_between.
  apply (nth_error_In _ (j - S i)).
  rewrite nth_error_firstn_lt by lia. rewrite nth_error_skipn_add.
  replace (S i + (j - S i))%nat with j by lia. exact Hb.
Qed.

(* the up-check condition for one member *)
Definition UP1 (T : table) (i ins : nat) : Prop :=
  forall j a b, (i < j)%nat -> (j < ins)%nat ->
                nth_error T i = Some a -> nth_error T j = Some b -> intersects a b = false.

Definition up_step (T : table) (mg : Z) (st : merge * bool * bool) (i : nat) : merge * bool * bool :=
  let '(cur, changed, stop) := st in
  if (stop : bool) then st
  else match nth_error T i with
       | None => st
       | Some e =>
           if existsb (intersects e) (slice_between T i (m_ins cur)) then
             let cur' := mk_merge T (gens_of T) (ndiff (m_entries cur) [i]) in
             if m_goodness cur' <=? mg
             then (mk_merge T (gens_of T) [], true, true)
             else (cur', true, false)
           else st
       end.

Definition up_inv (T : table) (mg : Z) (M : merge) (done : list nat) (st : merge * bool * bool) : Prop :=
  let '(cur, changed, stop) := st in
  is_merge T cur /\ idxs_ok T (m_entries cur) /\ incl (m_entries cur) (m_entries M)
  /\ (changed = false -> cur = M)
  /\ (stop = true -> m_goodness cur <= mg)
  /\ (stop = false -> forall i, In i (m_entries cur) -> In i done -> UP1 T i (m_ins cur)).

Lemma up_step_inv : forall T mg M done st i,
  0 <= mg -> sortedz (gens_of T) -> (i < length T)%nat ->
  up_inv T mg M done st -> up_inv T mg M (i :: done) (up_step T mg st i).
Proof.
  intros T mg M done [[cur changed] stop] i Hmg Hs Hi [H1 [H2 [H3 [H5 [H6 H7]]]]].
  unfold up_step. destruct stop.
  - split; [exact H1 | split; [exact H2 | split; [exact H3 | split; [exact H5 |]]]].
    split; [exact H6 | intros Hf; discriminate].
  - destruct (nth_error T i) as [e |] eqn:He; [| apply nth_error_None in He; lia].
    destruct (existsb (intersects e) (slice_between T i (m_ins cur))) eqn:Hex.
    + set (cur' := mk_merge T (gens_of T) (ndiff (m_entries cur) [i])).
      destruct (m_goodness cur' <=? mg) eqn:Hg.
      * split; [apply is_merge_mk | rewrite mk_merge_entries].
        split; [split; [exact I | split; [intros j [] | intros a b []]] |].
        split; [intros j [] |].
        split; [intros Hf; discriminate | split; [intros _ | intros Hf; discriminate]].
        rewrite mk_merge_goodness. unfold len. simpl. lia.
      * apply Z.leb_gt in Hg.
        assert (Hincl' : incl (ndiff (m_entries cur) [i]) (m_entries cur)) by apply ndiff_incl.
        assert (Hne' : members T (ndiff (m_entries cur) [i]) <> []).
        { unfold cur' in Hg. pose proof (goodness_two T (gens_of T) (ndiff (m_entries cur) [i]) mg Hmg ltac:(lia)) as H2'.
          destruct (ndiff (m_entries cur) [i]) as [| j0 r0] eqn:Hnd; [simpl in H2'; lia |].
          apply (members_nonempty T _ j0); [left; reflexivity |].
          destruct H2 as [_ [Hlt _]]. apply Hlt. apply Hincl'. left. reflexivity. }
        assert (Hmono : (m_ins cur' <= m_ins cur)%nat).
        { unfold cur'. rewrite H1 at 2. apply mk_merge_ins_mono; assumption. }
        assert (Hent' : m_entries cur' = ndiff (m_entries cur) [i]) by apply mk_merge_entries.
        split; [apply is_merge_mk | rewrite Hent'].
        split; [apply idxs_ok_ndiff; exact H2 |].
        split; [intros j Hj; apply H3; apply Hincl'; exact Hj |].
        split; [intros Hf; discriminate | split; [intros Hf; discriminate | intros _]].
        intros j Hj Hd. apply ndiff_In in Hj. destruct Hj as [Hj Hne].
        destruct Hd as [<- | Hd]; [exfalso; apply Hne; left; reflexivity |].
        intros j' a b Hjj' Hj'ins. apply (H7 eq_refl j Hj Hd j' a b Hjj'). lia.
    + split; [exact H1 | split; [exact H2 | split; [exact H3 | split; [exact H5 |]]]].
      split; [exact H6 | intros _].
      intros j Hj [<- | Hd]; [| apply (H7 eq_refl j Hj Hd)].
      intros j' a b Hjj' Hj'ins Ha Hb. rewrite He in Ha. injection Ha as <-.
      destruct (intersects e b) eqn:Hi'; [| reflexivity].
      assert (Hex' : existsb (intersects e) (slice_between T i (m_ins cur)) = true).
      { apply existsb_exists. exists b. split; [apply (In_slice_between T i _ j'); assumption | exact Hi']. }
      rewrite Hex' in Hex. discriminate.
Qed.

Lemma up_fold_inv : forall T mg M l done st,
  0 <= mg -> sortedz (gens_of T) -> (forall i, In i l -> (i < length T)%nat) ->
  up_inv T mg M done st -> up_inv T mg M (rev l ++ done) (fold_left (up_step T mg) l st).
Proof.
  intros T mg M l. induction l as [| i l IH]; intros done st Hmg Hs Hl Hinv; simpl; [exact Hinv |].
  rewrite <- app_assoc. simpl. apply IH; try assumption.
  - intros j Hj. apply Hl. right. exact Hj.
  - apply up_step_inv; try assumption. apply Hl. left. reflexivity.
Qed.

Lemma refine_upcheck_unfold : forall T mg M,
  refine_upcheck T (gens_of T) mg M =
  (fst (fst (fold_left (up_step T mg) (rev (m_entries M)) (M, false, false))),
   snd (fst (fold_left (up_step T mg) (rev (m_entries M)) (M, false, false)))).
Proof.
  intros T mg M. unfold refine_upcheck.
  match goal with |- context [fold_left ?f _ _] => change f with (up_step T mg) end.
  destruct (fold_left (up_step T mg) (rev (m_entries M)) (M, false, false)) as [[m' ch] st]. reflexivity.
Qed.

(* what _refine_upcheck returns *)
Lemma upcheck_spec : forall T mg M M' ch,
  0 <= mg -> sortedz (gens_of T) -> is_merge T M -> idxs_ok T (m_entries M) ->
  refine_upcheck T (gens_of T) mg M = (M', ch) ->
  is_merge T M' /\ idxs_ok T (m_entries M') /\ incl (m_entries M') (m_entries M)
  /\ (ch = false -> M' = M)
  /\ (m_goodness M' > mg -> UP T (m_entries M') (m_ins M')).
Proof.
  intros T mg M M' ch Hmg Hs HM Hok H. rewrite refine_upcheck_unfold in H.
  assert (Hinit : up_inv T mg M [] (M, false, false)).
  { split; [exact HM | split; [exact Hok | split; [apply incl_refl |]]].
    split; [intros _; reflexivity | split; [intros Hf; discriminate | intros _ i _ []]]. }
  pose proof (up_fold_inv T mg M (rev (m_entries M)) [] (M, false, false) Hmg Hs) as Hf.
  rewrite rev_involutive, app_nil_r in Hf.
  assert (Hlt : forall i, In i (rev (m_entries M)) -> (i < length T)%nat).
  { intros i Hi. apply in_rev in Hi. destruct Hok as [_ [Hlt _]]. apply Hlt. exact Hi. }
  specialize (Hf Hlt Hinit).
  destruct (fold_left (up_step T mg) (rev (m_entries M)) (M, false, false)) as [[cur changed] stop].
  simpl in H. injection H as <- <-.
  destruct Hf as [H1 [H2 [H3 [H5 [H6 H7]]]]].
  split; [exact H1 | split; [exact H2 | split; [exact H3 | split; [exact H5 |]]]].
  intros Hg. destruct stop; [specialize (H6 eq_refl); lia |].
  intros i j a b Hi Hij Hj Ha Hb. apply (H7 eq_refl i Hi (H3 i Hi) j a b Hij Hj Ha Hb).
Qed.

(* ------------------------------------------------------------------------------------------------ *)
(** * _refine_merge and _get_best_merge *)

(* a merge that may be applied: the hypotheses of apply_merge_preserves *)
Definition applicable (T : table) (A : aliases) (M : merge) : Prop :=
  is_merge T M /\ idxs_ok T (m_entries M) /\ (2 <= length (m_entries M))%nat
  /\ UP T (m_entries M) (m_ins M) /\ DOWN T A (m_key M, m_mask M) (m_ins M).

Lemma is_merge_two : forall T M mg, is_merge T M -> 0 <= mg -> m_goodness M > mg ->
  (2 <= length (m_entries M))%nat.
Proof.
  intros T M mg HM Hmg Hg. rewrite HM in Hg. apply goodness_two in Hg; [| exact Hmg].
  exact Hg.
Qed.

Lemma refine_merge_spec : forall T A mg M M',
  0 <= mg -> sortedz (gens_of T) -> is_merge T M -> idxs_ok T (m_entries M) ->
  refine_merge T (gens_of T) A mg M = Ok M' ->
  m_goodness M' > mg -> applicable T A M'.
Proof.
  intros T A mg M M' Hmg Hs HM Hok H Hg. unfold refine_merge, refine_downcheck in H.
  destruct (downcheck (S (length (m_entries M))) T (gens_of T) A mg M) as [m1 | | |] eqn:Hd1;
    try discriminate.
  cbn [bind] in H.
  destruct (downcheck_spec _ _ _ _ _ _ Hmg HM Hok Hd1) as [HM1 [Hok1 [Hincl1 Hdown1]]].
  destruct (m_goodness m1 >? mg) eqn:Hg1.
  - apply Z.gtb_lt in Hg1.
    destruct (refine_upcheck T (gens_of T) mg m1) as [m2 ch] eqn:Hup.
    destruct (upcheck_spec T mg m1 m2 ch Hmg Hs HM1 Hok1 Hup) as [HM2 [Hok2 [Hincl2 [Hsame Hup2]]]].
    destruct (ch && (m_goodness m2 >? mg)) eqn:Hc.
    + apply andb_true_iff in Hc. destruct Hc as [_ Hg2]. apply Z.gtb_lt in Hg2.
      destruct (downcheck_spec _ _ _ _ _ _ Hmg HM2 Hok2 H) as [HM3 [Hok3 [Hincl3 Hdown3]]].
      split; [exact HM3 | split; [exact Hok3 | split; [apply (is_merge_two T M' mg HM3 Hmg Hg) |]]].
      split; [| apply Hdown3; exact Hg].
      apply (UP_mono T (m_entries m2) (m_entries M') (m_ins m2)); [apply Hup2; lia | exact Hincl3 |].
      rewrite HM3, HM2. apply mk_merge_ins_mono; [exact Hs | exact Hincl3 |].
      pose proof (is_merge_two T M' mg HM3 Hmg Hg) as H2.
      destruct (m_entries M') as [| j0 r0] eqn:He; [simpl in H2; lia |].
      apply (members_nonempty T _ j0); [left; reflexivity |].
      destruct Hok3 as [_ [Hlt _]]. apply Hlt. left. reflexivity.
    + injection H as <-.
      assert (Hch : ch = false).
      { destruct ch; [| reflexivity]. simpl in Hc.
        rewrite Z.gtb_ltb in Hc. apply Z.ltb_ge in Hc. lia. }
      specialize (Hsame Hch). subst m2.
      split; [exact HM1 | split; [exact Hok1 | split; [apply (is_merge_two T m1 mg HM1 Hmg Hg) |]]].
      split; [apply Hup2; exact Hg | apply Hdown1; exact Hg].
  - injection H as <-. rewrite Z.gtb_ltb in Hg1. apply Z.ltb_ge in Hg1. lia.
Qed.

(* ------------------------------------------------------------------------------------------------ *)
(** * The down-check loop terminates: every iteration removes an entry from the merge *)

Lemma bits32_desc_range : forall b, In b bits32_desc <-> 0 <= b < 32.
Proof.
  intros b. unfold bits32_desc. rewrite in_map_iff. split.
  - intros [n [<- Hn]]. apply in_rev in Hn. apply in_seq in Hn. lia.
  - intros Hb. exists (Z.to_nat b). split; [lia |]. apply in_rev. rewrite rev_involutive. apply in_seq. lia.
Qed.

Lemma sum01_pos : forall (l : list Z) (f : Z -> bool),
  fold_right Z.add 0 (map (fun b => if f b then 1 else 0) l) > 0 -> exists b, In b l /\ f b = true.
Proof.
  induction l as [| x l IH]; intros f H; simpl in H; [lia |].
  destruct (f x) eqn:Hx; [exists x; split; [left; reflexivity | exact Hx] |].
  destruct (IH f ltac:(lia)) as [b [Hb Hf]]. exists b. split; [right; exact Hb | exact Hf].
Qed.

Lemma sum01_le : forall (l : list Z) (f : Z -> bool),
  0 <= fold_right Z.add 0 (map (fun b => if f b then 1 else 0) l) <= Z.of_nat (length l).
Proof.
  induction l as [| x l IH]; intros f; simpl fold_right; simpl length; [lia |].
  specialize (IH f). destruct (f x); lia.
Qed.

Lemma popcount32_pos : forall x, popcount32 x > 0 -> exists b, 0 <= b < 32 /\ Z.testbit x b = true.
Proof.
  intros x H. unfold popcount32 in H. apply sum01_pos in H. destruct H as [b [Hb Hx]].
  exists b. split; [apply bits32_desc_range; exact Hb | exact Hx].
Qed.

Lemma popcount32_range : forall x, 0 <= popcount32 x <= 32.
Proof.
  intros x. unfold popcount32. pose proof (sum01_le bits32_desc (Z.testbit x)) as H.
  assert (Hl : length bits32_desc = 32%nat) by reflexivity. rewrite Hl in H. lia.
Qed.

Definition str_step (mmask : Z) (st : Z * Z * Z) (c : km) : Z * Z * Z :=
  let '(ms, bt, bf) := st in
  let settable := Z.land (Z.land (snd c) (Z.lnot mmask)) low32 in
  let n := popcount32 settable in
  if n <=? ms then
    let '(ms1, bt1, bf1) := if n <? ms then (n, 0, 0) else (ms, bt, bf) in
    (ms1, Z.lor bt1 (Z.land settable (Z.lnot (fst c))), Z.lor bf1 (Z.land settable (fst c)))
  else st.

(* bits recorded are below 32 and not selected by the merged mask; a positive stringency has a bit *)
Definition str_inv (mmask : Z) (st : Z * Z * Z) : Prop :=
  let '(ms, bt, bf) := st in
  0 <= ms
  /\ (forall b, 0 <= b -> Z.testbit bt b = true \/ Z.testbit bf b = true ->
                b < 32 /\ Z.testbit mmask b = false)
  /\ ((ms = 33 /\ bt = 0 /\ bf = 0)
      \/ (ms <= 32 /\ (0 < ms -> exists b, 0 <= b < 32 /\ (Z.testbit bt b = true \/ Z.testbit bf b = true)))).

Lemma settable_bit : forall (c : km) mmask b, 0 <= b ->
  Z.testbit (Z.land (Z.land (snd c) (Z.lnot mmask)) low32) b = true ->
  b < 32 /\ Z.testbit mmask b = false.
Proof.
  intros c mmask b Hb H. rewrite !Z.land_spec, Z.lnot_spec in H by exact Hb.
  apply andb_true_iff in H. destruct H as [H Hlow]. apply andb_true_iff in H. destruct H as [_ Hm].
  unfold low32 in Hlow. rewrite testbit_low32 in Hlow by exact Hb. apply Z.ltb_lt in Hlow.
  apply negb_true_iff in Hm. split; assumption.
Qed.

Lemma str_step_inv : forall mmask st c, str_inv mmask st ->
  let st' := str_step mmask st c in
  str_inv mmask st' /\ (fst (fst st') <= 32).
Proof.
  intros mmask [[ms bt] bf] c [H0 [HR HQ]]. unfold str_step.
  set (settable := Z.land (Z.land (snd c) (Z.lnot mmask)) low32).
  pose proof (popcount32_range settable) as Hn.
  destruct (popcount32 settable <=? ms) eqn:Hle.
  - apply Z.leb_le in Hle.
    assert (Hnew : forall bt1 bf1,
               (forall b, 0 <= b -> Z.testbit bt1 b = true \/ Z.testbit bf1 b = true -> b < 32 /\ Z.testbit mmask b = false) ->
               str_inv mmask (popcount32 settable, Z.lor bt1 (Z.land settable (Z.lnot (fst c))),
                              Z.lor bf1 (Z.land settable (fst c)))).
    { intros bt1 bf1 HR1. split; [lia | split].
      - intros b Hb Hor. rewrite !Z.lor_spec, !Z.land_spec in Hor.
        destruct Hor as [Hor | Hor]; apply orb_true_iff in Hor; destruct Hor as [Hor | Hor].
        + apply HR1; [exact Hb | left; exact Hor].
        + apply andb_true_iff in Hor. destruct Hor as [Hs _]. apply (settable_bit c mmask b Hb Hs).
        + apply HR1; [exact Hb | right; exact Hor].
        + apply andb_true_iff in Hor. destruct Hor as [Hs _]. apply (settable_bit c mmask b Hb Hs).
      - right. split; [lia |]. intros Hpos.
        destruct (popcount32_pos settable ltac:(lia)) as [b [Hb Hs]]. exists b. split; [exact Hb |].
        rewrite !Z.lor_spec, !Z.land_spec, Hs, Z.lnot_spec by lia. simpl.
        destruct (Z.testbit (fst c) b); [right | left]; apply orb_true_r. }
    destruct (popcount32 settable <? ms) eqn:Hlt.
    + split; [| simpl; lia]. apply Hnew. intros b Hb [H | H]; rewrite Z.bits_0 in H; discriminate.
    + apply Z.ltb_ge in Hlt. assert (Heq : ms = popcount32 settable) by lia.
      split; [| simpl; lia]. rewrite Heq. apply Hnew. exact HR.
  - apply Z.leb_gt in Hle. split; [split; [exact H0 | split; [exact HR | exact HQ]] |].
    simpl. destruct HQ as [[-> _] | [H32 _]]; lia.
Qed.

Lemma stringency_spec : forall covered mmask,
  covered <> [] ->
  let '(ms, bt, bf) := stringency covered mmask in
  (forall b, 0 <= b -> Z.testbit bt b = true \/ Z.testbit bf b = true -> b < 32 /\ Z.testbit mmask b = false)
  /\ (ms <> 0 -> exists b, 0 <= b < 32 /\ (Z.testbit bt b = true \/ Z.testbit bf b = true)).
Proof.
  intros covered mmask Hne. unfold stringency.
  match goal with |- context [fold_left ?f _ _] => change f with (str_step mmask) end.
  destruct covered as [| c cs]; [contradiction |].
  change (fold_left (str_step mmask) (c :: cs) (33, 0, 0))
    with (fold_left (str_step mmask) cs (str_step mmask (33, 0, 0) c)).
  assert (Hinit : str_inv mmask (33, 0, 0)).
  { split; [lia | split; [intros b Hb [H | H]; rewrite Z.bits_0 in H; discriminate | left; repeat split]]. }
  destruct (str_step_inv mmask (33, 0, 0) c Hinit) as [H1 H32].
  assert (Hfold : forall l st, str_inv mmask st -> fst (fst st) <= 32 ->
             str_inv mmask (fold_left (str_step mmask) l st) /\ fst (fst (fold_left (str_step mmask) l st)) <= 32).
  { induction l as [| x l IH]; intros st Hst H; simpl; [split; assumption |].
    destruct (str_step_inv mmask st x Hst) as [Ha Hb]. apply IH; assumption. }
  destruct (Hfold cs _ H1 H32) as [Hfin Hfin32].
  destruct (fold_left (str_step mmask) cs (str_step mmask (33, 0, 0) c)) as [[ms bt] bf].
  cbv beta iota. simpl in Hfin32. destruct Hfin as [H0 [HR HQ]]. split; [exact HR |].
  intros Hnz. destruct HQ as [[-> _] | [_ HQ]]; [lia |]. apply HQ. lia.
Qed.

Definition rm_step (T : table) (E : list nat) (bt bf : Z) (remove : list nat) (b : Z) : list nat :=
  let step (remove : list nat) (present : bool) (val : bool) :=
    if present then
      let w := working_remove T E b val in
      match remove with
      | [] => w
      | _ => if Nat.ltb (length w) (length remove) then w else remove
      end
    else remove in
  step (step remove (Z.testbit bt b) true) (Z.testbit bf b) false.

Lemma working_remove_incl : forall T E b val, incl (working_remove T E b val) E.
Proof. intros T E b val x H. unfold working_remove in H. apply filter_In in H. apply H. Qed.

Lemma rm_step_spec : forall T E bt bf remove b,
  incl remove E ->
  (Z.testbit bt b = true \/ Z.testbit bf b = true -> forall val, working_remove T E b val <> []) ->
  incl (rm_step T E bt bf remove b) E
  /\ (remove <> [] \/ Z.testbit bt b = true \/ Z.testbit bf b = true -> rm_step T E bt bf remove b <> []).
Proof.
  intros T E bt bf remove b Hincl Hw. unfold rm_step.
  set (r1 := if Z.testbit bt b
             then match remove with
                  | [] => working_remove T E b true
                  | _ :: _ => if Nat.ltb (length (working_remove T E b true)) (length remove)
                              then working_remove T E b true else remove
                  end
             else remove).
  assert (H1 : incl r1 E /\ (remove <> [] \/ Z.testbit bt b = true -> r1 <> [])).
  { unfold r1. destruct (Z.testbit bt b) eqn:Hbt.
    - pose proof (Hw (or_introl eq_refl) true) as Hne.
      destruct remove as [| r0 rr].
      + split; [apply working_remove_incl | intros _; exact Hne].
      + destruct (Nat.ltb (length (working_remove T E b true)) (length (r0 :: rr))).
        * split; [apply working_remove_incl | intros _; exact Hne].
        * split; [exact Hincl | intros _; discriminate].
    - split; [exact Hincl |]. intros [H | H]; [exact H | discriminate]. }
  destruct H1 as [H1a H1b].
  destruct (Z.testbit bf b) eqn:Hbf.
  - pose proof (Hw (or_intror eq_refl) false) as Hne.
    destruct r1 as [| r0 rr] eqn:Hr1.
    + split; [apply working_remove_incl | intros _; exact Hne].
    + destruct (Nat.ltb (length (working_remove T E b false)) (length (r0 :: rr))).
      * split; [apply working_remove_incl | intros _; exact Hne].
      * split; [exact H1a | intros _; discriminate].
  - split; [exact H1a |]. intros [H | [H | H]]; [apply H1b; left; exact H | apply H1b; right; exact H | discriminate].
Qed.

Lemma choose_remove_spec : forall T E bt bf,
  (forall b, 0 <= b < 32 -> Z.testbit bt b = true \/ Z.testbit bf b = true ->
             forall val, working_remove T E b val <> []) ->
  incl (choose_remove T E bt bf) E
  /\ ((exists b, 0 <= b < 32 /\ (Z.testbit bt b = true \/ Z.testbit bf b = true)) ->
      choose_remove T E bt bf <> []).
Proof.
  intros T E bt bf Hw. unfold choose_remove.
  match goal with |- context [fold_left ?f _ _] => change f with (rm_step T E bt bf) end.
  assert (Hgen : forall l remove, incl remove E -> (forall b, In b l -> 0 <= b < 32) ->
            incl (fold_left (rm_step T E bt bf) l remove) E
            /\ (remove <> [] \/ (exists b, In b l /\ (Z.testbit bt b = true \/ Z.testbit bf b = true)) ->
                fold_left (rm_step T E bt bf) l remove <> [])).
  { induction l as [| x l IH]; intros remove Hincl Hl; simpl.
    - split; [exact Hincl |]. intros [H | [b [[] _]]]. exact H.
    - assert (Hx : 0 <= x < 32) by (apply Hl; left; reflexivity).
      destruct (rm_step_spec T E bt bf remove x Hincl (Hw x Hx)) as [Ha Hb].
      destruct (IH (rm_step T E bt bf remove x) Ha (fun b Hb' => Hl b (or_intror Hb'))) as [Hc Hd].
      split; [exact Hc |]. intros [H | [b [[<- | Hbl] Hor]]].
      + apply Hd. left. apply Hb. left. exact H.
      + apply Hd. left. apply Hb. right. exact Hor.
      + apply Hd. right. exists b. split; assumption. }
  destruct (Hgen bits32_desc [] (fun x H => match H with end) (fun b Hb => proj1 (bits32_desc_range b) Hb)) as [H1 H2].
  split; [exact H1 |]. intros [b [Hb Hor]]. apply H2. right. exists b. split; [apply bits32_desc_range; exact Hb | exact Hor].
Qed.

Lemma working_remove_nonempty : forall T E b val,
  (forall i, In i E -> (i < length T)%nat) -> members T E <> [] -> 0 <= b < 32 ->
  Z.testbit (snd (merge_km (members T E))) b = false ->
  working_remove T E b val <> [].
Proof.
  intros T E b val Hlt Hne Hb Hbit.
  assert (Hin : forall e, In e (members T E) ->
            negb (Z.testbit (e_mask e) b) || Bool.eqb (Z.testbit (e_key e) b) (negb val) = true ->
            working_remove T E b val <> []).
  { intros e He Hc H0. apply In_members in He. destruct He as [i [Hi He]].
    assert (Hw : In i (working_remove T E b val)).
    { unfold working_remove. apply filter_In. split; [exact Hi |]. rewrite He. exact Hc. }
    rewrite H0 in Hw. destruct Hw. }
  destruct (merge_mask_zero_bit (members T E) b Hne Hb Hbit) as [[e [He Hm]] | [[e1 [He1 Hk1]] [e0 [He0 Hk0]]]].
  - apply (Hin e He). unfold mbit in Hm. rewrite Hm. reflexivity.
  - destruct val.
    + apply (Hin e0 He0). unfold kbit in Hk0. rewrite Hk0. simpl. apply orb_true_r.
    + apply (Hin e1 He1). unfold kbit in Hk1. rewrite Hk1. simpl. apply orb_true_r.
Qed.

Lemma filter_len_le : forall {X} (f : X -> bool) l, (length (filter f l) <= length l)%nat.
Proof. intros X f l. induction l as [| y l IH]; simpl; [lia |]. destruct (f y); simpl; lia. Qed.

Lemma filter_length_lt : forall {X} (f : X -> bool) l x, In x l -> f x = false ->
  (length (filter f l) < length l)%nat.
Proof.
  intros X f l. induction l as [| y l IH]; intros x Hx Hf; [destruct Hx |]. simpl.
  destruct Hx as [<- | Hx].
  - rewrite Hf. pose proof (filter_len_le f l). lia.
  - specialize (IH x Hx Hf). destruct (f y); simpl; lia.
Qed.

Lemma downcheck_total : forall fuel T A mg M,
  0 <= mg -> is_merge T M -> idxs_ok T (m_entries M) -> (length (m_entries M) <= fuel)%nat ->
  exists M', downcheck fuel T (gens_of T) A mg M = Ok M'.
Proof.
  induction fuel as [| f IH]; intros T A mg M Hmg HM Hok Hf.
  - simpl. destruct (m_goodness M <=? mg) eqn:Hg; [eexists; reflexivity |].
    apply Z.leb_gt in Hg. pose proof (is_merge_two T M mg HM Hmg ltac:(lia)). lia.
  - simpl. destruct (m_goodness M <=? mg) eqn:Hg; [eexists; reflexivity |].
    apply Z.leb_gt in Hg. pose proof (is_merge_two T M mg HM Hmg ltac:(lia)) as H2.
    destruct (covered_kms T A M) as [| c0 cs] eqn:Hcov; [eexists; reflexivity |].
    pose proof (stringency_spec (c0 :: cs) (m_mask M) ltac:(discriminate)) as Hstr.
    destruct (stringency (c0 :: cs) (m_mask M)) as [[ms bt] bf].
    destruct Hstr as [HR HQ].
    destruct (ms =? 0) eqn:Hms; [eexists; reflexivity |]. apply Z.eqb_neq in Hms.
    destruct Hok as [Hinc [Hlt Hroute]].
    assert (Hne : members T (m_entries M) <> []).
    { destruct (m_entries M) as [| j0 r0] eqn:He; [simpl in H2; lia |].
      apply (members_nonempty T _ j0); [left; reflexivity | apply Hlt; left; reflexivity]. }
    assert (Hmask : m_mask M = snd (merge_km (members T (m_entries M)))).
    { rewrite HM at 1. destruct (mk_merge_fields T (gens_of T) (m_entries M)) as [_ [Hkm _]].
      rewrite <- Hkm. reflexivity. }
    destruct (choose_remove_spec T (m_entries M) bt bf) as [Hrincl Hrne].
    { intros b Hb Hor val. apply working_remove_nonempty; try assumption.
      rewrite <- Hmask. apply (HR b ltac:(lia) Hor). }
    specialize (Hrne (HQ Hms)).
    apply IH; try assumption.
    + apply is_merge_mk.
    + rewrite mk_merge_entries. apply idxs_ok_ndiff. split; [exact Hinc | split; assumption].
    + rewrite mk_merge_entries.
      destruct (choose_remove T (m_entries M) bt bf) as [| x rr] eqn:Hcr; [contradiction |].
      assert (Hx : In x (m_entries M)) by (apply Hrincl; left; reflexivity).
      assert (Hfx : negb (nmem x (x :: rr)) = false) by (simpl; rewrite Nat.eqb_refl; reflexivity).
      pose proof (filter_length_lt (fun y => negb (nmem y (x :: rr))) (m_entries M) x Hx Hfx) as Hl.
      unfold ndiff. lia.
Qed.

Lemma refine_merge_total : forall T A mg M,
  0 <= mg -> sortedz (gens_of T) -> is_merge T M -> idxs_ok T (m_entries M) ->
  exists M', refine_merge T (gens_of T) A mg M = Ok M'.
Proof.
  intros T A mg M Hmg Hs HM Hok. unfold refine_merge, refine_downcheck.
  destruct (downcheck_total (S (length (m_entries M))) T A mg M Hmg HM Hok ltac:(lia)) as [m1 Hd1].
  rewrite Hd1. cbn [bind].
  destruct (downcheck_spec _ _ _ _ _ _ Hmg HM Hok Hd1) as [HM1 [Hok1 _]].
  destruct (m_goodness m1 >? mg); [| eexists; reflexivity].
  destruct (refine_upcheck T (gens_of T) mg m1) as [m2 ch] eqn:Hup.
  destruct (upcheck_spec T mg m1 m2 ch Hmg Hs HM1 Hok1 Hup) as [HM2 [Hok2 _]].
  destruct (ch && (m_goodness m2 >? mg)); [| eexists; reflexivity].
  apply downcheck_total; try assumption. lia.
Qed.

(* _get_best_merge: total, and a merge of positive goodness it returns may be applied *)
Theorem best_merge_spec : forall T A,
  sortedz (gens_of T) ->
  exists M, best_merge T A = Ok M /\ (m_goodness M > 0 -> applicable T A M).
Proof.
  intros T A Hs. unfold best_merge. fold (gens_of T).
  assert (Hgen : forall l st,
            (forall E, In E l -> idxs_ok T E) ->
            (exists M, st = Ok M /\ (m_goodness M > 0 -> applicable T A M)) ->
            exists M,
              fold_left (fun st idxs =>
                 bind st (fun best =>
                 let m := mk_merge T (gens_of T) idxs in
                 if m_goodness m <=? Z.max 0 (m_goodness best) then Ok best
                 else bind (refine_merge T (gens_of T) A (Z.max 0 (m_goodness best)) m) (fun m' =>
                      if m_goodness m' >? Z.max 0 (m_goodness best) then Ok m' else Ok best))) l st = Ok M
              /\ (m_goodness M > 0 -> applicable T A M)).
  { induction l as [| E l IH]; intros st Hl Hst; simpl; [exact Hst |].
    apply IH; [intros E' HE'; apply Hl; right; exact HE' |].
    destruct Hst as [best [-> Hbest]]. cbn [bind].
    destruct (m_goodness (mk_merge T (gens_of T) E) <=? Z.max 0 (m_goodness best)); [exists best; split; [reflexivity | exact Hbest] |].
    assert (HE : idxs_ok T E) by (apply Hl; left; reflexivity).
    destruct (refine_merge_total T A (Z.max 0 (m_goodness best)) (mk_merge T (gens_of T) E)) as [m' Hm'];
      [lia | exact Hs | apply is_merge_mk | rewrite mk_merge_entries; exact HE |].
    rewrite Hm'. cbn [bind].
    destruct (m_goodness m' >? Z.max 0 (m_goodness best)) eqn:Hg.
    - exists m'. split; [reflexivity |]. intros _. apply Z.gtb_lt in Hg.
      apply (refine_merge_spec T A (Z.max 0 (m_goodness best)) (mk_merge T (gens_of T) E) m');
        [lia | exact Hs | apply is_merge_mk | rewrite mk_merge_entries; exact HE | exact Hm' | lia].
    - exists best. split; [reflexivity | exact Hbest]. }
  apply Hgen; [apply all_merges_ok |].
  exists (mk_merge T (gens_of T) []). split; [reflexivity |]. rewrite mk_merge_goodness. unfold len. simpl. lia.
Qed.
