(* C07 -- Remote memory reads and writes are byte-exact for any address and length.

   Theorems only; each is closed by `exact` of a lemma of Proofs/MemOps*.v.  The model (Model/MemOps.v on
   Model/Machine.v) takes every piece of loop arithmetic -- conditions, block sizes, chunk addresses, data-type
   keys, command arguments, result-buffer slices, updates, the struct / per-core address expressions, the
   branch condition of fill, the receive length -- from Generated/GenMemOps.v, so these theorems are
   re-checked against the current text of scp_connection.py / machine_controller.py and the live
   address_length_dtype table and sark.struct on every run.

   Reading the statements:
     mk_env buffer nbr   the machine advertises `buffer` data bytes, nbr is its topology;
     order               how a burst was actually executed / completed: any list that [covers] the chunk list
                         (window > 1, lost / delayed / duplicated replies permute and repeat; C06 guarantees
                         that each callback gets a reply to its own command);
     mem_range (M c) a n the bytes stored at [a, a+n) of chip c;
     stored_exactly M M' c a data   M' has exactly `data` at [a, a+|data|) of chip c and equals M at every
                         other byte of every chip;
     trace_ok buffer tr  every command sent is within the buffer and uses a word / half-word unit only for
                         a so aligned address and length.
   Guards: 0 <= address, address + length <= 2^32 (the 32-bit address space), 1 <= buffer < 2^32 (4 <= buffer for
   the link functions: below that they do not terminate, C07_guards_needed), word alignment for the link
   functions (otherwise the documented ValueError: the four C07_link_..._misaligned_... theorems). *)
From Coq Require Import ZArith List Bool String.
Require Import Rig.Generated.GenMemOps Rig.Generated.GenSCP Rig.Model.Base Rig.Model.Machine Rig.Model.MemOps
  Rig.Spec.MemOps Rig.Proofs.MemOpsArith Rig.Proofs.MemOps Rig.Proofs.MemOpsChunks Rig.Proofs.MemOpsExact
  Rig.Proofs.MemOpsTop Rig.Proofs.MemOpsFill Rig.Proofs.MemOpsLink Rig.Proofs.MemOpsExamples.
Import ListNotations.
Open Scope Z_scope.

(* ---- the data-type table: all 16 entries name a unit that divides both address and length *)
Theorem C07_dtype_table :
  forall a n, exists d u, dtype_lookup (a mod 4, n mod 4) = Ok d /\ unit_of d = Some u /\
                          a mod u = 0 /\ n mod u = 0 /\ (u = 1 \/ u = 2 \/ u = 4).
Proof. exact dtype_key_ok. Qed.

(* ---- the chunk lists tile the request (contiguous, 1..buffer bytes each, slices partition [0, length)) *)
Theorem C07_read_chunks_tile :
  forall address length buffer, 1 <= buffer -> 0 <= length ->
    exists cs, read_chunks address length buffer = Ok cs /\ read_tiles cs address buffer 0 length.
Proof. exact read_chunks_tiles. Qed.

Theorem C07_write_chunks_tile :
  forall address buffer data, 1 <= buffer ->
    exists cs, write_chunks address buffer data = Ok cs /\ write_tiles cs address buffer data 0.
Proof. exact write_chunks_tiles. Qed.

(* ---- reads are exact, whatever the order in which the replies complete *)
Theorem C07_read_exact :
  forall buffer nbr M c core address length (order : list rchunk -> list rchunk),
    0 <= address -> 0 <= length -> address + length <= 2 ^ 32 -> 1 <= buffer < 2 ^ 32 ->
    (forall cs, covers cs (order cs)) ->
    exists tr, sc_read_order (mk_env buffer nbr) M c core address length order =
                 Ok (tr, mem_range (M c) address length) /\
               trace_ok buffer tr /\ Forall (fun r => is_read_cmd (rq_cmd r)) tr /\
               Forall (fun r => rq_chip r = c /\ rq_core r = core) tr.
Proof. exact sc_read_order_exact. Qed.

(* ... and read commands, executed any number of times in any order, leave every byte of the machine alone *)
Theorem C07_reads_change_nothing :
  forall buffer nbr rs M, Forall (fun r => is_read_cmd (rq_cmd r)) rs -> exec_all buffer nbr M rs = M.
Proof. exact exec_all_reads. Qed.

(* ---- writes leave exactly the data at exactly the addresses, for every order / repetition of the commands *)
Theorem C07_write_exact :
  forall buffer nbr M c core address data (order : list call -> list call),
    0 <= address -> address + zlen data <= 2 ^ 32 -> 1 <= buffer < 2 ^ 32 ->
    (forall cs, covers cs (order cs)) ->
    exists tr M', sc_write_order (mk_env buffer nbr) M c core address data order = Ok (tr, M') /\
                  stored_exactly M M' c address data /\ trace_ok buffer tr /\
                  Forall (fun r => rq_chip r = c) tr.
Proof. exact sc_write_order_exact. Qed.

(* ---- struct fields: address = struct base + field offset (every field of the live sark.struct `sv`) *)
Theorem C07_read_struct_exact :
  forall buffer nbr M c core name off n,
    1 <= buffer < 2 ^ 32 -> field_find name sv_fields = Some (off, n) ->
    exists tr, mc_read_struct (mk_env buffer nbr) M c core name =
                 Ok (tr, mem_range (M c) (sv_struct_base + off) n) /\
               trace_ok buffer tr /\ Forall (fun r => is_read_cmd (rq_cmd r)) tr /\
               Forall (fun r => rq_chip r = c /\ rq_core r = core) tr.
Proof. exact mc_read_struct_exact. Qed.

Theorem C07_write_struct_exact :
  forall buffer nbr M c core name off n data,
    1 <= buffer < 2 ^ 32 -> field_find name sv_fields = Some (off, n) -> zlen data = n ->
    exists tr M', mc_write_struct (mk_env buffer nbr) M c core name data = Ok (tr, M') /\
                  stored_exactly M M' c (sv_struct_base + off) data /\ trace_ok buffer tr /\
                  Forall (fun r => rq_chip r = c) tr.
Proof. exact mc_write_struct_exact. Qed.

(* ---- per-core fields: address = word stored in sv.vcpu_base + block size * core + field offset *)
Theorem C07_read_vcpu_exact :
  forall buffer nbr M c p name off n,
    1 <= buffer < 2 ^ 32 -> field_find name vcpu_fields = Some (off, n) ->
    0 <= vcpu_addr M c p off -> vcpu_addr M c p off + n <= 2 ^ 32 ->
    exists tr, mc_read_vcpu (mk_env buffer nbr) M c p name =
                 Ok (tr, mem_range (M c) (vcpu_addr M c p off) n) /\
               trace_ok buffer tr /\ Forall (fun r => is_read_cmd (rq_cmd r)) tr /\
               Forall (fun r => rq_chip r = c) tr.
Proof. exact mc_read_vcpu_exact. Qed.

Theorem C07_write_vcpu_exact :
  forall buffer nbr M c p name off n data,
    1 <= buffer < 2 ^ 32 -> field_find name vcpu_fields = Some (off, n) -> zlen data = n ->
    0 <= vcpu_addr M c p off -> vcpu_addr M c p off + n <= 2 ^ 32 ->
    exists tr M', mc_write_vcpu (mk_env buffer nbr) M c p name data = Ok (tr, M') /\
                  stored_exactly M M' c (vcpu_addr M c p off) data /\ trace_ok buffer tr /\
                  Forall (fun r => rq_chip r = c) tr.
Proof. exact mc_write_vcpu_exact. Qed.

(* ---- fill, both branches: `size` copies of the byte (unaligned: by write) or size/4 copies of the
        little-endian word (aligned: one FILL command) *)
Theorem C07_fill_exact :
  forall buffer nbr M c core address data size,
    1 <= buffer < 2 ^ 32 -> 0 <= address < 2 ^ 32 -> 0 <= size < 2 ^ 32 -> address + size <= 2 ^ 32 ->
    (fill_uses_write address size = true -> 0 <= data <= 255) ->
    (fill_uses_write address size = false -> 0 <= data < 2 ^ 32) ->
    exists tr M', mc_fill (mk_env buffer nbr) M c core address data size = Ok (tr, M') /\
                  stored_exactly M M' c address (fill_bytes address data size) /\ trace_ok buffer tr /\
                  Forall (fun r => rq_chip r = c) tr.
Proof. exact mc_fill_exact. Qed.

(* ---- across a link: whole-word chunks on the neighbouring chip, under buffer >= 4 *)
Theorem C07_read_link_exact :
  forall buffer nbr M c address length link,
    4 <= buffer < 2 ^ 32 -> 0 <= address -> address mod 4 = 0 -> 0 <= length -> length mod 4 = 0 ->
    address + length <= 2 ^ 32 -> 0 <= link < 2 ^ 32 ->
    exists tr, mc_read_link (mk_env buffer nbr) M c address length link =
                 Ok (tr, mem_range (M (nbr c link)) address length) /\
               trace_ok buffer tr /\ Forall (fun r => is_read_cmd (rq_cmd r)) tr /\
               Forall (fun r => rq_chip r = c) tr.
Proof. exact mc_read_link_exact. Qed.

Theorem C07_write_link_exact :
  forall buffer nbr M c address link data (order : list (Z * call) -> list (Z * call)),
    4 <= buffer < 2 ^ 32 -> 0 <= address -> address mod 4 = 0 -> zlen data mod 4 = 0 ->
    address + zlen data <= 2 ^ 32 -> 0 <= link < 2 ^ 32 ->
    (forall cs, covers cs (order cs)) ->
    exists tr M', mc_write_link_order (mk_env buffer nbr) M c address link data order = Ok (tr, M') /\
                  stored_exactly M M' (nbr c link) address data /\ trace_ok buffer tr /\
                  Forall (fun r => rq_chip r = c) tr.
Proof. exact mc_write_link_order_exact. Qed.

(* the documented errors of the link functions (ValueError: address, then length) *)
Theorem C07_link_read_misaligned_address :
  forall E M c address length link, address mod 4 <> 0 -> mc_read_link E M c address length link = Failed 0.
Proof. exact mc_read_link_misaligned_address. Qed.

Theorem C07_link_read_misaligned_length :
  forall E M c address length link,
    address mod 4 = 0 -> length mod 4 <> 0 -> mc_read_link E M c address length link = Failed 1.
Proof. exact mc_read_link_misaligned_length. Qed.

Theorem C07_link_write_misaligned_address :
  forall E M c address link data, address mod 4 <> 0 -> mc_write_link E M c address link data = Failed 0.
Proof. exact mc_write_link_misaligned_address. Qed.

Theorem C07_link_write_misaligned_length :
  forall E M c address link data,
    address mod 4 = 0 -> zlen data mod 4 <> 0 -> mc_write_link E M c address link data = Failed 1.
Proof. exact mc_write_link_misaligned_length. Qed.

(* ---- the receive length of send_scp_burst (after fix dbd83a4) holds every reply the buffer size allows:
        the guard `chunk + header <= receive length` is a lemma, not a hypothesis of the theorems above *)
Theorem C07_receive_length_fits :
  forall buffer s, 0 <= buffer -> s <= buffer -> s + read_reply_data_offset <= receive_length buffer.
Proof. exact receive_fits. Qed.

(* the code as found computed 2^ceil(log2(buffer + 8)): a full read chunk's reply did not fit for buffer sizes
   just below a power of two, and the read raised (replayed on the real code: finding recv-length-truncates-reply) *)
Theorem C07_recv_length_truncates_orig_refuted :
  exists buffer M c core address length cs,
    1 <= buffer < 2 ^ 32 /\ 0 <= address /\ 0 <= length /\ address + length <= 2 ^ 32 /\
    read_chunks address length buffer = Ok cs /\
    read_run {| e_buffer := buffer; e_rl := receive_length_orig buffer; e_nbr := ex_nbr |} M c core cs
             (repeat 0 (Z.to_nat length)) = OtherError.
Proof. exact ex_recv_length_orig. Qed.

(* ---- non-vacuity, necessity of the guards, error branches *)
Example C07_read_hypotheses_satisfiable :
  1 <= 16 < 2 ^ 32 /\ 0 <= 1001 /\ 0 <= 37 /\ 1001 + 37 <= 2 ^ 32 /\
  match sc_read (mk_env 16 ex_nbr) ex_M (1, 2) 0 1001 37 with
  | Ok (tr, out) => Some (List.length tr, out)
  | _ => None
  end = Some (3%nat, mem_range (ex_M (1, 2)) 1001 37).
Proof. exact ex_read_instance. Qed.

Example C07_write_hypotheses_satisfiable :
  match sc_write (mk_env 16 ex_nbr) ex_M (1, 2) 0 1000 (pattern_data 1 40) with
  | Ok (tr, M') =>
      Some (map (fun r => match rq_cmd r with CWrite a n t _ => (a, n, t) | _ => (0, 0, 0) end) tr,
            mem_range (M' (1, 2)) 999 42)
  | _ => None
  end =
  Some ([(1000, 16, DataType_word); (1016, 16, DataType_word); (1032, 8, DataType_word)],
        ex_M (1, 2) 999 :: pattern_data 1 40 ++ [ex_M (1, 2) 1040]).
Proof. exact ex_write_instance. Qed.

Example C07_field_fill_link_instances :
  field_find "vcpu_base" sv_fields = Some (sv_vcpu_base_offset, 4) /\
  field_find "app_name" vcpu_fields = Some (72, 16) /\
  fill_uses_write 4097 3 = true /\ fill_uses_write 4096 8 = false /\
  match mc_fill (mk_env 16 ex_nbr) ex_M (1, 2) 0 4096 287454020 8 with
  | Ok (tr, M') => Some (List.length tr, mem_range (M' (1, 2)) 4096 8)
  | _ => None
  end = Some (1%nat, [68; 51; 34; 17; 68; 51; 34; 17]) /\
  match mc_read_link (mk_env 18 ex_nbr) ex_M (1, 2) 4096 40 1 with
  | Ok (tr, out) => Some (List.length tr, out)
  | _ => None
  end = Some (3%nat, mem_range (ex_M (2, 3)) 4096 40).
Proof. exact ex_field_instances. Qed.

Example C07_guards_needed :
  (mc_read_link (mk_env 3 ex_nbr) ex_M (1, 2) 4096 8 0 = OutOfFuel /\
   mc_write_link (mk_env 3 ex_nbr) ex_M (1, 2) 4096 0 (pattern_data 1 4) = OutOfFuel) /\
  (sc_read (mk_env 0 ex_nbr) ex_M (1, 2) 0 4096 1 = OutOfFuel /\
   sc_write (mk_env 0 ex_nbr) ex_M (1, 2) 0 4096 [7] = OutOfFuel).
Proof. exact (conj ex_link_guard_needed ex_buffer_guard_needed). Qed.

Example C07_error_branches :
  sc_read (mk_env 16 ex_nbr) ex_M (1, 2) 0 4096 (-1) = OtherError /\
  sc_read (mk_env 16 ex_nbr) ex_M (1, 2) 0 (2 ^ 32) 4 = OtherError /\
  sc_write (mk_env 16 ex_nbr) ex_M (1, 2) 0 (-1) [1; 2; 3] = OtherError /\
  mc_fill (mk_env 16 ex_nbr) ex_M (1, 2) 0 4097 256 3 = OtherError /\
  mc_read_struct (mk_env 16 ex_nbr) ex_M (1, 2) 0 "no_such_field" = OtherError.
Proof. exact ex_error_branches. Qed.
