From Coq Require Import ZArith List Bool Lia.
Require Import Rig.Model.Base Rig.Model.MemIO Rig.Spec.MemIO.
Import ListNotations.
Open Scope Z_scope.

Lemma write_escapes_orig_witness :
  exists c, In c (o_calls (snd (step_orig (fst (step_orig (init 100 104 (fun _ => 0)) (OView 0 (Seek 6 0))))
                                   (OView 0 (Write [1;2;3;4;5;6;7;8])))))
            /\ c = CWrite 106 [1;2;3;4;5;6].
Proof. eexists. split; [left; reflexivity | reflexivity]. Qed.
