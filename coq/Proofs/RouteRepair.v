(* C03 -- one repair step of avoid_dead_links, for a detour over new ground: splicing an A* path of working
   links from a node outside the orphaned subtree to its root yields a forest with one tree fewer, still
   without a repeated chip, all of whose edges are working links.  (The case in which the detour crosses the
   orphaned subtree itself -- re-parenting -- is not proved for all inputs; see Props/C03.v.) *)
From Coq Require Import ZArith List Bool Lia.
Require Import Rig.Model.Base Rig.Model.Geometry Rig.Model.Route Rig.Spec.Route Rig.Proofs.Route
        Rig.Proofs.RouteTree Rig.Proofs.RouteNer Rig.Proofs.RouteCopy.
Import ListNotations.
Open Scope Z_scope.

Lemma attach_notin : forall p k t, ~ In p (chips t) -> attach p k t = t.
Proof.
  intros p k. induction t as [v|c kids IH] using rtree_ind2; intros H; [reflexivity|].
  rewrite attach_node_eq. simpl in H.
  assert (Hc : chip_eqb c p = false).
  { destruct (chip_eqb c p) eqn:E; [|reflexivity]. apply rt_chip_eqb_eq in E. subst. exfalso. apply H. left. reflexivity. }
  rewrite Hc. f_equal.
  assert (Hk : forall k0, In k0 kids -> ~ In p (chips (snd k0))).
  { intros k0 Hk0 Hin. apply H. right. apply in_flat_map. exists k0. split; assumption. }
  clear H Hc. induction IH as [|k0 kids Hk0 _ IHk]; [reflexivity|]. cbn [map].
  rewrite Hk0 by (apply Hk; left; reflexivity). rewrite IHk by (intros k1 H1; apply Hk; right; exact H1).
  destruct k0. reflexivity.
Qed.

Lemma root_is_attach : forall c p k t, root_is c (attach p k t) = root_is c t.
Proof. intros c p k [c0 kids|v]; reflexivity. Qed.

Lemma take_root_attach : forall child p k f ct f',
    take_root child f = Some (ct, f') ->
    take_root child (forest_attach p k f) = Some (attach p k ct, forest_attach p k f').
Proof.
  intros child p k. induction f as [|t f IH]; intros ct f' H; [discriminate|].
  cbn [take_root] in H. unfold forest_attach. cbn [map take_root]. rewrite root_is_attach.
  destruct (root_is child t).
  - inversion H; subst. reflexivity.
  - destruct (take_root child f) as [[r0 f'']|] eqn:E; [|discriminate]. inversion H; subst.
    unfold forest_attach in IH. rewrite (IH ct f'' eq_refl). reflexivity.
Qed.

Lemma take_root_cnt : forall child f ct f' x,
    take_root child f = Some (ct, f') ->
    cnt x (forest_chips f) = (occ x ct + cnt x (forest_chips f'))%nat /\ length f = S (length f') /\
    (forall t, In t f <-> t = ct \/ In t f').
Proof.
  intros child. induction f as [|t f IH]; intros ct f' x H; [discriminate|].
  cbn [take_root] in H. destruct (root_is child t).
  - inversion H; subst. rewrite cnt_forest_cons. split; [reflexivity|]. split; [reflexivity|].
    intros t0. simpl. split; intros [H0|H0]; auto.
  - destruct (take_root child f) as [[r0 f'']|] eqn:E; [|discriminate]. inversion H; subst.
    destruct (IH ct f'' x eq_refl) as [H1 [H2 H3]]. rewrite !cnt_forest_cons, H1. split; [lia|].
    split; [cbn [length]; lia|]. intros t0. simpl. rewrite H3. tauto.
Qed.

(* the detour: consecutive working hops from the node [last] through the new chips of [path] to [child] *)
Fixpoint detour_ok (m : rmachine) (last : chip) (ld : Z) (path : list (Z * chip)) (child : chip) : Prop :=
  match path with
  | [] => hop_ok m last ld child
  | (d, c) :: rest => hop_ok m last ld c /\ detour_ok m c d rest child
  end.

(* hops of the tree after attaching a whole subtree *)
Lemma hops_attach_subtree : forall p d c ks t e,
    In e (tree_hops (attach p (Some d, RNode c ks) t)) ->
    In e (tree_hops t) \/ e = (p, Some d, c) \/ In e (tree_hops (RNode c ks)).
Proof.
  intros p d c ks. induction t as [v|c0 kids IH] using rtree_ind2; intros e H.
  - simpl in H. destruct H.
  - rewrite attach_node_eq in H. apply in_hops_node in H. destruct H as [k0 [Hk0 He]].
    assert (Hmap : In k0 (map (fun rk => (fst rk, attach p (Some d, RNode c ks) (snd rk))) kids) ->
                   In e (tree_hops (RNode c0 kids)) \/ e = (p, Some d, c) \/ In e (tree_hops (RNode c ks))).
    { intros Hin. apply in_map_iff in Hin. destruct Hin as [k1 [Heq Hk1]]. subst k0.
      rewrite Forall_forall in IH. specialize (IH k1 Hk1).
      destruct k1 as [r1 s1]. unfold hops_kid in He. cbn [fst snd] in He.
      destruct s1 as [c1 ks1|v1].
      - rewrite attach_node_eq in He. destruct He as [He|He].
        + left. apply in_hops_node. exists (r1, RNode c1 ks1). split; [exact Hk1|].
          unfold hops_kid. simpl. left. exact He.
        + rewrite <- attach_node_eq in He. apply IH in He. destruct He as [He|He]; [|right; exact He].
          left. apply in_hops_node. exists (r1, RNode c1 ks1). split; [exact Hk1|].
          unfold hops_kid. simpl snd. right. exact He.
      - simpl in He. destruct He. }
    destruct (chip_eqb c0 p) eqn:E.
    + apply in_app_or in Hk0. destruct Hk0 as [Hk0|Hk0]; [apply Hmap; exact Hk0|].
      destruct Hk0 as [Hk0|[]]. subst k0. unfold hops_kid in He. cbn [fst snd] in He.
      destruct He as [He|He].
      * apply rt_chip_eqb_eq in E. subst c0. right. left. symmetry. exact He.
      * right. right. exact He.
    + apply Hmap. exact Hk0.
Qed.

Lemma forest_hops_attach_tree : forall m f p d c ks,
    forest_hops_ok m f -> forest_hops_ok m [RNode c ks] -> hop_ok m p d c ->
    forest_hops_ok m (forest_attach p (Some d, RNode c ks) f).
Proof.
  intros m f p d c ks Hf Hct Hh t p0 r0 c0 Hin He. unfold forest_attach in Hin.
  apply in_map_iff in Hin. destruct Hin as [t0 [Heq Hin]]. subst t.
  apply hops_attach_subtree in He. destruct He as [He|[He|He]].
  - eapply Hf; eauto.
  - inversion He; subst. exists d. split; [reflexivity | exact Hh].
  - eapply Hct; [left; reflexivity | exact He].
Qed.

Lemma forest_attach_length : forall p k f, length (forest_attach p k f) = length f.
Proof. intros. unfold forest_attach. apply map_length. Qed.

(* U-partial: one repair step whose detour runs over chips that are not yet in the forest *)
Theorem repair_step_new_ground :
  forall (sev : chip -> chip -> list rtree -> list rtree) m child cc path last ld f ct f',
    (forall x, (cnt x (forest_chips f) <= 1)%nat) ->
    forest_hops_ok m f ->
    take_root child f = Some (ct, f') -> root_chip ct = Some child ->
    In last (forest_chips f') ->
    NoDup (map snd path) ->
    (forall q, In q (map snd path) -> ~ In q (forest_chips f) /\ ~ In q cc) ->
    detour_ok m last ld path child ->
    exists f2,
      splice_gen sev child cc last ld path f = Ok f2
      /\ (forall x, (cnt x (forest_chips f2) <= 1)%nat)
      /\ forest_hops_ok m f2
      /\ (forall x, In x (forest_chips f2) <-> In x (forest_chips f) \/ In x (map snd path))
      /\ S (length f2) = length f.
Proof.
  intros sev m child cc path. induction path as [|[d c] rest IH];
    intros last ld f ct f' Hnd Hh Htr Hroot Hlast Hpnd Hnew Hdet.
  - (* attach the orphaned tree below the end of the detour *)
    cbn [splice_gen]. rewrite Htr. cbn [detour_ok] in Hdet.
    destruct ct as [c0 ks|v]; [|discriminate]. cbn [root_chip] in Hroot. inversion Hroot; subst c0.
    exists (forest_attach last (Some ld, RNode child ks) f'). split; [reflexivity|].
    assert (Hsplit : forall x, cnt x (forest_chips f) = (occ x (RNode child ks) + cnt x (forest_chips f'))%nat).
    { intros x. apply (take_root_cnt child f (RNode child ks) f' x Htr). }
    destruct (take_root_cnt child f (RNode child ks) f' last Htr) as [_ [Hlen Hmem]].
    assert (Hl1 : cnt last (forest_chips f') = 1%nat).
    { pose proof (proj1 (cnt_in _ _) Hlast). pose proof (Hnd last). rewrite Hsplit in H0. lia. }
    assert (Hcnt : forall x, cnt x (forest_chips (forest_attach last (Some ld, RNode child ks) f')) =
                             cnt x (forest_chips f)).
    { intros x. rewrite cnt_forest_attach, Hl1, Hsplit. cbn [snd]. lia. }
    split; [intros x; rewrite Hcnt; apply Hnd|].
    split.
    + apply forest_hops_attach_tree.
      * intros t p r c1 Hin He. eapply Hh; [apply Hmem; right; exact Hin | exact He].
      * intros t p r c1 [Hin|[]] He. subst t. eapply Hh; [apply Hmem; left; reflexivity | exact He].
      * exact Hdet.
    + split.
      * intros x. cbn [map]. split.
        -- intros Hx. left. apply cnt_in. rewrite <- Hcnt. apply cnt_in. exact Hx.
        -- intros [Hx|[]]. apply cnt_in. rewrite Hcnt. apply cnt_in. exact Hx.
      * rewrite forest_attach_length. lia.
  - (* one more new chip on the detour *)
    cbn [splice_gen]. cbn [map snd] in Hpnd, Hnew. cbn [detour_ok] in Hdet. destruct Hdet as [Hhop Hdet].
    apply NoDup_cons_iff in Hpnd. destruct Hpnd as [Hcr Hpnd].
    destruct (Hnew c (or_introl eq_refl)) as [Hcf Hcc].
    assert (E1 : chip_mem c cc = false) by (apply rt_chip_mem_false; exact Hcc).
    assert (E2 : chip_mem c (forest_chips f) = false) by (apply rt_chip_mem_false; exact Hcf).
    rewrite E1, E2. cbn [negb].
    assert (Hsplit : forall x, cnt x (forest_chips f) = (occ x ct + cnt x (forest_chips f'))%nat).
    { intros x. apply (take_root_cnt child f ct f' x Htr). }
    assert (Hlf : In last (forest_chips f)).
    { apply cnt_in. rewrite Hsplit. apply cnt_in in Hlast. lia. }
    assert (Hl1 : cnt last (forest_chips f) = 1%nat).
    { pose proof (proj1 (cnt_in _ _) Hlf). pose proof (Hnd last). lia. }
    assert (Hlct : ~ In last (chips ct)).
    { intros Hin. apply occ_in in Hin. apply cnt_in in Hlast. pose proof (Hnd last). rewrite Hsplit in H. lia. }
    set (f1 := forest_attach last (Some ld, RNode c []) f).
    assert (Hcnt : forall x, cnt x (forest_chips f1) =
                             (cnt x (forest_chips f) + (if chip_eq_dec c x then 1 else 0))%nat).
    { intros x. subst f1. rewrite cnt_forest_attach, Hl1. cbn [snd]. rewrite occ_single. lia. }
    pose proof (in_cnt_extend c _ _ Hcnt) as Hinf.
    assert (Htr1 : take_root child f1 = Some (ct, forest_attach last (Some ld, RNode c []) f')).
    { subst f1. rewrite (take_root_attach child last _ f ct f' Htr). rewrite (attach_notin _ _ ct Hlct). reflexivity. }
    destruct (IH c d f1 ct (forest_attach last (Some ld, RNode c []) f')) as [f2 [E [G1 [G2 [G3 G4]]]]].
    + intros x. rewrite Hcnt. destruct (chip_eq_dec c x) as [Ec|Ec].
      * subst x. assert (cnt c (forest_chips f) = 0%nat).
        { destruct (cnt c (forest_chips f)) eqn:Ez; [reflexivity|]. exfalso. apply Hcf. apply cnt_in. lia. }
        lia.
      * pose proof (Hnd x). lia.
    + subst f1. apply forest_hops_attach; assumption.
    + exact Htr1.
    + exact Hroot.
    + apply cnt_in. rewrite cnt_forest_attach. apply cnt_in in Hlast. cbn [snd]. rewrite occ_single.
      destruct (chip_eq_dec c c); [|congruence].
      assert (cnt last (forest_chips f') = 1%nat).
      { pose proof (Hnd last). rewrite Hsplit in H. lia. }
      lia.
    + exact Hpnd.
    + intros q Hq. destruct (Hnew q (or_intror Hq)) as [Hq1 Hq2]. split; [|exact Hq2].
      intros Hin. apply Hinf in Hin. destruct Hin as [Hin|Hin]; [exact (Hq1 Hin)|]. subst q. exact (Hcr Hq).
    + exact Hdet.
    + exists f2. split; [exact E|]. split; [exact G1|]. split; [exact G2|]. split.
      * intros x. rewrite G3, Hinf. simpl. intuition.
      * rewrite G4. subst f1. apply forest_attach_length.
Qed.

(* the same statement with NoDup in place of the counting formulation *)
Theorem repair_step_tree :
  forall (sev : chip -> chip -> list rtree -> list rtree) m child cc path last ld f ct f',
    NoDup (forest_chips f) ->
    (forall t p r c, In t f -> In (p, r, c) (tree_hops t) -> exists l, r = Some l /\ hop_ok m p l c) ->
    take_root child f = Some (ct, f') -> root_chip ct = Some child ->
    In last (forest_chips f') ->
    NoDup (map snd path) ->
    (forall q, In q (map snd path) -> ~ In q (forest_chips f) /\ ~ In q cc) ->
    detour_ok m last ld path child ->
    exists f2,
      splice_gen sev child cc last ld path f = Ok f2
      /\ NoDup (forest_chips f2)
      /\ (forall t p r c, In t f2 -> In (p, r, c) (tree_hops t) -> exists l, r = Some l /\ hop_ok m p l c)
      /\ (forall x, In x (forest_chips f2) <-> In x (forest_chips f) \/ In x (map snd path))
      /\ S (length f2) = length f.
Proof.
  intros sev m child cc path last ld f ct f' Hnd Hh Htr Hroot Hlast Hp Hnew Hdet.
  destruct (repair_step_new_ground sev m child cc path last ld f ct f'
                                   (proj1 (cnt_nodup _) Hnd) Hh Htr Hroot Hlast Hp Hnew Hdet)
    as [f2 [E [G1 [G2 [G3 G4]]]]].
  exists f2. split; [exact E|]. split; [apply cnt_nodup; exact G1|]. split; [exact G2|]. split; assumption.
Qed.

(* the hypotheses are satisfiable: a 3 x 1 strip, the orphan (2, 0) is re-attached below (0, 0) through the new chip (1, 0) *)
Lemma ex_repair_step :
  splice_gen sever_now (2, 0) [(2, 0)] (0, 0) 0 [(0, (1, 0))] [RNode (0, 0) []; RNode (2, 0) []]
  = Ok [RNode (0, 0) [(Some 0, RNode (1, 0) [(Some 0, RNode (2, 0) [])])]]
  /\ detour_ok (perfect 3 1) (0, 0) 0 [(0, (1, 0))] (2, 0).
Proof.
  split; [vm_compute; reflexivity|]. cbn [detour_ok].
  assert (H : forall x, 0 <= x < 3 -> hop_ok (perfect 3 1) (x, 0) 0 ((x + 1) mod 3, 0)).
  { intros x Hx. split.
    - split; [unfold working_chip; simpl; repeat split; try lia; intros [] | intros []].
    - exists 1, 0. split; [reflexivity|]. simpl. reflexivity. }
  split; [apply (H 0); lia | apply (H 1); lia].
Qed.
