(* C03 -- the nets of one route() call are routed independently (only the position in the random stream is
   carried over), every tree of the call is valid for its own net; a re-used Machine object is read afresh at
   every call. *)
From Coq Require Import ZArith List Bool Lia.
Require Import Rig.Model.Base Rig.Model.Geometry Rig.Model.Route Rig.Model.RouteMulti Rig.Spec.Route
        Rig.Proofs.Route Rig.Proofs.RouteTree Rig.Proofs.RouteNer Rig.Proofs.RouteGeom Rig.Proofs.RouteMain
        Rig.Proofs.RouteAstar Rig.Proofs.RouteValid.
Import ListNotations.
Open Scope Z_scope.

(* ner_net leaves a stream of legal draws *)
Lemma ner_dests_sok : forall (R : step_rel) src w h wrap radius hexes SOK dests route t s,
    geom_ok R w h wrap SOK -> inv R src w h route t -> Forall (in_range w h) dests -> SOK s ->
    exists route' t' s',
      ner_dests src w h wrap radius hexes dests (route, t, s) = Ok (route', t', s') /\ SOK s'.
Proof.
  intros R src w h wrap radius hexes SOK dests. induction dests as [|d ds IH]; intros route t s G I Hd Hs.
  - exists route, t, s. split; [reflexivity | exact Hs].
  - inversion Hd as [|? ? Hd1 Hd2]; subst.
    destruct (ner_dest_ok R src w h wrap radius hexes SOK d route t s G I Hd1 Hs)
      as [r1 [t1 [s1 [E1 [I1 [_ [_ Hs1]]]]]]].
    destruct (IH r1 t1 s1 G I1 Hd2 Hs1) as [r2 [t2 [s2 [E2 Hs2]]]].
    exists r2, t2, s2. cbn [ner_dests]. rewrite E1. cbn [bind]. split; [exact E2 | exact Hs2].
Qed.

Lemma ner_net_rest_ok : forall m src dests radius s,
    1 <= rm_w m -> 1 <= rm_h m -> in_range (rm_w m) (rm_h m) src ->
    Forall (in_range (rm_w m) (rm_h m)) dests -> stream_ok s ->
    exists s', ner_net_rest src dests (rm_w m) (rm_h m) (has_wrap m) radius s = Ok s' /\ stream_ok s'.
Proof.
  intros m src dests radius s Hw Hh Hsrc Hd Hs. apply sok_stream_ok in Hs. unfold ner_net_rest.
  set (w := rm_w m) in *. set (h := rm_h m) in *.
  assert (Hd' : forall wrap, Forall (in_range w h) (sort_dests wrap w h src dests)).
  { intros wrap. apply Forall_forall. intros x Hx. apply sort_dests_in in Hx. rewrite Forall_forall in Hd. apply Hd. exact Hx. }
  assert (I0 : forall R : step_rel, inv R src w h [src] (RNode src [])).
  { intros R. constructor; simpl.
    - reflexivity.
    - constructor; [intros []|constructor].
    - intros x. tauto.
    - intros p r c [].
    - intros x [Hx|[]]. subst. exact Hsrc.
    - intros e []. }
  destruct (has_wrap m).
  - destruct (ner_dests_sok (adjacent (perfect w h)) src w h true radius (concentric_hexagons radius (0, 0)) sok
                            _ [src] (RNode src []) s (geom_torus w h Hw Hh) (I0 _) (Hd' true) Hs)
      as [r [t [s' [E Hs']]]].
    rewrite E. cbn [bind]. exists s'. split; [reflexivity | exact Hs'].
  - destruct (ner_dests_sok (mesh_adjacent w h) src w h false radius (concentric_hexagons radius (0, 0)) sok
                            _ [src] (RNode src []) s (geom_mesh w h Hw Hh) (I0 _) (Hd' false) Hs)
      as [r [t [s' [E Hs']]]].
    rewrite E. cbn [bind]. exists s'. split; [reflexivity | exact Hs'].
Qed.

(* ---- independence: the stream at which each net starts depends on the earlier nets' endpoints only, and each
   tree is what route_net returns for that net alone from there *)
Fixpoint net_starts (m : rmachine) (nets : list netspec) (pl : list (vertex * chip)) (radius : Z) (s : stream)
  : list stream :=
  match nets with
  | [] => []
  | n :: rest =>
      s :: match zassoc (n_source n) pl with
           | Some src => match ner_net_rest src (n_dests n) (rm_w m) (rm_h m) (has_wrap m) radius s with
                         | Ok s' => net_starts m rest pl radius s'
                         | _ => []
                         end
           | None => []
           end
  end.

Theorem route_nets_independent : forall m nets pl cons allocs radius s ts,
    route_nets m nets pl cons allocs radius s = Ok ts ->
    Forall2 (fun ns t => route_net m (n_source (fst ns)) (n_sinks (fst ns)) (n_dests (fst ns)) pl cons allocs
                                   radius (snd ns) (n_order (fst ns)) = Ok t)
            (combine nets (net_starts m nets pl radius s)) ts.
Proof.
  intros m nets pl cons allocs radius. induction nets as [|n nets IH]; intros s ts H.
  - cbn in H. inversion H. constructor.
  - cbn [route_nets] in H.
    destruct (route_net m (n_source n) (n_sinks n) (n_dests n) pl cons allocs radius s (n_order n)) as [t| | |] eqn:E;
      cbn [bind] in H; try discriminate.
    cbn [net_starts]. destruct (zassoc (n_source n) pl) as [src|]; [|discriminate].
    destruct (ner_net_rest src (n_dests n) (rm_w m) (rm_h m) (has_wrap m) radius s) as [s'| | |]; cbn [bind] in H;
      try discriminate.
    destruct (route_nets m nets pl cons allocs radius s') as [ts'| | |] eqn:E'; cbn [bind] in H; try discriminate.
    inversion H; subst. cbn [combine]. constructor; [exact E | apply IH; exact E'].
Qed.

(* ---- every tree of the call is valid for its own net *)
Definition net_ok (m : rmachine) (pl : list (vertex * chip)) (allocs : list (vertex * (Z * Z))) (radius : Z)
           (n : netspec) : Prop :=
  (exists src, zassoc (n_source n) pl = Some src /\ working_chip m src /\
               forall s, stream_ok s -> order_ok_route m src (n_dests n) radius s (n_order n)) /\
  Forall (working_chip m) (n_dests n) /\
  (forall v, In v (n_sinks n) -> exists c, zassoc v pl = Some c /\ In c (n_dests n)) /\
  (forall v a b, In v (n_sinks n) -> zassoc v allocs = Some (a, b) -> 0 <= a /\ b <= 18).

Definition tree_valid_for (m : rmachine) (pl : list (vertex * chip)) (cons : list (vertex * Z))
           (allocs : list (vertex * (Z * Z))) (n : netspec) (t : rtree) : Prop :=
  exists src, zassoc (n_source n) pl = Some src /\ ValidTree m src (sink_reqs (n_sinks n) pl cons allocs) t.

Theorem route_nets_valid : forall m nets pl cons allocs radius s,
    1 <= rm_w m -> 1 <= rm_h m -> Forall (net_ok m pl allocs radius) nets -> stream_ok s ->
    (exists ts, route_nets m nets pl cons allocs radius s = Ok ts /\
                Forall2 (tree_valid_for m pl cons allocs) nets ts) \/
    (route_nets m nets pl cons allocs radius s = Failed 0 /\ ~ Connected m).
Proof.
  intros m nets pl cons allocs radius s Hw Hh. revert s. induction nets as [|n nets IH]; intros s Hn Hs.
  - left. exists []. split; [reflexivity | constructor].
  - inversion Hn as [|? ? [[src [Hsrc [Hsw Hord]]] [Hdw [Hsinks Hal]]] Hn']; subst.
    cbn [route_nets].
    destruct (route_valid m (n_source n) (n_sinks n) (n_dests n) pl cons allocs radius s (n_order n) src
                          Hw Hh Hsrc Hsw Hdw Hs Hsinks Hal (Hord s Hs)) as [[t [E Hv]]|[E Hnc]].
    + rewrite E, Hsrc. cbn [bind].
      destruct (ner_net_rest_ok m src (n_dests n) radius s Hw Hh (working_in_range m src Hsw)) as [s' [Er Hs']].
      { apply Forall_forall. intros d Hd. apply working_in_range. rewrite Forall_forall in Hdw. apply Hdw. exact Hd. }
      { exact Hs. }
      rewrite Er. cbn [bind]. destruct (IH s' Hn' Hs') as [[ts [Et Hf]]|[Et Hnc]].
      * left. rewrite Et. cbn [bind]. exists (t :: ts). split; [reflexivity|]. constructor; [|exact Hf].
        exists src. split; assumption.
      * right. rewrite Et. cbn [bind]. split; [reflexivity | exact Hnc].
    + right. rewrite E. cbn [bind]. split; [reflexivity | exact Hnc].
Qed.

(* ---- a re-used Machine object: every call reads the fault sets as they are at that call *)
Lemma run_history_entries : forall ops m source sinks dests pl cons allocs radius mk r,
    In (mk, r) (run_history m ops source sinks dests pl cons allocs radius) ->
    exists pre s o post, ops = pre ++ MRoute s o :: post /\ mk = fold_left apply_mop pre m /\
                         r = route_net mk source sinks dests pl cons allocs radius s o.
Proof.
  induction ops as [|op ops IH]; intros m source sinks dests pl cons allocs radius mk r H; [destruct H|].
  cbn [run_history] in H.
  assert (Hrest : In (mk, r) (run_history (apply_mop m op) ops source sinks dests pl cons allocs radius) ->
                  exists pre s o post, op :: ops = pre ++ MRoute s o :: post /\ mk = fold_left apply_mop pre m /\
                                       r = route_net mk source sinks dests pl cons allocs radius s o).
  { intros H0. destruct (IH _ _ _ _ _ _ _ _ _ _ H0) as [pre [s [o [post [E1 [E2 E3]]]]]].
    exists (op :: pre), s, o, post. split; [rewrite E1; reflexivity|]. split; [exact E2 | exact E3]. }
  destruct op; try (apply Hrest; exact H).
  destruct H as [H|H]; [|apply Hrest; exact H]. inversion H; subst.
  exists [], s, order, ops. split; [reflexivity|]. split; reflexivity.
Qed.

Theorem run_history_valid : forall ops m source sinks dests pl cons allocs radius mk r src,
    In (mk, r) (run_history m ops source sinks dests pl cons allocs radius) ->
    1 <= rm_w mk -> 1 <= rm_h mk ->
    zassoc source pl = Some src -> working_chip mk src -> Forall (working_chip mk) dests ->
    (forall v, In v sinks -> exists c, zassoc v pl = Some c /\ In c dests) ->
    (forall v a b, In v sinks -> zassoc v allocs = Some (a, b) -> 0 <= a /\ b <= 18) ->
    (forall s o, In (MRoute s o) ops -> stream_ok s /\ order_ok_route mk src dests radius s o) ->
    (exists t, r = Ok t /\ ValidTree mk src (sink_reqs sinks pl cons allocs) t) \/
    (r = Failed 0 /\ ~ Connected mk).
Proof.
  intros ops m source sinks dests pl cons allocs radius mk r src Hin Hw Hh Hsrc Hsw Hdw Hsinks Hal Hops.
  destruct (run_history_entries _ _ _ _ _ _ _ _ _ _ _ Hin) as [pre [s [o [post [E1 [_ E3]]]]]].
  destruct (Hops s o) as [Hs Ho]; [rewrite E1; apply in_or_app; right; left; reflexivity|].
  subst r. apply route_valid; assumption.
Qed.

(* the edits act on what the next call sees *)
Lemma mop_add_kills : forall m c l, link_alive (apply_mop m (MDlAdd c l)) c l = false.
Proof.
  intros m c l. unfold link_alive, apply_mop, set_links, dead_link_mem. cbn [rm_dead_links existsb fst snd].
  rewrite rt_chip_eqb_refl, Z.eqb_refl. cbn [andb orb negb]. apply andb_false_r.
Qed.

Lemma mop_clear_revives : forall m c l, link_alive (apply_mop m MDlClear) c l = chip_alive m c.
Proof.
  intros m c l. unfold link_alive, apply_mop, set_links, dead_link_mem, chip_alive. cbn. rewrite andb_true_r. reflexivity.
Qed.

Lemma mop_chip_add_kills : forall m c, chip_alive (apply_mop m (MDcAdd c)) c = false.
Proof.
  intros m c. unfold chip_alive, apply_mop, set_chips, chip_mem. cbn [rm_dead_chips existsb rm_w rm_h].
  rewrite rt_chip_eqb_refl. cbn [orb negb]. apply andb_false_r.
Qed.

(* ---- tie T: the shape of route()'s loop and of Machine, re-extracted from the source on every run
   (Generated/GenRouteShape.v, tools/dump_c03.py, fail closed) *)
Require Import Rig.Generated.GenRouteShape.
From Coq Require Import String.

Lemma route_shape :
  route_loop_statements = 4 /\ route_loop_carried = ["routes"%string] /\ machine_attribute_hooks = [] /\
  machine_attributes = ["chip_resource_exceptions"; "chip_resources"; "dead_chips"; "dead_links"; "height"; "width"]%string.
Proof. repeat split; reflexivity. Qed.

(* an instance: two nets in one call, the second a twin of the first with one more sink, on a machine with a
   dead link on one of the two equally short routes; an edited machine *)
Definition ex_multi_machine : rmachine :=
  {| rm_w := 3; rm_h := 3; rm_dead_chips := []; rm_dead_links := [((0, 0), 1)] |}.
Definition ex_multi_nets : list netspec :=
  [ {| n_source := 0; n_sinks := [1]; n_dests := [(1, 1)]; n_order := None |};
    {| n_source := 2; n_sinks := [1; 3]; n_dests := [(1, 1)]; n_order := None |} ].
Definition ex_multi_pl : list (vertex * chip) := [(0, (0, 0)); (1, (1, 1)); (2, (0, 0)); (3, (1, 1))].

Lemma ex_route_nets :
  exists t1 t2,
    route_nets ex_multi_machine ex_multi_nets ex_multi_pl [] [(1, (1, 2))] 20 [5; 3; 9; 1; 0; 0; 7] = Ok [t1; t2]
    /\ check_tree ex_multi_machine (0, 0) (sink_reqs [1] ex_multi_pl [] [(1, (1, 2))]) t1 = true
    /\ check_tree ex_multi_machine (0, 0) (sink_reqs [1; 3] ex_multi_pl [] [(1, (1, 2))]) t2 = true
    /\ link_alive (apply_mop (perfect 3 3) (MDlAdd (0, 0) 1)) (0, 0) 1 = false.
Proof.
  eexists. eexists. split; [vm_compute; reflexivity|]. split; [vm_compute; reflexivity|].
  split; vm_compute; reflexivity.
Qed.
