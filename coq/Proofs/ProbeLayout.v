(* Proofs for property C14, part 3: the struct layout as a parameter (MachineController(structs=...)), the
   controller as an object with a history, the other entry points, the error clauses. *)
From Coq Require Import ZArith String Ascii List Bool Lia.
Require Import Rig.Generated.GenProbe Rig.Model.Base Rig.Model.Probe Rig.Spec.Probe Rig.Proofs.Probe
               Rig.Proofs.ProbeMachine.
Import ListNotations.
Open Scope Z_scope.

Ltac Zify.zify_post_hook ::= Z.to_euclidean_division_equations.

(* ------------------------------------------------------------------------------------------------ *)
(* the functions written for the packaged struct file are the instances at [packaged_layout]          *)

Lemma p2p_table_packaged : forall rd, p2p_table_L packaged_layout rd = p2p_table rd.
Proof. reflexivity. Qed.
Lemma system_info_packaged : forall rd info, system_info_L packaged_layout rd info = system_info rd info.
Proof. reflexivity. Qed.
Lemma read_vcpu_int_packaged : forall rd name p, read_vcpu_int_L packaged_layout rd name p = read_vcpu_int rd name p.
Proof. reflexivity. Qed.
Lemma get_iobuf_bytes_packaged : forall fuel rd p, get_iobuf_bytes_L packaged_layout fuel rd p = get_iobuf_bytes fuel rd p.
Proof. reflexivity. Qed.
Lemma processor_status_packaged : forall rd p, processor_status_L packaged_layout rd p = processor_status rd p.
Proof. reflexivity. Qed.

(* ------------------------------------------------------------------------------------------------ *)
(* reading one integer field, wherever the layout puts it                                             *)

Lemma unpack_B : forall b0, unpack "<B" [b0] = Some [UInt (le_decode [b0])].
Proof. reflexivity. Qed.
Lemma unpack_H : forall b0 b1, unpack "<H" [b0; b1] = Some [UInt (le_decode [b0; b1])].
Proof. reflexivity. Qed.
Lemma unpack_I : forall b0 b1 b2 b3, unpack "<I" [b0; b1; b2; b3] = Some [UInt (le_decode [b0; b1; b2; b3])].
Proof. reflexivity. Qed.

Lemma read_int_field_any : forall rd base f v, field_holds rd base f v -> read_int_field rd base f = Ok v.
Proof.
  intros rd base f v (pack & off & n & -> & Hp & Hv & Hrd). unfold read_int_field. cbv beta iota zeta.
  destruct Hp as [[-> ->]|[[-> ->]|[-> ->]]].
  - change (("<" ++ String.concat "" (repeat "B" (Z.to_nat 1)))%string) with "<B"%string.
    change (calcsize "<B") with (Some 1). cbv beta iota. change (Z.of_nat 1) with 1 in Hrd. rewrite Hrd.
    cbn [le_encode]. rewrite unpack_B. cbv beta iota. change [v mod 256] with (le_encode 1 v).
    rewrite le_decode_encode by assumption. reflexivity.
  - change (("<" ++ String.concat "" (repeat "H" (Z.to_nat 1)))%string) with "<H"%string.
    change (calcsize "<H") with (Some 2). cbv beta iota. change (Z.of_nat 2) with 2 in Hrd. rewrite Hrd.
    cbn [le_encode]. rewrite unpack_H. cbv beta iota. change [v mod 256; (v / 256) mod 256] with (le_encode 2 v).
    rewrite le_decode_encode by assumption. reflexivity.
  - change (("<" ++ String.concat "" (repeat "I" (Z.to_nat 1)))%string) with "<I"%string.
    change (calcsize "<I") with (Some 4). cbv beta iota. change (Z.of_nat 4) with 4 in Hrd. rewrite Hrd.
    rewrite le_encode_4. rewrite unpack_I. cbv beta iota. rewrite <- le_encode_4.
    rewrite le_decode_encode by assumption. reflexivity.
Qed.

(* ------------------------------------------------------------------------------------------------ *)
(* P2P table, system description, machine model under any layout                                      *)

Theorem p2p_roundtrip_L : forall L rd route w h,
  0 <= w < 256 -> 0 <= h < 256 -> routes_valid route ->
  field_holds rd (l_sv_base L) (l_p2p_dims L) (256 * w + h) -> reads_p2p rd route ->
  p2p_table_L L rd = Ok (p2p_truth route w h).
Proof.
  intros L rd route w h Hw Hh Hr Hd Hp. unfold p2p_table_L, read_sv_int_L.
  rewrite (read_int_field_any _ _ _ _ Hd). cbn [bind].
  assert (Hwd : p2p_width (256 * w + h) = w).
  { unfold p2p_width. change 255 with (Z.ones 8). rewrite land_ones_mod by lia.
    rewrite Z.shiftr_div_pow2 by lia. change (2 ^ 8) with 256. lia. }
  assert (Hht : p2p_height (256 * w + h) = h).
  { unfold p2p_height. change 255 with (Z.ones 8). rewrite land_ones_mod by lia.
    rewrite Z.shiftr_div_pow2 by lia. change (2 ^ 8) with 256. change (2 ^ 0) with 1. rewrite Z.div_1_r. lia. }
  rewrite Hwd, Hht.
  rewrite (p2p_columns_ok rd route w h) by (auto; intros c Hc; apply In_zrange in Hc; lia).
  reflexivity.
Qed.

Theorem system_info_exact_L : forall L rd route answers w h,
  0 <= w < 256 -> 0 <= h < 256 -> routes_valid route ->
  field_holds rd (l_sv_base L) (l_p2p_dims L) (256 * w + h) -> reads_p2p rd route ->
  answers_valid answers -> (exists c, has_route route w h c) ->
  exists si, system_info_L L rd (info_of_machine answers) = Ok si /\
    si_chips si = live_chips route answers w h /\
    (forall c, has_route route w h c -> fst c < si_width si /\ snd c < si_height si) /\
    (exists c, has_route route w h c /\ si_width si = fst c + 1) /\
    (exists c, has_route route w h c /\ si_height si = snd c + 1).
Proof.
  intros L rd route answers w h Hw Hh Hr Hd Hp Hv Hex.
  unfold system_info_L. rewrite (p2p_roundtrip_L L rd route w h) by assumption. cbn [bind].
  apply system_info_of_truth; assumption.
Qed.

Theorem probe_end_to_end_L : forall L rd route answers w h si,
  0 <= w < 256 -> 0 <= h < 256 -> routes_valid route ->
  field_holds rd (l_sv_base L) (l_p2p_dims L) (256 * w + h) -> reads_p2p rd route ->
  answers_valid answers -> (exists c, has_route route w h c) ->
  system_info_L L rd (info_of_machine answers) = Ok si ->
  model_matches_machine route answers w h si.
Proof.
  intros L rd route answers w h si Hw Hh Hr Hd Hp Hv Hex Hsi.
  unfold system_info_L in Hsi. rewrite (p2p_roundtrip_L L rd route w h) in Hsi by assumption. cbn [bind] in Hsi.
  eapply end_to_end_of_table; eassumption.
Qed.

(* the deprecated one-call entry point MachineController.get_machine *)
Theorem get_machine_exact_L : forall L rd route answers w h,
  0 <= w < 256 -> 0 <= h < 256 -> routes_valid route ->
  field_holds rd (l_sv_base L) (l_p2p_dims L) (256 * w + h) -> reads_p2p rd route ->
  answers_valid answers -> (exists c, has_route route w h c) ->
  exists si, system_info_L L rd (info_of_machine answers) = Ok si /\
             get_machine_L L rd (info_of_machine answers) = Ok (build_machine si) /\
             model_matches_machine route answers w h si.
Proof.
  intros L rd route answers w h Hw Hh Hr Hd Hp Hv Hex.
  destruct (system_info_exact_L L rd route answers w h Hw Hh Hr Hd Hp Hv Hex) as (si & Hsi & _).
  exists si. split; [assumption|]. split.
  - unfold get_machine_L. rewrite Hsi. reflexivity.
  - eapply probe_end_to_end_L; eassumption.
Qed.

(* ------------------------------------------------------------------------------------------------ *)
(* error clauses                                                                                      *)

(* no chip of the area has a route: max() of an empty sequence *)
Theorem system_info_no_route : forall info route w h,
  (forall c, 0 <= fst c < w -> 0 <= snd c < h -> route c = NO_ROUTE) ->
  system_info_of_table info (p2p_truth route w h) = OtherError.
Proof.
  intros info route w h Hn. unfold system_info_of_table.
  assert (HR : routed (p2p_truth route w h) = []).
  { unfold routed.
    destruct (filter (fun ce : chip * Z => negb (snd ce =? P2PTableEntry_none)) (p2p_truth route w h)) as [|[c e] l] eqn:E;
      [reflexivity|].
    assert (Hin : In (c, e) (filter (fun ce : chip * Z => negb (snd ce =? P2PTableEntry_none)) (p2p_truth route w h)))
      by (rewrite E; left; reflexivity).
    apply filter_In in Hin. destruct Hin as [Hin Hne]. apply In_p2p_truth in Hin. destruct Hin as (Hx & Hy & ->).
    cbn [snd] in Hne. rewrite (Hn c Hx Hy) in Hne. discriminate. }
  rewrite HR. reflexivity.
Qed.

(* a truncated `info` payload, or a state byte that is no AppState: an exception, never a wrong description *)
Theorem decode_info_short : forall r, (length (r_data r) < 24)%nat -> decode_info r = OtherError.
Proof.
  intros r Hl. unfold decode_info, unpack_from_ints, unpack_from. rewrite info_format_items.
  change (items_size (repeat (FInt 1) 18 ++ [FInt 2; FInt 4])) with 24%nat.
  apply Nat.ltb_lt in Hl. rewrite Hl. reflexivity.
Qed.

(* ------------------------------------------------------------------------------------------------ *)
(* the controller's history                                                                           *)

Lemma ctl_ensure_known : forall n sv, ctl_ensure_length (Some n) sv = Ok (Some n).
Proof. reflexivity. Qed.

(* whatever the controller has done before, get_system_info describes the machine it is asked about now *)
Theorem ctl_system_info_history_free : forall L st st' sv rd info,
  ctl_ensure_length st sv = Ok st' ->
  ctl_system_info L st sv rd info = bind (system_info_L L rd info) (fun si => Ok (si, st')).
Proof. intros L st st' sv rd info H. unfold ctl_system_info. rewrite H. reflexivity. Qed.

Theorem ctl_processor_status_history_free : forall L st st' sv rd p,
  ctl_ensure_length st sv = Ok st' ->
  ctl_processor_status L st sv rd p = bind (processor_status_L L rd p) (fun r => Ok (r, st')).
Proof. intros L st st' sv rd p H. unfold ctl_processor_status. rewrite H. reflexivity. Qed.

Theorem ctl_iobuf_history_free : forall L st st' sv fuel rd p,
  ctl_ensure_length st sv = Ok st' ->
  ctl_iobuf_bytes L st sv fuel rd p = bind (get_iobuf_bytes_L L fuel rd p) (fun r => Ok (r, st')).
Proof. intros L st st' sv fuel rd p H. unfold ctl_iobuf_bytes. rewrite H. reflexivity. Qed.

(* a whole history of get_system_info calls on successive machine states (same sver answer): every call
   returns what a fresh controller would return for the state current at that call *)
Fixpoint ctl_run (L : layout) (st : ctl_state) (sv : reply) (calls : list (reader * (chip -> option reply)))
  : list (result sysinfo) :=
  match calls with
  | [] => []
  | (rd, info) :: rest =>
    match ctl_system_info L st sv rd info with
    | Ok (si, st') => Ok si :: ctl_run L st' sv rest
    | r =>                         (* the call raised; what was learnt about the buffer size stays *)
      let st' := match ctl_ensure_length st sv with Ok s => s | _ => st end in
      match r with
      | Failed k => Failed k :: ctl_run L st' sv rest
      | OtherError => OtherError :: ctl_run L st' sv rest
      | _ => OutOfFuel :: ctl_run L st' sv rest
      end
    end
  end.

Theorem ctl_history_independent : forall L sv ci calls st,
  decode_sver sv = Ok ci -> (st = None \/ exists n, st = Some n) ->
  ctl_run L st sv calls = map (fun c => system_info_L L (fst c) (snd c)) calls.
Proof.
  intros L sv ci. induction calls as [|[rd info] rest IH]; intros st Hsv Hst; [reflexivity|].
  cbn [ctl_run map fst snd].
  assert (He : exists st', ctl_ensure_length st sv = Ok (Some st')).
  { destruct Hst as [->|[n ->]]; cbn [ctl_ensure_length]; [rewrite Hsv; cbn [bind]|]; eauto. }
  destruct He as [n He]. rewrite (ctl_system_info_history_free L st (Some n) sv rd info He). rewrite He.
  destruct (system_info_L L rd info) as [si| | |] eqn:E; cbn [bind];
    rewrite IH by (auto; right; eauto); reflexivity.
Qed.

(* ------------------------------------------------------------------------------------------------ *)
(* per-core status and console buffers under any layout                                               *)

Lemma packaged_vcpu_layout : vcpu_fields_at packaged_vcpu_offsets = vcpu_fields.
Proof. reflexivity. Qed.

Lemma status_truth_packaged : forall d, status_truth_at packaged_vcpu_offsets d = status_truth d.
Proof. reflexivity. Qed.

Lemma slice_at : forall (d : list Z) off n, 0 <= off -> 0 <= n ->
  slice off (off + n) d = firstn (Z.to_nat n) (skipn (Z.to_nat off) d).
Proof. intros. unfold slice. replace (off + n - off) with n by lia. reflexivity. Qed.

Lemma window_length : forall (d : list Z) off n, 0 <= off -> 0 <= n -> off + n <= Z.of_nat (length d) ->
  length (firstn (Z.to_nat n) (skipn (Z.to_nat off) d)) = Z.to_nat n.
Proof. intros. rewrite firstn_length, skipn_length. lia. Qed.

Lemma unpack_native_I : forall b0 b1 b2 b3, unpack "I" [b0; b1; b2; b3] = Some [UInt (le_decode [b0; b1; b2; b3])].
Proof. reflexivity. Qed.
Lemma unpack_native_H : forall b0 b1, unpack "H" [b0; b1] = Some [UInt (le_decode [b0; b1])].
Proof. reflexivity. Qed.
Lemma unpack_native_B : forall b0, unpack "B" [b0] = Some [UInt (le_decode [b0])].
Proof. reflexivity. Qed.
Lemma unpack_native_16s : forall b0 b1 b2 b3 b4 b5 b6 b7 b8 b9 b10 b11 b12 b13 b14 b15,
  unpack "16s" [b0; b1; b2; b3; b4; b5; b6; b7; b8; b9; b10; b11; b12; b13; b14; b15] =
  Some [UBytes [b0; b1; b2; b3; b4; b5; b6; b7; b8; b9; b10; b11; b12; b13; b14; b15]].
Proof. reflexivity. Qed.

Lemma unpack_field_I : forall d nm off len, 0 <= off -> off + 4 <= Z.of_nat (length d) ->
  unpack_field d (nm, ("I"%string, off, len)) = Some (nm, SInt (u32_at d (Z.to_nat off))).
Proof.
  intros d nm off len Ho Hl. unfold unpack_field. change (calcsize "I") with (Some 4). cbv beta iota.
  rewrite slice_at by lia. unfold u32_at. change (Z.to_nat 4) with 4%nat.
  pose proof (window_length d off 4 Ho ltac:(lia) Hl) as Hw. change (Z.to_nat 4) with 4%nat in Hw.
  destruct (firstn 4 (skipn (Z.to_nat off) d)) as [|b0 [|b1 [|b2 [|b3 [|]]]]]; try discriminate.
  rewrite unpack_native_I. reflexivity.
Qed.

Lemma unpack_field_H : forall d nm off len, 0 <= off -> off + 2 <= Z.of_nat (length d) ->
  unpack_field d (nm, ("H"%string, off, len)) = Some (nm, SInt (u16_at d (Z.to_nat off))).
Proof.
  intros d nm off len Ho Hl. unfold unpack_field. change (calcsize "H") with (Some 2). cbv beta iota.
  rewrite slice_at by lia. unfold u16_at. change (Z.to_nat 2) with 2%nat.
  pose proof (window_length d off 2 Ho ltac:(lia) Hl) as Hw. change (Z.to_nat 2) with 2%nat in Hw.
  destruct (firstn 2 (skipn (Z.to_nat off) d)) as [|b0 [|b1 [|]]]; try discriminate.
  rewrite unpack_native_H. reflexivity.
Qed.

Lemma unpack_field_B : forall d nm off len, 0 <= off -> off + 1 <= Z.of_nat (length d) ->
  unpack_field d (nm, ("B"%string, off, len)) = Some (nm, SInt (u8_at d (Z.to_nat off))).
Proof.
  intros d nm off len Ho Hl. unfold unpack_field. change (calcsize "B") with (Some 1). cbv beta iota.
  rewrite slice_at by lia. unfold u8_at. change (Z.to_nat 1) with 1%nat.
  pose proof (window_length d off 1 Ho ltac:(lia) Hl) as Hw. change (Z.to_nat 1) with 1%nat in Hw.
  destruct (firstn 1 (skipn (Z.to_nat off) d)) as [|b0 [|]]; try discriminate.
  rewrite unpack_native_B. reflexivity.
Qed.

Lemma unpack_field_16s : forall d nm off len, 0 <= off -> off + 16 <= Z.of_nat (length d) ->
  unpack_field d (nm, ("16s"%string, off, len)) = Some (nm, SBytes (firstn 16 (skipn (Z.to_nat off) d))).
Proof.
  intros d nm off len Ho Hl. unfold unpack_field. change (calcsize "16s") with (Some 16). cbv beta iota.
  rewrite slice_at by lia. change (Z.to_nat 16) with 16%nat.
  pose proof (window_length d off 16 Ho ltac:(lia) Hl) as Hw. change (Z.to_nat 16) with 16%nat in Hw.
  generalize dependent (firstn 16 (skipn (Z.to_nat off) d)). intros l Hw.
  do 17 (destruct l as [|? l]; try discriminate).
  rewrite unpack_native_16s. reflexivity.
Qed.

Theorem status_slicing_L : forall L (rd : reader) base p d offs,
  l_vcpu_fields L = vcpu_fields_at offs ->
  status_block_valid_at offs (l_vcpu_size L) d ->
  read_sv_int_L L rd (l_vcpu_base L) = Ok base ->
  rd (base + l_vcpu_size L * p) (l_vcpu_size L) = d ->
  processor_status_L L rd p = Ok (status_truth_at offs d).
Proof.
  intros L rd base p d offs Hfields (Hlen & Hbytes & Hn & Hfit & Hcs & Hrt & Hname) Hbase Hrd.
  destruct offs as [|o0 [|o1 [|o2 [|o3 [|o4 [|o5 [|o6 [|o7 [|o8 [|o9 [|o10 [|o11 [|o12 [|o13 [|o14 [|o15 [|o16 [|o17 [|o18 [|o19 [|o20 [|o21 [|o22 [|o23 [|o24 [|o25 [|o26 [|o27 [|o28 [|o29 [|o30 [|]]]]]]]]]]]]]]]]]]]]]]]]]]]]]]]]; try discriminate. clear Hn.
  unfold vcpu_offsets_fit, vcpu_field_sizes in Hfit.
  revert Hrd Hbase Hlen Hbytes Hcs Hrt Hname Hfields.
  repeat match goal with H : Forall2 _ (_ :: _) (_ :: _) |- _ => inversion H; clear H; subst end.
  intros Hrd Hbase Hlen Hbytes Hcs Hrt Hname Hfields.
  cbn [nth] in Hcs, Hrt, Hname.
  assert (Hsw : 0 <= u32_at d (Z.to_nat o25))
    by (unfold u32_at; apply le_decode_nonneg, Forall_firstn_skipn; assumption).
  clear Hbytes. apply app_states_members in Hcs. apply rte_members in Hrt.
  unfold processor_status_L. rewrite Hbase. cbn [bind]. rewrite Hrd, Hfields. clear Hrd Hbase Hfields.
  cbv [vcpu_fields_at vcpu_names_packs map combine fst snd]. cbn [unpack_fields].
  rewrite !unpack_field_I by lia. rewrite !unpack_field_B by lia. rewrite !unpack_field_H by lia.
  rewrite !unpack_field_16s by lia. cbv beta iota.
  unfold status_truth_at. cbv zeta. cbn [nth]. rewrite <- (version_bytes _ Hsw).
  repeat match goal with
         | |- context [Z.to_nat ?o] => is_var o; let n := fresh "n" in set (n := Z.to_nat o) in *; clearbody n
         end.
  cbv -[u32_at u16_at u8_at firstn skipn strip0 is_ascii zmem appstate_values rte_values Z.land Z.shiftr]
    in Hname, Hcs, Hrt |- *.
  rewrite Hname, Hcs, Hrt. reflexivity.
Qed.

Theorem iobuf_bytes_chain_L : forall L rd p size vb o a blocks fuel,
  field_holds rd (l_sv_base L) (l_iobuf_size L) size ->
  field_holds rd (l_sv_base L) (l_vcpu_base L) vb ->
  sassoc "iobuf" (l_vcpu_fields L) = Some ("I"%string, o, 1) ->
  is_word a -> rd (vb + l_vcpu_size L * p + o) 4 = le_encode 4 a ->
  chain_at rd size a blocks -> (length blocks < fuel)%nat ->
  get_iobuf_bytes_L L fuel rd p = Ok (chain_text blocks).
Proof.
  intros L rd p size vb o a blocks fuel Hs Hb Hf Ha Hrd Hc Hfuel.
  unfold get_iobuf_bytes_L, read_vcpu_int_L, read_sv_int_L.
  rewrite (read_int_field_any _ _ _ _ Hs). cbn [bind]. rewrite Hf. rewrite (read_int_field_any _ _ _ _ Hb). cbn [bind].
  change (calcsize ("<" ++ "I")) with (Some 4). cbv beta iota. rewrite Hrd, le_encode_4.
  change (("<" ++ "I")%string) with "<I"%string. rewrite unpack_I. cbv beta iota. rewrite <- le_encode_4.
  rewrite le_decode_encode by (apply word_range; assumption). cbn [bind Z.eqb Pos.eqb].
  apply iobuf_chain; assumption.
Qed.

(* ------------------------------------------------------------------------------------------------ *)
(* the views of a chip's information and of the description                                           *)

Theorem working_links_exact : forall cs, cs_valid cs ->
  working_links (encode_info cs) = Ok (filter (fun l => Z.testbit (cs_linkmask cs) l) [0; 1; 2; 3; 4; 5]).
Proof. intros cs Hv. unfold working_links. rewrite chip_info_roundtrip by assumption. reflexivity. Qed.

Theorem ip_address_exact : forall cs, cs_valid cs ->
  ip_address (encode_info cs) = Ok (if cs_eth_up cs then Some (ip_text (cs_ip cs)) else None).
Proof. intros cs Hv. unfold ip_address. rewrite chip_info_roundtrip by assumption. reflexivity. Qed.

Theorem si_links_exact : forall si c l, NoDup (map fst (si_chips si)) ->
  (In (c, l) (si_links si) <-> exists ci, si_get si c = Some ci /\ In l (ci_links ci)).
Proof.
  intros si c l Hnd. unfold si_links. rewrite in_flat_map. split.
  - intros ([c' ci] & Hin & Hl). cbn [fst snd] in Hl. apply in_map_iff in Hl. destruct Hl as (l' & Heq & Hl).
    inversion Heq; subst. exists ci. split; [apply In_cassoc; assumption|assumption].
  - intros (ci & Hg & Hl). exists (c, ci). split; [apply cassoc_In; assumption|]. cbn [fst snd].
    apply in_map_iff. exists l. auto.
Qed.

Theorem si_contains_exact : forall si c p l,
  (si_has_core si c p = true <-> exists ci, si_get si c = Some ci /\ 0 <= p < ci_cores ci) /\
  (si_has_link si c l = true <-> exists ci, si_get si c = Some ci /\ In l (ci_links ci)).
Proof.
  intros si c p l. unfold si_has_core, si_has_link. destruct (si_get si c) as [ci|]; split; split.
  - intros H. apply andb_true_iff in H. destruct H as [H1 H2]. apply Z.leb_le in H1. apply Z.ltb_lt in H2. eauto.
  - intros (ci' & Heq & H). inversion Heq; subst. apply andb_true_iff. split; [apply Z.leb_le|apply Z.ltb_lt]; lia.
  - intros H. apply zmem_In in H. eauto.
  - intros (ci' & Heq & H). inversion Heq; subst. apply zmem_In. assumption.
  - discriminate.
  - intros (ci' & Heq & _). discriminate.
  - discriminate.
  - intros (ci' & Heq & _). discriminate.
Qed.

(* a moved layout meeting the hypotheses: sv at another base, the vcpu block enlarged and its fields shifted *)
Definition ex_offsets : list Z := map (Z.add 16) packaged_vcpu_offsets.
Definition ex_layout : layout :=
  mkLayout 4110449664 ("H"%string, 130, 1) ("I"%string, 12, 1) ("I"%string, 200, 1) ("B"%string, 7, 1) 160
           (vcpu_fields_at ex_offsets).
Definition ex_block_L : list Z := repeat 0 16 ++ ex_block ++ repeat 0 16.

Lemma ex_block_L_valid : status_block_valid_at ex_offsets (l_vcpu_size ex_layout) ex_block_L.
Proof.
  unfold status_block_valid_at. split; [reflexivity|]. split.
  - unfold ex_block_L. apply Forall_app. split; [repeat constructor; unfold is_byte; lia|].
    apply Forall_app. split; [apply ex_block_valid|repeat constructor; unfold is_byte; lia].
  - split; [reflexivity|]. split.
    + unfold vcpu_offsets_fit, ex_offsets, packaged_vcpu_offsets, vcpu_field_sizes. cbn [map l_vcpu_size ex_layout].
      repeat (constructor; [lia|]). constructor.
    + split; [vm_compute; tauto|]. split; [vm_compute; split; discriminate|]. reflexivity.
Qed.

(* ------------------------------------------------------------------------------------------------ *)
(* audit follow-up: a state byte that is no AppState, the remaining views, literal link list          *)

Lemma appstate_values_sound : forall s, zmem s appstate_values = true -> In s app_states.
Proof.
  intros s H. apply zmem_In in H. unfold appstate_values in H. unfold app_states. cbn [In] in *.
  repeat (destruct H as [<-|H]; [tauto|]). contradiction.
Qed.

(* the `info` payload is well-formed except that one of the 18 state bytes -- at ANY position, also that of
   a core at or beyond num_cores -- is no AppState: get_chip_info raises (ValueError), it does not return *)
Theorem decode_info_bad_state : forall cs s,
  length (cs_states cs) = 18%nat -> length (cs_ip cs) = 4%nat ->
  In s (cs_states cs) -> ~ In s app_states ->
  decode_info (encode_info cs) = OtherError.
Proof.
  intros cs s Hlen Hip Hin Hbad. unfold decode_info.
  change (r_data (encode_info cs)) with
    (cs_states cs ++ le_encode 2 (256 * fst (cs_eth cs) + snd (cs_eth cs)) ++ cs_ip cs).
  rewrite unpack_info_data by assumption.
  assert (Hsl : slice 0 ci_states_stop (cs_states cs ++ [le_decode (le_encode 2 (256 * fst (cs_eth cs) + snd (cs_eth cs)));
                                                          le_decode (cs_ip cs)]) = cs_states cs).
  { unfold slice, ci_states_stop. change (Z.to_nat (18 - 0)) with 18%nat. change (Z.to_nat 0) with 0%nat.
    rewrite skipn_O. rewrite <- Hlen. rewrite firstn_app, Nat.sub_diag, firstn_all. cbn [firstn]. apply app_nil_r. }
  rewrite Hsl.
  assert (Hf : forallb (fun s0 => zmem s0 appstate_values) (cs_states cs) = false).
  { destruct (forallb (fun s0 => zmem s0 appstate_values) (cs_states cs)) eqn:E; [|reflexivity].
    rewrite forallb_forall in E. specialize (E s Hin). apply appstate_values_sound in E. contradiction. }
  rewrite Hf. reflexivity.
Qed.

Lemma decode_info_total : forall r, (exists ci, decode_info r = Ok ci) \/ decode_info r = OtherError.
Proof.
  intros r. unfold decode_info. destruct (unpack_from_ints ci_data_format (r_data r)); [|right; reflexivity].
  match goal with |- context [if ?b then _ else _] => destruct b end; [left; eauto|right; reflexivity].
Qed.

Lemma probe_chips_error : forall info l c e r,
  In (c, e) l -> e <> NO_ROUTE -> info c = Some r -> decode_info r = OtherError ->
  probe_chips info l = OtherError.
Proof.
  intros info. induction l as [|[c' e'] l IH]; intros c e r Hin Hne Hi Hd; [contradiction|].
  cbn [probe_chips]. change P2PTableEntry_none with NO_ROUTE. destruct Hin as [Heq|Hin].
  - inversion Heq; subst. apply Z.eqb_neq in Hne. rewrite Hne, Hi, Hd. reflexivity.
  - specialize (IH c e r Hin Hne Hi Hd). destruct (e' =? NO_ROUTE); [assumption|].
    destruct (info c') as [r'|]; [|assumption].
    destruct (decode_info_total r') as [[ci Hok]|Herr]; [rewrite Hok; cbn [bind]; rewrite IH; reflexivity|].
    rewrite Herr. reflexivity.
Qed.

(* ... and that aborts the whole get_system_info: one chip with a junk state byte (even in the slot of a core it
   does not have) and no description at all is returned *)
Theorem system_info_bad_state : forall info tbl c e r,
  In (c, e) tbl -> e <> NO_ROUTE -> info c = Some r -> decode_info r = OtherError ->
  system_info_of_table info tbl = OtherError.
Proof.
  intros info tbl c e r Hin Hne Hi Hd. unfold system_info_of_table.
  rewrite (probe_chips_error info tbl c e r Hin Hne Hi Hd).
  destruct (zmax_list _); [|reflexivity]. destruct (zmax_list _); reflexivity.
Qed.

Theorem ctl_history_independent' : forall L sv ci calls st,
  decode_sver sv = Ok ci ->
  ctl_run L st sv calls = map (fun c => system_info_L L (fst c) (snd c)) calls.
Proof.
  intros L sv ci calls st Hsv. apply (ctl_history_independent L sv ci calls st Hsv).
  destruct st; [right; eauto|left; reflexivity].
Qed.

Theorem build_machine_exact_lit : forall si, si_wf si ->
  let m := build_machine si in
  pm_width m = si_width si /\ pm_height m = si_height si /\
  (forall c, pm_has_chip m c = si_has si c) /\
  (forall c ci, si_get si c = Some ci ->
     pm_get m c = Ok (ci_cores ci, ci_free_sdram ci, ci_free_sram ci)) /\
  (forall c, si_has si c = false -> pm_get m c = OtherError) /\
  (forall c l, In l [0; 1; 2; 3; 4; 5] ->
     (pm_has_link m c l = true <-> exists ci, si_get si c = Some ci /\ In l (ci_links ci))) /\
  (forall c, In c (pm_dead_chips m) <-> (in_bounds (si_width si) (si_height si) c /\ si_has si c = false)) /\
  (forall c l, In (c, l) (pm_dead_links m) <->
     exists ci, si_get si c = Some ci /\ In l [0; 1; 2; 3; 4; 5] /\ ~ In l (ci_links ci)).
Proof. intros si Hwf. rewrite <- links_values_eq. exact (build_machine_exact si Hwf). Qed.

Theorem num_working_cores_any_layout : forall L rd v,
  field_holds rd (l_sv_base L) (l_num_cpus L) v -> num_working_cores_L L rd = Ok v.
Proof. intros. unfold num_working_cores_L, read_sv_int_L. apply read_int_field_any. assumption. Qed.

Theorem si_cores_exact : forall si c p s, NoDup (map fst (si_chips si)) ->
  (In (c, p, s) (si_cores si) <->
   exists ci, si_get si c = Some ci /\ 0 <= p /\ nth_error (ci_states ci) (Z.to_nat p) = Some s).
Proof.
  intros si c p s Hnd. unfold si_cores. rewrite in_flat_map. split.
  - intros ([c' ci] & Hin & H). cbn [fst snd] in H. apply in_map_iff in H. destruct H as ([p' s'] & Heq & He).
    cbn [fst snd] in Heq. inversion Heq; subst. apply In_enumerate in He. exists ci.
    split; [apply In_cassoc; assumption|assumption].
  - intros (ci & Hg & Hp & Hn). exists (c, ci). split; [apply cassoc_In; assumption|]. cbn [fst snd].
    apply in_map_iff. exists (p, s). split; [reflexivity|]. apply In_enumerate. auto.
Qed.

Theorem si_ethernet_exact : forall si c ip, NoDup (map fst (si_chips si)) ->
  (In (c, ip) (si_ethernet si) <-> exists ci, si_get si c = Some ci /\ ci_eth_up ci = true /\ ip = ci_ip ci).
Proof.
  intros si c ip Hnd. unfold si_ethernet. rewrite in_flat_map. split.
  - intros ([c' ci] & Hin & H). cbn [fst snd] in H. destruct (ci_eth_up ci) eqn:E; [|contradiction].
    destruct H as [Heq|[]]. inversion Heq; subst. exists ci. split; [apply In_cassoc; assumption|auto].
  - intros (ci & Hg & He & ->). exists (c, ci). split; [apply cassoc_In; assumption|]. cbn [fst snd].
    rewrite He. left. reflexivity.
Qed.

(* (x, y, p, state) in system_info: true iff the chip is described, p is one of its num_cores cores and in that
   state; IndexError when num_cores exceeds the number of states held (a 5-bit count above 18) *)
Theorem si_has_core_state_exact : forall si c p s,
  (si_get si c = None -> si_has_core_state si c p s = Ok false) /\
  (forall ci, si_get si c = Some ci -> ~ (0 <= p < ci_cores ci) -> si_has_core_state si c p s = Ok false) /\
  (forall ci s', si_get si c = Some ci -> 0 <= p < ci_cores ci -> nth_error (ci_states ci) (Z.to_nat p) = Some s' ->
     si_has_core_state si c p s = Ok (s' =? s)) /\
  (forall ci, si_get si c = Some ci -> 0 <= p < ci_cores ci -> Z.of_nat (length (ci_states ci)) <= p ->
     si_has_core_state si c p s = OtherError).
Proof.
  intros si c p s. unfold si_has_core_state. split; [intros ->; reflexivity|]. split; [|split].
  - intros ci -> Hn. destruct ((0 <=? p) && (p <? ci_cores ci)) eqn:E; [|reflexivity].
    apply andb_true_iff in E. destruct E as [E1 E2]. apply Z.leb_le in E1. apply Z.ltb_lt in E2. lia.
  - intros ci s' -> Hp Hn. replace ((0 <=? p) && (p <? ci_cores ci)) with true; [rewrite Hn; reflexivity|].
    symmetry. apply andb_true_iff. split; [apply Z.leb_le|apply Z.ltb_lt]; lia.
  - intros ci -> Hp Hl. replace ((0 <=? p) && (p <? ci_cores ci)) with true.
    + assert (Hn : nth_error (ci_states ci) (Z.to_nat p) = None) by (apply nth_error_None; lia). rewrite Hn. reflexivity.
    + symmetry. apply andb_true_iff. split; [apply Z.leb_le|apply Z.ltb_lt]; lia.
Qed.

(* examples: a chip reporting 31 cores (5-bit count at full width); a junk byte in the slot of a core the chip
   does not have; a 17-core and an 18-core chip where core 17 is busy on the latter only *)
Definition ex_cs31 : chip_state :=
  mkCS 31 [7; 15; 15; 15; 15; 15; 15; 15; 15; 15; 15; 15; 15; 15; 15; 15; 15; 15] 63 1 2 0 false [0; 0; 0; 0] (0, 0).
Lemma ex_cs31_valid : cs_valid ex_cs31 /\ option_map (fun ci => (ci_cores ci, length (ci_states ci)))
                                                      (okopt (decode_info (encode_info ex_cs31))) = Some (31, 18%nat).
Proof.
  split; [|vm_compute; reflexivity].
  unfold cs_valid, ex_cs31, is_byte. cbn [cs_cores cs_states cs_linkmask cs_rtr cs_ip cs_eth fst snd].
  repeat split; try lia; try reflexivity.
  - repeat (apply Forall_cons; [unfold app_states; cbn [In]; lia|]). apply Forall_nil.
  - repeat (apply Forall_cons; [lia|]). apply Forall_nil.
Qed.

Definition ex_cs_junk : chip_state :=
  mkCS 17 [7; 15; 15; 15; 15; 15; 15; 15; 15; 15; 15; 15; 15; 15; 15; 15; 15; 99] 63 1 2 0 false [0; 0; 0; 0] (0, 0).
Lemma ex_cs_junk_raises : decode_info (encode_info ex_cs_junk) = OtherError.
Proof.
  apply (decode_info_bad_state ex_cs_junk 99); [reflexivity|reflexivity|cbn; tauto|].
  unfold app_states. cbn [In]. lia.
Qed.

Definition ex_si2 : sysinfo :=
  mkSI 2 1 [((0, 0), ex_ci [7; 15; 15; 15; 15; 15; 15; 15; 15; 15; 15; 15; 15; 15; 15; 15; 15; 7] 100);
            ((1, 0), ex_ci [7; 15; 15; 15; 15; 15; 15; 15; 15; 15; 15; 15; 15; 15; 15; 15; 15] 100)].
Lemma ex_si2_constraints : build_core_constraints ex_si2 = [((0, 1), None); ((17, 18), Some (0, 0))].
Proof. vm_compute. reflexivity. Qed.
