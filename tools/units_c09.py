UNITS = {
    # Integer expressions of the application loader (nn id, FFS / FFCS / FFD / FFE / signal / count packet
    # fields, block count, loop tests and counters of _send_ffd and load_application) translated from the
    # source text of rig/machine_control/machine_controller.py by tools/dump_c09.py (expression translator
    # of tools/py2v.py), plus the live values of the enums and struct offsets they mention.
    "GenLoad": dict(
        props=["C09"],
        dumper="dump_c09.py", args=[]),
    # The control flow of flood_fill_aplx / load_application / SpiNNakerLoadingError that Model/Load.v mirrors by
    # hand, compared statement by statement (integer expressions as holes) with the shape the model was written
    # against -- fail closed -- by tools/dump_c09s.py; emits the literals the model takes from it.
    "GenLoadShape": dict(
        props=["C09"],
        dumper="dump_c09s.py", args=[]),
}
