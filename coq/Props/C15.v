(* C15 -- SDP and SCP packets encode to the wire layout and decode back unchanged. *)
From Coq Require Import ZArith String List Bool.
Require Import Rig.Generated.GenPackets Rig.Model.Base Rig.Model.Packet Rig.Spec.Packet Rig.Proofs.Packet.
Import ListNotations.
Open Scope Z_scope.

Theorem C15_formats_parse :
  parse_fmt sdp_header_fmt = Some ([FPad; FPad] ++ repeat (FUInt 1) 8)
  /\ parse_fmt sdp_unpack_fmt = Some ([FPad; FPad] ++ repeat (FUInt 1) 8)
  /\ parse_fmt scp_header_fmt = Some [FUInt 2; FUInt 2]
  /\ parse_fmt scp_unpack_header_fmt = Some [FUInt 2; FUInt 2]
  /\ parse_fmt scp_pack_arg1_fmt = Some [FUInt 4] /\ parse_fmt scp_pack_arg2_fmt = Some [FUInt 4]
  /\ parse_fmt scp_pack_arg3_fmt = Some [FUInt 4]
  /\ parse_fmt scp_unpack_arg1_fmt = Some [FUInt 4] /\ parse_fmt scp_unpack_arg2_fmt = Some [FUInt 4]
  /\ parse_fmt scp_unpack_arg3_fmt = Some [FUInt 4].
Proof. exact formats_parse. Qed.
