"""Dump, from the live rig.machine_control modules of the current /repo, the constants the SCP burst model
(coq/Model/SCP.v) rests on: return codes, the retryable and fatal sets, the SDP header length (offset of
the (rc, seq) fields parsed by send_scp_burst), the sequence mask of `seqs`, the connection defaults."""
import inspect
import warnings

warnings.simplefilter("ignore")
import dumplib as D  # noqa: E402
from rig.machine_control import consts, scp_connection


def main():
    out = [D.HEADER % "dump_c06.py"]
    out.append("(* rig/machine_control/consts.py : SCPReturnCodes *)\n")
    out.append(D.enum("rc", consts.SCPReturnCodes))
    out.append(D.definition("all_return_codes", "list Z",
                            D.zlist(sorted(int(m) for m in consts.SCPReturnCodes))))
    out.append("(* rig/machine_control/consts.py : RETRYABLE_SCP_RETURN_CODES (sorted) *)\n")
    out.append(D.definition("retryable_codes", "list Z",
                            D.zlist(sorted(int(m) for m in consts.RETRYABLE_SCP_RETURN_CODES))))
    out.append("(* rig/machine_control/consts.py : keys of FATAL_SCP_RETURN_CODES (sorted) *)\n")
    out.append(D.definition("fatal_codes", "list Z",
                            D.zlist(sorted(int(m) for m in consts.FATAL_SCP_RETURN_CODES))))
    out.append(D.definition("sdp_header_length", "Z", D.z(consts.SDP_HEADER_LENGTH)))
    sig = inspect.signature(scp_connection.seqs)
    if list(sig.parameters) != ["mask"]:
        raise SystemExit("seqs() no longer has the single parameter `mask`")
    out.append("(* rig/machine_control/scp_connection.py : seqs(mask=...) default; first values of the generator *)\n")
    out.append(D.definition("seq_mask", "Z", D.z(sig.parameters["mask"].default)))
    g = scp_connection.seqs()
    out.append(D.definition("seq_first_values", "list Z", D.zlist([next(g) for _ in range(4)])))
    sig = inspect.signature(scp_connection.SCPConnection.__init__)
    out.append("(* SCPConnection.__init__ defaults *)\n")
    out.append(D.definition("default_n_tries", "Z", D.z(sig.parameters["n_tries"].default)))
    print("".join(out))


main()
