"""Entry point of the checks (see DESIGN.md section 3.4)."""
import argparse
import importlib
import os
import sys
import traceback

sys.path.insert(0, os.path.dirname(os.path.abspath(__file__)))
import lib  # noqa: E402


def setup():
    """MANIFEST.setup_cmd: regenerate coq/Generated from /repo and build the whole development."""
    sys.path.insert(0, os.path.join(lib.VERIF, "tools"))
    import units
    chk = lib.Check("setup", "quick", 0)
    chk.regenerate(sorted(units.UNITS))
    bad = [o for o in chk.obligations if not o[1]]
    for o in bad:
        print("setup: translation unit failed:", o[0], o[2])
    chk.ensure_makefile()
    # -k: build everything that can be built; a proof that does not build is reported by its own check
    # (which re-runs make on its Props file), not by a failed setup
    rc, out = lib.sh("timeout 7200 make -k -j%d 2>&1" % (os.cpu_count() or 4), cwd=lib.COQ)
    print(out[-3000:])
    if rc != 0:
        print("setup: some files did not build (their checks will report them):")
        for line in out.splitlines():
            if "Error" in line and "make" in line:
                print("   ", line)
    rc = 0 if os.path.exists(os.path.join(lib.COQ, "Makefile")) else 1
    print(lib.run_py2v_selftest(force=True)[1])       # informative only: never fails the setup
    chk.hygiene()
    bad = [o for o in chk.obligations if not o[1]]
    for o in bad:
        print("setup: FAILED", o[0], o[2][:500])
    import shutil
    shutil.rmtree(chk.work, ignore_errors=True)
    ext = os.path.join(lib.VERIF, "coq", "Extract", "build.sh")
    if os.path.exists(ext):
        rc2, out2 = lib.sh("sh " + ext, cwd=os.path.dirname(ext), timeout=1800)
        print(out2[-1500:])
        rc = rc or rc2
    return 1 if rc != 0 else 0


def main():
    ap = argparse.ArgumentParser()
    ap.add_argument("prop", nargs="?")
    ap.add_argument("--setup", action="store_true")
    ap.add_argument("--tier", default=os.environ.get("VERIF_TIER", "quick"))
    ap.add_argument("--seed", type=int, default=int(os.environ.get("VERIF_SEED", "0")))
    ap.add_argument("--replay")
    a = ap.parse_args()
    if a.setup:
        sys.exit(setup())
    if a.tier not in ("quick", "thorough"):
        a.tier = "quick"
    props = [a.prop]
    if a.prop == "all":
        props = sorted(f[:-3].upper() for f in os.listdir(os.path.dirname(os.path.abspath(__file__)))
                       if f.startswith("c") and f[1:3].isdigit() and f.endswith(".py") and len(f) == 6)
    rc = 0
    for p in props:
        mod = importlib.import_module(p.lower())
        chk = lib.Check(p, a.tier, a.seed, level=getattr(mod, "LEVEL", "proof"))
        try:
            mod.run(chk, a)
        except Exception:
            chk.oblige("check-ran-to-completion", False, traceback.format_exc())
        rc |= chk.finish()
    sys.exit(rc)


if __name__ == "__main__":
    main()
