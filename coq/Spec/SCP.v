(* What C06 asks of a burst of SCP commands, stated on the inputs (configuration, commands, environment) and
   on the observable trace (socket sends, selects, receives, callback invocations) and outcome only.
   Definitions only. *)
From Coq Require Import ZArith List Bool.
Require Import Rig.Generated.GenSCP Rig.Model.Base Rig.Model.SCP.
Import ListNotations.
Open Scope Z_scope.

Definition ids (cmds : list cmd) : list Z := map c_id cmds.

(* the domain of the call: window >= 1 (0 spins for ever), at most 2^16 (all sequence numbers outstanding:
   the search for a free one spins for ever), tries >= 1 *)
Definition config_ok (cf : config) : Prop :=
  1 <= cf_window cf <= 65536 /\ 1 <= cf_tries cf.

(* ---------------------------------------------------------------------------------------------- *)
(* counting on traces                                                                               *)
(* ---------------------------------------------------------------------------------------------- *)

Definition is_send_of (c : Z) (o : output) : bool :=
  match o with OSend _ c' _ _ => c' =? c | _ => false end.
Definition is_callback_of (c : Z) (o : output) : bool :=
  match o with OCallback c' _ => c' =? c | _ => false end.

Definition n_sends (c : Z) (tr : list output) : nat := length (filter (is_send_of c) tr).
Definition n_callbacks (c : Z) (tr : list output) : nat := length (filter (is_callback_of c) tr).

Definition occurrences (c : Z) (l : list Z) : nat := count_occ Z.eq_dec l c.

(* ---------------------------------------------------------------------------------------------- *)
(* "at no time are more than the window size of commands unanswered"                                *)
(* ---------------------------------------------------------------------------------------------- *)

(* the commands transmitted and not yet answered, with their sequence numbers, after a trace: a first
   transmission opens its command; an OK reply bearing a sequence number closes the command that holds it *)
Definition open_step (op : list (Z * Z)) (o : output) : list (Z * Z) :=
  match o with
  | OSend _ c s _ => if existsb (fun p => fst p =? c) op then op else op ++ [(c, s)]
  | ORecv d => if d_rc d =? rc_ok then filter (fun p => negb (snd p =? d_seq d)) op else op
  | _ => op
  end.
Definition open_after (tr : list output) : list (Z * Z) := fold_left open_step tr [].

Definition window_respected (w : Z) (tr : list output) : Prop :=
  forall pre post, tr = pre ++ post -> Z.of_nat (length (open_after pre)) <= w.

(* ---------------------------------------------------------------------------------------------- *)
(* "no command is retransmitted before its timeout has elapsed"                                     *)
(* ---------------------------------------------------------------------------------------------- *)

(* clock reading of the last transmission of c in a trace *)
Fixpoint last_send (c : Z) (tr : list output) : option Z :=
  match tr with
  | [] => None
  | o :: tr' => match last_send c tr' with
                | Some t => Some t
                | None => match o with OSend _ c' _ t => if c' =? c then Some t else None | _ => None end
                end
  end.

Definition extra_of (cmds : list cmd) (c : Z) : Z :=
  match find (fun x => c_id x =? c) cmds with Some x => c_extra x | None => 0 end.

(* every transmission of c that is not its first happens strictly later than the previous transmission of c
   plus c's timeout (default + the command's extra timeout) *)
Definition retransmissions_spaced (cf : config) (cmds : list cmd) (tr : list output) : Prop :=
  forall pre tx c s t post t0,
    tr = pre ++ OSend tx c s t :: post -> last_send c pre = Some t0 ->
    t0 + (cf_timeout cf + extra_of cmds c) < t.

(* ---------------------------------------------------------------------------------------------- *)
(* "... without its reply being received"                                                           *)
(* ---------------------------------------------------------------------------------------------- *)

(* since c was first transmitted (with sequence number s) no OK datagram bearing s has been received *)
Definition never_answered (c : Z) (tr : list output) : Prop :=
  exists pre tx s t post,
    tr = pre ++ OSend tx c s t :: post /\ n_sends c pre = 0%nat /\
    forall d, In (ORecv d) post -> d_rc d = rc_ok -> d_seq d <> s.

(* ---------------------------------------------------------------------------------------------- *)
(* fatal return codes                                                                               *)
(* ---------------------------------------------------------------------------------------------- *)

Definition fatal_rc (rc : Z) : Prop := rc <> rc_ok /\ is_retryable rc = false.

(* ---------------------------------------------------------------------------------------------- *)
(* the environment: the network loses, duplicates, delays and reorders -- it does not invent          *)
(* ---------------------------------------------------------------------------------------------- *)

(* [hist] is everything that has happened on the connection (earlier calls, then this one).
   Causal: a datagram that is received was caused by an earlier transmission, which it names (d_src), and
   bears that transmission's sequence number (the machine echoes it). *)
Definition causal (hist : list output) : Prop :=
  forall pre d post, hist = pre ++ ORecv d :: post ->
    exists c t, In (OSend (d_src d) c (d_seq d) t) pre.

(* Fresh: no reply is delivered after its sequence number has been re-issued to a later command:
   when d is received, every transmission that is later than the one that caused d and bears d's sequence
   number is a transmission of the same command. *)
Definition fresh (hist : list output) : Prop :=
  forall pre d post, hist = pre ++ ORecv d :: post ->
    forall c t tx' c' t',
      In (OSend (d_src d) c (d_seq d) t) pre -> In (OSend tx' c' (d_seq d) t') pre ->
      d_src d < tx' -> c' = c.

(* the history before the call: transmissions are numbered below k_ntx, and none is of a command of this call *)
Definition history_ok (past : list output) (k : conn) (cmds : list cmd) : Prop :=
  (forall tx c s t, In (OSend tx c s t) past -> tx < k_ntx k /\ ~ In c (ids cmds)).

(* the reply handed to a callback is the reply to that very command: an OK reply caused by a transmission
   of that command (and bearing its sequence number) *)
Definition reply_to (hist : list output) (c : Z) (d : dgram) : Prop :=
  d_rc d = rc_ok /\ exists t, In (OSend (d_src d) c (d_seq d) t) hist.

(* ---------------------------------------------------------------------------------------------- *)
(* fairness of the environment, for termination                                                     *)
(* ---------------------------------------------------------------------------------------------- *)

Definition datagrams (k : conn) (evs : list event) : nat :=
  length (k_buf k) + fold_right (fun ev n => length (ev_data ev) + n)%nat 0%nat evs.

(* select is honest: it returns because the socket is readable, or after strictly more than the timeout it
   was given has passed on the clock.  Stated along the run: [p_select] is the timeout the model hands to the
   k-th select, the k-th event is the environment's answer. *)
Fixpoint select_honest (cf : config) (evs : list event) (k : conn) (b : bstate) : Prop :=
  match evs with
  | [] => True
  | ev :: evs' =>
      if running b then
        match pre cf k b with
        | None => True
        | Some p =>
            (k_buf (p_conn p) ++ ev_data ev <> [] \/ k_now (p_conn p) + p_select p < ev_time ev) /\
            match post cf ev (p_conn p) (p_state p) with
            | (_, Continue k' b') => select_honest cf evs' k' b'
            | (_, Stop _ _) => True
            end
        end
      else True
  end.

(* ---------------------------------------------------------------------------------------------- *)
(* every datagram the environment delivers is read                                                  *)
(* ---------------------------------------------------------------------------------------------- *)

(* the datagrams read from the socket, in order *)
Fixpoint recvs (tr : list output) : list dgram :=
  match tr with
  | [] => []
  | ORecv d :: tr' => d :: recvs tr'
  | _ :: tr' => recvs tr'
  end.

(* what the socket held at the start plus what the consumed events delivered, in order *)
Definition delivered (k : conn) (consumed : list event) : list dgram :=
  k_buf k ++ flat_map ev_data consumed.
