(* C18 -- the property's predicates, stated on inputs and outputs only (definitions only).

   [spec_value] is the sentence "each contextual argument takes the value given explicitly in the call,
   else the value of the innermost enclosing context that sets it, else the method's default", written
   directly (searching the stack from the innermost context outwards) -- unlike the model, which follows
   the code (merge all dictionaries oldest to newest, overlay, update).
   [declared_wires] says, per method, which resolved values EVERY command put on the wire must carry
   (all commands of the call, in order -- not only the first). *)
From Coq Require Import ZArith List Bool String.
Require Import Rig.Model.Base Rig.Generated.GenSignatures Rig.Generated.GenCtxGeometry Rig.Model.Context.
Import ListNotations.
Open Scope string_scope.
Open Scope list_scope.
Open Scope Z_scope.

(* parameters of a signature are pairwise distinct (Python enforces it; checked on the generated list) *)
Definition sig_wf (sg : msig) : Prop := NoDup (map fst (sg_params sg)).

(* a dictionary given as a sequence of (key, value) pairs: the last pair with the key counts *)
Fixpoint slast {A} (k : string) (l : list (string * A)) : option A :=
  match l with
  | [] => None
  | (k', v) :: l' => match slast k l' with
                     | Some w => Some w
                     | None => if String.eqb k k' then Some v else None
                     end
  end.

(* the value of the innermost enclosing context that sets n (the stack is oldest first) *)
Fixpoint stack_lookup (n : string) (s : stack) : option value :=
  match s with
  | [] => None
  | c :: inner => match stack_lookup n inner with
                  | Some v => Some v
                  | None => slast n c
                  end
  end.

Fixpoint index_of (n : string) (l : list string) : option nat :=
  match l with
  | [] => None
  | k :: r => if String.eqb n k then Some O else match index_of n r with Some i => Some (S i) | None => None end
  end.

(* given explicitly in the call: by keyword, or positionally *)
Definition explicit_value (sg : msig) (pos : list value) (kw : list (string * value)) (n : string) : option value :=
  match slast n kw with
  | Some v => Some v
  | None => match index_of n (map fst (sg_params sg)) with
            | Some i => nth_error pos i
            | None => None
            end
  end.

(* n is an argument of the method: a parameter, or a keyword-only argument named to the decorator *)
Definition is_arg (sg : msig) (n : string) : bool :=
  name_in n (map fst (sg_params sg)) || name_in n (map fst (sg_kwonly sg)).

(* the method's default (DRequired: none) *)
Definition default_of (sg : msig) (n : string) : option default :=
  match slast n (sg_kwonly sg) with
  | Some d => Some d
  | None => sassoc n (sg_params sg)
  end.

Definition ctx_or_default (sg : msig) (s : stack) (n : string) : option default :=
  if is_arg sg n then
    match stack_lookup n s with
    | Some v => Some (DVal v)
    | None => default_of sg n
    end
  else None.

(* Some (DVal v): the argument has value v;  Some DRequired: a required argument nobody supplied;
   None: n is not an argument of the method and was not passed *)
Definition spec_value (sg : msig) (s : stack) (pos : list value) (kw : list (string * value)) (n : string)
  : option default :=
  match explicit_value sg pos kw n with
  | Some v => Some (DVal v)
  | None => ctx_or_default sg s n
  end.

(* ------------------------------------------------------------------ what the wire must carry *)
Inductive sval : Type :=
| SArg (n : string)          (* the resolved value ([spec_value]) of argument n of the method called *)
| SConst (v : value)         (* a constant of the protocol (core 0, the broadcast address 255, ...) *)
| SAny                       (* no claim *)
| SInner (m n : string)      (* what method m (same class) resolves for its argument n when a call does not pass
                                it: innermost context that sets n, else m's default *)
| SVarg (i : nat)            (* the i-th extra positional argument *)
| SKeyX (a : sval) | SKeyY (a : sval)     (* coordinates of the first key of a routing-table dictionary *)
| SFirst (a : sval).         (* a itself when it is one board, the first board named when it is a collection *)

Inductive sroute : Type :=
| RChip (x y : sval)                 (* MachineController: the connection chosen for chip (x, y) *)
| RBmp (cab fr bd : sval).           (* BMPController: the connection chosen for (cabinet, frame, board) *)

Record swire : Type := MkSW {
  sw_kind : option Z;                (* None: no claim about which connection method *)
  sw_route : sroute;
  sw_x : sval; sw_y : sval; sw_p : sval;
  sw_cmd : sval;
  sw_disc : list (nat * Z * Z * Z);
  sw_fields : list (fkind * nat * Z * sval)
}.

(* the call being judged *)
Record callctx : Type := MkCC {
  cc_ctl : ctl; cc_cls : string; cc_sig : msig; cc_stack : stack;
  cc_pos : list value; cc_kw : list (string * value)
}.

Fixpoint den (g : callctx) (sv : sval) (v : value) : Prop :=
  match sv with
  | SArg n => spec_value (cc_sig g) (cc_stack g) (cc_pos g) (cc_kw g) n = Some (DVal v)
  | SConst c => v = c
  | SAny => True
  | SInner m n => exists sg', find_sig (cc_cls g) m = Some sg' /\ ctx_or_default sg' (cc_stack g) n = Some (DVal v)
  | SVarg i => nth_error (skipn (List.length (sg_params (cc_sig g))) (cc_pos g)) i = Some v
  | SKeyX a => exists u, den g a u /\ key_x u = Some v
  | SKeyY a => exists u, den g a u /\ key_y u = Some v
  | SFirst a => exists u, den g a u /\ first_of u = Some v
  end.

Definition field_den (g : callctx) (sf : fkind * nat * Z * sval) (f : fkind * nat * Z * value) : Prop :=
  match sf, f with
  | (k, i, sh, sv), (k', i', sh', v) => k = k' /\ i = i' /\ sh = sh' /\ den g sv v
  end.

(* connection_choice, as a relation: the connection k is the right one for the target *)
Definition chip_connection_ok (c : ctl) (x y : value) (k : Z) : Prop :=
  match c_width c, c_height c, c_root c, as_int x, as_int y with
  | Some w, Some h, Some (rx, ry), Some xi, Some yi =>
      (* the board holding (x, y) is the one whose Ethernet chip spinn5_local_eth_coord names (C19) *)
      match cassoc (c18_local_eth_coord xi yi w h rx ry) (c_conns c) with
      | Some k' => k = k'            (* a connection to that board is known: it is used *)
      | None => k = 0                (* none known: the initial connection *)
      end
  | Some _, Some _, Some _, _, _ => False
  | _, _, _, _, _ => k = 0           (* geometry not discovered: the initial connection *)
  end.

Definition bmp_connection_ok (c : ctl) (cab fr bd : value) (k : Z) : Prop :=
  match as_int cab, as_int fr with
  | Some ci, Some fi =>
      match as_int bd with
      | Some bi =>
          match kassoc [ci; fi; bi] (c_bmp c) with
          | Some k' => k = k'                                  (* the board's own connection *)
          | None => kassoc [ci; fi] (c_bmp c) = Some k         (* else the frame's *)
          end
      | None => kassoc [ci; fi] (c_bmp c) = Some k
      end
  | _, _ => False
  end.

Definition route_den (g : callctx) (r : sroute) (k : Z) : Prop :=
  match r with
  | RChip x y => exists vx vy, den g x vx /\ den g y vy /\ chip_connection_ok (cc_ctl g) vx vy k
  | RBmp a b d => exists va vb vd, den g a va /\ den g b vb /\ den g d vd /\ bmp_connection_ok (cc_ctl g) va vb vd k
  end.

(* the command w is what sw prescribes *)
Definition wire_den (g : callctx) (sw : swire) (w : wire) : Prop :=
  (match sw_kind sw with Some k => w_kind w = k | None => True end)
  /\ route_den g (sw_route sw) (w_conn w)
  /\ den g (sw_x sw) (w_x w) /\ den g (sw_y sw) (w_y w) /\ den g (sw_p sw) (w_p w)
  /\ den g (sw_cmd sw) (w_cmd w)
  /\ w_disc w = sw_disc sw
  /\ Forall2 (field_den g) (sw_fields sw) (w_fields w).

(* A prescription is a sequence of items; an item marked [true] stands for zero or more consecutive
   commands each satisfying it (a command sent once per element of a sequence argument, or only on some
   paths), an item marked [false] for exactly one command. *)
Definition pitem := (swire * bool)%type.

(* the commands ws are exactly what the prescription describes, in order *)
Inductive pmatch (g : callctx) : list pitem -> list wire -> Prop :=
| PM_nil : pmatch g [] []
| PM_one : forall sw rest w ws, wire_den g sw w -> pmatch g rest ws -> pmatch g ((sw, false) :: rest) (w :: ws)
| PM_skip : forall sw rest ws, pmatch g rest ws -> pmatch g ((sw, true) :: rest) ws
| PM_more : forall sw rest w ws,
    wire_den g sw w -> pmatch g ((sw, true) :: rest) ws -> pmatch g ((sw, true) :: rest) (w :: ws).

(* the commands ws are a beginning of what the prescription describes (a call cut short by an error) *)
Inductive ppre (g : callctx) : list pitem -> list wire -> Prop :=
| PP_stop : forall p, ppre g p []
| PP_one : forall sw rest w ws, wire_den g sw w -> ppre g rest ws -> ppre g ((sw, false) :: rest) (w :: ws)
| PP_skip : forall sw rest ws, ppre g rest ws -> ppre g ((sw, true) :: rest) ws
| PP_more : forall sw rest w ws,
    wire_den g sw w -> ppre g ((sw, true) :: rest) ws -> ppre g ((sw, true) :: rest) (w :: ws).

(* EVERY command [ws] of a call (with final error [e]) against the prescription: command by command, in
   order; an error may cut the sequence short, success means the whole prescription was carried out; the
   model's recursion bound was not hit *)
Definition pres_ok (g : callctx) (p : list pitem) (ws : list wire) (e : option err) : Prop :=
  ppre g p ws /\ (e = None -> pmatch g p ws) /\ e <> Some FuelErr.

(* ------------------------------------------------------------------ the prescription, method by method *)
Definition A := SArg.
Definition C (z : Z) := SConst (VInt z).
Definition one (sw : swire) : pitem := (sw, false).
Definition any_number (sw : swire) : pitem := (sw, true).
Definition app_at (arg : nat) (shift : Z) : (fkind * nat * Z * sval) := (FByte, arg, shift, SArg "app_id").

Definition on_chip (kind : Z) (p cmd : sval) disc fields : swire :=
  MkSW (Some kind) (RChip (A "x") (A "y")) (A "x") (A "y") p cmd disc fields.
Definition broadcast (cmd : Z) disc fields : swire :=
  MkSW (Some 0) (RChip (C 255) (C 255)) (C 255) (C 255) (C 0) (C cmd) disc fields.
(* the core a nested read_struct_field / read / write resolves when the caller does not pass one *)
Definition rsf_p := SInner "read_struct_field" "p".
Definition read_p := SInner "read" "p".
Definition write_p := SInner "write" "p".
Definition rd (p : sval) : swire := on_chip 1 p (SConst VNone) [] [].
Definition wr (p : sval) : swire := on_chip 2 p (SConst VNone) [] [].
(* a read of the system-wide struct: the chip the caller named, the core that read_struct_field resolves *)
Definition sv_read : list pitem := [one (rd rsf_p)].
Definition nn_packet (sub_cmd : Z) fields : swire :=
  broadcast SCP_nearest_neighbour_packet [(0%nat, 24, 255, sub_cmd)] fields.
Definition count_command : swire := broadcast SCP_signal [(1%nat, 20, 15, 4 + AppDiag_count)] [app_at 1 0].
Definition flood_fill : list pitem :=
  [ one (nn_packet NN_flood_fill_start []);
    one (nn_packet NN_flood_fill_core_select []);
    one (MkSW (Some 1) (RChip (C 255) (C 255)) (C 255) (C 255) rsf_p (SConst VNone) [] []);
    one (broadcast SCP_flood_fill_data [] []);
    one (nn_packet NN_flood_fill_end [app_at 1 24]) ].
Definition alloc_sdram : swire :=
  on_chip 0 (C 0) (C SCP_alloc_free) [(0%nat, 0, 255, Alloc_alloc_sdram)] [app_at 0 8].
(* the optional clearing of freshly allocated memory: a fill command or a write, to core 0 of the chip *)
Definition clear_memory : swire := MkSW None (RChip (A "x") (A "y")) (A "x") (A "y") (C 0) SAny [] [].
Definition routing_load (x y : sval) : list pitem :=
  [ one (MkSW (Some 0) (RChip x y) x y (C 0) (C SCP_alloc_free) [(0%nat, 0, 255, Alloc_alloc_rtr)] [app_at 0 8]);
    one (MkSW (Some 1) (RChip x y) x y rsf_p (SConst VNone) [] []);
    one (MkSW (Some 2) (RChip x y) x y write_p (SConst VNone) [] []);
    one (MkSW (Some 0) (RChip x y) x y (C 0) (C SCP_router) [(0%nat, 0, 255, RouterOp_load)] [app_at 0 8]) ].

Definition mc_declared : list (string * list pitem) :=
  [ ("send_scp", [one (on_chip 0 (A "p") (SVarg 0) [] [])]);
    ("discover_connections", sv_read);
    ("application", []);
    ("get_software_version", [one (on_chip 0 (A "processor") (C SCP_sver) [] [])]);
    ("get_ip_address", [one (on_chip 0 (C 0) (C SCP_info) [] [])]);
    ("write", [one (wr (A "p"))]);
    ("read", [one (rd (A "p"))]);
    ("write_across_link", [one (on_chip 0 (C 0) (C SCP_link_write) [] [(FByte, 2%nat, 0, A "link")])]);
    ("read_across_link", [one (on_chip 0 (C 0) (C SCP_link_read) [] [(FByte, 2%nat, 0, A "link")])]);
    ("read_struct_field", [one (rd (A "p"))]);
    ("write_struct_field", [one (wr (A "p"))]);
    (* the core p named by the caller selects the address; both reads go to the core the nested calls resolve *)
    ("read_vcpu_struct_field", [one (rd rsf_p); one (rd read_p)]);
    ("write_vcpu_struct_field", [one (rd rsf_p); one (wr write_p)]);
    ("get_processor_status", [one (rd rsf_p); one (rd read_p)]);
    ("get_iobuf", [one (rd rsf_p); one (rd rsf_p); one (rd read_p)]);
    ("get_iobuf_bytes", [one (rd rsf_p); one (rd rsf_p); one (rd read_p)]);
    ("get_router_diagnostics", [one (rd read_p)]);
    ("iptag_set", [one (on_chip 0 (C 0) (C SCP_iptag) [(0%nat, 16, 255, IPTagCmd_set)] [])]);
    ("iptag_get", [one (on_chip 0 (C 0) (C SCP_iptag) [(0%nat, 16, 255, IPTagCmd_get)] [])]);
    ("iptag_clear", [one (on_chip 0 (C 0) (C SCP_iptag) [(0%nat, 16, 255, IPTagCmd_clear)] [])]);
    ("set_led", [one (on_chip 0 (C 0) (C SCP_led) [] [])]);
    (* fill: a fill command, or (unaligned) a write -- either way to the chip and core named *)
    ("fill", [one (MkSW None (RChip (A "x") (A "y")) (A "x") (A "y") (A "p") SAny [] [])]);
    ("sdram_alloc", [one alloc_sdram; any_number clear_memory]);
    ("sdram_alloc_as_filelike", [one alloc_sdram; any_number clear_memory]);
    ("sdram_free", [one (on_chip 0 (C 0) (C SCP_alloc_free) [(0%nat, 0, 255, Alloc_free_sdram_by_ptr)] [])]);
    ("flood_fill_aplx", flood_fill);
    ("load_application",
       flood_fill ++
       [ any_number count_command;
         any_number (broadcast SCP_signal [(1%nat, 20, 15, 0)] [(FByte, 1%nat, 16, C AppSignal_start); app_at 1 0]) ]);
    ("send_signal", [one (broadcast SCP_signal [(1%nat, 20, 15, 0)] [(FByte, 1%nat, 16, A "signal"); app_at 1 0])]);
    (* one count command per state given, every one of them carrying the application id *)
    ("count_cores_in_state", [any_number count_command]);
    ("wait_for_cores_to_reach_state", [any_number count_command]);
    (* load_routing_tables: the chip is the dictionary's key (not a contextual argument); the application id is *)
    ("load_routing_tables", routing_load (SKeyX (A "routing_tables")) (SKeyY (A "routing_tables")));
    ("load_routing_table_entries", routing_load (A "x") (A "y"));
    ("get_routing_table_entries", [one (rd rsf_p); one (rd read_p)]);
    ("clear_routing_table_entries",
       [one (on_chip 0 (C 0) (C SCP_alloc_free) [(0%nat, 0, 255, Alloc_free_rtr_by_app)] [app_at 0 8])]);
    ("get_p2p_routing_table", sv_read);
    ("get_chip_info", [one (on_chip 0 (C 0) (C SCP_info) [] [])]);
    ("get_working_links", [one (on_chip 0 (C 0) (C SCP_info) [] [])]);
    ("get_num_working_cores", sv_read);
    ("get_system_info", sv_read) ].

Definition to_board (bd cmd : sval) fields : swire :=
  MkSW (Some 0) (RBmp (A "cabinet") (A "frame") bd) (C 0) (C 0) bd cmd [] fields.

Definition bmp_declared : list (string * list pitem) :=
  [ ("send_scp", [one (to_board (A "board") (SVarg 0) [])]);
    ("get_software_version", [one (to_board (A "board") (C SCP_sver) [])]);
    (* power commands go to board 0 of the frame; the board(s) named are the bits set in arg2 *)
    ("set_power", [one (to_board (C 0) (C SCP_power) [(FBit, 1%nat, 0, A "board")])]);
    (* set_led: to the first board named; the mask in arg2 names every board of the collection *)
    ("set_led", [one (to_board (SFirst (A "board")) (C SCP_led) [(FBit, 1%nat, 0, A "board")])]);
    ("read_fpga_reg", [one (to_board (A "board") (C SCP_link_read) [])]);
    ("write_fpga_reg", [one (to_board (A "board") (C SCP_link_write) [])]);
    ("read_adc", [one (to_board (A "board") (C SCP_bmp_info) [])]) ].

Definition declared_wires (cls m : string) : option (list pitem) :=
  if String.eqb cls "MC" then sassoc m mc_declared
  else if String.eqb cls "BMP" then sassoc m bmp_declared
  else None.

(* ------------------------------------------------------------------ histories *)
(* the op changes the innermost context of the level at which it stands: update_current_context, possibly
   inside try blocks (which do not open a context); blocks opened by `with` only touch their own context *)
Fixpoint updates_here (o : op) : bool :=
  match o with
  | OUpdate _ => true
  | OTry blk => existsb updates_here blk
  | _ => false
  end.
Definition no_update_here (blk : list op) : Prop := existsb updates_here blk = false.
