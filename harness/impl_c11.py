"""Drive rig's hexagonal geometry functions on JSON-described cases (runs under /venv/bin/python,
PYTHONPATH=/repo).  The module attribute `random` of rig.geometry and of
rig.place_and_route.route.utils is replaced (from outside, no edit of /repo) by a scripted object whose
draws are given by the case and whose consumption is logged."""
import importlib
import numbers
import operator

import rig.geometry as geometry
from rig.links import Links

route_utils = importlib.import_module("rig.place_and_route.route.utils")


class Scripted(object):
    """random.random() returns k / 2**53 for the scripted numerators k (exactly the set of values the
    real random.random() can return); random.randint(lo, hi) returns lo + t % (hi - lo + 1)."""

    def __init__(self, ks, t=0):
        self.ks = list(ks)
        self.t = t
        self.nrandom = 0
        self.requests = []

    def random(self):
        k = self.ks.pop(0)               # IndexError if the code draws more often than modelled
        self.nrandom += 1
        assert 0 <= k < 2 ** 53
        return k / 2.0 ** 53

    def randint(self, lo, hi):
        lo, hi = operator.index(lo), operator.index(hi)     # as random.randint does (numpy ints accepted)
        if hi < lo:
            raise ValueError("empty range for randint")
        if self.t == "lo":                                  # forced outcomes: each end of the range
            r = lo
        elif self.t == "hi":
            r = hi
        else:
            r = lo + self.t % (hi - lo + 1)
        self.requests.append([lo, hi, r])
        return r


def t3(v):
    return (v[0], v[1], v[2])


def ints(v):
    """results as Python ints; numpy integers (what the library returns for numpy coordinates) are
    integers too, floats and bools are not"""
    out = []
    for c in v:
        if isinstance(c, bool) or not isinstance(c, numbers.Integral):
            raise TypeError("component %r is not an integer" % (c,))
        out.append(int(c))
    return out


def coord(c, key):
    """the coordinate c[key] in the container the case asks for (c["forms"][key]): the library only
    indexes / unpacks its coordinate arguments, so every integer sequence is inside the domain"""
    v = list(c[key])
    form = c.get("forms", {}).get(key, "tuple")
    if form == "tuple":
        return tuple(v)
    if form == "list":
        return v
    if form == "ndarray":
        import numpy
        return numpy.array(v, dtype=numpy.int64)
    if form == "ndarray32":
        import numpy
        return numpy.array(v, dtype=numpy.int32)
    if form == "row":                     # a row of an (n, len) table
        import numpy
        return numpy.array([v, v], dtype=numpy.int64)[1]
    if form == "npscalars":
        import numpy
        return tuple(numpy.int64(x) for x in v)
    if form in ("uint8", "uint16", "uint32", "uint64"):       # only generated for non-negative values
        import numpy
        return numpy.array(v, dtype=getattr(numpy, form))
    if form == "iter":
        return iter(v)
    if form == "float":                   # floats of integral value (from_vector matches them by equality)
        return tuple(float(x) for x in v)
    if form == "negzero":
        return tuple(-0.0 if x == 0 else float(x) for x in v)
    if form in ("npfloat64", "npfloat32"):
        import numpy
        return tuple(getattr(numpy, form[2:])(x) for x in v)
    if form == "floatarray":
        import numpy
        return numpy.array(v, dtype=numpy.float64)
    raise RuntimeError("unknown form " + form)


def size(c, key):
    """width / height as a Python int or as a numpy integer scalar of the dtype c["wform"]"""
    v = c[key]
    if v is None or not c.get("wform"):
        return v
    import numpy
    return getattr(numpy, c["wform"])(v)


def as_form(v, form):
    """the same three (or two) integers as a tuple, a list or a one-shot iterable"""
    v = list(v)
    if form == "tuple":
        return tuple(v)
    if form == "list":
        return v
    if form == "gen":
        return (c for c in v)
    if form == "map":
        return map(int, v)
    if form == "iter":
        return iter(v)
    if form == "float":                   # floats of integral value (from_vector matches them by equality)
        return tuple(float(x) for x in v)
    if form == "negzero":
        return tuple(-0.0 if x == 0 else float(x) for x in v)
    if form in ("npfloat64", "npfloat32"):
        import numpy
        return tuple(getattr(numpy, form[2:])(x) for x in v)
    if form == "floatarray":
        import numpy
        return numpy.array(v, dtype=numpy.float64)
    raise RuntimeError("unknown form " + form)


def size(c, key):
    """width / height as a Python int or as a numpy integer scalar of the dtype c["wform"]"""
    v = c[key]
    if v is None or not c.get("wform"):
        return v
    import numpy
    return getattr(numpy, c["wform"])(v)


KEEP = []          # results handed to "callers" stay alive (and stay mutated) for the rest of the process


def run_op(op, gens):
    """one call of a history; state of earlier calls (suspended generators, mutated results) persists"""
    import itertools
    k = op["op"]
    if k == "hex_open":
        start = coord(dict(start=op["start"], forms=dict(start=op.get("sform", "tuple"))), "start")
        gens[op["id"]] = geometry.concentric_hexagons(op["radius"], start)
        gens[("start", op["id"])] = start
        return ["ok", None]
    if k == "hex_next":
        return ["ok", [ints(xy) for xy in itertools.islice(gens[op["id"]], op["n"])]]
    if k == "hex_mutate":
        # the caller reuses / updates the object it passed as `start` while the generator is suspended
        start = gens.get(("start", op["id"]))
        try:
            start[0] += op["dx"]
            start[1] += op["dy"]
        except TypeError:
            pass                         # tuple / iterator: nothing to modify
        return ["ok", None]
    if k == "hex_drop":
        gens.pop(("start", op["id"]), None)
        g = gens.pop(op["id"])
        if op.get("close"):
            g.close()
        del g
        return ["ok", None]
    if k == "hex_full":
        return ["ok", [ints(xy) for xy in geometry.concentric_hexagons(op["radius"], tuple(op["start"]))]]
    if k == "ldf":
        rnd = Scripted(op["ks"])
        route_utils.random = rnd
        out = route_utils.longest_dimension_first(as_form(op["v"], op.get("form", "tuple")),
                                                  as_form(op["start"], op.get("sform", "tuple")),
                                                  op["width"], op["height"])
        res = []
        for direction, xy in out:
            if not isinstance(direction, Links):
                raise TypeError("direction %r is not a Links member" % (direction,))
            res.append([int(direction), ints(xy)])
        # the caller owns the returned list and now modifies it in place
        then = op.get("then")
        if then == "append":
            out.append((Links.north, (77, 77)))
        elif then == "extend":
            out.extend([(Links.west, (3, 2)), (Links.south, (3, 1))])
        elif then == "clear":
            del out[:]
        elif then == "reverse":
            out.reverse()
        elif then == "pop" and out:
            out.pop()
        KEEP.append(out)
        return ["ok", dict(out=res, nrandom=rnd.nrandom)]
    if k == "mesh_path":
        return ["ok", ints(geometry.shortest_mesh_path(as_form(op["s"], op.get("form", "tuple")),
                                                       as_form(op["d"], op.get("dform", "tuple"))))]
    if k == "minimise":
        return ["ok", ints(geometry.minimise_xyz(as_form(op["v"], op.get("form", "tuple"))))]
    if k == "torus_path":
        rnd = Scripted(op["ks"], op["t"])
        geometry.random = rnd
        v = geometry.shortest_torus_path(as_form(op["s"], op.get("form", "tuple")),
                                         as_form(op["d"], op.get("dform", "tuple")), op["w"], op["h"])
        return ["ok", dict(v=ints(v), nrandom=rnd.nrandom, requests=rnd.requests)]
    raise RuntimeError("unknown op " + k)


def run_history(c):
    gens = {}
    res = []
    for op in c["ops"]:
        try:
            res.append(run_op(op, gens))
        except Exception as e:         # noqa
            res.append(["other", type(e).__name__])
    return ["ok", res]


def run_case(c):
    fn = c["fn"]
    if fn == "history":
        return run_history(c)
    try:
        if fn == "mesh_len":
            r = geometry.shortest_mesh_path_length(coord(c, "s"), coord(c, "d"))
            return ["ok", ints([r])[0]]
        if fn == "mesh_path":
            return ["ok", ints(geometry.shortest_mesh_path(coord(c, "s"), coord(c, "d")))]
        if fn == "torus_len":
            r = geometry.shortest_torus_path_length(coord(c, "s"), coord(c, "d"), c["w"], c["h"])
            return ["ok", ints([r])[0]]
        if fn == "torus_path":
            rnd = Scripted(c["ks"], c["t"])
            geometry.random = rnd
            v = geometry.shortest_torus_path(coord(c, "s"), coord(c, "d"), c["w"], c["h"])
            return ["ok", dict(v=ints(v), nrandom=rnd.nrandom, requests=rnd.requests)]
        if fn == "ldf":
            rnd = Scripted(c["ks"])
            route_utils.random = rnd
            out = route_utils.longest_dimension_first(coord(c, "v"), coord(c, "start"), size(c, "width"),
                                                      size(c, "height"))
            res = []
            for direction, xy in out:
                if not isinstance(direction, Links):
                    raise TypeError("direction %r is not a Links member" % (direction,))
                res.append([int(direction), ints(xy)])
            return ["ok", dict(out=res, nrandom=rnd.nrandom)]
        if fn == "from_vector":
            try:
                l = Links.from_vector(coord(c, "v"))
            except KeyError:
                return ["ok", None]
            if not isinstance(l, Links):
                raise TypeError("%r is not a Links member" % (l,))
            return ["ok", int(l)]
        if fn == "links":
            members = [[int(l), int(l.opposite), ints(l.to_vector()), l.opposite.__class__ is Links]
                       for l in Links]
            fv = []
            n = c["n"]
            for x in range(-n, n + 1):
                for y in range(-n, n + 1):
                    try:
                        l = Links.from_vector((x, y))
                        fv.append([x, y, int(l) if isinstance(l, Links) else "notalink"])
                    except KeyError:
                        fv.append([x, y, None])
            return ["ok", dict(members=members, from_vector=fv)]
        if fn == "to_xyz":
            return ["ok", ints(geometry.to_xyz(coord(c, "xy")))]
        if fn == "minimise":
            return ["ok", ints(geometry.minimise_xyz(coord(c, "v")))]
        if fn == "hexprefix":             # a generator of a large radius, consumed only for its first n chips
            import itertools
            g = geometry.concentric_hexagons(c["radius"], coord(c, "start"))
            return ["ok", [ints(xy) for xy in itertools.islice(g, c["n"])]]
        if fn == "hex":
            out = []
            for xy in geometry.concentric_hexagons(c["radius"], coord(c, "start")):
                out.append(ints(xy))
                if len(out) > 100000:
                    raise RuntimeError("more than 100000 hexagons")
            return ["ok", out]
        raise RuntimeError("unknown fn " + fn)
    except Exception as e:             # noqa
        return ["other", type(e).__name__]


if __name__ == "__main__":
    import implutil
    implutil.run_cases(run_case, per_case_s=5)
