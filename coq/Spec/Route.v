(* C03 -- what the property asks of a routing tree, stated on the machine, the placement of the net
   and the returned tree only; and the two executable validators (check_tree, check_connected) whose
   soundness is proved in Proofs/Route.v.  Definitions only.

   The data types (rmachine, rtree) are those of Model/Route.v; nothing else of the model is used:
   the link geometry below is the specification's own table. *)
From Coq Require Import ZArith List Bool Relations.
Require Import Rig.Model.Base Rig.Model.Route.
Import ListNotations.
Open Scope Z_scope.

(* ---- live hardware *)
Definition working_chip (m : rmachine) (c : chip) : Prop :=
  0 <= fst c < rm_w m /\ 0 <= snd c < rm_h m /\ ~ In c (rm_dead_chips m).

(* a link is named by the chip it leaves and its number; it works if that chip works and the link is
   not listed dead (rig.place_and_route.Machine: `(x, y, link) in machine`) *)
Definition working_link (m : rmachine) (c : chip) (l : Z) : Prop :=
  working_chip m c /\ ~ In (c, l) (rm_dead_links m).

(* SpiNNaker link numbering: 0 E, 1 NE, 2 N, 3 W, 4 SW, 5 S *)
Definition dir_vec (l : Z) : option (Z * Z) :=
  if l =? 0 then Some (1, 0) else if l =? 1 then Some (1, 1) else if l =? 2 then Some (0, 1)
  else if l =? 3 then Some (-1, 0) else if l =? 4 then Some (-1, -1) else if l =? 5 then Some (0, -1)
  else None.

(* c is the chip next to p in direction l, modulo the machine dimensions *)
Definition adjacent (m : rmachine) (p : chip) (l : Z) (c : chip) : Prop :=
  exists dx dy, dir_vec l = Some (dx, dy) /\
                c = ((fst p + dx) mod rm_w m, (snd p + dy) mod rm_h m).

Definition hop_ok (m : rmachine) (p : chip) (l : Z) (c : chip) : Prop :=
  working_link m p l /\ adjacent m p l c.

(* ---- the content of a tree *)
(* (parent chip, label, child chip) for every child that is a tree node *)
Fixpoint tree_hops (t : rtree) : list (chip * option Z * chip) :=
  match t with
  | RLeaf _ => []
  | RNode c kids =>
      flat_map (fun k => match snd k with
                         | RNode c' _ => (c, fst k, c') :: tree_hops (snd k)
                         | RLeaf _ => []
                         end) kids
  end.

(* (chip of the node, label, vertex) for every child that is a vertex *)
Fixpoint tree_leaves (t : rtree) : list (chip * option Z * Z) :=
  match t with
  | RLeaf _ => []
  | RNode c kids =>
      flat_map (fun k => match snd k with
                         | RLeaf v => [(c, fst k, v)]
                         | RNode _ _ => tree_leaves (snd k)
                         end) kids
  end.

(* ---- what a sink requires: (vertex, chip it is placed on, the routes it must be reached by) *)
Definition sink_req := (Z * chip * list (option Z))%type.

(* the routes of a sink: its RouteEndpointConstraint route if it has one (the constraint list is read
   in order, a later constraint on the same vertex replaces an earlier one), else Routes.core(n) = 6 + n
   for every core n of its allocation [a, b) of the core resource, else the single label None *)
Definition expected_routes (v : Z) (cons : list (Z * Z)) (allocs : list (Z * (Z * Z)))
  : list (option Z) :=
  match last (map (fun vr => Some (snd vr)) (filter (fun vr => fst vr =? v) cons)) None with
  | Some r => [Some r]
  | None => match zassoc v allocs with
            | Some (a, b) => map (fun n => Some (6 + n)) (map (fun i => a + i) (zrange (b - a)))
            | None => [None]
            end
  end.

Definition sink_reqs (sinks : list Z) (pl : list (Z * chip)) (cons : list (Z * Z))
           (allocs : list (Z * (Z * Z))) : list sink_req :=
  flat_map (fun v => match zassoc v pl with
                     | Some c => [(v, c, expected_routes v cons allocs)]
                     | None => []
                     end) sinks.

(* ---- the property's sentence about one returned tree *)
Definition ValidTree (m : rmachine) (src : chip) (sinks : list sink_req) (t : rtree) : Prop :=
  (* rooted at the chip of the net's source *)
  root_chip t = Some src
  (* every chip appears at most once *)
  /\ NoDup (chips t)
  (* every hop follows a working link from a working chip to the adjacent chip in that direction *)
  /\ (forall p r c, In (p, r, c) (tree_hops t) -> exists l, r = Some l /\ hop_ok m p l c)
  (* no leaves other than the sinks' *)
  /\ (forall c r v, In (c, r, v) (tree_leaves t) -> exists rs, In (v, c, rs) sinks /\ In r rs)
  (* every sink is a leaf of the node of its chip, once for each of its routes *)
  /\ (forall v c rs r, In (v, c, rs) sinks -> In r rs -> In (c, r, v) (tree_leaves t)).

(* ---- all working chips can reach each other over working links *)
Definition edge (m : rmachine) (a b : chip) : Prop :=
  working_chip m b /\ exists l, hop_ok m a l b.

Definition reach (m : rmachine) : chip -> chip -> Prop := clos_refl_trans_1n chip (edge m).

Definition Connected (m : rmachine) : Prop :=
  forall a b, working_chip m a -> working_chip m b -> reach m a b.

(* ---- the setting of the universal theorem about ner_net *)
(* the chips of a w x h machine *)
Definition in_range (w h : Z) (c : chip) : Prop := 0 <= fst c < w /\ 0 <= snd c < h.

(* the fault-free w x h torus *)
Definition perfect (w h : Z) : rmachine :=
  {| rm_w := w; rm_h := h; rm_dead_chips := []; rm_dead_links := [] |}.

(* the only dead links are wrap-around links: links that leave the w x h rectangle *)
Definition only_wrap_links_dead (m : rmachine) : Prop :=
  forall p l, In (p, l) (rm_dead_links m) ->
              exists dx dy, dir_vec l = Some (dx, dy) /\
                            ~ in_range (rm_w m) (rm_h m) (fst p + dx, snd p + dy).

(* the machines on which ner_net alone is the whole router: no dead chip; routed as a torus
   (wrap_around = True) no dead link; routed as a mesh (wrap_around = False) no dead link other than
   wrap-around links *)
Definition fault_free (m : rmachine) (wrap : bool) : Prop :=
  rm_dead_chips m = [] /\
  (if wrap then rm_dead_links m = [] else only_wrap_links_dead m).

(* the random stream: every value drawn is the numerator k of a random.random() = k / 2^53 *)
Definition stream_ok (s : stream) : Prop := Forall (fun k => 0 <= k < 2 ^ 53) s.

(* ------------------------------------------------------------------------------------------------
   Validators *)
Definition opt_eqb (a b : option Z) : bool :=
  match a, b with
  | Some x, Some y => x =? y
  | None, None => true
  | _, _ => false
  end.

Fixpoint nodup_chips (l : list chip) : bool :=
  match l with
  | [] => true
  | c :: l' => negb (chip_mem c l') && nodup_chips l'
  end.

Definition spec_step (m : rmachine) (c : chip) (l : Z) : chip :=
  match dir_vec l with
  | Some (dx, dy) => ((fst c + dx) mod rm_w m, (snd c + dy) mod rm_h m)
  | None => c
  end.

Definition hop_okb (m : rmachine) (h : chip * option Z * chip) : bool :=
  let '(p, r, c) := h in
  match r with
  | Some l => (0 <=? l) && (l <=? 5) && link_alive m p l && chip_eqb c (spec_step m p l)
  | None => false
  end.

Definition leaf_eqb (a b : chip * option Z * Z) : bool :=
  let '(c1, r1, v1) := a in
  let '(c2, r2, v2) := b in
  chip_eqb c1 c2 && opt_eqb r1 r2 && (v1 =? v2).

Definition leaf_allowed (sinks : list sink_req) (lf : chip * option Z * Z) : bool :=
  let '(c, r, v) := lf in
  existsb (fun s : sink_req =>
             let '(v', c', rs) := s in
             (v =? v') && chip_eqb c c' && existsb (opt_eqb r) rs) sinks.

Definition sink_present (lvs : list (chip * option Z * Z)) (s : sink_req) : bool :=
  let '(v, c, rs) := s in
  forallb (fun r => existsb (leaf_eqb (c, r, v)) lvs) rs.

Definition check_tree (m : rmachine) (src : chip) (sinks : list sink_req) (t : rtree) : bool :=
  root_is src t
  && nodup_chips (chips t)
  && forallb (hop_okb m) (tree_hops t)
  && forallb (leaf_allowed sinks) (tree_leaves t)
  && forallb (sink_present (tree_leaves t)) sinks.

(* connectivity: every working chip is found by a forward search from the first working chip and by a
   backward search from it *)
Definition all_chips (m : rmachine) : list chip :=
  flat_map (fun x => map (fun y => (x, y)) (zrange (rm_h m))) (zrange (rm_w m)).

Definition live_chips (m : rmachine) : list chip := filter (chip_alive m) (all_chips m).

Definition six : list Z := [0; 1; 2; 3; 4; 5].

Definition succs (m : rmachine) (c : chip) : list chip :=
  filter (chip_alive m) (map (spec_step m c) (filter (link_alive m c) six)).

(* the chips from which c may be reached in one hop: among the six chips one step back (modulo the machine
   dimensions), those with a working link that leads to c *)
Definition spec_step_back (m : rmachine) (c : chip) (l : Z) : chip :=
  match dir_vec l with
  | Some (dx, dy) => ((fst c - dx) mod rm_w m, (snd c - dy) mod rm_h m)
  | None => c
  end.

Definition preds (m : rmachine) (c : chip) : list chip :=
  filter (fun c' => existsb (fun l => link_alive m c' l && chip_eqb (spec_step m c' l) c) six)
         (map (spec_step_back m c) six).

Definition add_new (sf : list chip * list chip) (n : chip) : list chip * list chip :=
  if chip_mem n (fst sf) then sf else (fst sf ++ [n], snd sf ++ [n]).

Fixpoint search (fuel : nat) (next : chip -> list chip) (seen frontier : list chip) : list chip :=
  match fuel with
  | O => seen
  | S fuel' =>
      match frontier with
      | [] => seen
      | c :: fr => let '(seen', fr') := fold_left add_new (next c) (seen, fr) in
                   search fuel' next seen' fr'
      end
  end.

Definition check_connected (m : rmachine) : bool :=
  match live_chips m with
  | [] => true
  | c0 :: _ =>
      let fuel := S (length (live_chips m)) in
      let fwd := search fuel (succs m) [c0] [c0] in
      let bwd := search fuel (preds m) [c0] [c0] in
      chip_alive m c0
      && forallb (fun c => chip_mem c fwd && chip_mem c bwd) (live_chips m)
  end.

(* ------------------------------------------------------------------------------------------------
   Structural equality of trees (children in order); used by the correspondence run to compare the
   model's tree with the implementation's inside Coq. *)
Fixpoint rtree_eqb (a b : rtree) : bool :=
  match a, b with
  | RLeaf v, RLeaf v' => v =? v'
  | RNode c ks, RNode c' ks' =>
      chip_eqb c c'
      && (fix go (l : list (option Z * rtree)) (l' : list (option Z * rtree)) : bool :=
            match l, l' with
            | [], [] => true
            | k :: t, k' :: t' => opt_eqb (fst k) (fst k') && rtree_eqb (snd k) (snd k') && go t t'
            | _, _ => false
            end) ks ks'
  | _, _ => false
  end.

Fixpoint chips_eqb (a b : list chip) : bool :=
  match a, b with
  | [], [] => true
  | x :: a', y :: b' => chip_eqb x y && chips_eqb a' b'
  | _, _ => false
  end.
