UNITS = {
    # rig/type_casts.py re-extracted (ast only) into the syntax of coq/Model/FixFloatSyntax.v
    "GenFixFloat": dict(props=["C16"], dumper="dump_c16.py"),
}
