(* C07: the chunk lists -- SCPConnection.read / write and the link functions cut a request into
   consecutive chunks of at most `buffer` bytes whose data type fits address and size; the loops terminate
   (the model's fuel is never exhausted) exactly under the stated guards. *)
From Coq Require Import ZArith List Bool Lia.
Require Import Rig.Generated.GenMemOps Rig.Generated.GenSCP Rig.Model.Base Rig.Model.Machine Rig.Model.MemOps
  Rig.Spec.MemOps Rig.Proofs.MemOpsArith Rig.Proofs.MemOps.
Import ListNotations.
Open Scope Z_scope.

(* ------------------------------------------------------------------ SCPConnection.read *)
Lemma read_chunks_aux_tiles : forall fuel address buffer offset length,
  1 <= buffer -> 0 <= length -> (Z.to_nat length < fuel)%nat ->
  exists cs, read_chunks_aux fuel address buffer offset length = Ok cs /\
             read_tiles cs address buffer offset (offset + length).
Proof.
  induction fuel as [|f IH]; intros address buffer offset length Hb Hl Hf; [lia|].
  cbn [read_chunks_aux]. unfold read_cond.
  destruct (length >? 0) eqn:Ec.
  - apply Z.gtb_lt in Ec.
    unfold read_block_size, read_chunk_address, read_dtype_key.
    set (bs := Z.min length buffer).
    assert (Hbs : 0 < bs <= buffer /\ bs <= length) by (unfold bs; lia).
    destruct (dtype_key_ok (address + offset) bs) as (d & u & Hlk & Hu & Hma & Hmn & _).
    rewrite Hlk. cbn [bind].
    unfold read_call, read_slice, read_next_offset, read_next_length. cbv beta iota.
    destruct (IH address buffer (offset + bs) (length - bs) Hb ltac:(lia) ltac:(lia)) as (rest & Hr & Ht).
    rewrite Hr. cbn [bind]. eexists. split; [reflexivity|].
    cbn [read_tiles rk_lo rk_hi rk_call c_code c_arg1 c_arg2 c_arg3 c_data].
    replace (offset + bs - offset) with bs by lia.
    repeat split; try lia.
    + exists u. repeat split; assumption.
    + replace (offset + bs + (length - bs)) with (offset + length) in Ht by lia. exact Ht.
  - rewrite Z.gtb_ltb in Ec. rewrite Z.ltb_ge in Ec. exists []. split; [reflexivity|]. cbn [read_tiles]. lia.
Qed.

Lemma read_chunks_tiles : forall address length buffer,
  1 <= buffer -> 0 <= length ->
  exists cs, read_chunks address length buffer = Ok cs /\ read_tiles cs address buffer 0 length.
Proof.
  intros address length buffer Hb Hl. unfold read_chunks, read_offset0.
  destruct (read_chunks_aux_tiles (S (Z.to_nat length)) address buffer 0 length Hb Hl ltac:(lia))
    as (cs & H & Ht).
  exists cs. split; [assumption|]. replace (0 + length) with length in Ht by lia. exact Ht.
Qed.

(* what the tiling gives for every chunk, and that the slices cover [from, upto) *)
Lemma read_tiles_each : forall cs address buffer from upto k,
  read_tiles cs address buffer from upto -> In k cs ->
  from <= rk_lo k /\ rk_lo k < rk_hi k <= upto /\ rk_hi k - rk_lo k <= buffer /\
  c_code (rk_call k) = SCPCommands_read /\ c_arg1 (rk_call k) = address + rk_lo k /\
  c_arg2 (rk_call k) = rk_hi k - rk_lo k /\ c_data (rk_call k) = [] /\
  (exists u, unit_of (c_arg3 (rk_call k)) = Some u /\ (address + rk_lo k) mod u = 0 /\
             (rk_hi k - rk_lo k) mod u = 0).
Proof.
  induction cs as [|k0 rest IH]; intros address buffer from upto k Ht Hin; [contradiction|].
  cbn [read_tiles] in Ht. destruct Ht as (Hlo & Hhi & Hsz & Hc & Ha1 & Ha2 & Hd & Hu & Hrest).
  destruct Hin as [-> | Hin].
  - repeat split; try assumption; lia.
  - destruct (IH _ _ _ _ _ Hrest Hin) as (H1 & H2 & H3). repeat split; try tauto; lia.
Qed.

Lemma read_tiles_le : forall cs address buffer from upto,
  read_tiles cs address buffer from upto -> from <= upto.
Proof.
  induction cs as [|k rest IH]; intros address buffer from upto Ht; cbn [read_tiles] in Ht.
  - lia.
  - destruct Ht as (Hlo & Hhi & _ & _ & _ & _ & _ & _ & Hrest). lia.
Qed.

Lemma read_tiles_cover : forall cs address buffer from upto i,
  read_tiles cs address buffer from upto -> from <= i < upto ->
  exists k, In k cs /\ rk_lo k <= i < rk_hi k.
Proof.
  induction cs as [|k0 rest IH]; intros address buffer from upto i Ht Hi; cbn [read_tiles] in Ht.
  - lia.
  - destruct Ht as (Hlo & Hhi & _ & _ & _ & _ & _ & _ & Hrest).
    destruct (Z_lt_dec i (rk_hi k0)) as [Hlt | Hge].
    + exists k0. split; [left; reflexivity | lia].
    + destruct (IH _ _ _ _ i Hrest ltac:(lia)) as (k & Hin & Hk). exists k. split; [right; assumption | assumption].
Qed.

(* ------------------------------------------------------------------ SCPConnection.write *)
Lemma write_chunks_aux_tiles : forall fuel address buffer pos data,
  1 <= buffer -> 0 <= pos <= zlen data -> (Z.to_nat (zlen data - pos) < fuel)%nat ->
  exists cs, write_chunks_aux fuel (address + pos) buffer pos data = Ok cs /\
             write_tiles cs address buffer data pos.
Proof.
  induction fuel as [|f IH]; intros address buffer pos data Hb Hp Hf; [lia|].
  cbn [write_chunks_aux]. unfold write_cond.
  destruct (pos <? zlen data) eqn:Ec.
  - apply Z.ltb_lt in Ec.
    unfold write_block_slice. cbv beta iota.
    rewrite py_slice_eq by lia.
    set (bs := Z.min buffer (zlen data - pos)).
    assert (Hbs : 0 < bs <= buffer /\ pos + bs <= zlen data) by (unfold bs; lia).
    rewrite (firstn_skipn_length data pos bs) by lia.
    unfold write_dtype_key.
    destruct (dtype_key_ok (address + pos) bs) as (d & u & Hlk & Hu & Hma & Hmn & _).
    rewrite Hlk. cbn [bind].
    unfold write_call, write_next_address, write_next_pos. cbv beta iota.
    replace (address + pos + bs) with (address + (pos + bs)) by lia.
    destruct (IH address buffer (pos + bs) data Hb ltac:(lia) ltac:(lia)) as (rest & Hr & Ht).
    rewrite Hr. cbn [bind]. eexists. split; [reflexivity|].
    cbn [write_tiles c_code c_arg1 c_arg2 c_arg3 c_data].
    repeat split; try lia.
    + exists u. repeat split; assumption.
    + exact Ht.
  - rewrite Z.ltb_ge in Ec. exists []. split; [reflexivity|]. cbn [write_tiles]. lia.
Qed.

Lemma write_chunks_tiles : forall address buffer data,
  1 <= buffer ->
  exists cs, write_chunks address buffer data = Ok cs /\ write_tiles cs address buffer data 0.
Proof.
  intros address buffer data Hb. unfold write_chunks, write_pos0.
  pose proof (zlen_nonneg _ data) as Hn.
  destruct (write_chunks_aux_tiles (S (length data)) address buffer 0 data Hb ltac:(lia)
              ltac:(unfold zlen; lia)) as (cs & H & Ht).
  exists cs. split; [|assumption]. replace (address + 0) with address in H by lia. exact H.
Qed.

Lemma write_tiles_each : forall cs address buffer data from k,
  write_tiles cs address buffer data from -> 0 <= from -> In k cs ->
  exists pos, from <= pos /\ 0 < c_arg2 k <= buffer /\ pos + c_arg2 k <= zlen data /\
    c_code k = SCPCommands_write /\ c_arg1 k = address + pos /\
    c_data k = firstn (Z.to_nat (c_arg2 k)) (skipn (Z.to_nat pos) data) /\
    (exists u, unit_of (c_arg3 k) = Some u /\ (address + pos) mod u = 0 /\ c_arg2 k mod u = 0).
Proof.
  induction cs as [|k0 rest IH]; intros address buffer data from k Ht Hfrom Hin; [contradiction|].
  cbn [write_tiles] in Ht. destruct Ht as (Hsz & Hend & Hc & Ha1 & Hd & Hu & Hrest).
  destruct Hin as [-> | Hin].
  - exists from. repeat split; try assumption; lia.
  - destruct (IH _ _ _ _ _ Hrest ltac:(lia) Hin) as (pos & H1 & H2). exists pos. split; [lia | assumption].
Qed.

Lemma write_tiles_le : forall cs address buffer data from,
  write_tiles cs address buffer data from -> from <= zlen data.
Proof.
  induction cs as [|k rest IH]; intros address buffer data from Ht; cbn [write_tiles] in Ht.
  - lia.
  - destruct Ht as (Hsz & Hend & _). lia.
Qed.

Lemma write_tiles_cover : forall cs address buffer data from i,
  write_tiles cs address buffer data from -> from <= i < zlen data ->
  exists k, In k cs /\ c_arg1 k <= address + i < c_arg1 k + c_arg2 k.
Proof.
  induction cs as [|k0 rest IH]; intros address buffer data from i Ht Hi; cbn [write_tiles] in Ht.
  - lia.
  - destruct Ht as (Hsz & Hend & _ & Ha1 & _ & _ & Hrest).
    destruct (Z_lt_dec i (from + c_arg2 k0)) as [Hlt | Hge].
    + exists k0. split; [left; reflexivity | lia].
    + destruct (IH _ _ _ _ i Hrest ltac:(lia)) as (k & Hin & Hk). exists k. split; [right; assumption | assumption].
Qed.
