(* Predicates about packet objects and their histories (Model/PacketObj.v).  Definitions only. *)
From Coq Require Import ZArith List Bool.
Require Import Rig.Generated.GenPackets Rig.Model.Base Rig.Model.Packet Rig.Model.PacketObj Rig.Spec.Packet.
Import ListNotations.
Open Scope Z_scope.

(* everything of an object that may matter to its encoding: its class, the TRUTH value of reply_expected, the
   INTEGER values of the other fields (whatever Python / numpy type carries them), the payload bytes *)
Definition obj_view (o : obj) :=
  (o_scp o, truth (o_reply o),
   [int_of (o_tag o); int_of (o_dest_port o); int_of (o_dest_cpu o); int_of (o_src_port o); int_of (o_src_cpu o);
    int_of (o_dest_x o); int_of (o_dest_y o); int_of (o_src_x o); int_of (o_src_y o)],
   o_data o,
   [int_of (o_cmd o); int_of (o_seq o); int_of (o_arg1 o); int_of (o_arg2 o); int_of (o_arg3 o)]).

(* the header fields an SDP header needs; an SCP packet also needs cmd_rc and seq *)
Definition sdp_required (o : obj) : list pyval :=
  [o_tag o; o_dest_port o; o_dest_cpu o; o_src_port o; o_src_cpu o; o_dest_x o; o_dest_y o; o_src_x o; o_src_y o].
Definition scp_required (o : obj) : list pyval := sdp_required o ++ [o_cmd o; o_seq o].

(* no operation of the list assigns to decoded object i *)
Definition untouched (i : nat) (ops : list dop) : Prop := forallb (fun op => negb (touches i op)) ops = true.

(* a datagram as the wire carries it: bytes, zero padding, one of the two documented flag bytes *)
Definition datagram (bs : list Z) : Prop :=
  bytes bs /\ nth 0 bs 0 = 0 /\ nth 1 bs 0 = 0 /\ (nth 2 bs 0 = 135 \/ nth 2 bs 0 = 7).
