"""Drive rig.machine_control.boot.boot (and MachineController.boot) on JSON-described histories of boots.

Runs under /venv/bin/python with PYTHONPATH=<repo>:/verif/harness.  stdin: JSON list of histories; stdout:
JSON list of results.  Every history runs in a forked child of a parent that has imported rig but never
called boot, i.e. in a process whose library state is that of a fresh interpreter; the 1-4 boots of one
history share that process.  The socket and the clock are replaced from outside by assigning the module
attributes boot.socket / boot.time (no source hooks): datagrams given to sock.send are recorded, time.time()
is scripted, time.sleep only records.
"""
import inspect
import json
import os
import signal
import socket as real_socket
import sys
import tempfile
import time as real_time
import warnings

warnings.simplefilter("ignore")

import rig  # noqa: E402
from rig.machine_control import boot as B  # noqa: E402

BOOTDIR = os.path.join(os.path.dirname(os.path.abspath(rig.__file__)), "boot")


class Recorder(object):
    def __init__(self):
        self.reset([])

    def reset(self, times):
        self.times = list(times)
        self.sent = []
        self.connects = []
        self.closed = 0
        self.created = 0
        self.sleeps = []
        self.time_reads = 0


REC = Recorder()


class FakeSock(object):
    def __init__(self, family, kind):
        REC.created += 1
        self.family, self.kind = family, kind

    def connect(self, addr):
        REC.connects.append([addr[0], addr[1]])

    def send(self, data):
        REC.sent.append(bytes(data).hex())
        return len(data)

    def close(self):
        REC.closed += 1


class FakeSocketModule(object):
    def socket(self, family=-1, kind=-1, *a):
        return FakeSock(family, kind)

    def __getattr__(self, name):
        return getattr(real_socket, name)


class FakeTimeModule(object):
    def time(self):
        REC.time_reads += 1
        if REC.times:
            return REC.times.pop(0)
        return 1.0e9 + REC.time_reads

    def sleep(self, d):
        REC.sleeps.append(d)

    def __getattr__(self, name):
        return getattr(real_time, name)


def lcg_bytes(n, x):
    out = bytearray()
    for _ in range(n):
        x = (x * 1103515245 + 12345) & 0x7FFFFFFF
        out.append((x >> 16) & 255)
    return bytes(out)


def image_bytes(spec):
    if spec["kind"] == "lcg":
        return lcg_bytes(spec["n"], spec["seed"])
    if spec["kind"] == "hex":
        return bytes.fromhex(spec["hex"])
    with open(os.path.join(BOOTDIR, "scamp.boot"), "rb") as f:
        return f.read()


def items(d):
    try:
        return [[k if isinstance(k, str) else repr(k), v if isinstance(v, int) else repr(v)] for k, v in d.items()]
    except Exception as e:
        return ["unreadable", repr(e)]


def shared_default():
    try:
        return inspect.signature(B.boot).parameters["sv_overrides"].default
    except Exception:
        return None


def presets():
    return dict(("spin%d" % i, getattr(B, "spin%d_boot_options" % i, None)) for i in range(1, 6))


PINNED_MTIME = 1474848000


def put_file(key, prefix, content, paths, tmp):
    """Write the file a call names.  Without a key every call gets a file of its own; calls with the same key
    name the SAME path, which is rewritten in place before each of them (what a user does when a rebuilt image
    or struct file replaces the old one) with its modification time pinned to one and the same second."""
    if key is None or key not in paths:
        f = tempfile.NamedTemporaryFile(dir=".", prefix=prefix, delete=False)
        f.close()
        tmp.append(f.name)
        if key is not None:
            paths[key] = f.name
        name = f.name
    else:
        name = paths[key]
    with open(name, "wb") as f:
        f.write(content)
    if key is not None:
        os.utime(name, (PINNED_MTIME, PINNED_MTIME))
    return name


def controller_sv(mc):
    """What a controller says now: its host, boot port and the defaults of structs[b"sv"]."""
    try:
        sv = mc.structs[b"sv"]
        return dict(host=mc.initial_host, port=mc.boot_port,
                    sv=[[n.decode("latin-1"), f.default if isinstance(f.default, int) else repr(f.default)]
                        for n, f in sv.fields.items()])
    except Exception as e:      # noqa
        return dict(host=None, port=None, sv=["unreadable", repr(e)])


def run_history(h):
    B.socket = FakeSocketModule()
    B.time = FakeTimeModule()
    slots = [dict((k, v) for k, v in s) for s in h.get("slots", [])]
    pres = presets()
    out = dict(presets_before=dict((k, items(v)) for k, v in pres.items() if v is not None), calls=[])
    tmp = []
    paths = {}
    controllers = {}
    try:
        for c in h["calls"]:
            REC.reset(c["times"])
            kw = {}
            if c["image"]["kind"] != "bundled":
                kw["scamp_binary"] = put_file(c.get("image_path"), "c20img", image_bytes(c["image"]), paths, tmp)
            if c["struct"]["kind"] != "bundled":
                kw["sark_struct"] = put_file(c.get("struct_path"), "c20struct", c["struct"]["text"].encode("ascii"),
                                             paths, tmp)
            passed = None
            ov = c["overrides"]
            if ov is not None:
                if "slot" in ov:
                    passed = slots[ov["slot"]]
                elif "preset" in ov:
                    passed = pres["spin%d" % ov["preset"]]
                else:
                    passed = dict((k, v) for k, v in ov["fresh"])
                kw["sv_overrides"] = passed
            if c.get("port") is not None:
                kw["boot_port"] = c["port"]
            for name in ("boot_delay", "post_boot_delay"):
                if c.get(name) is not None:
                    kw[name] = c[name]
            if c.get("preset_kwargs"):
                kw.update(pres["spin%d" % c["preset_kwargs"]])     # boot(host, **spinN_boot_options)
            for k, v in c["kwargs"]:
                kw[k] = v
            try:
                if c["via"] == "cli":
                    # the command-line entry point: rig-boot HOST [--spinN]; the machine never answers SCP, so
                    # the tool reports failure (2) after having sent the boot datagrams
                    from rig.scripts import rig_boot
                    import io
                    import contextlib
                    with contextlib.redirect_stderr(io.StringIO()):
                        rc = rig_boot.main([c["host"]] + list(c["cli_args"]))
                    structs = None
                    res = ["cli", None, rc]
                elif c["via"] == "mc":
                    from rig.machine_control import MachineController, struct_file
                    key = "c%s" % c["ctrl"] if c.get("ctrl") is not None else "auto%d" % len(controllers)
                    if key not in controllers:
                        ckw = {}
                        if c.get("structs_given"):
                            with open(os.path.join(BOOTDIR, "sark.struct"), "rb") as f:
                                ckw["structs"] = struct_file.read_struct_file(f.read())
                        # (SCP: one try, short timeout -- nothing ever answers SCP here)
                        controllers[key] = MachineController(c["host"], n_tries=1, timeout=0.05, **ckw)
                    mc = controllers[key]
                    for name in ("width", "height"):
                        if c.get(name) is not None:
                            kw[name] = c[name]
                    from rig.machine_control.machine_controller import SpiNNakerBootError
                    try:
                        sent = mc.boot(only_if_needed=False, check_booted=bool(c.get("check_booted")), **kw)
                        structs = mc.structs
                        res = ["ok", None, sent is True]
                    except SpiNNakerBootError:
                        # check_booted: the image was sent, then no SCP reply came
                        structs = None
                        res = ["sent", None, "SpiNNakerBootError"]
                else:
                    structs = B.boot(c["host"], **kw)
                    res = ["ok", None, True]
                if structs is not None:
                    sv = structs[b"sv"]
                    res[1] = dict(size=sv.size, names=[n.decode("latin-1") for n in structs],
                                  fields=[[n.decode("latin-1"), f.pack_chars.decode("latin-1"), f.offset,
                                           f.default if isinstance(f.default, int) else repr(f.default), f.length]
                                          for n, f in sv.fields.items()])
            except Exception as e:      # noqa
                res = ["error", type(e).__name__, str(e)[:200]]
            sd = shared_default()
            out["calls"].append(dict(
                result=res, connects=REC.connects, datagrams=REC.sent, closed=REC.closed, created=REC.created,
                sleeps=REC.sleeps, time_reads=REC.time_reads,
                passed_after=None if passed is None else items(passed),
                shared_after=None if sd is None else items(sd),
                controllers=dict((k, controller_sv(m)) for k, m in controllers.items())))
    finally:
        for p in tmp:
            try:
                os.unlink(p)
            except OSError:
                pass
    out["slots_after"] = [items(s) for s in slots]
    out["presets_after"] = dict((k, items(v)) for k, v in presets().items() if v is not None)
    return out


class Hang(BaseException):
    pass


def _alarm(signum, frame):
    raise Hang()


def in_child(h, limit):
    r, w = os.pipe()
    pid = os.fork()
    if pid == 0:
        os.close(r)
        try:
            signal.signal(signal.SIGALRM, _alarm)
            signal.signal(signal.SIGPROF, _alarm)
            signal.setitimer(signal.ITIMER_PROF, limit)      # CPU time; wall-clock backstop for a blocking call
            signal.alarm(max(120, 20 * int(limit)))
            try:
                res = run_history(h)
            except Hang:
                res = ["hang"]
            except BaseException as e:      # noqa
                res = ["driver-error", type(e).__name__, str(e)[:300]]
            signal.setitimer(signal.ITIMER_PROF, 0)
            signal.alarm(0)
            with os.fdopen(w, "w") as f:
                json.dump(res, f)
        finally:
            os._exit(0)
    os.close(w)
    with os.fdopen(r) as f:
        data = f.read()
    os.waitpid(pid, 0)
    return json.loads(data) if data else ["driver-error", "child died", ""]


if __name__ == "__main__":
    histories = json.load(sys.stdin)
    json.dump([in_child(h, h.get("limit", 20)) for h in histories], sys.stdout)
