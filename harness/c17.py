"""C17 -- library calls neither modify their arguments nor remember earlier calls.

(a) proof part: the inventory of every carrier of cross-call state in rig/ is regenerated from the source
    (tools/dump_c17.py, an ast scan) into Generated/GenSharedState.v; Props/C17.v proves that every carrier
    is accounted for by the model of library state (Model/LibState.v) and that every modelled call returns
    the same result from every reachable library state.
(b) differential part: every argument of every call is snapshotted (deep, structural) before and after the
    real call; a probe call made after a random history of other calls must equal the same probe made first
    in a fresh interpreter (same seed)."""
import json
import lib
import pnr_gen

LEVEL = "proof"
UNITS = ["GenSharedState"]
PLACERS = ["sequential", "hilbert", "rcm", "breadth_first", "rand", "sa_c", "sa_py"]


def gen_call(rng):
    k = rng.random()
    if k < 0.12:
        # object reuse: one set of rig objects, a first mapping, the machine edited in place (enough dead links to
        # flip the wrap-around verdict now and then), then a second mapping on the same objects
        p = pnr_gen.gen_problem(rng, max_w=rng.choice([3, 4, 5]), max_h=rng.choice([3, 4, 5]), max_vertices=8)
        m = p["machine"]
        w, h = m["w"], m["h"]
        VEC = [(1, 0), (1, 1), (0, 1), (-1, 0), (-1, -1), (0, -1)]
        if rng.random() < 0.5:          # kill every wrap-around link: torus -> mesh
            edit = [[x, y, l] for x in range(w) for y in range(h) for l, (dx, dy) in enumerate(VEC)
                    if not (0 <= x + dx < w and 0 <= y + dy < h)]
        else:
            edit = [[rng.randrange(w), rng.randrange(h), rng.randrange(6)] for _ in range(rng.randint(1, 3))]
        spec = lambda: dict(placer=rng.choice(PLACERS), seed=rng.randint(0, 10 ** 6), target=rng.choice([None, 3]),
                            radius=rng.choice([0, 20]))
        return dict(kind="reuse", problem=p, first=spec(), edit_dead_links=edit, second=spec())
    if k < 0.6:
        return dict(kind="chain", problem=pnr_gen.gen_problem(rng), placer=rng.choice(PLACERS),
                    seed=rng.randint(0, 10 ** 6), target=rng.choice([None, None, 0, 2, 1024]),
                    radius=rng.choice([0, 1, 20]))
    if k < 0.68:
        n = rng.randint(1, 8)
        table = []
        for _ in range(n):
            mask = rng.choice([0xf, 0xe, 0xc, 0x7])
            table.append([[rng.randint(0, 5)] if rng.random() < 0.8 else [rng.randint(0, 5), rng.randint(6, 23)],
                          rng.randint(0, 15) & mask, mask])
        return dict(kind="covering", table=table, target=rng.choice([None, 0, 3]))
    if k < 0.78:
        nf = rng.randint(1, 4)
        tagset = lambda: rng.choice([None, "t", "u v", ["set", "S", ["t"]], ["set", "S", ["t"]], ["set", "T", ["w", "t"]]])
        fields = [["f%d" % i, rng.choice([None, 1, 2, 4]), None, tagset()] for i in range(nf)]
        values = [[f[0], rng.randint(0, (1 << (f[1] or 3)) - 1)] for f in fields]
        call = dict(kind="bitfield", length=rng.choice([8, 16, 32]), fields=fields, values=values)
        if rng.random() < 0.6:        # a second bit field given the same caller-owned tag sets; a child with a new tag
            call["second"] = [["g%d" % i, rng.choice([1, 2]), None, tagset()] for i in range(rng.randint(1, 3))]
            f0 = fields[0]
            call["children"] = [[f0[0], values[0][1], "child", 1, rng.choice(["z", ["set", "Z", ["z"]]])]]
        return call
    if k < 0.86:
        return dict(kind="controller", updates=[{"x": rng.randint(0, 7)}, {"app_id": rng.randint(1, 255)}][:rng.randint(0, 2)],
                    x=rng.randint(0, 7), y=rng.randint(0, 7), p=rng.randint(1, 17), **{"raise": rng.random() < 0.5},
                    bmp={"board": rng.randint(1, 23), "frame": rng.randint(0, 3)})
    if k < 0.96:
        return dict(kind="boot", preset=rng.choice([None, None, "spin3_boot_options", "spin5_boot_options"]),
                    options=rng.choice([{}, {}, {"hw_ver": 2}, {"led0": 0x1234}]),
                    overrides=rng.choice([None, None, {"hw_ver": 4}, {}]))
    return dict(kind="machine", cores=rng.randint(1, 17))


def run(chk, args):
    chk.assumptions += ["history independence is checked for the probe kinds generated here (P&R chain through all 7 "
                        "placers, ordered_covering with its default alias argument, BitField definitions, controller "
                        "construction, Machine defaults, boot); CPython-level aliasing outside the inventoried carriers is "
                        "covered only by this differential run",
                        "`same seeded random generator`: the driver reseeds the global `random` module and passes a fresh "
                        "random.Random(seed) to the placers before each call in both runs"]
    chk.regenerate(UNITS)
    chk.prove()
    n_hist = 40 if chk.tier == "quick" else 1200
    if args.replay:
        rep = json.load(open(args.replay))
        hists = [f["replay"]["history"] for f in rep.get("failures", []) if "history" in f.get("replay", {})]
    else:
        hists = []
        for _ in range(n_hist):
            hists.append([gen_call(chk.rng) for _ in range(chk.rng.randint(2, 7))])
    corpus = lib.os.path.join(lib.VERIF, "corpus", "C17.json")
    if lib.os.path.exists(corpus):
        hists = json.load(open(corpus)) + hists
    # run A: whole history in one interpreter; run B: every call of the history alone in a fresh interpreter
    outA = [o for part in chk.impl_parallel("impl_c17.py", [[h] for h in hists], timeout=1800) for o in part]
    def fresh_counterpart(c):
        if c["kind"] != "reuse":
            return c
        p = json.loads(json.dumps(c["problem"]))
        for e in c["edit_dead_links"]:
            if e not in p["machine"]["dead_links"]:
                p["machine"]["dead_links"].append(e)
        return dict(kind="reuse", problem=p, first=None, edit_dead_links=[], second=c["second"])
    singles = [[fresh_counterpart(c)] for h in hists for c in h]
    groups = [singles[i:i + 1] for i in range(len(singles))]
    outB = [o[0] for part in chk.impl_parallel("impl_c17.py", groups, timeout=1800) for o in part]
    k = 0
    for h, a in zip(hists, outA):
        if a == ["hang"] or a == ["skipped"]:
            k += len(h)
            chk.fail_input("history-hang", "a library call in this history did not terminate", dict(history=h))
            continue
        for i, (call, ra) in enumerate(zip(h, a)):
            rb = outB[k]
            k += 1
            chk.count("kind:" + call["kind"] + (":" + call["placer"] if "placer" in call else "")
                      + (":" + call["second"]["placer"] if call["kind"] == "reuse" else ""))
            nontriv = i > 0 and not (isinstance(ra["result"], list) and ra["result"][:1] == ["raised"])
            chk.note_case([h[:i + 1]], nontriv)
            if ra["mutated"]:
                chk.fail_input("argument-mutated:" + ",".join(ra["mutated"]),
                               "call %r changed its arguments during stage(s) %s" % (call["kind"], ra["mutated"]),
                               dict(history=h[:i + 1], call_index=i))
            if rb == "hang" or isinstance(rb, list):
                continue
            if rb["mutated"] and not ra["mutated"]:
                chk.fail_input("argument-mutated:" + ",".join(rb["mutated"]),
                               "call %r changed its arguments (fresh interpreter)" % call["kind"],
                               dict(history=[call], call_index=0))
            if ra["result"] != rb["result"]:
                chk.fail_input("history-dependent:" + call["kind"],
                               "result of call #%d (%s) after the history differs from the same call made first in a "
                               "fresh interpreter" % (i, call["kind"]),
                               dict(history=h[:i + 1], call_index=i, after_history=ra["result"], fresh=rb["result"]))
        chk.traces_validated += 1
    chk.sample(dict(history=[dict((k2, v) for k2, v in c.items() if k2 != "problem") for c in hists[0]],
                    results=[json.dumps(r["result"])[:200] for r in outA[0]] if isinstance(outA[0], list) else outA[0]))
    chk.coverage["rule"] = ("random histories of 2-7 library calls (P&R chains place->allocate->route->tables->minimise "
                            "with each of the 7 placer configurations, ordered_covering with default aliases, BitField "
                            "definitions, controller construction and context use, Machine defaults); every call is also "
                            "run alone in a fresh interpreter and must give the same canonical result; every argument is "
                            "snapshotted before/after; non-trivial = a call at position >= 1 of a history that did not raise")
