"""Drive rig's NER router on JSON-described cases (runs under /venv/bin/python, PYTHONPATH=/repo).

The module attribute `random` of rig.geometry and of rig.place_and_route.route.utils is replaced from
here by a scripted source (no edit of /repo): random() returns k / 2**53 and randint(lo, hi) returns
lo + k % (hi - lo + 1) for the next integer k of the case's stream (0 once the stream is exhausted).
ner.ner_net and ner.copy_and_disconnect_tree are wrapped (again from outside) to log what the model
needs as explicit inputs: the iteration order of the destination set, the position in the random stream
at the start of each net, the tree before repair, and the iteration order of the set broken_links."""
import importlib
import rig.geometry as geometry
# rig.place_and_route re-exports the function `route` under the name of the sub-package: go through
# importlib to reach the modules
rutils = importlib.import_module("rig.place_and_route.route.utils")
ner = importlib.import_module("rig.place_and_route.route.ner")
from rig.place_and_route.machine import Machine, Cores
from rig.place_and_route.constraints import RouteEndpointConstraint
from rig.place_and_route.exceptions import MachineHasDisconnectedSubregion
from rig.place_and_route.routing_tree import RoutingTree
from rig.links import Links
from rig.netlist import Net
from rig.routing_table import Routes

ORIG_NER_NET = ner.ner_net
ORIG_COPY = ner.copy_and_disconnect_tree
TWO53 = 2.0 ** 53


class Scripted(object):
    def __init__(self, stream):
        self.s = stream
        self.pos = 0

    def _draw(self):
        k = self.s[self.pos] if self.pos < len(self.s) else 0
        self.pos += 1
        return k

    def random(self):
        return self._draw() / TWO53

    def randint(self, a, b):
        return a + self._draw() % (b - a + 1)


class Huge(Exception):
    pass


def ser(node, budget):
    budget[0] -= 1
    if budget[0] < 0:
        raise Huge()
    kids = []
    for r, obj in node.children:
        rr = None if r is None else int(r)
        if isinstance(obj, RoutingTree):
            kids.append([rr, ser(obj, budget)])
        else:
            kids.append([rr, ["l", obj]])
    return ["n", node.chip[0], node.chip[1], kids]


def ser_flat(root, budget=40000):
    """iterative, for trees too deep for nested JSON: ["flat", [[x, y, parent index, route], ...] in depth-first
    order (the root has parent -1), [[node index, route, vertex], ...]]; a shared or cyclic structure exceeds
    the budget"""
    nodes, leaves = [], []
    stack = [(root, -1, None)]
    while stack:
        node, parent, route = stack.pop()
        if len(nodes) >= budget:
            return ["huge"]
        idx = len(nodes)
        nodes.append([node.chip[0], node.chip[1], parent, route])
        todo = []
        for r, obj in node.children:
            rr = None if r is None else int(r)
            if isinstance(obj, RoutingTree):
                todo.append((obj, idx, rr))
            else:
                leaves.append([idx, rr, obj])
        stack.extend(reversed(todo))
    return ["flat", nodes, leaves]


def ser_safe(node):
    try:
        return ser(node, [700])
    except (Huge, RecursionError):
        return ser_flat(node)


def build_machine(m):
    return Machine(m["w"], m["h"],
                   dead_chips=set(tuple(xy) for xy in m["dead_chips"]),
                   dead_links=set((x, y, Links(l)) for x, y, l in m["dead_links"]))


def run_case(c, machine=None):
    if machine is None:
        machine = build_machine(c["machine"])
    rnd = Scripted(c["stream"])
    geometry.random = rnd
    rutils.random = rnd
    log = []

    def ner_net_logged(source, destinations, width, height, wrap_around=False, radius=10):
        dests = list(destinations)          # same iteration order as the sorted() inside
        entry = dict(pos=rnd.pos, dests=[list(d) for d in dests], wrap=bool(wrap_around))
        log.append(entry)
        root, lookup = ORIG_NER_NET(source, destinations, width, height, wrap_around, radius)
        entry["pos_end"] = rnd.pos
        entry["ner"] = ser_safe(root)
        entry["keys"] = [list(k) for k in lookup]
        entry["broken"] = None
        return root, lookup

    def copy_logged(root, mach):
        new_root, lookup, broken = ORIG_COPY(root, mach)
        log[-1]["broken"] = [[list(p), list(ch)] for p, ch in broken]   # iteration order of the set
        return new_root, lookup, broken

    ner.ner_net = ner_net_logged
    ner.copy_and_disconnect_tree = copy_logged
    placements = dict((v, tuple(xy)) for v, xy in c["placements"])
    core_res = Cores if c.get("core_res") is None else c["core_res"]
    allocations = dict((v, {core_res: slice(a, b)}) for v, (a, b) in c["allocs"])
    if c.get("decoy"):
        for v in allocations:
            allocations[v][Cores] = slice(0, 1)      # must be ignored: the caller's resource is core_res
    constraints = [RouteEndpointConstraint(v, Routes(r)) for v, r in c["cons"]]
    nets = [Net(n["source"], list(n["sinks"])) for n in c["nets"]]
    out = dict(has_wrap=bool(machine.has_wrap_around_links()), error=None)
    try:
        routes = ner.route({}, nets, machine, constraints, placements, allocations, core_res, c["radius"])
        for e, n in zip(log, nets):
            e["final"] = ser_safe(routes[n])
    except MachineHasDisconnectedSubregion:
        out["error"] = ["disconnected"]
    except Exception as e:                  # noqa
        out["error"] = ["other", type(e).__name__, str(e)[:200]]
    finally:
        ner.ner_net = ORIG_NER_NET
        ner.copy_and_disconnect_tree = ORIG_COPY
    out["nets"] = log
    return out


def run_ner(c):
    """ner_net alone (the kernel), destinations given as a list (duplicates allowed)."""
    rnd = Scripted(c["stream"])
    geometry.random = rnd
    rutils.random = rnd
    try:
        root, lookup = ORIG_NER_NET(tuple(c["source"]), [tuple(d) for d in c["dests"]],
                                    c["w"], c["h"], c["wrap"], c["radius"])
    except Exception as e:                  # noqa
        return dict(error=["other", type(e).__name__, str(e)[:200]])
    return dict(error=None, ner=ser_safe(root), keys=[list(k) for k in lookup], pos_end=rnd.pos)


def run_history(c):
    """one Machine object: route(), in-place edits of its dead_links / dead_chips sets, route() again, ..."""
    machine = build_machine(c["machine"])
    outs = []
    for op in c["steps"]:
        if op[0] == "route":
            outs.append(run_case(c, machine))
        elif op[0] == "dl_add":
            machine.dead_links.add((op[1][0], op[1][1], Links(op[1][2])))
        elif op[0] == "dl_discard":
            machine.dead_links.discard((op[1][0], op[1][1], Links(op[1][2])))
        elif op[0] == "dl_update":
            machine.dead_links.update((x, y, Links(l)) for x, y, l in op[1])
        elif op[0] == "dl_clear":
            machine.dead_links.clear()
        elif op[0] == "dc_add":
            machine.dead_chips.add(tuple(op[1]))
        elif op[0] == "dc_discard":
            machine.dead_chips.discard(tuple(op[1]))
    return dict(steps=outs)


def run_any(c):
    if c.get("kind") == "ner":
        return run_ner(c)
    if c.get("kind") == "history":
        return run_history(c)
    return run_case(c)


if __name__ == "__main__":
    import implutil
    implutil.run_cases(run_any, per_case_s=40)
