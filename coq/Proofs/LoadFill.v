(* C09, the controller side, part 2: the packets of one flood fill as sent by fill_one
   (flood_fill_aplx / _send_ffs / _send_ffcs / _send_ffd / _send_ffe), that they are a well formed fill
   selecting exactly the requested cores, and what the fill does to the machine. *)
From Coq Require Import ZArith List Bool Lia Sorted.
Require Import Rig.Generated.GenRegions Rig.Generated.GenLoad Rig.Model.Base Rig.Model.Regions Rig.Spec.Regions.
Require Import Rig.Model.Load Rig.Spec.Load.
Require Import Rig.Proofs.Regions Rig.Proofs.RegionsOrder Rig.Proofs.LoadBits Rig.Proofs.LoadMachine Rig.Proofs.LoadCtrl.
Import ListNotations.
Open Scope Z_scope.

Ltac Zify.zify_post_hook ::= Z.to_euclidean_division_equations.

(* ---------------------------------------------------------------- the packets *)
Definition ffs_pkt (pid n : Z) : pkt :=
  mkPkt ffs_x ffs_y ffs_p ffs_cmd (ffs_arg1 pid n) ffs_arg2 (ffs_arg3 ff_fr) [].
Definition ffcs_pkt (rc : Z * Z) : pkt :=
  mkPkt ffcs_x ffcs_y ffcs_p ffcs_cmd (ffcs_arg1 (snd rc)) (ffcs_arg2 (fst rc)) (ffcs_arg3 ff_fr) [].
Definition ffe_pkt (pid app flags : Z) : pkt :=
  mkPkt ffe_x ffe_y ffe_p ffe_cmd (ffe_arg1 pid) (ffe_arg2 app flags) (ffe_arg3 ff_fr) [].
Definition ffd_pkt (pid block address : Z) (chunk : list Z) : pkt :=
  mkPkt ffd_x ffd_y ffd_p ffd_cmd (ffd_arg1 pid) (ffd_arg2 block (zlen chunk)) (ffd_arg3 address) chunk.

Fixpoint ffd_list (fuel : nat) (pid : Z) (data : list Z) (buffer pos block address : Z) : list pkt :=
  if ffd_continue pos (zlen data) then
    match fuel with
    | O => []
    | S k =>
        let chunk := slice data pos (pos + buffer) in
        ffd_pkt pid block address chunk
        :: ffd_list k pid data buffer (ffd_next_pos pos (zlen chunk)) (ffd_next_block block)
                    (ffd_next_address address (zlen chunk))
    end
  else [].

Lemma send_ffcs_all_inv : forall fills w w',
  send_ffcs_all w fills ff_fr = Ok w' -> extends w w' (map ffcs_pkt fills).
Proof.
  induction fills as [|[region cores] fills IH]; intros w w' H.
  - inversion H; subst. apply extends_refl.
  - cbn [send_ffcs_all] in H. apply bind_ok in H. destruct H as [w1 [Hs H]].
    apply send__inv in Hs. destruct Hs as (He & _ & _). apply IH in H.
    exact (extends_trans _ _ _ _ _ He H).
Qed.

Lemma send_ffd_inv : forall fuel w pid data buffer pos block address w',
  send_ffd fuel w pid data buffer pos block address = Ok w' ->
  extends w w' (ffd_list fuel pid data buffer pos block address).
Proof.
  induction fuel as [|k IH]; intros w pid data buffer pos block address w' H.
  - cbn [send_ffd ffd_list] in *. destruct (ffd_continue pos (zlen data)); [discriminate|].
    inversion H; subst. apply extends_refl.
  - cbn [send_ffd ffd_list] in *. destruct (ffd_continue pos (zlen data)).
    + apply bind_ok in H. destruct H as [w1 [Hs H]]. apply send__inv in Hs. destruct Hs as (He & _ & _).
      apply IH in H. exact (extends_trans _ _ _ _ _ He H).
    + inversion H; subst. apply extends_refl.
Qed.

(* ---------------------------------------------------------------- lists *)
Lemma skipn_skipn' : forall A (l : list A) x y, skipn x (skipn y l) = skipn (x + y) l.
Proof.
  intros A l x y. revert l. induction y as [|y IH]; intros l.
  - rewrite Nat.add_0_r. reflexivity.
  - rewrite Nat.add_succ_r. destruct l as [|a l]; [rewrite !skipn_nil; reflexivity|]. cbn [skipn]. apply IH.
Qed.

Lemma skipn_firstn_length : forall A (l : list A) b, skipn (length (firstn b l)) l = skipn b l.
Proof.
  intros A l b. rewrite firstn_length. destruct (Nat.le_gt_cases b (length l)) as [H|H].
  - rewrite Nat.min_l by exact H. reflexivity.
  - rewrite Nat.min_r by lia. rewrite !skipn_all2 by lia. reflexivity.
Qed.

Lemma slice_length : forall A (l : list A) a b, 0 <= a -> 0 <= b ->
  zlen (slice l a (a + b)) = Z.min b (Z.max 0 (zlen l - a)).
Proof.
  intros A l a b Ha Hb. unfold slice, zlen. rewrite firstn_length, skipn_length.
  replace (a + b - a) with b by lia. lia.
Qed.

(* ---------------------------------------------------------------- the data packets *)
Lemma n_blocks_unique : forall L buffer block,
  0 < buffer -> L <= block * buffer -> (block = 0 /\ L = 0 \/ (block - 1) * buffer < L) ->
  ff_n_blocks L buffer = block.
Proof.
  intros L buffer block Hb Hle Hgt. unfold ff_n_blocks.
  destruct Hgt as [[-> ->]|Hgt].
  - rewrite Z.add_0_l. apply Z.div_small. lia.
  - symmetry. apply (Z.div_unique_pos _ _ _ (L + buffer - 1 - block * buffer)).
    + replace ((block - 1) * buffer) with (block * buffer - buffer) in Hgt by ring. lia.
    + ring.
Qed.

Lemma block_lt_n_blocks : forall L buffer block,
  0 < buffer -> 0 <= block -> block * buffer < L -> block < ff_n_blocks L buffer.
Proof.
  intros L buffer block Hb H0 Hlt. unfold ff_n_blocks.
  assert (block + 1 <= (L + buffer - 1) / buffer); [|lia].
  apply Z.div_le_lower_bound; [exact Hb|]. replace (buffer * (block + 1)) with (block * buffer + buffer) by ring. lia.
Qed.

Lemma ffd_list_spec : forall pid data buffer base,
  0 <= pid < 256 -> 4 <= buffer <= 1024 -> buffer mod 4 = 0 ->
  zlen data mod 4 = 0 -> ff_n_blocks (zlen data) buffer <= 255 ->
  forall fuel pos block,
    0 <= block -> pos = Z.min (block * buffer) (zlen data) ->
    (block = 0 \/ (block - 1) * buffer < zlen data) ->
    (Z.to_nat (zlen data - pos) < fuel)%nat ->
    let ds := ffd_list fuel pid data buffer pos block (base + pos) in
    blocks_ok buffer pid block (base + pos) ds
    /\ concat (map q_data ds) = skipn (Z.to_nat pos) data
    /\ block + zlen ds = ff_n_blocks (zlen data) buffer.
Proof.
  intros pid data buffer base Hpid Hbuf Hbm HL Hn.
  induction fuel as [|k IH]; intros pos block Hb0 Hpos Hprev Hfuel; [lia|].
  cbn zeta. cbn [ffd_list]. unfold ffd_continue.
  assert (Hp0 : 0 <= pos). { subst pos. apply Z.min_glb; [apply Z.mul_nonneg_nonneg; lia|unfold zlen; lia]. }
  destruct (pos <? zlen data) eqn:Ec.
  - apply Z.ltb_lt in Ec.
    assert (Hpb : pos = block * buffer) by lia.
    set (chunk := slice data pos (pos + buffer)).
    assert (Hcl : zlen chunk = Z.min buffer (zlen data - pos)).
    { unfold chunk. rewrite slice_length by lia. lia. }
    assert (Hdiv : (4 | pos)).
    { rewrite Hpb. apply Z.divide_mul_r. apply Z.mod_divide; lia. }
    assert (Hpm : pos mod 4 = 0) by (apply Z.mod_divide; [lia|exact Hdiv]).
    assert (Hc4 : 4 <= zlen chunk <= 1024 /\ zlen chunk mod 4 = 0 /\ zlen chunk <= buffer).
    { rewrite Hcl. split; [|split]; lia. }
    assert (Hblk : block < 256).
    { pose proof (block_lt_n_blocks (zlen data) buffer block ltac:(lia) Hb0 ltac:(lia)). lia. }
    destruct (ffd_arg2_fields block (zlen chunk) ltac:(lia) ltac:(lia) ltac:(lia)) as [Hf1 Hf2].
    unfold ffd_next_pos, ffd_next_block, ffd_next_address.
    replace (base + pos + zlen chunk) with (base + (pos + zlen chunk)) by lia.
    specialize (IH (pos + zlen chunk) (block + 1)).
    destruct IH as (IH1 & IH2 & IH3).
    + lia.
    + replace ((block + 1) * buffer) with (block * buffer + buffer) by ring. lia.
    + right. replace (block + 1 - 1) with block by lia. lia.
    + lia.
    + cbn zeta in IH1, IH2, IH3. split; [|split].
      * cbn [blocks_ok]. unfold ffd_pkt. cbn [q_cmd q_a1 q_a2 q_a3 q_data].
        split; [reflexivity|]. split; [apply ffd_arg1_field; exact Hpid|].
        split; [exact Hf1|]. split; [exact Hf2|]. split; [lia|]. split; [reflexivity|].
        replace (base + pos + zlen chunk) with (base + (pos + zlen chunk)) by lia. exact IH1.
      * cbn [map concat]. unfold ffd_pkt at 1. cbn [q_data]. rewrite IH2.
        assert (Hlen : Z.to_nat (pos + zlen chunk) = (length chunk + Z.to_nat pos)%nat).
        { unfold zlen. lia. }
        rewrite Hlen. rewrite <- skipn_skipn'. unfold chunk, slice.
        replace (pos + buffer - pos) with buffer by lia.
        rewrite skipn_firstn_length. apply firstn_skipn.
      * unfold zlen in *. cbn [length]. lia.
  - apply Z.ltb_ge in Ec. cbn [blocks_ok map concat]. split; [exact I|]. split.
    + rewrite skipn_all2; [reflexivity|]. unfold zlen in Ec. lia.
    + unfold zlen at 1. cbn [length]. rewrite Z.add_0_r. symmetry. apply n_blocks_unique; try lia.
Qed.

(* ---------------------------------------------------------------- the core select packets *)
Lemma ffcs_pkt_fields : forall rc, pair_well_formed rc ->
  is_nn NN_FFCS (ffcs_pkt rc) /\ sel_pair (ffcs_pkt rc) = rc /\ sel_key (ffcs_pkt rc) = ffcs_key rc.
Proof.
  intros [region mask] [Hr Hm]. cbn [fst snd] in *. change (2 ^ 18) with 262144 in Hm.
  destruct (ffcs_fields mask ltac:(lia)) as [H1 H2].
  unfold is_nn, sel_pair, sel_key, ffcs_key, ffcs_pkt. cbn [q_cmd q_a1 q_a2 fst snd].
  rewrite H2. repeat split; try reflexivity. exact H1.
Qed.

Lemma sels_of_fills : forall fills, Forall pair_well_formed fills ->
  Forall (is_nn NN_FFCS) (map ffcs_pkt fills)
  /\ map sel_pair (map ffcs_pkt fills) = fills
  /\ map sel_key (map ffcs_pkt fills) = map ffcs_key fills.
Proof.
  induction fills as [|rc fills IH]; intros H; [repeat split; constructor|].
  inversion H as [|? ? Hrc Hr]; subst. destruct (IH Hr) as (I1 & I2 & I3).
  destruct (ffcs_pkt_fields rc Hrc) as (F1 & F2 & F3). cbn [map].
  split; [constructor; assumption|]. split; [rewrite F2, I2; reflexivity|rewrite F3, I3; reflexivity].
Qed.

Lemma StronglySorted_map_key : forall A (f : A -> Z) l,
  StronglySorted Z.lt (map f l) <-> StronglySorted (fun a b => f a < f b) l.
Proof.
  intros A f l. induction l as [|a l IH]; [split; constructor|]. cbn [map]. split; intros H.
  - inversion H as [|? ? Hs Hf]; subst. constructor; [apply IH; exact Hs|].
    rewrite Forall_map in Hf. exact Hf.
  - inversion H as [|? ? Hs Hf]; subst. constructor; [apply IH; exact Hs|].
    rewrite Forall_map. exact Hf.
Qed.

Lemma sels_sorted : forall fills, Forall pair_well_formed fills ->
  StronglySorted (fun a b => ffcs_key a < ffcs_key b) fills ->
  StronglySorted (fun a b => sel_key a < sel_key b) (map ffcs_pkt fills).
Proof.
  intros fills Hw Hs. apply StronglySorted_map_key. destruct (sels_of_fills fills Hw) as (_ & _ & H3).
  rewrite H3. apply StronglySorted_map_key. exact Hs.
Qed.

Lemma existsb_count : forall A (f : A -> bool) l, existsb f l = negb (Nat.eqb (length (filter f l)) 0).
Proof.
  intros A f l. induction l as [|a l IH]; [reflexivity|]. cbn [existsb filter].
  destruct (f a); [reflexivity|exact IH].
Qed.

(* the core select packets of a compressed target set select exactly the requested cores *)
Lemma sels_select_requested : forall cs fills x y p,
  compress cs = Ok fills ->
  sels_select (map ffcs_pkt fills) (x, y, p) = requested cs x y p.
Proof.
  intros cs fills x y p Hc.
  assert (Hin : Forall in_space cs) by (apply compress_ok_iff; exists fills; exact Hc).
  destruct (compress_exact cs Hin) as [out [Ho Hex]]. rewrite Hc in Ho. inversion Ho; subst out.
  destruct (compress_sorted cs fills Hc) as [_ Hw].
  unfold sels_select. rewrite <- existsb_map_sel. destruct (sels_of_fills fills Hw) as (_ & H2 & _).
  rewrite H2. rewrite existsb_count. fold (times_selected fills x y p). rewrite Hex.
  destruct (requested cs x y p); reflexivity.
Qed.

(* ---------------------------------------------------------------- what never changes *)
Definition same_static (m m' : machine) : Prop :=
  m_buffer m' = m_buffer m /\ m_base m' = m_base m /\ m_vcpu m' = m_vcpu m.

Lemma mstep_static : forall m q, same_static m (fst (mstep m q)).
Proof.
  intros m q. unfold mstep. destruct (dest_chip m (q_x q) (q_y q)) as [[xy c]|]; [|repeat split].
  repeat match goal with |- context [if ?b then _ else _] => destruct b end; repeat split.
Qed.

Lemma replay_static : forall qs m, same_static m (fst (replay m qs)).
Proof.
  induction qs as [|q qs IH]; intros m; [repeat split|].
  rewrite replay_cons. destruct (mstep_static m q) as (A & B & C).
  destruct (IH (fst (mstep m q))) as (A' & B' & C'). repeat split; congruence.
Qed.

Lemma extends_static : forall w w' qs, extends w w' qs -> same_static (w_m w) (w_m w').
Proof. intros w w' qs [_ H]. rewrite H. apply replay_static. Qed.

Lemma replay_sver : forall m, fst (replay m [sver_pkt]) = m.
Proof.
  intros m. cbn [replay]. rewrite mstep_sver. destruct (hd_error (m_chips m)); reflexivity.
Qed.

(* ---------------------------------------------------------------- fill_one *)
(* the packets of one fill as the controller builds them *)
Definition fill_pkts (pid app flags buffer base : Z) (data : list Z) (fills : list (Z * Z)) (rd : pkt) : list pkt :=
  [ffs_pkt pid (ff_n_blocks (zlen data) buffer)] ++ map ffcs_pkt fills ++ [rd]
  ++ ffd_list (S (length data)) pid data buffer ffd_pos0 ffd_block0 base ++ [ffe_pkt pid app flags].

Lemma next_nn_id_range : forall v, 0 <= v <= 126 -> 1 <= next_nn_id v <= 126.
Proof. intros v H. unfold next_nn_id. destruct (v <? 126) eqn:E; lia. Qed.

Lemma fill_one_inv : forall c w app flags data ts c' w',
  ctrl_wf c (w_m w) -> 4 <= m_buffer (w_m w) -> 0 <= m_base (w_m w) < 2 ^ 32 ->
  fill_one c w app flags data ts = Ok (c', w') ->
  exists fills rd,
    compress (cores_of_targets ts) = Ok fills
    /\ is_read rd /\ bcast rd
    /\ extends w w' (pre_of c ++ fill_pkts (nn_id_wire (next_nn_id (c_nn c))) app flags (m_buffer (w_m w))
                                           (m_base (w_m w)) data fills rd)
    /\ c_nn c' = next_nn_id (c_nn c) /\ c_buffer c' = Some (m_buffer (w_m w))
    /\ hd_error (m_chips (w_m w)) <> None.
Proof.
  intros c w app flags data ts c' w' Hc Hbuf Hbase H. unfold fill_one in H.
  destruct (compress (cores_of_targets ts)) as [fills| | |] eqn:Ecomp; try discriminate.
  apply bind_ok in H. destruct H as [[[c1 w1] buffer] [Hg H]].
  apply get_buffer_inv in Hg; [|exact Hc]. destruct Hg as (Hb & Hcb & Hcn & Hm1 & Hpre).
  destruct (buffer =? 0) eqn:Eb0; [discriminate|].
  apply bind_ok in H. destruct H as [w2 [Hs2 H]].
  apply bind_ok in H. destruct H as [w3 [Hs3 H]].
  apply bind_ok in H. destruct H as [[[c3 w4] base] [Hrd H]].
  apply bind_ok in H. destruct H as [w5 [Hs5 H]].
  apply bind_ok in H. destruct H as [w6 [Hs6 H]]. inversion H; subst c' w'. clear H.
  apply send__inv in Hs2. destruct Hs2 as (He2 & Hm2 & Hne2).
  apply send_ffcs_all_inv in Hs3.
  destruct (extends_static _ _ _ He2) as (S2a & S2b & S2c).
  destruct (extends_static _ _ _ Hs3) as (S3a & S3b & S3c).
  assert (Hc2 : ctrl_wf (mkCtrl (next_nn_id (c_nn c1)) (c_buffer c1)) (w_m w3)).
  { split; cbn [c_nn c_buffer].
    - rewrite Hcn. pose proof (next_nn_id_range (c_nn c) (proj1 Hc)). lia.
    - right. rewrite Hcb, Hb. f_equal. congruence. }
  apply read_sv_word_inv in Hrd; [|exact Hc2|rewrite S3a, S2a, Hm1; lia].
  destruct Hrd as (Hm4 & Hcb4 & Hcn4 & (xy & ch & Hdest & Hv) & (rd & He4 & Hisrd & Hrx & Hry)).
  unfold pre_of in He4. cbn [c_buffer] in He4. rewrite Hcb in He4. cbn [List.app] in He4.
  rewrite mread_sdram_sys in Hv. rewrite S3b, S2b, Hm1 in Hv. rewrite of_le32_le32 in Hv by exact Hbase.
  inversion Hv; subst base. clear Hv.
  apply send_ffd_inv in Hs5. apply send__inv in Hs6. destruct Hs6 as (He6 & _ & _).
  exists fills, rd. split; [reflexivity|]. split; [exact Hisrd|]. split; [split; assumption|].
  split; [|split; [|split]].
  - unfold fill_pkts. rewrite Hb, Hcn in *.
    apply (extends_trans _ _ _ _ _ Hpre). apply (extends_trans _ _ _ _ _ He2).
    apply (extends_trans _ _ _ _ _ Hs3). apply (extends_trans _ _ _ _ _ He4).
    apply (extends_trans _ _ _ _ _ Hs5). exact He6.
  - cbn [c_nn] in Hcn4. rewrite Hcn4, Hcn. reflexivity.
  - rewrite Hcb4. f_equal. congruence.
  - apply mstep_dest in Hne2. rewrite Hm1 in Hne2. exact Hne2.
Qed.

(* ---------------------------------------------------------------- the fill is well formed *)
Lemma pid_range : forall nn, 0 <= nn <= 126 -> 0 <= nn_id_wire (next_nn_id nn) < 256.
Proof. intros nn H. pose proof (next_nn_id_range nn H). unfold nn_id_wire. lia. Qed.

Lemma n_blocks_nonneg : forall L buffer, 0 <= L -> 0 < buffer -> 0 <= ff_n_blocks L buffer.
Proof. intros L buffer HL Hb. unfold ff_n_blocks. apply Z.div_pos; lia. Qed.

Lemma fill_pkts_parts : forall pid aid flags buffer base data fills rd cs,
  0 <= pid < 256 -> 4 <= buffer <= 1024 -> buffer mod 4 = 0 -> binary_ok buffer data ->
  compress cs = Ok fills -> is_read rd ->
  ff_parts buffer base data (ffs_pkt pid (ff_n_blocks (zlen data) buffer)) (map ffcs_pkt fills) rd
           (ffd_list (S (length data)) pid data buffer ffd_pos0 ffd_block0 base) (ffe_pkt pid aid flags).
Proof.
  intros pid aid flags buffer base data fills rd cs Hpid Hbuf Hbm [HL Hn] Hcomp Hrd.
  assert (Hn0 : 0 <= ff_n_blocks (zlen data) buffer) by (apply n_blocks_nonneg; unfold zlen; lia).
  destruct (ffs_fields pid (ff_n_blocks (zlen data) buffer) Hpid ltac:(lia)) as (F1 & F2 & F3).
  destruct (ffe_arg1_fields pid Hpid) as (E1 & E2).
  destruct (compress_sorted cs fills Hcomp) as [_ Hw].
  destruct (compress_pairs_increasing cs fills Hcomp) as [_ Hs].
  pose proof (ffd_list_spec pid data buffer base Hpid Hbuf Hbm HL Hn (S (length data)) 0 0
                            ltac:(lia) ltac:(unfold zlen; lia) ltac:(left; reflexivity)
                            ltac:(unfold zlen; lia)) as Hd.
  cbn zeta in Hd. rewrite Z.add_0_r in Hd. destruct Hd as (D1 & D2 & D3).
  change ffd_pos0 with 0. change ffd_block0 with 0.
  unfold ff_parts. cbn [q_a1 ffs_pkt ffe_pkt].
  split; [split; [reflexivity|exact F1]|].
  split; [apply sels_of_fills; exact Hw|].
  split; [exact Hrd|].
  split; [split; [reflexivity|exact E1]|].
  split; [rewrite F3; lia|].
  split; [rewrite F2; exact D1|].
  split; [exact D2|].
  split; [rewrite E2, F2; reflexivity|].
  apply sels_sorted; assumption.
Qed.

Lemma fill_pkts_bcast : forall pid aid flags buffer base data fills rd,
  bcast rd -> Forall bcast (fill_pkts pid aid flags buffer base data fills rd).
Proof.
  intros pid aid flags buffer base data fills rd Hrd. unfold fill_pkts.
  apply Forall_app. split; [constructor; [split; reflexivity|constructor]|].
  apply Forall_app. split; [apply Forall_forall; intros q Hq; apply in_map_iff in Hq; destruct Hq as [rc [<- _]]; split; reflexivity|].
  apply Forall_app. split; [constructor; [exact Hrd|constructor]|].
  apply Forall_app. split; [|constructor; [split; reflexivity|constructor]].
  generalize (S (length data)) as fuel. generalize ffd_pos0 as pos. generalize ffd_block0 as block.
  generalize base as address. intros address block pos fuel. revert address block pos.
  induction fuel as [|k IH]; intros address block pos; cbn [ffd_list];
    destruct (ffd_continue pos (zlen data)); try constructor; [split; reflexivity|apply IH].
Qed.

(* ---------------------------------------------------------------- what fill_one does *)
(* the core a fill leaves behind *)
Definition loaded_core (flags aid : Z) (data : list Z) : core_st :=
  mkCore (if Z.odd flags then STATE_WAIT else STATE_RUN) aid data.

Theorem fill_one_effect : forall c w aid flags data ts c' w',
  ctrl_wf c (w_m w) -> machine_wf (w_m w) -> binary_ok (m_buffer (w_m w)) data ->
  0 <= aid < 256 -> 0 <= flags < 64 ->
  fill_one c w aid flags data ts = Ok (c', w') ->
  m_sched (w_m w') = tl (m_sched (w_m w)) /\ same_static (w_m w) (w_m w')
  /\ map fst (m_chips (w_m w')) = map fst (m_chips (w_m w))
  /\ (forall x y p,
        core_at (w_m w') (x, y, p) =
        option_map (fun old => if negb (chip_mem (x, y) (hd [] (m_sched (w_m w))))
                                  && requested (cores_of_targets ts) x y p
                               then loaded_core flags aid data else old)
                   (core_at (w_m w) (x, y, p)))
  /\ c_nn c' = next_nn_id (c_nn c) /\ c_buffer c' = Some (m_buffer (w_m w)).
Proof.
  intros c w aid flags data ts c' w' Hc Hm Hbin Haid Hflags H.
  destruct Hm as (Hnd & Hcores & Hlay & Hvcpu & Hbase & Hbuf & Hbm).
  apply fill_one_inv in H; [|exact Hc|lia|exact Hbase].
  destruct H as (fills & rd & Hcomp & Hisrd & Hbc & Hext & Hnn & Hcb & Hhd).
  pose proof (pid_range (c_nn c) (proj1 Hc)) as Hpid.
  set (pid := nn_id_wire (next_nn_id (c_nn c))) in *.
  pose proof (fill_pkts_parts pid aid flags (m_buffer (w_m w)) (m_base (w_m w)) data fills rd
                              (cores_of_targets ts) Hpid Hbuf Hbm Hbin Hcomp Hisrd) as Hparts.
  destruct Hparts as (P1 & P2 & P3 & P4 & P5 & P6 & P7 & P8 & P9).
  assert (Hm' : w_m w' = fst (replay (w_m w) (fill_pkts pid aid flags (m_buffer (w_m w)) (m_base (w_m w)) data fills rd))).
  { destruct Hext as [_ Hr]. rewrite Hr, replay_app. f_equal. f_equal. unfold pre_of.
    destruct (c_buffer c); [reflexivity|apply replay_sver]. }
  pose proof (replay_fill (w_m w) data _ _ _ _ _ _ eq_refl
                (fill_pkts_bcast pid aid flags (m_buffer (w_m w)) (m_base (w_m w)) data fills rd Hbc)
                P1 P2 P3 P4 P5 P6 P7 P8 Hhd) as R.
  cbn zeta in R. fold (fill_pkts pid aid flags (m_buffer (w_m w)) (m_base (w_m w)) data fills rd) in R.
  rewrite <- Hm' in R. destruct R as (R1 & R2 & R3 & R4 & R5 & R6).
  split; [exact R1|]. split; [repeat split; assumption|]. split; [exact R5|].
  split; [|split; assumption].
  intros x y p. rewrite (R6 x y p).
  rewrite (sels_select_requested _ _ x y p Hcomp).
  destruct (ffe_arg2_fields aid flags Haid Hflags) as [G1 G2].
  unfold fill_core, loaded_core, ffe_pkt. cbn [q_a2]. rewrite G1, G2. reflexivity.
Qed.

Theorem fill_one_wellformed : forall c w aid flags data ts c' w',
  ctrl_wf c (w_m w) -> machine_wf (w_m w) -> binary_ok (m_buffer (w_m w)) data ->
  fill_one c w aid flags data ts = Ok (c', w') ->
  exists ffs sels rd ds ffe,
    sent w' = sent w ++ pre_of c ++ ([ffs] ++ sels ++ [rd] ++ ds ++ [ffe])
    /\ ff_parts (m_buffer (w_m w)) (m_base (w_m w)) data ffs sels rd ds ffe
    /\ (forall x y p, sels_select sels (x, y, p) = requested (cores_of_targets ts) x y p)
    /\ field (q_a1 ffs) 16 8 = nn_id_wire (next_nn_id (c_nn c)).
Proof.
  intros c w aid flags data ts c' w' Hc Hm Hbin H.
  destruct Hm as (Hnd & Hcores & Hlay & Hvcpu & Hbase & Hbuf & Hbm).
  apply fill_one_inv in H; [|exact Hc|lia|exact Hbase].
  destruct H as (fills & rd & Hcomp & Hisrd & Hbc & Hext & Hnn & Hcb & Hhd).
  pose proof (pid_range (c_nn c) (proj1 Hc)) as Hpid.
  set (pid := nn_id_wire (next_nn_id (c_nn c))) in *.
  pose proof (fill_pkts_parts pid aid flags (m_buffer (w_m w)) (m_base (w_m w)) data fills rd
                              (cores_of_targets ts) Hpid Hbuf Hbm Hbin Hcomp Hisrd) as Hparts.
  eexists _, _, _, _, _. split; [destruct Hext as [Hs _]; rewrite Hs; unfold fill_pkts; reflexivity|].
  split; [exact Hparts|]. split.
  - intros x y p. apply sels_select_requested. exact Hcomp.
  - cbn [q_a1 ffs_pkt]. destruct Hbin as [_ Hn].
    assert (Hn0 : 0 <= ff_n_blocks (zlen data) (m_buffer (w_m w))) by (apply n_blocks_nonneg; unfold zlen; lia).
    apply (ffs_fields pid (ff_n_blocks (zlen data) (m_buffer (w_m w))) Hpid ltac:(lia)).
Qed.
