(* C20 -- Boot sends the complete image carrying this call's options only.

   "Booting sends a start datagram announcing the number of blocks, then that many consecutively numbered
    blocks of at most one kilobyte each, then an end datagram; undoing the documented word-wise byte swap and
    concatenating the blocks gives the boot image byte for byte, except that the 128-byte configuration area
    holds the packed system-variable defaults with the options of this call applied.  Options given to one
    boot never appear in a later boot that did not ask for them, and the struct definitions returned describe
    the same values."   Quantifier: all option sets, all images below the size limit, all sequences of boots
    from one process.

   Model/Boot.v: boot_step (the code of rig/machine_control/boot.py as it is now), boot_orig_step (the code as
   found, before the fix that copies sv_overrides), boot_fixed_step (with the copy), over the constants, formats, fixed fields, presets, default
   dictionary and parsed `sv` struct regenerated from /repo into Generated/GenBoot.v.
   [boot_after earlier c] is the outcome of the call c made after the calls [earlier] in the same process
   (library state = the dictionary object that is the default of sv_overrides); [boot_alone c] the outcome in
   a fresh process.  Spec/Boot.v states the wire format, the receiver's reassembly, this call's option values
   and the domain with numbers written out.  This file holds only statements; proofs are in Proofs/Boot*.v.

   Read with care (said openly):
   * [boot_step] is boot_fixed_step or boot_orig_step according to an ast fact regenerated from boot.py on every
     run (does boot() copy sv_overrides before updating it?); the history theorems below hold because the CURRENT
     source copies (C20_history_clause_tied_to_source) -- with the copy removed they no longer build.
   * The model's process state is the default dictionary of sv_overrides (and, in BootCtrl, the controllers).
     The struct file and the image are INPUTS of every call: a cache of parsed structs or of file contents shared
     between calls cannot be expressed; that boot() reads both files afresh and that a controller's default
     structs are a fresh parse is a fail-closed source-shape obligation (GenBootCtrl) plus the harness
     (files rewritten in place, several controllers), not a theorem.
   * "the options of this call": the three fields boot() always writes (unix_time, boot_sig := the clock,
     root_chip := 1) win over an option of the same name (option_value; C20_fixed_fields_win).
   * Domain (call_in_domain): word-sized images of 512..32767 bytes.  Shorter images are accepted by the code
     but are not "the image except the configuration area": 385..511 bytes lose their tail (whatever the
     alignment), below 384 bytes the area is appended (C20_short_images_outside_domain shows both).
     C20_boot_reassembles still states exactly what is sent for them (expected_image clamps like the code).
   * C20_boot_bytes says nothing about a field straddling byte 128 of sv (none in the bundled struct).
   * assert statements are modelled as errors: running Python with -O is outside the model.

   Hypotheses that are representation invariants, not restrictions: bytes_ok (a bytes object holds 0..255),
   dict_ok / opt_dict_ok (a dict has distinct keys). *)
From Coq Require Import ZArith List Bool String.
Require Import Rig.Generated.GenBoot Rig.Generated.GenBootImage Rig.Model.Base Rig.Model.Boot Rig.Spec.Boot.
Require Import Rig.Generated.GenBootCtrl Rig.Model.BootCtrl Rig.Spec.BootCtrl.
Require Import Rig.Generated.GenSharedState.
Require Import Rig.Proofs.BootBytes Rig.Proofs.BootStruct Rig.Proofs.Boot Rig.Proofs.BootCtrl Rig.Proofs.BootAudit.
Import ListNotations.
Open Scope Z_scope.

(* Clause 1.  Whenever a boot returns, in any history, for every word-sized image and every option set, the
   datagrams are: start announcing n-1, blocks 0..n-1 (1 <= n <= 32, each 4..1024 bytes, word-sized) carrying
   their number in arg1, end -- all to the board named in this call. *)
Theorem C20_boot_sequence :
  forall earlier c fs,
    bytes_ok (c_image c) -> len (c_image c) mod 4 = 0 ->
    o_result (boot_after earlier c) = Ok fs ->
    exists payloads,
      boot_sequence (o_datagrams (boot_after earlier c)) payloads /\
      o_dest (boot_after earlier c) = Some (c_host c, port_of c).
Proof. exact boot_after_sequence. Qed.

(* Clause 2.  Dropping start/end, stripping the headers, undoing the swap and concatenating gives the image
   with bytes 384..511 replaced by the first 128 bytes of the sv struct packed with THIS call's values
   (described_fields c depends on c alone: file defaults, c's sv_overrides, c's keywords, the clock). *)
Theorem C20_boot_reassembles :
  forall earlier c fs,
    bytes_ok (c_image c) -> len (c_image c) mod 4 = 0 ->
    opt_dict_ok (c_overrides c) -> dict_ok (c_kwargs c) ->
    o_result (boot_after earlier c) = Ok fs ->
    exists packed,
      pack_struct (mksdef (s_size (c_sv c)) (described_fields c)) = Ok packed /\ 128 <= len packed /\
      reassemble (o_datagrams (boot_after earlier c)) = expected_image (c_image c) packed.
Proof. exact boot_after_reassembles. Qed.

(* Clauses 2 and 3 byte by byte, for images that contain the configuration area and struct definitions whose
   fields are disjoint integer fields (sv_wf; the bundled one is, see C20_live_sv_well_formed): same length;
   every byte outside 384..511 is the image's; every field lying in the first 128 bytes of the struct appears
   little-endian at 384+offset with the value option_value c (this call's option, else the file default);
   bytes of the area that no field covers are zero. *)
Theorem C20_boot_bytes :
  forall earlier c fs,
    bytes_ok (c_image c) -> len (c_image c) mod 4 = 0 -> 512 <= len (c_image c) ->
    opt_dict_ok (c_overrides c) -> dict_ok (c_kwargs c) -> sv_wf (c_sv c) = true ->
    o_result (boot_after earlier c) = Ok fs ->
    let r := reassemble (o_datagrams (boot_after earlier c)) in
    len r = len (c_image c) /\
    (forall i, (i < 384 \/ 512 <= i)%nat -> nth i r 0 = nth i (c_image c) 0) /\
    (forall f, In f (s_fields (c_sv c)) ->
       exists sg w, pack_kind (f_pack f) = Some (sg, w) /\
         (f_offset f + Z.of_nat w <= 128 ->
          forall j, (j < w)%nat ->
            nth (384 + Z.to_nat (f_offset f) + j) r 0
            = nth j (le_bytes w (option_value c (f_name f) (f_default f))) 0)) /\
    (forall i, (i < 128)%nat -> (forall f, In f (s_fields (c_sv c)) -> ~ covers f i) -> nth (384 + i) r 0 = 0).
Proof. exact boot_after_bytes. Qed.

(* what "little-endian" means above: le_bytes is evaluated with bit operations, it is the byte-by-byte
   base-256 expansion *)
Theorem C20_le_bytes_meaning :
  forall n v, le_bytes (S n) v = v mod 256 :: le_bytes n (v / 256).
Proof. exact le_bytes_S. Qed.

(* Clause 4.  The struct definitions returned are the file's with exactly this call's values as defaults (the
   values that were packed and sent, by C20_boot_reassembles), and the caller's dictionary is as it was. *)
Theorem C20_boot_structs_describe :
  forall earlier c fs,
    opt_dict_ok (c_overrides c) -> dict_ok (c_kwargs c) ->
    o_result (boot_after earlier c) = Ok fs ->
    fs = described_fields c /\ o_caller_dict (boot_after earlier c) = c_overrides c.
Proof. exact boot_after_describes. Qed.

(* Clause 3.  For every sequence of earlier boots (successful or not, any boards, any options) the whole
   outcome of a boot -- destination, datagrams, result, caller's dictionary -- is that of the same call in a
   fresh process: nothing of an earlier call can appear in it. *)
Theorem C20_boot_history_independent :
  forall earlier c, boot_after earlier c = boot_alone c.
Proof. exact boot_history_independent. Qed.

(* The tie of this clause to the source as it is now: C17's inventory of mutable carriers (regenerated from
   /repo) lists the default of boot()'s sv_overrides with 0 write sites and 0 escapes; the ast fact of GenBoot says
   boot() updates a copy; hence the model of the current code is boot_fixed_step and starts from the empty
   dictionary.  Reverting the fix changes the first two facts and this theorem (and every theorem of this file,
   through boot_step_is_fixed) stops building. *)
Theorem C20_history_clause_tied_to_source :
  In ("rig/machine_control/boot.py", "default", "boot.sv_overrides", 0, 0)%string carriers /\
  boot_copies_overrides = true /\ boot_step = boot_fixed_step /\ initial_shared = [].
Proof. exact shared_default_untouched_in_source. Qed.

Theorem C20_model_follows_source :
  forall st c, boot_step st c = if boot_copies_overrides then boot_fixed_step st c else boot_orig_step st c.
Proof. exact step_follows_source. Qed.

(* ... because no boot changes the shared default dictionary or the dictionary it was given. *)
Theorem C20_boot_dictionaries_untouched :
  forall cs c,
    fst (run boot_step initial_shared cs) = initial_shared /\
    o_caller_dict (boot_after cs c) = c_overrides c.
Proof. exact boot_dictionaries_untouched. Qed.

(* History of the defect: for the code as found (boot_orig_step) clause 3 is false.  Witness: boot of board 1
   with the SpiNN-3 preset, then boot of board 2 with no options: byte 384+10 (hw_ver) received by board 2
   is 3; in a fresh process, and with the repaired code after the same first boot, it is 0. *)
Theorem C20_boot_history_leak_refuted :
  exists earlier c, boot_orig_after earlier c <> boot_orig_alone c.
Proof. exact orig_history_leak. Qed.

Theorem C20_boot_history_leak_witness :
  c_overrides leak_second = None /\ c_kwargs leak_second = [] /\
  nth (384 + 10) (reassemble (o_datagrams (boot_orig_after [leak_first] leak_second))) 0 = 3 /\
  nth (384 + 10) (reassemble (o_datagrams (boot_orig_alone leak_second))) 0 = 0 /\
  nth (384 + 10) (reassemble (o_datagrams (boot_after [leak_first] leak_second))) 0 = 0.
Proof. exact orig_leak_witness. Qed.

(* ... and the code as found modified the dictionary the caller passed. *)
Theorem C20_boot_orig_mutates_callers_dict_refuted :
  exists c d, c_overrides c = Some d /\
              o_caller_dict (boot_orig_alone c) = Some (dict_update d (c_kwargs c)) /\
              dict_update d (c_kwargs c) <> d.
Proof. exact orig_mutates_callers_dict. Qed.

(* The domain.  A word-sized image of 512..32767 bytes, options that name system variables, values that fit
   their fields, a struct of at least 128 bytes with the three fixed fields: the boot returns (so the
   theorems above are not vacuous), in any history. *)
Theorem C20_boot_succeeds_in_domain :
  forall earlier c, call_in_domain c -> exists fs, o_result (boot_after earlier c) = Ok fs.
Proof. exact boot_after_total. Qed.

(* Outside it the model states the error branch: an unknown option name raises before a socket exists and
   nothing is sent; an image of 32 KiB or more, or not word-sized, never returns normally; and the loop
   bound of the model (OutOfFuel) is never the outcome, i.e. the block loop terminates. *)
Theorem C20_boot_unknown_option_raises :
  forall earlier c,
    (exists kv, In kv (call_options c) /\ has_field (fst kv) (s_fields (c_sv c)) = false) ->
    o_result (boot_after earlier c) = OtherError /\ o_datagrams (boot_after earlier c) = [] /\
    o_dest (boot_after earlier c) = None.
Proof. exact boot_after_unknown_option. Qed.

Theorem C20_boot_too_large_raises :
  forall earlier c fs,
    512 <= len (c_image c) -> 32768 <= len (c_image c) -> o_result (boot_after earlier c) <> Ok fs.
Proof. exact boot_after_too_large. Qed.

Theorem C20_boot_unaligned_raises :
  forall earlier c fs,
    512 <= len (c_image c) -> len (c_image c) mod 4 <> 0 -> o_result (boot_after earlier c) <> Ok fs.
Proof. exact boot_after_unaligned. Qed.

Theorem C20_boot_terminates :
  forall earlier c, o_result (boot_after earlier c) <> OutOfFuel.
Proof. exact boot_after_terminates. Qed.

(* An option that names a system variable but whose value its field cannot hold (hw_ver=261, led0=-1, ...):
   struct.error before a socket exists -- never a normal return, nothing is sent, in any history. *)
Theorem C20_boot_unrepresentable_raises :
  forall earlier c,
    opt_dict_ok (c_overrides c) -> dict_ok (c_kwargs c) ->
    names_known (match c_overrides c with Some d => d | None => [] end) (s_fields (c_sv c)) ->
    names_known (c_kwargs c) (s_fields (c_sv c)) ->
    has_field "unix_time" (s_fields (c_sv c)) = true -> has_field "boot_sig" (s_fields (c_sv c)) = true ->
    has_field "root_chip" (s_fields (c_sv c)) = true ->
    (exists f, In f (described_fields c) /\ pack_value (f_pack f) (f_default f) = None) ->
    o_result (boot_after earlier c) = OtherError /\ o_datagrams (boot_after earlier c) = [] /\
    o_dest (boot_after earlier c) = None.
Proof. exact boot_after_unrepresentable. Qed.

(* ---- The other entry points (Model/BootCtrl.v; their shape is re-extracted from the source on every run into
   Generated/GenBootCtrl.v, fail closed).  Operations of a process: create a controller, boot() directly, boot
   through controller k with the deprecated width / height and any keywords.  [state_after ops] is the process
   after the operations ops of the repaired code. *)

(* Booting through a controller, after any operations: the outcome is that of
   boot(controller's host, boot_port = the keyword or else the controller's, same image / struct file /
   sv_overrides / keywords) in a fresh process; width and height play no part.  All theorems above therefore
   apply to it with c := ctrl_call ct c. *)
Theorem C20_controller_boot_is_boot :
  forall before k w h c ct,
    nth_error (p_ctrls (state_after before)) k = Some ct ->
    snd (op_step boot_step (state_after before) (OpCtrlBoot k w h c)) = Some (boot_alone (ctrl_call ct c)).
Proof. exact ctrl_boot_is_boot. Qed.

(* The controllers after any sequence of operations are exactly spec_ctrls (Spec/BootCtrl.v): only a boot through
   controller k that returns changes controller k, to the struct file of that call with that call's values;
   the shared default dictionary is never changed. *)
Theorem C20_controllers_refine :
  forall ops, Forall op_ok ops ->
    p_shared (state_after ops) = initial_shared /\ p_ctrls (state_after ops) = spec_ctrls ops [].
Proof. exact controllers_refine. Qed.

(* Hence: each controller's structs describe its OWN last boot, whatever was booted afterwards through other
   controllers or directly, and whichever controllers were created. *)
Theorem C20_controller_describes_own_last_boot :
  forall before k w h c after ct fs,
    Forall op_ok (before ++ OpCtrlBoot k w h c :: after) ->
    nth_error (p_ctrls (state_after before)) k = Some ct ->
    o_result (boot_alone (ctrl_call ct c)) = Ok fs ->
    Forall (fun o => ~ boots_through k o) after ->
    nth_error (p_ctrls (state_after (before ++ OpCtrlBoot k w h c :: after))) k
    = Some (mkctrl (k_host ct) (k_boot_port ct) (mksdef (s_size (c_sv c)) (described_fields (ctrl_call ct c)))).
Proof. exact ctrl_describes_own_last_boot. Qed.

(* rig-boot: the flag table the tool builds (dumped from a live run of its main()) is the documented one and
   coincides with the presets of boot.py; and `rig-boot HOST [--flag]` sends what boot(HOST, **options) sends. *)
Theorem C20_rig_boot_table :
  rig_boot_no_flag = [] /\
  rig_boot_flags = [("--spin1", [("hw_ver", 1); ("led0", 483588)]); ("--spin2", [("hw_ver", 2); ("led0", 24835)]);
                    ("--spin3", [("hw_ver", 3); ("led0", 1282)]); ("--spin4", [("hw_ver", 4); ("led0", 1)]);
                    ("--spin5", [("hw_ver", 5); ("led0", 1)])]%string /\
  map snd rig_boot_flags = [spin1_boot_options; spin2_boot_options; spin3_boot_options; spin4_boot_options;
                            spin5_boot_options].
Proof. exact rig_boot_table. Qed.

Theorem C20_rig_boot_is_boot :
  forall host flag opts clock,
    rig_boot_options flag = Some opts ->
    snd (run_ops boot_step initial_pstate (cli_ops host flag clock 0)) =
    [None; Some (boot_alone (mkcall host (Some ctrl_default_boot_port) scamp_boot live_sv None opts clock))].
Proof. exact cli_boot_is_boot. Qed.

Example C20_unrepresentable_satisfiable :
  exists f, In f (described_fields misfit_call) /\ pack_value (f_pack f) (f_default f) = None.
Proof. exact misfit_example. Qed.

(* SpiNN-3 through the first controller (with width = height = 8), then no options through the second: the first
   controller's structs still say hw_ver = 3, the second's 0 *)
Example C20_two_controllers :
  map (fun ct => nth 6 (map f_default (s_fields (k_sv ct))) (-1)) (p_ctrls (state_after two_ctrl_ops)) = [3; 0].
Proof. exact two_ctrl_example. Qed.

(* Precedence of the fixed fields: boot(h, unix_time=5, sv_overrides={"root_chip": 0}) at time 1000 sends
   unix_time = 1000 and root_chip = 1, and returns structs saying so. *)
Example C20_fixed_fields_win :
  firstn 4 (skipn (384 + 28) (reassemble (o_datagrams (boot_alone clock_option_call)))) = [232; 3; 0; 0] /\
  nth (384 + 64) (reassemble (o_datagrams (boot_alone clock_option_call))) 9 = 1 /\
  option_value clock_option_call "unix_time" 0 = 1000 /\ option_value clock_option_call "root_chip" 0 = 1 /\
  (exists fs, o_result (boot_alone clock_option_call) = Ok fs /\
              map f_default (filter (fun f => String.eqb (f_name f) "unix_time" || String.eqb (f_name f) "root_chip") fs)
              = [1000; 1]).
Proof. exact fixed_fields_win. Qed.

(* Outside the domain: a 402-byte image (not even word-sized) boots, 512 bytes are sent and its bytes 384..401 are
   lost; a 100-byte image boots, 228 bytes are sent and the configuration area follows the image. *)
Example C20_short_images_outside_domain :
  (exists fs, o_result (boot_alone (short_call 402)) = Ok fs) /\
  len (reassemble (o_datagrams (boot_alone (short_call 402)))) = 512 /\
  firstn 384 (reassemble (o_datagrams (boot_alone (short_call 402)))) = repeat 7 384%nat /\
  nth 390 (reassemble (o_datagrams (boot_alone (short_call 402)))) 0 <> 7 /\
  (exists fs, o_result (boot_alone (short_call 100)) = Ok fs) /\
  len (reassemble (o_datagrams (boot_alone (short_call 100)))) = 228 /\
  firstn 100 (reassemble (o_datagrams (boot_alone (short_call 100)))) = repeat 7 100%nat /\
  nth (100 + 12) (reassemble (o_datagrams (boot_alone (short_call 100)))) 0 = 4.
Proof. exact short_images. Qed.

(* Non-vacuity and the live data. *)
Example C20_domain_satisfiable : call_in_domain example_call.
Proof. exact example_call_in_domain. Qed.

Example C20_live_sv_well_formed : sv_wf live_sv = true.
Proof. exact live_sv_wf. Qed.

(* the bundled scamp.boot (27168 bytes) with the SpiNN-5 preset: 27 blocks + start + end, and the receiver
   reads hw_ver = 5 *)
Example C20_bundled_image_boots :
  len scamp_boot = 27168 /\
  len (o_datagrams (boot_alone bundled_call)) = 29 /\
  (exists fs, o_result (boot_alone bundled_call) = Ok fs) /\
  nth (384 + 10) (reassemble (o_datagrams (boot_alone bundled_call))) 0 = 5.
Proof. exact bundled_boot. Qed.

Example C20_presets_name_their_board :
  map (lookup "hw_ver") [spin1_boot_options; spin2_boot_options; spin3_boot_options; spin4_boot_options;
                         spin5_boot_options] = [Some 1; Some 2; Some 3; Some 4; Some 5].
Proof. exact presets_name_their_board. Qed.
