(* C01 -- Multicast packets reach exactly the cores of their net's sinks.
   Property theorems only; each is closed by `exact` of a lemma of Proofs/Network.v / Proofs/NetworkTree.v.

   What is proved for ALL machines, tables, keys and trees:
     (V)  the checker that the harness evaluates on the tables really produced by rig's pipeline is sound for
          the inductive packet semantics [delivers] (Spec/Network.v): `true` is a proof of the property's
          sentence for that net ([C01_check_delivery_sound]);
     (U)  composition: tables that agree, node by node, with a routing tree deliver the packet to exactly
          the tree's leaves, over live links only, without dropping it and without circulation
          ([C01_delivery_of_tree], [C01_tree_delivered_exactly]); one-step facts of default routing
          ([C01_default_route_straight], [C01_default_route_next], [C01_injected_unmatched_dropped]);
          the semantics is deterministic ([C01_delivers_deterministic]);
     (T)  rig's numbering of links and routes is the one the hardware model interprets
          ([C01_rig_numbering_is_hardware], recomputed from the live enumerations on every run).
   NOT proved here (see DESIGN 4/C01): that rig's router, table generator and minimisers always produce a
   tree and tables satisfying [tree_ok] (that is C03, C10, C04); for real executions this gap is closed per
   instance by (V). *)
From Coq Require Import ZArith List Bool Permutation.
Require Import Rig.Generated.GenNetwork Rig.Model.Base Rig.Model.Table Rig.Model.Network Rig.Spec.Network
        Rig.Proofs.Network Rig.Proofs.NetworkTree.
Import ListNotations.
Open Scope Z_scope.

(* (V) soundness of the evaluator.  [run] returns None when its fuel runs out, so exhaustion can never
   make the checker answer true. *)
Theorem C01_check_delivery_sound :
  forall m tables key src cores links,
    check_delivery m tables key src cores links = true ->
    DeliveredExactly m tables key src cores links.
Proof. exact check_delivery_sound. Qed.

(* (U) composition, for a (sub)tree entered through any port; the whole net is [arrival = None]. *)
Theorem C01_delivery_of_tree :
  forall m tables key endpoints t arrival,
    tree_ok m tables key endpoints arrival t ->
    exists ds es,
      delivers m tables key endpoints (root t) arrival ds es
      /\ Permutation ds (tree_cores t) /\ Permutation es (tree_exits t).
Proof. exact delivery_of_tree. Qed.

Theorem C01_tree_delivered_exactly :
  forall m tables key links t,
    tree_ok m tables key links None t ->
    NoDup (tree_cores t) -> Permutation (tree_exits t) links -> NoDup links ->
    DeliveredExactly m tables key (root t) (tree_cores t) links.
Proof. exact tree_delivered_exactly. Qed.

(* the executable form of tree_ok *)
Theorem C01_tree_okb_sound :
  forall m tables key endpoints t arrival,
    tree_okb m tables key endpoints arrival t = true -> tree_ok m tables key endpoints arrival t.
Proof. exact tree_okb_sound. Qed.

(* the meaning of the route word used by [tree_ok] and [delivers], bit by bit *)
Theorem C01_route_word_meaning :
  forall r,
    (forall l, In l (route_links r) <-> (0 <= l < 6 /\ Z.testbit r l = true))
    /\ (forall k, In k (route_cores r) <-> (0 <= k < 18 /\ Z.testbit r (k + 6) = true))
    /\ NoDup (route_links r) /\ NoDup (route_cores r).
Proof. exact route_word_meaning. Qed.

(* (U) default routing: a packet that came in through port l of a chip none of whose entries matches
   leaves by link (l + 3) mod 6 and does nothing else ... *)
Theorem C01_default_route_straight :
  forall m tables key endpoints c l ds es,
    0 <= l < 6 ->
    lookup (table_at tables c) key = None ->
    (delivers m tables key endpoints c (Some l) ds es
     <-> send1 m tables key endpoints c ((l + 3) mod 6) ds es).
Proof. exact default_route_straight. Qed.

(* ... i.e. (unless that link is an endpoint) the link and the next chip must be live and the packet goes
   on at the next chip as one that came in through port l again: straight through *)
Theorem C01_default_route_next :
  forall m tables key endpoints c l ds es,
    0 <= l < 6 ->
    lookup (table_at tables c) key = None ->
    ~ In (c, opposite l) endpoints ->
    (delivers m tables key endpoints c (Some l) ds es <->
     ~ In (c, opposite l) (n_dead_links m) /\ ~ In (neighbour m c (opposite l)) (n_dead_chips m)
     /\ delivers m tables key endpoints (neighbour m c (opposite l)) (Some l) ds es).
Proof. exact default_route_next. Qed.

(* ... whereas a packet injected at a chip none of whose entries matches is dropped *)
Theorem C01_injected_unmatched_dropped :
  forall m tables key endpoints c ds es,
    lookup (table_at tables c) key = None ->
    ~ delivers m tables key endpoints c None ds es.
Proof. exact injected_unmatched_dropped. Qed.

(* (U) what a packet does is determined by the tables *)
Theorem C01_delivers_deterministic :
  forall m tables key endpoints c a ds es,
    delivers m tables key endpoints c a ds es ->
    forall ds' es', delivers m tables key endpoints c a ds' es' -> ds = ds' /\ es = es'.
Proof. exact delivers_deterministic. Qed.

(* (T) Links.to_vector, Links.opposite, Routes <-> Links, Routes.core / core_num, Routes.opposite of the
   current /repo agree with link_vec, opposite and the bit numbering of the hardware model *)
Theorem C01_rig_numbering_is_hardware :
  net_link_vectors = map (fun l => (l, link_vec l)) link_ids
  /\ net_link_opposite = map (fun l => (l, opposite l)) link_ids
  /\ net_route_links = map (fun l => (l, l)) link_ids
  /\ net_route_of_link = map (fun l => (l, l)) link_ids
  /\ net_route_cores = map (fun b => (b, b - 6)) core_bits
  /\ net_route_of_core = map (fun b => (b - 6, b)) core_bits
  /\ net_route_opposite = map (fun l => (l, opposite l)) link_ids.
Proof. exact rig_numbering_is_hardware. Qed.

(* Non-vacuity: a 3x3 machine with a dead link, a dead chip and a device link; a three-node tree whose
   middle hop is default routed (no entry for the key at (1,0)); the checker accepts and tree_ok holds. *)
Example C01_example_delivered :
  check_delivery ex_machine ex_tables 5 (0, 0) ex_cores ex_links = true
  /\ tree_ok ex_machine ex_tables 5 ex_links None ex_tree
  /\ lookup (table_at ex_tables (1, 0)) 5 = None
  /\ Permutation (tree_cores ex_tree) ex_cores /\ tree_exits ex_tree = ex_links.
Proof. exact ex_instance. Qed.

(* ... and the evaluator refuses a circulating packet, a dead link, a dead chip and a dropped packet *)
Example C01_example_rejected :
  check_delivery ex_machine ex_tables_loop 5 (0, 0) ex_cores ex_links = false
  /\ run 1000 ex_machine ex_tables_loop 5 ex_links [((0, 0), None)] = None
  /\ run 1000 ex_machine ex_tables_dead_link 5 ex_links [((0, 0), None)] = None
  /\ run 1000 ex_machine ex_tables_dead_chip 5 ex_links [((0, 0), None)] = None
  /\ run 1000 ex_machine ex_tables 6 ex_links [((0, 0), None)] = None.
Proof. exact ex_rejected. Qed.
