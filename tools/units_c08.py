UNITS = {
    # which scan bound / range test rig/bitfield.py has now (ast, fail closed); imported by Model/BitField.v
    "GenBitField": dict(props=["C08"], dumper="dump_c08.py"),
    # shape of every modelled method of rig/bitfield.py (digest of the ast), inventory of what public methods
    # return (fresh / copy, never an internal object) and the aliasing-relevant statements, matched structurally;
    # any other shape is Unsupported.  Not imported by the proofs: a change breaks this obligation while the model
    # still builds and is run against the changed code.
    "GenBitFieldShape": dict(props=["C08"], dumper="dump_c08.py", args=["shape"]),
}
