(* Bit-level lemmas for the bit-field development: masks of contiguous ranges, disjointness as
   [Z.land = 0], reading a field back from a key, the first-fit scan. *)
From Coq Require Import ZArith List Bool Lia.
Require Import Rig.Generated.GenBitField Rig.Model.Base Rig.Model.BitField Rig.Spec.BitField.
Import ListNotations.
Open Scope Z_scope.

Lemma shiftl1_ones l : 0 <= l -> Z.shiftl 1 l - 1 = Z.ones l.
Proof. intros Hl. rewrite Z.shiftl_1_l, Z.ones_equiv. lia. Qed.

Lemma fmask_range l s : 0 <= l -> fmask l s = range_mask s l.
Proof. intros Hl. unfold fmask, range_mask. now rewrite shiftl1_ones. Qed.

Lemma testbit_range_mask s l k :
  0 <= s -> 0 <= l -> Z.testbit (range_mask s l) k = (s <=? k) && (k <? s + l).
Proof.
  intros Hs Hl. unfold range_mask.
  destruct (Z.ltb_spec k 0) as [Hk|Hk].
  - rewrite Z.testbit_neg_r by lia. symmetry. apply andb_false_iff. left. apply Z.leb_gt. lia.
  - rewrite Z.shiftl_spec by lia. rewrite Z.testbit_ones by lia.
    destruct (Z.leb_spec s k), (Z.leb_spec 0 (k - s)), (Z.ltb_spec (k - s) l), (Z.ltb_spec k (s + l));
      simpl; try reflexivity; lia.
Qed.

Lemma range_mask_bit s l k : 0 <= s -> 0 <= l ->
  (Z.testbit (range_mask s l) k = true <-> s <= k < s + l).
Proof.
  intros Hs Hl. rewrite testbit_range_mask by lia. rewrite andb_true_iff, Z.leb_le, Z.ltb_lt. tauto.
Qed.

Lemma land_range_zero a s l : 0 <= s -> 0 <= l ->
  (Z.land a (range_mask s l) = 0 <-> forall k, s <= k < s + l -> Z.testbit a k = false).
Proof.
  intros Hs Hl. split.
  - intros H k Hk.
    assert (E : Z.testbit (Z.land a (range_mask s l)) k = false) by (rewrite H; apply Z.testbit_0_l).
    rewrite Z.land_spec in E. rewrite (proj2 (range_mask_bit s l k Hs Hl) Hk) in E.
    now rewrite andb_true_r in E.
  - intros H. apply Z.bits_inj'. intros k Hk. rewrite Z.land_spec, Z.testbit_0_l.
    destruct (Z.testbit (range_mask s l) k) eqn:E.
    + apply range_mask_bit in E; try lia. rewrite (H k E). reflexivity.
    + apply andb_false_r.
Qed.

(* the scanned mask of the code: ((1 << len) - 1) << bit *)
Lemma scan_mask len bit : 0 <= len -> Z.shiftl (Z.shiftl 1 len - 1) bit = range_mask bit len.
Proof. intros. unfold range_mask. now rewrite shiftl1_ones. Qed.

Lemma first_fit_spec n : forall b0 a fm b,
  first_fit n b0 a fm = Some b ->
  b0 <= b < b0 + Z.of_nat n /\ Z.land a (Z.shiftl fm b) = 0.
Proof.
  induction n as [|n IH]; intros b0 a fm b H; simpl in H; [discriminate|].
  destruct (Z.land a (Z.shiftl fm b0) =? 0) eqn:E.
  - inversion H; subst. apply Z.eqb_eq in E. split; [lia|exact E].
  - apply IH in H. destruct H as [H1 H2]. split; [lia|exact H2].
Qed.

(* the scan finds the lowest free position: nothing below it is free *)
Lemma first_fit_lowest n : forall b0 a fm b,
  first_fit n b0 a fm = Some b ->
  forall b', b0 <= b' < b -> Z.land a (Z.shiftl fm b') <> 0.
Proof.
  induction n as [|n IH]; intros b0 a fm b H b' Hb'; simpl in H; [discriminate|].
  destruct (Z.land a (Z.shiftl fm b0) =? 0) eqn:E.
  - inversion H; subst. lia.
  - destruct (Z.eq_dec b' b0) as [->|Hne].
    + now apply Z.eqb_neq.
    + eapply IH; [exact H|lia].
Qed.

Lemma first_fit_none n : forall b0 a fm,
  first_fit n b0 a fm = None ->
  forall b', b0 <= b' < b0 + Z.of_nat n -> Z.land a (Z.shiftl fm b') <> 0.
Proof.
  induction n as [|n IH]; intros b0 a fm H b' Hb'; simpl in H; [lia|].
  destruct (Z.land a (Z.shiftl fm b0) =? 0) eqn:E; [discriminate|].
  destruct (Z.eq_dec b' b0) as [->|Hne].
  - now apply Z.eqb_neq.
  - eapply IH; [exact H|lia].
Qed.

(* ------------------------------------------------------------------ reading back *)
Lemma testbit_read_field key st l j : 0 <= st -> 0 <= l -> 0 <= j ->
  Z.testbit (read_field key st l) j = Z.testbit key (j + st) && (j <? l).
Proof.
  intros Hst Hl Hj. unfold read_field. rewrite Z.land_spec, Z.shiftr_spec by lia.
  rewrite Z.testbit_ones by lia.
  destruct (Z.leb_spec 0 j); [|lia]. reflexivity.
Qed.

Lemma read_field_ext k1 k2 st l : 0 <= st -> 0 <= l ->
  (forall k, st <= k < st + l -> Z.testbit k1 k = Z.testbit k2 k) ->
  read_field k1 st l = read_field k2 st l.
Proof.
  intros Hst Hl H. apply Z.bits_inj'. intros j Hj.
  rewrite !testbit_read_field by lia.
  destruct (Z.ltb_spec j l); [|now rewrite !andb_false_r].
  rewrite H by lia. reflexivity.
Qed.

Lemma read_field_shiftl x st l : 0 <= st -> 0 <= x < 2 ^ l -> read_field (Z.shiftl x st) st l = x.
Proof.
  intros Hst Hx. unfold read_field.
  assert (0 <= l). { destruct (Z.leb_spec 0 l); [lia|]. rewrite Z.pow_neg_r in Hx by lia. lia. }
  rewrite Z.shiftr_shiftl_l by lia. replace (st - st) with 0 by lia. rewrite Z.shiftl_0_r.
  rewrite Z.land_ones by lia. apply Z.mod_small. exact Hx.
Qed.

Lemma testbit_shiftl_outside x st l k : 0 <= st -> 0 <= x < 2 ^ l ->
  (k < st \/ st + l <= k) -> Z.testbit (Z.shiftl x st) k = false.
Proof.
  intros Hst Hx Hk.
  assert (0 <= l). { destruct (Z.leb_spec 0 l); [lia|]. rewrite Z.pow_neg_r in Hx by lia. lia. }
  destruct (Z.ltb_spec k st).
  - now apply Z.shiftl_spec_low.
  - rewrite Z.shiftl_spec by lia. rewrite <- (Z.mod_small x (2 ^ l)) by lia.
    apply Z.mod_pow2_bits_high. lia.
Qed.

Lemma testbit_range_outside st l k : 0 <= st -> 0 <= l ->
  (k < st \/ st + l <= k) -> Z.testbit (range_mask st l) k = false.
Proof.
  intros Hst Hl Hk. rewrite testbit_range_mask by lia.
  destruct (Z.leb_spec st k), (Z.ltb_spec k (st + l)); simpl; try reflexivity; lia.
Qed.

(* a key that matches (value, mask) agrees with value wherever the mask is set *)
Lemma land_mask_bit k m v j : Z.land k m = v -> Z.testbit m j = true -> Z.testbit v j = Z.testbit k j.
Proof. intros <- Hm. rewrite Z.land_spec, Hm. apply andb_true_r. Qed.

Lemma pow2_shiftl l : pow2 l = 2 ^ l.
Proof. apply Z.shiftl_1_l. Qed.

Lemma bitlen_pos v : 0 < bitlen v.
Proof. unfold bitlen. pose proof (Z.log2_nonneg v). lia. Qed.

Lemma bitlen_fits v : 0 < v -> v < 2 ^ bitlen v.
Proof. intros Hv. unfold bitlen. replace (Z.log2 v + 1) with (Z.succ (Z.log2 v)) by lia. apply Z.log2_spec. exact Hv. Qed.

(* the source computes the automatic length with int.bit_length (not with the floating-point logarithm
   it used before fix b55359e): this is what [bitlen] models; [bitlen_spec] is the defining property of
   int.bit_length, 2^(k-1) <= v < 2^k *)
Lemma auto_length_is_bit_length : gen_auto_length_exact = true.
Proof. reflexivity. Qed.

Lemma bitlen_spec v : 0 < v -> 2 ^ (bitlen v - 1) <= v < 2 ^ bitlen v.
Proof.
  intros Hv. unfold bitlen. replace (Z.log2 v + 1 - 1) with (Z.log2 v) by lia.
  replace (Z.log2 v + 1) with (Z.succ (Z.log2 v)) by lia. now apply Z.log2_spec.
Qed.
