UNITS = {
    # Integer kernels of rig/machine_control/regions.py, translated from the source text by
    # tools/dump_c12.py (which drives the expression translator of tools/py2v.py; nothing is imported).
    "GenRegions": dict(
        props=["C12"],
        dumper="dump_c12.py", args=[]),
    # How the pairs reach the wire: shape of MachineController.flood_fill_aplx / _send_ffcs / the re-load loop of
    # load_application and the enum values used, from the source text (tools/dump_c12f.py, fail closed).
    "GenRegionsFill": dict(
        props=["C12"],
        dumper="dump_c12f.py", args=[]),
}
