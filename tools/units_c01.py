"""Translation units of C01 (network of routing tables).

GenNetwork -- dumped from the live rig.links.Links and rig.routing_table.Routes enumerations: the vector and
              the opposite of every link, which Routes are links / cores and their numbers.  Proofs/Network.v
              proves that this numbering is the one the hardware model of Model/Network.v gives meaning to.
"""
UNITS = {
    "GenNetwork": dict(props=["C01"], dumper="dump_c01.py"),
    # the statements of wrapper() / place_and_route_wrapper() from `placements = place(...)` to the return:
    # the composition the end-to-end theorems of Props/C01.v are about (fail closed on any other shape)
    "GenPipeline": dict(props=["C01"], dumper="dump_c01w.py"),
}
