(* placeholder, filled in stage B *)
From Coq Require Import ZArith List Bool.
Require Import Rig.Generated.GenLoad Rig.Model.Base Rig.Model.Load.
Import ListNotations.
Open Scope Z_scope.

(* n-fold application of the id update of _get_next_nn_id *)
Fixpoint nn_iter (n : nat) (v : Z) : Z := match n with O => v | S k => next_nn_id (nn_iter k v) end.
