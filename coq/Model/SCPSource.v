(* The text of the code that Model/SCP.v mirrors, statement by statement (docstrings and comments dropped):
   SCPConnection.send_scp_burst, SCPConnection.send_scp, SCPConnection.__init__ and seqs of rig/machine_control/scp_connection.py as they
   were when the model was last read against them.  Generated/GenSCPShape.v is re-extracted from /repo on every
   run; Props/C06.v (C06_source_shape) states that the two agree, so any edit of these functions breaks that
   obligation until the model has been re-read (and this file updated).  Definitions only. *)
From Coq Require Import ZArith List String.
Import ListNotations.
Open Scope Z_scope.
(* rig/machine_control/scp_connection.py : SCPConnection.send_scp_burst, line 139 *)
Definition mirrored_send_scp_burst : list (nat * string) :=
  [(0%nat, "def send_scp_burst(self, buffer_size, window_size, parameters_and_callbacks):"%string);
   (1%nat, "parameters_and_callbacks = iter(parameters_and_callbacks)"%string);
   (1%nat, "self.sock.setblocking(False)"%string);
   (1%nat, "max_length = buffer_size + consts.SDP_HEADER_LENGTH + 2 + 16"%string);
   (1%nat, "receive_length = int(2 ** math.ceil(math.log(max_length, 2)))"%string);
   (1%nat, "class TransmittedPacket(object):"%string);
   (2%nat, "__slots__ = ['callback', 'packet', 'bytestring', 'n_tries', 'timeout', 'timeout_time']"%string);
   (2%nat, "def __init__(self, callback, packet, timeout):"%string);
   (3%nat, "self.callback = callback"%string);
   (3%nat, "self.packet = packet"%string);
   (3%nat, "self.bytestring = packet.bytestring"%string);
   (3%nat, "self.n_tries = 1"%string);
   (3%nat, "self.timeout = timeout"%string);
   (3%nat, "self.timeout_time = time.time() + self.timeout"%string);
   (1%nat, "queued_packets = True"%string);
   (1%nat, "outstanding_packets = {}"%string);
   (1%nat, "outstanding_callbacks = collections.deque()"%string);
   (1%nat, "while queued_packets or outstanding_packets or outstanding_callbacks:"%string);
   (2%nat, "while len(outstanding_packets) < window_size and queued_packets:"%string);
   (3%nat, "try:"%string);
   (4%nat, "args = next(parameters_and_callbacks)"%string);
   (3%nat, "except StopIteration:"%string);
   (4%nat, "queued_packets = False"%string);
   (3%nat, "if queued_packets:"%string);
   (4%nat, "seq = next(self.seq)"%string);
   (4%nat, "while seq in outstanding_packets:"%string);
   (5%nat, "seq = next(self.seq)"%string);
   (4%nat, "packet = SCPPacket(reply_expected=True, tag=255, dest_port=0, dest_cpu=args.p, src_port=7, src_cpu=31, dest_x=args.x, dest_y=args.y, src_x=0, src_y=0, cmd_rc=args.cmd, seq=seq, arg1=args.arg1, arg2=args.arg2, arg3=args.arg3, data=args.data)"%string);
   (4%nat, "outstanding_packets[seq] = TransmittedPacket(args.callback, packet, self.default_timeout + args.timeout)"%string);
   (4%nat, "self.sock.send(outstanding_packets[seq].bytestring)"%string);
   (2%nat, "while outstanding_callbacks:"%string);
   (3%nat, "callback, packet = outstanding_callbacks.pop()"%string);
   (3%nat, "callback(packet)"%string);
   (2%nat, "if outstanding_packets:"%string);
   (3%nat, "timeout = min((o.timeout_time for o in six.itervalues(outstanding_packets))) - time.time()"%string);
   (2%nat, "else:"%string);
   (3%nat, "timeout = 0.0"%string);
   (2%nat, "r, w, x = select.select([self.sock], [], [], max(timeout, 0.0))"%string);
   (2%nat, "while r:"%string);
   (3%nat, "try:"%string);
   (4%nat, "ack = self.sock.recv(receive_length)"%string);
   (3%nat, "except IOError:"%string);
   (4%nat, "break"%string);
   (3%nat, "rc, seq = struct.unpack_from('<2H', ack, consts.SDP_HEADER_LENGTH + 2)"%string);
   (3%nat, "if rc != consts.SCPReturnCodes.ok:"%string);
   (4%nat, "if rc in consts.RETRYABLE_SCP_RETURN_CODES:"%string);
   (5%nat, "pass"%string);
   (4%nat, "else:"%string);
   (5%nat, "packet = outstanding_packets.get(seq)"%string);
   (5%nat, "if packet is not None:"%string);
   (6%nat, "packet = packet.packet"%string);
   (5%nat, "raise FatalReturnCodeError(rc, packet)"%string);
   (3%nat, "else:"%string);
   (4%nat, "outstanding = outstanding_packets.pop(seq, None)"%string);
   (4%nat, "if outstanding is not None:"%string);
   (5%nat, "outstanding_callbacks.appendleft((outstanding.callback, ack))"%string);
   (2%nat, "current_time = time.time()"%string);
   (2%nat, "for outstanding in six.itervalues(outstanding_packets):"%string);
   (3%nat, "if outstanding.timeout_time < current_time:"%string);
   (4%nat, "if outstanding.n_tries >= self.n_tries:"%string);
   (5%nat, "raise TimeoutError('No response after {} attempts.'.format(self.n_tries), outstanding.packet)"%string);
   (4%nat, "self.sock.send(outstanding.bytestring)"%string);
   (4%nat, "outstanding.n_tries += 1"%string);
   (4%nat, "outstanding.timeout_time = current_time + outstanding.timeout"%string)].
(* rig/machine_control/scp_connection.py : SCPConnection.send_scp, line 83 *)
Definition mirrored_send_scp : list (nat * string) :=
  [(0%nat, "def send_scp(self, buffer_size, x, y, p, cmd, arg1=0, arg2=0, arg3=0, data=b'', expected_args=3, timeout=0.0):"%string);
   (1%nat, "class Callback(object):"%string);
   (2%nat, "def __init__(self):"%string);
   (3%nat, "self.packet = None"%string);
   (2%nat, "def __call__(self, packet):"%string);
   (3%nat, "self.packet = SCPPacket.from_bytestring(packet, n_args=expected_args)"%string);
   (1%nat, "callback = Callback()"%string);
   (1%nat, "packets = [scpcall(x, y, p, cmd, arg1, arg2, arg3, data, callback, timeout)]"%string);
   (1%nat, "self.send_scp_burst(buffer_size, 1, packets)"%string);
   (1%nat, "assert callback.packet is not None"%string);
   (1%nat, "return callback.packet"%string)].
(* rig/machine_control/scp_connection.py : SCPConnection.__init__, line 54 *)
Definition mirrored_init : list (nat * string) :=
  [(0%nat, "def __init__(self, spinnaker_host, port=consts.SCP_PORT, n_tries=5, timeout=0.5):"%string);
   (1%nat, "self.default_timeout = timeout"%string);
   (1%nat, "self.sock = socket.socket(socket.AF_INET, socket.SOCK_DGRAM)"%string);
   (1%nat, "self.sock.connect((spinnaker_host, port))"%string);
   (1%nat, "self.n_tries = n_tries"%string);
   (1%nat, "self.seq = seqs()"%string)].
(* rig/machine_control/scp_connection.py : seqs, line 429 *)
Definition mirrored_seqs : list (nat * string) :=
  [(0%nat, "def seqs(mask=65535):"%string);
   (1%nat, "i = 0"%string);
   (1%nat, "while True:"%string);
   (2%nat, "yield i"%string);
   (2%nat, "i = i + 1 & mask"%string)].

