"""C03 -- NER router: theorems (Props/C03.v) + correspondence of the Gallina model with rig's
ner.route / ner_net (scripted random stream, exact tree equality) + the verified validators check_tree /
check_connected evaluated inside Coq on every real output + an independent Python oracle."""
import itertools
import json
import os

import lib
from lib import zlit, vlist

LEVEL = "proof"
UNITS = ["GenGeometryLinks", "GenGeometry", "GenRouteShape"]
TWO53 = 2 ** 53

# the oracle's own link table (SpiNNaker numbering), not read from rig
VEC = {0: (1, 0), 1: (1, 1), 2: (0, 1), 3: (-1, 0), 4: (-1, -1), 5: (0, -1)}
OPP = {0: 3, 1: 4, 2: 5, 3: 0, 4: 1, 5: 2}


# ------------------------------------------------------------------ generator
def wrap_links(w, h):
    """the directed links that leave the w x h rectangle (the wrap-around links)"""
    out = []
    for x in range(w):
        for y in range(h):
            for l, (dx, dy) in VEC.items():
                if not (0 <= x + dx < w and 0 <= y + dy < h):
                    out.append((x, y, l))
    return out


DIMS = ([(1, 1), (1, 2), (2, 1), (1, 5), (6, 1), (2, 2), (2, 3), (3, 2), (2, 6), (7, 2)] +
        [(3, 3)] * 3 + [(3, 4), (4, 3), (4, 4), (4, 4), (5, 5), (5, 5), (5, 3), (3, 6), (6, 6), (6, 6),
                        (7, 7), (7, 7), (7, 5), (4, 7)])


DENSE_DIMS = [(4, 4), (5, 5), (6, 6), (4, 8), (8, 4), (7, 7), (8, 8), (6, 9), (8, 12), (12, 8), (5, 3), (3, 7)]


def narrow_dims(rng):
    n = rng.randint(3, 12)
    return rng.choice([(1, n), (2, n), (n, 1), (n, 2)])


def gen_machine(rng, dims=None, dense=False, narrow=False):
    w, h = dims or (narrow_dims(rng) if narrow else rng.choice(DENSE_DIMS if dense else DIMS))
    chips = [(x, y) for x in range(w) for y in range(h)]
    topo = rng.choice(["torus", "torus", "mesh", "mesh", "partial"])
    dead_links = set()
    if topo == "mesh":
        dead_links |= set(wrap_links(w, h))
    elif topo == "partial":
        wl = wrap_links(w, h)
        p = rng.choice([0.05, 0.12, 0.5])
        dead_links |= set(l for l in wl if rng.random() < p)
    fault = "narrow" if narrow else "dense" if dense else rng.choice(
        ["none", "links", "links", "oneway", "chips", "cluster", "heavy", "mixed"])
    dead_chips = set()

    def kill_link(x, y, l, both):
        dead_links.add((x, y, l))
        if both:
            dx, dy = VEC[l]
            dead_links.add(((x + dx) % w, (y + dy) % h, OPP[l]))
    if fault in ("links", "mixed", "heavy"):
        n = rng.randint(1, 3) if fault != "heavy" else rng.randint(3, max(3, w * h))
        for _ in range(n):
            x, y = rng.choice(chips)
            kill_link(x, y, rng.randrange(6), rng.random() < 0.7)
    if fault in ("oneway", "mixed"):
        for _ in range(rng.randint(1, 4)):
            x, y = rng.choice(chips)
            kill_link(x, y, rng.randrange(6), False)
    if fault in ("chips", "mixed", "heavy") and len(chips) > 1:
        for _ in range(rng.randint(1, max(1, min(4, len(chips) // 4)))):
            dead_chips.add(rng.choice(chips))
    if fault == "narrow":
        # 1xN / 2xN machines: dead chips in the middle (the tree has to pass them over a twin link or go round),
        # one-directional dead links
        inner = [c for c in chips if 0 < (c[1] if w <= 2 else c[0]) < (h if w <= 2 else w) - 1] or chips
        for _ in range(rng.randint(0, 3)):
            dead_chips.add(rng.choice(inner))
        p = rng.uniform(0.05, 0.25)
        for (x, y) in chips:
            for l in range(6):
                if rng.random() < p:
                    kill_link(x, y, l, rng.random() < 0.25)
    if fault == "dense":
        # 10-20 % of the directed links dead (half of them in both directions), 0-5 dead chips
        p = rng.uniform(0.10, 0.20)
        both = rng.random() < 0.5
        for (x, y) in chips:
            for l in range(6):
                if rng.random() < (p / 1.5 if both else p):
                    kill_link(x, y, l, both and rng.random() < 0.5)
        for _ in range(rng.randint(0, 5)):
            if len(chips) > 6:
                dead_chips.add(rng.choice(chips))
    if fault == "cluster":
        cx, cy = rng.choice(chips)
        if rng.random() < 0.5 and len(chips) > 2:
            dead_chips.add((cx, cy))
            for l in range(6):
                if rng.random() < 0.4:
                    dx, dy = VEC[l]
                    n = ((cx + dx) % w, (cy + dy) % h)
                    if rng.random() < 0.3:
                        dead_chips.add(n)
                    else:
                        kill_link(n[0], n[1], rng.randrange(6), rng.random() < 0.5)
        else:
            for l in range(6):
                if rng.random() < 0.7:
                    kill_link(cx, cy, l, rng.random() < 0.6)
            for l in range(6):
                if rng.random() < 0.3:
                    dx, dy = VEC[l]
                    kill_link((cx + dx) % w, (cy + dy) % h, rng.randrange(6), rng.random() < 0.6)
    if len(dead_chips) >= len(chips):
        dead_chips = set(list(dead_chips)[1:])
    return dict(w=w, h=h, dead_chips=sorted(map(list, dead_chips)),
                dead_links=sorted([x, y, l] for x, y, l in dead_links)), topo, fault


def gen_stream(rng, n):
    style = rng.choice(["random", "random", "zeros", "max", "few", "edge"])
    if style == "zeros":
        return [0] * 4, style
    if style == "max":
        return [TWO53 - 1] * n, style
    if style == "few":
        vals = [0, TWO53 // 2, TWO53 // 4]
        return [rng.choice(vals) for _ in range(n)], style
    if style == "edge":
        vals = [0, 1, TWO53 - 1, TWO53 - 2, TWO53 // 2, rng.randrange(TWO53)]
        return [rng.choice(vals) for _ in range(n)], style
    return [rng.randrange(TWO53) for _ in range(n)], style


def gen_case(rng, dims=None, malformed=False, dense=False, narrow=False):
    machine, topo, fault = gen_machine(rng, dims, dense, narrow)
    w, h = machine["w"], machine["h"]
    dead = set(map(tuple, machine["dead_chips"]))
    live = [(x, y) for x in range(w) for y in range(h) if (x, y) not in dead]
    nnets = 1 if rng.random() < 0.85 else rng.randint(2, 3)
    placements, allocs, cons, nets = {}, {}, [], []
    nextv = [0]

    def new_vertex(chip):
        v = nextv[0]
        nextv[0] += 1
        placements[v] = list(chip)
        k = rng.random()
        if k < 0.55:
            a = rng.randint(0, 17)
            allocs[v] = [a, rng.randint(a, min(18, a + 3))]
        elif k < 0.7:
            allocs[v] = [rng.randint(0, 17)] * 2 if rng.random() < 0.3 else [1, 2]
        elif k < 0.85:
            cons.append([v, rng.randrange(24)])
            if rng.random() < 0.2:
                cons.append([v, rng.randrange(24)])
            if rng.random() < 0.5:
                allocs[v] = [2, 4]
        return v
    for _ in range(nnets):
        src_chip = rng.choice(live)
        src = new_vertex(src_chip)
        fan = (rng.randint(3, 12) if narrow else rng.randint(1, 12) if dense else
               rng.choice([0, 1, 1, 2, 2, 3, 4, 6, 10, 25, len(live), 2 * len(live)]))
        sinks = []
        for _ in range(fan):
            k = rng.random()
            if k < 0.1:
                chip = src_chip
            elif k < 0.2 and sinks:
                chip = tuple(placements[rng.choice(sinks)])
            else:
                chip = rng.choice(live)
            sinks.append(new_vertex(chip))
        if sinks and rng.random() < 0.25:
            sinks += [rng.choice(sinks) for _ in range(rng.randint(1, 3))]      # duplicated sinks
        if rng.random() < 0.1:
            sinks.append(src)                                                   # the source is a sink too
        rng.shuffle(sinks)
        nets.append(dict(source=src, sinks=sinks))
    kind = "valid"
    if malformed and dead and nets[0]["sinks"]:
        kind = "sink-on-dead-chip"
        placements[nets[0]["sinks"][0]] = list(rng.choice(sorted(dead)))
    radius = rng.choice([0, 1, 2, 3, 20, 20])
    ndest = sum(len(n["sinks"]) for n in nets)
    stream, sstyle = gen_stream(rng, 8 * ndest + 8)
    # the resource under which the cores are allocated: the default sentinel Cores, or a name of the caller's own
    # (then sometimes with a decoy allocation under Cores that must be ignored)
    core_res = rng.choice([None, None, "my_cores", "cpu", 7])
    return dict(machine=machine, nets=nets, placements=sorted(placements.items()),
                allocs=sorted(allocs.items()), cons=cons, radius=radius, stream=stream,
                kind=kind, topo=topo, fault=fault, sstyle=sstyle,
                core_res=core_res, decoy=(core_res is not None and rng.random() < 0.5))


def mesh_machine(w, h, extra=()):
    dl = set(wrap_links(w, h))
    for x, y, l, both in extra:
        dl.add((x, y, l))
        if both:
            dx, dy = VEC[l]
            dl.add(((x + dx) % w, (y + dy) % h, OPP[l]))
    return dict(w=w, h=h, dead_chips=[], dead_links=sorted([x, y, l] for x, y, l in dl))


def long_cases(rng):
    """very elongated machines: a root-to-leaf route of 1000-2500 hops (the recursion limit of the interpreter is
    1000 frames); judged by the oracle only"""
    def case(machine, src, dst, topo, radius=20):
        return dict(machine=machine, nets=[dict(source=0, sinks=[1])], placements=[[0, list(src)], [1, list(dst)]],
                    allocs=[[1, [1, 3]]], cons=[], radius=radius, stream=[rng.randrange(TWO53) for _ in range(16)],
                    kind="valid", topo=topo, fault="long-route", sstyle="random", core_res=None, decoy=False, long=True)
    torus = dict(w=3, h=2400, dead_chips=[], dead_links=[])
    return [case(mesh_machine(3, 2500), (1, 0), (1, 2499), "mesh"),
            case(mesh_machine(2500, 3), (0, 1), (2499, 1), "mesh", radius=0),
            case(torus, (0, 0), (1, 1200), "torus"),
            # a dead link (both directions) on the straight route of a 2-wide mesh: copy, A*, splice
            case(mesh_machine(2, 1500, [(0, 750, 2, True)]), (0, 0), (0, 1499), "mesh"),
            case(mesh_machine(2, 1500, [(0, 1490, 2, True)]), (0, 0), (0, 1499), "mesh"),
            # ... near the source: the disconnected subtree is more than 1000 nodes deep
            case(mesh_machine(2, 1500, [(0, 1, 2, True)]), (0, 0), (0, 1499), "mesh")]


def gen_history(rng):
    """one Machine object used for several route() calls with in-place edits of its fault sets in between"""
    w, h = rng.choice([(3, 3), (4, 3), (4, 4), (5, 4), (5, 5), (2, 6), (6, 3)])
    chips = [(x, y) for x in range(w) for y in range(h)]
    topo = rng.choice(["torus", "mesh"])
    dl = set(wrap_links(w, h)) if topo == "mesh" else set()
    placements = {0: rng.choice(chips)}
    sinks = []
    for v in range(1, rng.randint(3, 9)):
        placements[v] = rng.choice(chips)
        sinks.append(v)
    used = set(placements.values())
    free = [ch for ch in chips if ch not in used]
    steps = [["route"]]
    cur_dl, cur_dc = set(dl), set()
    for _ in range(rng.randint(2, 4)):
        for _ in range(rng.randint(1, 3)):
            k = rng.random()
            if k < 0.35:
                x, y = rng.choice(chips)
                e = (x, y, rng.randrange(6))
                steps.append(["dl_add", list(e)])
                cur_dl.add(e)
            elif k < 0.6:
                es = set()
                for _ in range(rng.randint(2, 8)):
                    x, y = rng.choice(chips)
                    es.add((x, y, rng.randrange(6)))
                steps.append(["dl_update", sorted(map(list, es))])
                cur_dl |= es
            elif k < 0.7 and cur_dl:
                e = rng.choice(sorted(cur_dl))
                steps.append(["dl_discard", list(e)])
                cur_dl.discard(e)
            elif k < 0.75:
                steps.append(["dl_clear"])
                cur_dl = set()
            elif k < 0.92 and free:
                ch = rng.choice(free)
                steps.append(["dc_add", list(ch)])
                cur_dc.add(ch)
            elif cur_dc:
                ch = rng.choice(sorted(cur_dc))
                steps.append(["dc_discard", list(ch)])
                cur_dc.discard(ch)
        steps.append(["route"])
    allocs = [[v, [1, 2]] for v in sinks if rng.random() < 0.7]
    return dict(kind="history", machine=dict(w=w, h=h, dead_chips=[], dead_links=sorted(map(list, dl))),
                nets=[dict(source=0, sinks=sinks)], placements=sorted((v, list(xy)) for v, xy in placements.items()),
                allocs=allocs, cons=[], radius=rng.choice([0, 2, 20]),
                stream=[rng.randrange(TWO53) for _ in range(8 * len(sinks) + 8)], steps=steps, topo=topo,
                sstyle="random", core_res=None, decoy=False)


def history_states(c):
    """the machine's fault sets at every route() of a history, tracked here (not read from the Machine object)"""
    m = c["machine"]
    dl = set(map(tuple, m["dead_links"]))
    dc = set(map(tuple, m["dead_chips"]))
    out = []
    for op in c["steps"]:
        if op[0] == "route":
            out.append(dict(w=m["w"], h=m["h"], dead_chips=sorted(map(list, dc)), dead_links=sorted(map(list, dl))))
        elif op[0] == "dl_add":
            dl.add(tuple(op[1]))
        elif op[0] == "dl_discard":
            dl.discard(tuple(op[1]))
        elif op[0] == "dl_update":
            dl |= set(map(tuple, op[1]))
        elif op[0] == "dl_clear":
            dl = set()
        elif op[0] == "dc_add":
            dc.add(tuple(op[1]))
        elif op[0] == "dc_discard":
            dc.discard(tuple(op[1]))
    return out


def gen_shared_case(rng):
    """several nets in one route() call that share vertices and chips: a few chips with several vertices each,
    every net draws its source and sinks from that pool; some nets are repeated as they are, some as a twin
    (other vertices on the same chips: identical endpoint chips); a few dead links so that only some of the
    equally short routes cross a fault"""
    w, h = rng.choice([(3, 3), (4, 4), (4, 4), (5, 5), (5, 5), (4, 3), (6, 6), (2, 5), (1, 6)])
    chips = [(x, y) for x in range(w) for y in range(h)]
    topo = rng.choice(["torus", "torus", "mesh"])
    dl = set(wrap_links(w, h)) if topo == "mesh" else set()
    for _ in range(rng.randint(0, 4)):
        x, y = rng.choice(chips)
        l = rng.randrange(6)
        dl.add((x, y, l))
        if rng.random() < 0.6:
            dx, dy = VEC[l]
            dl.add(((x + dx) % w, (y + dy) % h, OPP[l]))
    dead_chips = set()
    if len(chips) > 6 and rng.random() < 0.25:
        dead_chips.add(rng.choice(chips))
    live = [ch for ch in chips if ch not in dead_chips]
    pool_chips = rng.sample(live, min(len(live), rng.randint(2, 5)))
    placements, on_chip = {}, {}
    for ch in pool_chips:
        for _ in range(rng.randint(2, 4)):
            v = len(placements)
            placements[v] = list(ch)
            on_chip.setdefault(ch, []).append(v)
    verts = sorted(placements)
    nets = []
    for _ in range(rng.randint(2, 4)):
        src = rng.choice(verts)
        sinks = [rng.choice(verts) for _ in range(rng.randint(1, 6))]
        nets.append(dict(source=src, sinks=sinks))
        k = rng.random()
        if k < 0.35:
            nets.append(dict(source=src, sinks=list(sinks)))
        elif k < 0.7:
            twin = lambda v: rng.choice(on_chip[tuple(placements[v])])
            nets.append(dict(source=twin(src), sinks=[twin(v) for v in sinks]))
    allocs = {}
    for v in verts:
        if rng.random() < 0.75:
            a = rng.randint(0, 15)
            allocs[v] = [a, a + rng.randint(1, 3)]
    ndest = sum(len(n["sinks"]) for n in nets)
    return dict(machine=dict(w=w, h=h, dead_chips=sorted(map(list, dead_chips)),
                             dead_links=sorted([x, y, l] for x, y, l in dl)),
                nets=nets, placements=sorted(placements.items()), allocs=sorted(allocs.items()), cons=[],
                radius=rng.choice([0, 1, 20, 20]), stream=[rng.randrange(TWO53) for _ in range(8 * ndest + 8)],
                kind="valid", topo=topo, fault="shared-nets", sstyle="random", core_res=None, decoy=False)


def gen_ner_case(rng):
    """ner_net alone on a fault-free machine: the setting of theorem C03_ner_net_tree"""
    w, h = rng.choice(DIMS + [(8, 8), (9, 7), (1, 7), (2, 7), (7, 1)])
    wrap = rng.random() < 0.6
    chips = [(x, y) for x in range(w) for y in range(h)]
    src = rng.choice(chips)
    fan = rng.choice([0, 1, 2, 3, 5, 10, 30, len(chips), len(chips) + 5])
    dests = [list(rng.choice(chips)) for _ in range(fan)]
    radius = rng.choice([0, 1, 2, 3, 20])
    stream, sstyle = gen_stream(rng, 8 * fan + 8)
    return dict(kind="ner", source=list(src), dests=dests, w=w, h=h, wrap=wrap, radius=radius,
                stream=stream, sstyle=sstyle)


# ------------------------------------------------------------------ independent oracle
def live_set(m):
    dead = set(map(tuple, m["dead_chips"]))
    return set((x, y) for x in range(m["w"]) for y in range(m["h"]) if (x, y) not in dead)


def connected(m):
    """all working chips mutually reachable over working links (a link works if the chip it leaves works
    and it is not listed dead; a path only visits working chips)"""
    live = live_set(m)
    if not live:
        return True
    dl = set(map(tuple, m["dead_links"]))
    w, h = m["w"], m["h"]
    fwd = dict((c, []) for c in live)
    bwd = dict((c, []) for c in live)
    for (x, y) in live:
        for l, (dx, dy) in VEC.items():
            n = ((x + dx) % w, (y + dy) % h)
            if (x, y, l) not in dl and n in live:
                fwd[(x, y)].append(n)
                bwd[n].append((x, y))
    start = min(live)
    for adj in (fwd, bwd):
        seen = {start}
        todo = [start]
        while todo:
            c = todo.pop()
            for n in adj[c]:
                if n not in seen:
                    seen.add(n)
                    todo.append(n)
        if seen != live:
            return False
    return True


def expected_leaves(c, net):
    pl = dict((v, tuple(xy)) for v, xy in c["placements"])
    al = dict((v, ab) for v, ab in c["allocs"])
    ep = {}
    for v, r in c["cons"]:
        ep[v] = r
    exp = set()
    for v in net["sinks"]:
        if v in ep:
            exp.add((pl[v], ep[v], v))
        elif v in al:
            for core in range(al[v][0], al[v][1]):
                exp.add((pl[v], 6 + core, v))
        else:
            exp.add((pl[v], None, v))
    return exp


def tree_parts(tree):
    """-> (root chip, [(parent chip, route, child chip)] in some order, [(chip, route, vertex)], [chips]) for both
    serialisations of the driver (nested, or flat for very deep trees); None if it could not be serialised"""
    if tree[0] == "flat":
        nodes, lvs = tree[1], tree[2]
        chips = [(n[0], n[1]) for n in nodes]
        hops = [(chips[n[2]], n[3], (n[0], n[1])) for n in nodes if n[2] >= 0]
        return chips[0], hops, [(chips[i], r, v) for i, r, v in lvs], chips
    if tree[0] != "n":
        return None
    chips, hops, leaves = [], [], []
    todo = [tree]
    while todo:
        t = todo.pop()
        p = (t[1], t[2])
        chips.append(p)
        for r, k in t[3]:
            if k[0] == "l":
                leaves.append((p, r, k[1]))
            elif k[0] == "n":
                hops.append((p, r, (k[1], k[2])))
                todo.append(k)
            else:
                return None
    return (tree[1], tree[2]), hops, leaves, chips


def oracle_tree(c, net, tree):
    """-> None or (key, description): the property's sentence about one returned tree"""
    m = c["machine"]
    w, h = m["w"], m["h"]
    live = live_set(m)
    dl = set(map(tuple, m["dead_links"]))
    pl = dict((v, tuple(xy)) for v, xy in c["placements"])
    parts = tree_parts(tree)
    if parts is None:
        return ("tree:unserialisable", "the tree has more than 40000 nodes or contains a cycle")
    root, hops, leaves, chips = parts
    if root != pl[net["source"]]:
        return ("tree:root", "root %r is not the source's chip %r" % (root, pl[net["source"]]))
    seen = set()
    for p in chips:
        if p in seen:
            return ("tree:chip-twice", "chip %r appears twice in the tree" % (p,))
        seen.add(p)
    for p, r, ch in hops:
        if r is None or not (0 <= r <= 5):
            return ("tree:hop-label", "hop %r -> %r is labelled %r, not a link" % (p, ch, r))
        if p not in live:
            return ("tree:dead-chip", "hop %r -%d-> %r leaves a chip that is not working" % (p, r, ch))
        if (p[0], p[1], r) in dl:
            return ("tree:dead-link", "hop %r -%d-> %r uses a dead link" % (p, r, ch))
        dx, dy = VEC[r]
        if ch != ((p[0] + dx) % w, (p[1] + dy) % h):
            return ("tree:not-adjacent", "hop %r -%d-> %r: the chip in that direction is %r"
                    % (p, r, ch, ((p[0] + dx) % w, (p[1] + dy) % h)))
    exp = expected_leaves(c, net)
    leaves = set(leaves)
    if leaves != exp:
        return ("tree:leaves", "leaves differ from the sinks' requirements: missing %r, extra %r"
                % (sorted(exp - leaves, key=repr)[:4], sorted(leaves - exp, key=repr)[:4]))
    return None


def oracle(c, out):
    if out == ["hang"]:
        return ("route:hang", "route() did not return within the per-case time limit")
    if c["kind"] != "valid":
        return None
    if out["error"]:
        if out["error"][0] == "disconnected":
            if connected(c["machine"]):
                return ("route:disconnected-error-on-connected-machine",
                        "MachineHasDisconnectedSubregion although all working chips reach each other")
            return None
        if out["error"][1] == "RecursionError" and out["nets"] and out["nets"][-1].get("broken") is not None:
            # raised after copy_and_disconnect_tree, i.e. inside the repair: `for c in lookup[child]` walks the
            # disconnected subtree with the recursive RoutingTree.__iter__
            return ("repair-recursion-deep-orphan",
                    "route() raised RecursionError during the dead-link repair on a connected machine of %d x %d chips "
                    "(the disconnected subtree is about 1000 or more nodes deep)" % (c["machine"]["w"], c["machine"]["h"]))
        if out["error"][1] == "RecursionError":
            return ("route:recursion-error", "route() raised RecursionError (%s) on a machine of %d x %d chips"
                    % (out["error"][2][:60], c["machine"]["w"], c["machine"]["h"]))
        return ("route:other-exception", "route() raised %s: %s" % (out["error"][1], out["error"][2]))
    for net, e in zip(c["nets"], out["nets"]):
        bad = oracle_tree(c, net, e["final"])
        if bad:
            if bad[0] == "tree:chip-twice" and e.get("broken") is not None and not twice(e["ner"]):
                # the tree was fine before avoid_dead_links: the duplicate was made by the repair
                return ("repair-duplicate-child", bad[1] + " after the dead-link repair (broken links %r)"
                        % (e["broken"],))
            return bad
    return None


def twice(tree):
    """does a chip occur twice among the nodes of the tree?"""
    parts = tree_parts(tree)
    return parts is None or len(set(parts[3])) != len(parts[3])


def oracle_ner(c, out):
    """ner_net alone on the fault-free machine: rooted at the source, no chip twice, every edge follows
    its label, every destination is a node"""
    if out == ["hang"]:
        return ("ner:hang", "ner_net did not return")
    if out["error"]:
        return ("ner:exception", "ner_net raised %s: %s" % (out["error"][1], out["error"][2]))
    t = out["ner"]
    if t[0] != "n" or [t[1], t[2]] != c["source"]:
        return ("ner:root", "bad root")
    seen = set()
    todo = [t]
    while todo:
        t = todo.pop()
        p = (t[1], t[2])
        if p in seen:
            return ("ner:chip-twice", "chip %r twice" % (p,))
        seen.add(p)
        for r, k in t[3]:
            if k[0] != "n" or r is None or not (0 <= r <= 5):
                return ("ner:child", "bad child of %r" % (p,))
            dx, dy = VEC[r]
            if (k[1], k[2]) != ((p[0] + dx) % c["w"], (p[1] + dy) % c["h"]):
                return ("ner:not-adjacent", "edge %r -%d-> %r" % (p, r, (k[1], k[2])))
            todo.append(k)
    for d in c["dests"]:
        if tuple(d) not in seen:
            return ("ner:destination-missing", "destination %r is not a node" % (d,))
    if not c["wrap"]:
        pass
    return None


# ------------------------------------------------------------------ Coq literals
def chipl(xy):
    return "(%s, %s)" % (zlit(xy[0]), zlit(xy[1]))


def optz(r):
    return "None" if r is None else "(Some %s)" % zlit(r)


def treel(t):
    if t[0] == "l":
        return "RLeaf %s" % zlit(t[1])
    return "RNode %s %s" % (chipl((t[1], t[2])),
                            vlist("(%s, %s)" % (optz(r), treel(k)) for r, k in t[3]))


def treel_any(t):
    """Coq literal of a tree in either serialisation (the flat one is assembled without recursion)"""
    if t[0] != "flat":
        return treel(t)
    nodes, lvs = t[1], t[2]
    kids = [[] for _ in nodes]
    for i, r, v in lvs:
        kids[i].append((r, None, v))
    for j, n in enumerate(nodes):
        if n[2] >= 0:
            kids[n[2]].append((n[3], j, None))
    text = [None] * len(nodes)
    for j in range(len(nodes) - 1, -1, -1):           # children have larger indices (depth-first order)
        # leaves were appended after the subtrees by route(); keep the order of the children list: subtrees
        # (in index order) first, then leaves
        ks = sorted((k for k in kids[j] if k[1] is not None), key=lambda k: k[1]) + \
            [k for k in kids[j] if k[1] is None]
        text[j] = "RNode %s %s" % (chipl((nodes[j][0], nodes[j][1])), vlist(
            "(%s, %s)" % (optz(r), text[ch] if ch is not None else "RLeaf %s" % zlit(v)) for r, ch, v in ks))
        for r, ch, v in ks:
            if ch is not None:
                text[ch] = None
    return text[0]


def _lits(c):
    pl = vlist("(%s, %s)" % (zlit(v), chipl(xy)) for v, xy in c["placements"])
    cons = vlist("(%s, %s)" % (zlit(v), zlit(r)) for v, r in c["cons"])
    al = vlist("(%s, (%s, %s))" % (zlit(v), zlit(a), zlit(b)) for v, (a, b) in c["allocs"])
    return pl, cons, al


def _order(e):
    return "None" if e.get("broken") is None else "(Some %s)" % vlist(
        "(%s, %s)" % (chipl(p), chipl(ch)) for p, ch in e["broken"])


def coq_nets_expr(c, out):
    """the loop over the nets of one call (Model/RouteMulti.v route_nets) on the call's whole stream"""
    pl, cons, al = _lits(c)
    nets = []
    for net, e in zip(c["nets"], out["nets"]):
        nets.append("{| n_source := %s; n_sinks := %s; n_dests := %s; n_order := %s |}" % (
            zlit(net["source"]), vlist(zlit(v) for v in net["sinks"]), vlist(chipl(d) for d in e["dests"]), _order(e)))
    end = max([e.get("pos_end", len(c["stream"])) for e in out["nets"]] or [0])
    done = [e["final"] for e in out["nets"] if e.get("final") is not None]
    return "nets_case (route_nets %s %s %s %s %s %s %s) %s" % (
        machl(c["machine"]), vlist(nets), pl, cons, al, zlit(c["radius"]),
        vlist(zlit(k) for k in c["stream"][:end]), vlist(treel(t) for t in done))


def coq_hist_expr(c, o):
    """a re-used Machine object (Model/RouteMulti.v run_history): edits and route() calls in order"""
    pl, cons, al = _lits(c)
    net = c["nets"][0]
    ops, exp, k = [], [], 0
    for op in c["steps"]:
        if op[0] == "route":
            st = o["steps"][k]
            k += 1
            e = st["nets"][0] if st["nets"] else {}
            ops.append("MRoute %s %s" % (vlist(zlit(x) for x in c["stream"][:e.get("pos_end", len(c["stream"]))]),
                                         _order(e)))
            if st["error"]:
                exp.append("(%s, None)" % zlit(1 if st["error"][0] == "disconnected" else 2))
            else:
                exp.append("(0, Some (%s))" % treel(e["final"]))
        elif op[0] in ("dl_add", "dl_discard"):
            ops.append("%s %s %s" % ("MDlAdd" if op[0] == "dl_add" else "MDlDiscard", chipl(op[1][:2]), zlit(op[1][2])))
        elif op[0] == "dl_update":
            ops.append("MDlUpdate %s" % vlist("(%s, %s)" % (chipl((x, y)), zlit(l)) for x, y, l in op[1]))
        elif op[0] == "dl_clear":
            ops.append("MDlClear")
        else:
            ops.append("%s %s" % ("MDcAdd" if op[0] == "dc_add" else "MDcDiscard", chipl(op[1])))
    dests = vlist(chipl(d) for d in o["steps"][0]["nets"][0]["dests"])
    return "hist_eqb (run_history %s %s %s %s %s %s %s %s %s) %s" % (
        machl(c["machine"]), vlist(ops), zlit(net["source"]), vlist(zlit(v) for v in net["sinks"]), dests,
        pl, cons, al, zlit(c["radius"]), vlist(exp))


def coq_check_tree_expr(c, out, i):
    """the verified validator alone, on one returned tree (used for the long routes)"""
    e = out["nets"][i]
    net = c["nets"][i]
    pl = vlist("(%s, %s)" % (zlit(v), chipl(xy)) for v, xy in c["placements"])
    cons = vlist("(%s, %s)" % (zlit(v), zlit(r)) for v, r in c["cons"])
    al = vlist("(%s, (%s, %s))" % (zlit(v), zlit(a), zlit(b)) for v, (a, b) in c["allocs"])
    src = dict((v, xy) for v, xy in c["placements"])[net["source"]]
    return "check_tree %s %s (sink_reqs %s %s %s %s) (%s)" % (
        machl(c["machine"]), chipl(src), vlist(zlit(v) for v in net["sinks"]), pl, cons, al, treel_any(e["final"]))


def machl(m):
    return "{| rm_w := %s; rm_h := %s; rm_dead_chips := %s; rm_dead_links := %s |}" % (
        zlit(m["w"]), zlit(m["h"]), vlist(chipl(c) for c in m["dead_chips"]),
        vlist("(%s, %s)" % (chipl((x, y)), zlit(l)) for x, y, l in m["dead_links"]))


HEADER = """From Coq Require Import ZArith List Bool. Import ListNotations. Open Scope Z_scope.
Require Import Rig.Model.Base Rig.Model.Route Rig.Model.RouteMulti Rig.Spec.Route.
Definition cls {A} (r : result A) : Z :=
  match r with Ok _ => 0 | Failed _ => 1 | OtherError => 2 | OutOfFuel => 3 end.
Definition ner_same (r : result (rtree * list chip)) (t : option rtree) (keys : list chip) : bool :=
  match r, t with Ok (t', keys'), Some t => rtree_eqb t' t && chips_eqb keys' keys | _, _ => false end.
Definition fin_same (r : result rtree) (t : option rtree) : bool :=
  match r, t with Ok t', Some t => rtree_eqb t' t | _, _ => false end.
Fixpoint trees_eqb (a b : list rtree) : bool :=
  match a, b with
  | [], [] => true
  | x :: a', y :: b' => rtree_eqb x y && trees_eqb a' b'
  | _, _ => false
  end.
(* the whole call: class of the model's result and, if Ok, equality of all trees in order *)
Definition nets_case (r : result (list rtree)) (ts : list rtree) : Z * bool :=
  (cls r, match r with Ok l => trees_eqb l ts | _ => true end).
(* a history: per route() call the class and the tree *)
Fixpoint hist_eqb (l : list (rmachine * result rtree)) (e : list (Z * option rtree)) : bool :=
  match l, e with
  | [], [] => true
  | (_, r) :: l', (k, t) :: e' =>
      (cls r =? k) && match r, t with Ok x, Some y => rtree_eqb x y | Ok _, None => false | _, _ => true end
      && hist_eqb l' e'
  | _, _ => false
  end.
(* has_wrap, ner tree + dict keys equal, class of the model's result, final tree equal, check_tree on the
   implementation's tree, check_connected *)
Definition route_case (m : rmachine) (pl : list (Z * chip)) (cons : list (Z * Z)) (al : list (Z * (Z * Z)))
           (source : Z) (src : chip) (sinks : list Z) (dests : list chip) (radius : Z) (s : list Z)
           (order : option (list (chip * chip))) (iner : option rtree) (ikeys : list chip)
           (ifin : option rtree) : bool * bool * Z * bool * bool * bool :=
  let rr := route_net m source sinks dests pl cons al radius s order in
  (has_wrap m,
   ner_same (ner_net src dests (rm_w m) (rm_h m) (has_wrap m) radius s) iner ikeys,
   cls rr, fin_same rr ifin,
   match ifin with Some t => check_tree m src (sink_reqs sinks pl cons al) t | None => false end,
   check_connected m).
"""


def coq_route_expr(c, out, i):
    """model vs implementation for net i of a route() case; -> Coq expression of type
    (bool * bool * Z * bool * bool * bool), see route_case in HEADER"""
    e = out["nets"][i]
    net = c["nets"][i]
    pl = vlist("(%s, %s)" % (zlit(v), chipl(xy)) for v, xy in c["placements"])
    cons = vlist("(%s, %s)" % (zlit(v), zlit(r)) for v, r in c["cons"])
    al = vlist("(%s, (%s, %s))" % (zlit(v), zlit(a), zlit(b)) for v, (a, b) in c["allocs"])
    sinks = vlist(zlit(v) for v in net["sinks"])
    dests = vlist(chipl(d) for d in e["dests"])
    # only the draws this net consumed (a net that raised inside ner_net has no end position: the whole rest)
    stream = vlist(zlit(k) for k in c["stream"][e["pos"]:e.get("pos_end")])
    order = "None" if e["broken"] is None else "(Some %s)" % vlist(
        "(%s, %s)" % (chipl(p), chipl(ch)) for p, ch in e["broken"])
    src = dict((v, xy) for v, xy in c["placements"])[net["source"]]
    final = e.get("final")
    have_final = final is not None and final[0] == "n"
    have_ner = e.get("ner") is not None and e["ner"][0] == "n"
    return "route_case %s %s %s %s %s %s %s %s %s %s %s %s %s %s" % (
        machl(c["machine"]), pl, cons, al, zlit(net["source"]), chipl(src), sinks, dests,
        zlit(c["radius"]), stream, order,
        "(Some (%s))" % treel(e["ner"]) if have_ner else "None",
        vlist(chipl(k) for k in e["keys"]) if have_ner else "[]",
        "(Some (%s))" % treel(final) if have_final else "None")


def coq_ner_expr(c, out):
    return "ner_same (ner_net %s %s %s %s %s %s %s) (Some (%s)) %s" % (
        chipl(c["source"]), vlist(chipl(d) for d in c["dests"]), zlit(c["w"]), zlit(c["h"]),
        "true" if c["wrap"] else "false", zlit(c["radius"]),
        vlist(zlit(k) for k in c["stream"][:out.get("pos_end")]),
        treel(out["ner"]), vlist(chipl(k) for k in out["keys"]))


# ------------------------------------------------------------------ exhaustive small domain (thorough)
def exhaustive_domain():
    """all machines <= 3x3 (all wrap-around links present) with every set of <= 3 dead directed links and <= 1 dead
    chip x source / sink placements with fan-out <= 2 x radius in {0, 20}: per size, the list of dead-link sets and
    the list of (dead chips, source chip, sink chips)"""
    out = []
    for w in (1, 2, 3):
        for h in (1, 2, 3):
            chips = [(x, y) for x in range(w) for y in range(h)]
            links = [(x, y, l) for (x, y) in chips for l in range(6)]
            linksets = [()]
            for k in (1, 2, 3):
                linksets += list(itertools.combinations(links, k))
            deadsets = [()] + [(ch,) for ch in chips if len(chips) > 1]
            pls = []
            for dc in deadsets:
                live = [ch for ch in chips if ch not in dc]
                for s in live:
                    pls.append((dc, s, ()))
                    for a in live:
                        pls.append((dc, s, (a,)))
                        for b in live:
                            if a <= b:
                                pls.append((dc, s, (a, b)))
            out.append((w, h, linksets, pls))
    return out


def exhaustive_chunks(rng, budget_large, chunk=4000):
    """-> (generator of case lists, description).  Sizes with at most 1.2 million cases are enumerated completely;
    for the larger ones (2x3, 3x2, 3x3) dead-link sets are sampled uniformly, [budget_large] cases per size."""
    dom = exhaustive_domain()
    plan = []
    desc = {}
    for w, h, linksets, pls in dom:
        n_here = len(linksets) * len(pls) * 2
        if n_here <= 1200000:
            chosen = linksets
            desc["%dx%d" % (w, h)] = "complete (%d cases)" % n_here
        else:
            k = max(1, budget_large // (len(pls) * 2))
            chosen = [()] + rng.sample(linksets, k)
            desc["%dx%d" % (w, h)] = "%d of %d dead-link sets x all placements (%d of %d cases)" % (
                len(chosen), len(linksets), len(chosen) * len(pls) * 2, n_here)
        plan.append((w, h, chosen, pls))
    seeds = [rng.randrange(TWO53) for _ in range(20)]

    def gen():
        cur = []
        for w, h, chosen, pls in plan:
            for ls in chosen:
                dl = [list(x) for x in ls]
                for dc, s, sinks in pls:
                    for radius in (0, 20):
                        cur.append(dict(
                            machine=dict(w=w, h=h, dead_chips=[list(x) for x in dc], dead_links=dl),
                            nets=[dict(source=0, sinks=list(range(1, len(sinks) + 1)))],
                            placements=[[0, list(s)]] + [[i + 1, list(x)] for i, x in enumerate(sinks)],
                            allocs=[[i + 1, [1, 2]] for i in range(len(sinks))],
                            cons=[], radius=radius, stream=seeds,
                            kind="valid", topo="torus", fault="exhaustive", sstyle="random"))
                        if len(cur) >= chunk:
                            yield cur
                            cur = []
        if cur:
            yield cur
    return gen(), desc


# ------------------------------------------------------------------ the check
def tree_nodes(out):
    """number of tree nodes in all serialised trees of one route() output (a size guard for the Coq literals)"""
    n = 0
    for e in out.get("nets", []):
        for key in ("ner", "final"):
            t = e.get(key)
            if not t:
                continue
            if t[0] == "flat":
                n += len(t[1])
            elif t[0] == "n":
                todo = [t]
                while todo:
                    x = todo.pop()
                    n += 1
                    todo += [k for _, k in x[3] if k[0] == "n"]
    return n


def nontrivial(c, out):
    return (c["kind"] == "valid" and isinstance(out, dict) and
            any(len(set(map(tuple, e["dests"]))) >= 1 for e in out["nets"]))


def run(chk, args):
    chk.trusted += ["CPython: dict insertion order, set iteration order of the destination set and of "
                    "broken_links (logged from the implementation and given to the model), heapq on pairwise "
                    "distinct tuples, sorted() stability",
                    "harness replaces rig.geometry.random / route.utils.random by a scripted source and wraps "
                    "ner.ner_net / ner.copy_and_disconnect_tree for logging (module attributes, no source edit)",
                    "Model/Geometry.v (C11) models shortest_torus_path / longest_dimension_first / "
                    "concentric_hexagons; tied to the code by the exact tree equality of this run; the theorems of "
                    "C11 (Proofs/Geometry.v) are used by C03_ner_net_tree"]
    chk.assumptions += ["vertices are hashable objects (integers in the harness); placements put the source and "
                        "every sink on a working chip of the machine; width, height >= 1",
                        "random.random() returns k / 2^53 with 0 <= k < 2^53",
                        "allocations of the core resource are slices within 0..18 (Routes.core raises otherwise)"]
    import time as _t
    _ph = [(_t.time(), 'start')]
    chk.regenerate(UNITS)
    built = chk.prove()
    rng = chk.rng
    quick = chk.tier == "quick"
    pending = []            # (case, out, net index or None): to be evaluated in Coq
    long_v = []             # long routes: the verified validator only, one file per tree
    multi = []              # (kind, case, out): whole calls with several nets, whole histories
    state = dict(sampled=False)

    def judge(c, o, coq=True):
        """counts, independent oracle, and the Coq expressions of one executed case"""
        if o == ["skipped"]:
            return
        if c["kind"] == "ner":
            chk.count("kind:ner_net")
            chk.count("ner:%s" % ("torus" if c["wrap"] else "mesh"))
            chk.count("radius:%d" % c["radius"])
            chk.note_case(c, len(c["dests"]) >= 1)
            bad = oracle_ner(c, o)
            if bad:
                chk.fail_input(bad[0], bad[1], dict(case=c, observed=o))
            elif coq and o != ["hang"] and o["ner"][0] == "n" and len(o["keys"]) <= 1500:
                pending.append((c, o, None))
            return not bad
        chk.count("kind:route/%s" % c["kind"])
        chk.count("topology:%s" % c["topo"])
        chk.count("faults:%s" % c["fault"])
        chk.count("radius:%d" % c["radius"])
        chk.count("stream:%s" % c["sstyle"])
        chk.count("core_resource:%s" % ("default" if c.get("core_res") is None else
                                        "custom+decoy" if c.get("decoy") else "custom"))
        chk.count("dims:%s" % ("1xN" if 1 in (c["machine"]["w"], c["machine"]["h"]) else
                               "2xN" if 2 in (c["machine"]["w"], c["machine"]["h"]) else "larger"))
        if o == ["hang"]:
            chk.count("outcome:hang")
        else:
            chk.count("outcome:%s" % (o["error"][0] if o["error"] else "trees"))
            chk.count("nets", len(o["nets"]))
            for e in o["nets"]:
                if e.get("broken") is not None:
                    chk.count("repaired-nets")
                    chk.count("broken-links-per-repair:%s" % min(len(e["broken"]), 4))
        chk.note_case(c, nontrivial(c, o))
        bad = oracle(c, o)
        if bad:
            chk.fail_input(bad[0], bad[1], dict(case=c, observed=o))
        if not state["sampled"] and c["kind"] == "valid" and o != ["hang"] and o["nets"] and \
                o["nets"][0].get("broken") and c["machine"]["w"] * c["machine"]["h"] <= 25:
            chk.sample(dict(case=c, implementation=o))
            state["sampled"] = True
        if bad:
            # already a failing input by the oracle: reported above; such an output (a cyclic, shared or otherwise
            # pathological tree) is not handed to the Coq model comparison / validators
            chk.count("failing-outputs-not-sent-to-coq")
            return False
        if coq and o != ["hang"] and tree_nodes(o) > 1500:
            chk.count("outputs-too-large-for-coq")
            return True
        if coq and o != ["hang"]:
            for i in range(len(o["nets"])):
                pending.append((c, o, i))
            if len(c["nets"]) >= 2 and all(e.get("ner", ["x"])[0] == "n" for e in o["nets"]) and \
                    all(e.get("final", ["n"])[0] == "n" for e in o["nets"]) and \
                    (not o["error"] or o["error"][0] in ("disconnected", "other")):
                multi.append(("nets", c, o))
        return True

    if args.replay:
        rp = json.load(open(args.replay))
        cases = [f["replay"]["case"] for f in rp.get("failures", []) if "case" in f.get("replay", {})]
        cases += [b["replay"]["case"] for b in rp.get("no_longer_checks", []) if "case" in b.get("replay", {})]
    else:
        n_route = 1000 if quick else 30000
        n_ner = 300 if quick else 8000
        cases = [gen_case(rng, malformed=(i % 25 == 24), dense=(i % 3 == 0), narrow=(i % 6 == 1))
                 for i in range(n_route)]
        # the hexagon-scan branch needs more than 3 * (1 + 3r(r+1)) route nodes: large fan-out
        for i in range(20 if quick else 300):
            cases.append(gen_case(rng, dims=rng.choice([(8, 8), (9, 8), (10, 10)])))
        cases += [gen_ner_case(rng) for _ in range(n_ner)]
        cases += [gen_shared_case(rng) for _ in range(200 if quick else 4000)]
        corpus = os.path.join(lib.VERIF, "corpus", "C03.json")
        if os.path.exists(corpus):
            cases = json.load(open(corpus)) + cases
    _ph.append((_t.time(), 'prove+generate'))
    # implementation on the materialised cases
    size = 170 if quick else 2500
    chunks = [cases[i:i + size] for i in range(0, len(cases), size)]
    outs = [o for part in chk.impl_parallel("impl_c03.py", chunks, timeout=3000) for o in part]
    for c, o in zip(cases, outs):
        judge(c, o)
    _ph.append((_t.time(), 'impl+oracle (compared cases)'))
    # long routes (oracle only: the trees are too deep for the Coq literals) and object-reuse histories (every
    # route() of a history is judged, and compared with the model, against the fault sets current at that call)
    if not args.replay:
        longs = long_cases(rng)
        for c, o in zip(longs, chk.impl("impl_c03.py", longs, timeout=3000)):
            chk.count("long-route-cases")
            fine = judge(c, o, coq=False)
            if fine and isinstance(o, dict) and not o["error"] and \
                    o["nets"][0].get("final", ["huge"])[0] in ("n", "flat") and tree_nodes(o) <= 6000:
                long_v.append((c, o))
        hist = [gen_history(rng) for _ in range(150 if quick else 3000)]
        hchunks = [hist[i:i + 60] for i in range(0, len(hist), 60)]
        for part, outp in zip(hchunks, chk.impl_parallel("impl_c03.py", hchunks, timeout=3000)):
            for c, o in zip(part, outp):
                if not isinstance(o, dict):
                    continue
                chk.count("histories")
                fine = True
                for k, (mstate, ok) in enumerate(zip(history_states(c), o["steps"])):
                    ck = dict(c, kind="valid", machine=mstate, fault="history-step-%d" % min(k, 3))
                    fine = judge(ck, ok) and fine
                if fine and all(not st["error"] or st["nets"] for st in o["steps"]) and all(
                        e.get("final", ["n"])[0] == "n" for st in o["steps"] for e in st["nets"]) and \
                        o["steps"] and o["steps"][0]["nets"]:
                    multi.append(("hist", c, o))
    _ph.append((_t.time(), 'long+histories impl'))
    # the three Coq evaluations run in the background while the bulk streams are executed and judged (quick tier;
    # in the thorough tier they start after the exhaustive stream, which still adds cases)
    import concurrent.futures as _cf
    evals = {}

    def start_evals():
        if not (chk.model_ok and built is not False):
            return
        ex = _cf.ThreadPoolExecutor(max_workers=3)
        exprs = [coq_ner_expr(c, o) if i is None else coq_route_expr(c, o, i) for c, o, i in pending]
        # time limits in proportion: a shard of the quick tier takes 5-20 s; one that times out or dies is a broken
        # obligation (the failing inputs found by the oracle are reported regardless)
        # ... scaled by the load of the machine (the limit is wall-clock time)
        load = max(1.0, os.getloadavg()[0] / float(os.cpu_count() or 16))
        lim = int(min(2700, (180 if quick else 1500) * load))
        evals["cases"] = ex.submit(chk.coq_eval, HEADER, exprs, max(40, min(400, -(-len(exprs) // 10))), lim)
        if multi:
            evals["multi"] = ex.submit(
                chk.coq_eval, HEADER,
                [coq_nets_expr(c, o) if k == "nets" else coq_hist_expr(c, o) for k, c, o in multi],
                max(20, -(-len(multi) // 6)), lim, "multi")
        if long_v:
            evals["long"] = ex.submit(chk.coq_eval, HEADER, [coq_check_tree_expr(c, o, 0) for c, o in long_v],
                                      1, lim, "long")
    if quick:
        start_evals()
    # a larger dense-fault stream judged by the independent oracle only (the repair step is where trees go wrong;
    # about one dense case in a thousand made the code as found attach a chip twice)
    if not args.replay:
        n_dense = 4000 if quick else 150000
        n_narrow = 3000 if quick else 60000
        dense = ([gen_case(rng, dense=True) for _ in range(n_dense)] +
                 [gen_case(rng, narrow=True) for _ in range(n_narrow)] +
                 [gen_shared_case(rng) for _ in range(2000 if quick else 60000)])
        dchunks = [dense[i:i + 700] for i in range(0, len(dense), 700)]
        for part, outp in zip(dchunks, chk.impl_parallel("impl_c03.py", dchunks, timeout=3000)):
            for c, o in zip(part, outp):
                judge(c, o, coq=False)
    _ph.append((_t.time(), 'bulk oracle-only streams'))
    # thorough: the exhaustive small domain, streamed; the oracle judges every case, the model / validators are
    # evaluated in Coq on every 50th
    if not quick and not args.replay:
        import concurrent.futures
        gen, desc = exhaustive_chunks(rng, 500000)
        for k, v in desc.items():
            chk.coverage.setdefault("exhaustive_small_domain", {})[k] = v
        n_ex = [0]

        def work(chunk):
            return chunk, chk.impl("impl_c03.py", chunk, timeout=3000)
        with concurrent.futures.ThreadPoolExecutor(max_workers=12) as ex:
            futs = []
            for chunk in gen:
                futs.append(ex.submit(work, chunk))
                if len(futs) >= 24:
                    done = futs.pop(0).result()
                    for c, o in zip(*done):
                        n_ex[0] += 1
                        judge(c, o, coq=(n_ex[0] % 50 == 0))
            for f in futs:
                for c, o in zip(*f.result()):
                    n_ex[0] += 1
                    judge(c, o, coq=(n_ex[0] % 50 == 0))
        chk.count("exhaustive-cases-run", n_ex[0])
    _ph.append((_t.time(), 'exhaustive'))
    # model + validators inside Coq
    if not quick:
        start_evals()
    if "cases" in evals:
        try:
            vals = evals["cases"].result()
        except RuntimeError as e:
            chk.oblige("correspondence:model-evaluates", False, str(e))
            vals = None
        if vals is not None:
            n_ner = n_fin = n_v = 0
            ok = True
            shown = [0]
            real_disagree = chk.disagree

            def disagree(what, replay):
                shown[0] += 1
                if shown[0] <= 5:
                    real_disagree(what, replay)
            for (c, o, i), v in zip(pending, vals):
                chk.traces_validated += 1
                if i is None:
                    n_ner += 1
                    if v is not True:
                        disagree("ner_net: model tree differs from the implementation's",
                                     dict(case=c, observed=o))
                        ok = False
                    continue
                wrapb, nerb, rcls, finb, vb, connb = v
                e = o["nets"][i]
                last_failed = o["error"] is not None and i == len(o["nets"]) - 1
                if wrapb != o["has_wrap"]:
                    disagree("has_wrap_around_links: model %r, implementation %r" % (wrapb, o["has_wrap"]),
                                 dict(case=c, observed=o))
                    ok = False
                if e.get("ner") and e["ner"][0] == "n":
                    n_ner += 1
                    if not nerb:
                        disagree("ner_net (inside route): model tree differs", dict(case=c, observed=o, net=i))
                        ok = False
                if last_failed:
                    want = 1 if o["error"][0] == "disconnected" else 2
                    if rcls != want:
                        disagree("route: implementation raised %s, model result class %d"
                                     % (o["error"][:2], rcls), dict(case=c, observed=o, net=i))
                        ok = False
                elif e.get("final") and e["final"][0] == "n":
                    n_fin += 1
                    if not finb:
                        disagree("route: final tree of the model (class %d) differs from the implementation's"
                                     % rcls, dict(case=c, observed=o, net=i))
                        ok = False
                    if c["kind"] == "valid":
                        n_v += 1
                        pyok = oracle_tree(c, c["nets"][i], e["final"]) is None
                        if vb != pyok:
                            chk.oblige("validators-agree", False,
                                       "check_tree (Coq) = %r but the Python oracle says %r on %s"
                                       % (vb, pyok, json.dumps(dict(case=c, net=i))[:1500]))
                            ok = False
                if c["kind"] == "valid" and connb != connected(c["machine"]):
                    chk.oblige("connectivity-validators-agree", False,
                               "check_connected (Coq) = %r, Python = %r on %s"
                               % (connb, connected(c["machine"]), json.dumps(c["machine"])))
                    ok = False
            if ok:
                chk.oblige("correspondence:ner_net exact tree and dict-order equality (%d executions), route() final "
                           "tree equality (%d nets), check_tree accepted / agreed with the oracle on %d real outputs"
                           % (n_ner, n_fin, n_v), True)
    _ph.append((_t.time(), 'coq: per-net cases'))
    if "multi" in evals:
        try:
            vs = evals["multi"].result()
            nbad = 0
            for (k, c, o), v in zip(multi, vs):
                chk.traces_validated += 1
                if k == "nets":
                    want = 0 if not o["error"] else (1 if o["error"][0] == "disconnected" else 2)
                    good = (v[0] == want and v[1] is True)
                else:
                    good = v is True
                if not good:
                    nbad += 1
                    if nbad <= 3:
                        chk.disagree("%s: model of the whole call / history differs from the implementation (%r)"
                                     % ("route() over several nets" if k == "nets" else "re-used Machine", v),
                                     dict(case=c, observed=o))
            if not nbad:
                chk.oblige("correspondence:route_nets on %d calls with several nets (whole stream, all trees) and "
                           "run_history on %d re-used Machine histories"
                           % (sum(1 for k, _, _ in multi if k == "nets"), sum(1 for k, _, _ in multi if k == "hist")), True)
        except RuntimeError as e:
            chk.oblige("correspondence:multi-model-evaluates", False, str(e))
    _ph.append((_t.time(), 'coq: route_nets/run_history'))
    if "long" in evals:
        try:
            vs = evals["long"].result()
            bad = [c for (c, o), v in zip(long_v, vs) if v is not True]
            for c in bad[:2]:
                chk.oblige("validators-agree", False, "check_tree (Coq) = false on a long route the oracle accepts: %dx%d"
                           % (c["machine"]["w"], c["machine"]["h"]))
            if not bad:
                chk.oblige("validator:check_tree accepts the long routes (%d trees of 1200-2500 hops)" % len(vs), True)
        except RuntimeError as e:
            chk.oblige("validator:long-routes-evaluate", False, str(e))
    _ph.append((_t.time(), 'coq: long routes'))
    chk.coverage["phase_seconds"] = dict((n, round(t - _ph[k][0], 1)) for k, (t, n) in enumerate(_ph[1:]))
    chk.coverage["rule"] = (
        "route(): random machines up to 7x7 (plus 8x8..10x10 for the hexagon-scan branch, up to 8x12 in the dense-fault "
        "stream) incl. 1xN and 2xN, torus / mesh / partly wrapped, dead chips, dead links in one or both directions, "
        "clustered faults, every third case dense faults (10-20 % of the directed links dead, 0-5 dead chips) plus a larger "
        "dense-fault stream judged by the oracle only (4000 cases quick, 150000 thorough) and a narrow-machine stream "
        "(1xN, 2xN, Nx1, Nx2, N <= 12, dead chips in the middle, mostly one-directional dead links, fan-out 3..12; "
        "every sixth compared case plus 3000 / 60000 oracle-only); core_resource default or a custom key (with a "
        "decoy allocation under Cores); six long-route cases (3x2500, 2500x3, 2x1500 meshes with a dead link, 3x2400 torus; "
        "oracle only); object-reuse histories (one Machine, route(), in-place add/update/discard/clear of dead_links "
        "and add/discard of dead_chips, route() again; every call judged against the fault sets tracked by the "
        "harness); shared-net cases (2-8 nets per call drawing sources and sinks from a pool of 2-5 chips with 2-4 "
        "vertices each, repeated and twin nets with identical endpoint chips, 0-4 dead links; 200 compared + 2000 "
        "oracle-only); 1-3 nets, "
        "fan-out 0..2*chips, sinks on the source chip, duplicated sinks, core allocations / endpoint constraints / "
        "neither, radius in {0,1,2,3,20}, scripted random stream (random / all-zero / all-max / few values / edge "
        "values); every 25th case has a sink on a dead chip (not judged). ner_net alone on fault-free meshes and tori "
        "with duplicated destinations. corpus/C03.json (inputs on which the code as found attached a chip twice) first. "
        "thorough: + machines <= 3x3 with <= 3 dead directed links and <= 1 dead chip x all source / sink placements with "
        "fan-out <= 2 x radius {0,20}: complete for the sizes listed as complete under coverage.exhaustive_small_domain, dead-link "
        "sets sampled uniformly for the others; the oracle judges every case, Coq every 50th. non-trivial = valid case "
        "with at least one sink; distinct by hash of the whole case")
