"""Drive rig.type_casts on JSON-described groups of cases (runs under /venv/bin/python, PYTHONPATH=/repo).

A group fixes a converter (kind, signed, n_bits, n_frac) and lists inputs.  Floats travel as the
integer value of their 64-bit pattern, fixed-point values as Python ints.  Per input the result is an
int, or one of the strings "other" (undocumented exception), "fail0" (ValueError of
validate_fp_params), "fail1" (ValueError of NumpyFloatToFixConverter.__init__)."""
import struct
import warnings

import numpy as np

from rig import type_casts as tc

warnings.simplefilter("ignore")


def b2f(b):
    return struct.unpack("<d", struct.pack("<Q", b))[0]


def f2b(x):
    return struct.unpack("<Q", struct.pack("<d", float(x)))[0]


def guarded(fn, doc=None):
    try:
        return fn()
    except ValueError as e:
        if doc and (str(e).startswith("n_bits:") or str(e).startswith("n_frac:")):
            return doc
        return "other"
    except Exception:
        return "other"


def construct(ctor, doc, *a):
    """-> (callable, None) or (None, error string)"""
    r = guarded(lambda: ctor(*a), doc)
    return (None, r) if isinstance(r, str) else (r, None)


def build_array(vals, shape, layout, dtype):
    if layout == "pyscalar":
        return vals[0]
    if layout == "npscalar":
        return dtype(vals[0])
    if layout == "broadcast":               # rows repeated by broadcasting (a read-only view with zero strides)
        return np.broadcast_to(np.array(vals[:shape[-1]], dtype=dtype), tuple(shape))
    a = np.array(vals, dtype=dtype).reshape(shape)
    if layout == "readonly":
        a.flags.writeable = False
    elif layout == "t":                       # a transposed (non C-contiguous) view with the same elements
        a = np.ascontiguousarray(a.T).T
    elif layout == "strided":               # every other element of a larger buffer
        big = np.zeros(a.shape[:-1] + (2 * a.shape[-1],), dtype=dtype) if a.ndim else None
        if big is not None:
            big[..., ::2] = a
            a = big[..., ::2]
    elif layout == "f":
        a = np.asfortranarray(a)
    return a


def snapshot(arr):
    """The exact content (bytes, logical order) of an array argument, None for a Python scalar."""
    return np.array(arr, copy=True).tobytes() if isinstance(arr, (np.ndarray, np.generic)) else None


def to_fix_result(r):
    return dict(shape=list(np.shape(r)), dtype=str(getattr(r, "dtype", type(r).__name__)),
                vals=[int(v) for v in np.asarray(r).reshape(-1)],
                isarray=isinstance(r, (np.ndarray, np.generic)))


def run_group(g):
    """Array conversions run inside the ambient np.errstate the group names (default: numpy's own)."""
    if g.get("errstate"):
        with np.errstate(**g["errstate"]):
            return run_group_inner(g)
    return run_group_inner(g)


def run_group_inner(g):
    kind, s, n, f = g["kind"], g.get("signed"), g.get("n_bits"), g.get("n_frac")
    # The format parameters of the converter UNDER TEST may be handed over as numpy scalars (S, N, F); the
    # converters used as the reference in the same group always get plain Python values (s, n, f).
    pt = g.get("ptypes") or {}
    S = getattr(np, pt["signed"])(s) if pt.get("signed") else s
    N = getattr(np, pt["n_bits"])(n) if pt.get("n_bits") else n
    F = getattr(np, pt["n_frac"])(f) if pt.get("n_frac") else f
    # ... and an array converter may be used after a pickle round trip / copy.copy / copy.deepcopy
    def recopy(c):
        how = g.get("copy")
        if how == "pickle":
            import pickle
            return pickle.loads(pickle.dumps(c))
        if how in ("copy", "deepcopy"):
            import copy
            return getattr(copy, how)(c)
        return c
    # scalar inputs may be handed over as numpy scalars: floats of a given type, words of a given integer type
    ftype = getattr(np, g["scalar_type"]) if g.get("scalar_type") else float
    wtype = getattr(np, g["word_dtype"]) if g.get("word_dtype") else int
    if kind == "fp":
        conv, err = construct(tc.float_to_fp, None, S, N, F)
        return [err if err else guarded(lambda: int(conv(ftype(b2f(b))))) for b in g["xs"]]
    if kind == "back":
        back, e1 = construct(tc.fp_to_float, None, F)
        conv, e2 = construct(tc.float_to_fp, None, s, n, f)
        out = []
        for v in g["vs"]:
            if e1:
                out.append([e1, e1])
                continue
            x = guarded(lambda: float(back(wtype(v))))
            if isinstance(x, str):
                out.append([x, x])
            else:
                out.append([f2b(x), e2 if e2 else guarded(lambda: int(conv(x)))])
        return out
    if kind == "fix":
        old, e1 = construct(tc.float_to_fix, "fail0", S, N, F)
        new, e2 = construct(tc.float_to_fp, None, s, n, f)
        return [[e1 if e1 else guarded(lambda: int(old(ftype(b2f(b))))),
                 e2 if e2 else guarded(lambda: int(new(ftype(b2f(b)))))] for b in g["xs"]]
    if kind == "unfix":
        old, e1 = construct(tc.fix_to_float, "fail0", S, N, F)
        new, e2 = construct(tc.fp_to_float, None, f)
        out = []
        for w, v in g["wv"]:
            a = e1 if e1 else guarded(lambda: float(old(wtype(w))))
            b = e2 if e2 else guarded(lambda: new(v))
            out.append([a if isinstance(a, str) else f2b(a), b if isinstance(b, str) else f2b(b)])
        return out
    if kind == "np":
        conv, err = construct(lambda *a: recopy(tc.NumpyFloatToFixConverter(*a)), "fail1", S, N, F)
        sc, e2 = construct(tc.float_to_fp, None, s, n, f)
        xs = [b2f(b) for b in g["xs"]]
        scal = [e2 if e2 else guarded(lambda: int(sc(x))) for x in xs]
        if err:
            return dict(array=err, scalar=scal)
        arr = build_array(xs, g["shape"], g["layout"], getattr(np, g.get("dtype", "float64")))
        before = snapshot(arr)
        # ONE converter object used for several same-shaped inputs: the judged call is made between two others and its
        # result is read only after the last of them (a caller keeping one converter per format, one call per timestep)
        ar = g.get("around")
        dt_ = getattr(np, g.get("dtype", "float64"))
        if ar:
            guarded(lambda: conv(build_array([b2f(b) for b in ar["before"]], g["shape"], g["layout"], dt_)))
        r = guarded(lambda: conv(arr))
        if ar:
            guarded(lambda: conv(build_array([b2f(b) for b in ar["after"]], g["shape"], g["layout"], dt_)))
        same = snapshot(arr) == before
        if isinstance(r, str):
            return dict(array=r, scalar=scal, input_unchanged=same)
        return dict(array=to_fix_result(r), scalar=scal, input_unchanged=same)
    if kind == "npseq":
        # ONE input array object handed to several converters in turn
        xs = [b2f(b) for b in g["xs"]]
        arr = build_array(xs, g["shape"], g["layout"], getattr(np, g.get("dtype", "float64")))
        before = snapshot(arr)
        steps = []
        for (s_, n_, f_) in g["formats"]:
            conv, err = construct(tc.NumpyFloatToFixConverter, "fail1", s_, n_, f_)
            sc, e2 = construct(tc.float_to_fp, None, s_, n_, f_)
            scal = [e2 if e2 else guarded(lambda: int(sc(x))) for x in xs]
            r = err if err else guarded(lambda: conv(arr))
            steps.append(dict(array=r if isinstance(r, str) else to_fix_result(r), scalar=scal,
                              input_unchanged=snapshot(arr) == before))
        return steps
    if kind == "npback":
        conv = recopy(tc.NumpyFixToFloatConverter(F))
        sc, e2 = construct(tc.fp_to_float, None, f)
        dtype = getattr(np, g["dtype"])
        scal = []
        for v in g["vs"]:
            x = e2 if e2 else guarded(lambda: sc(v))
            scal.append(x if isinstance(x, str) else f2b(x))
        arr = build_array(g["vs"], g["shape"], g["layout"], dtype)
        before = snapshot(arr)
        with np.errstate(all="ignore"):
            r = guarded(lambda: conv(arr))
        same = snapshot(arr) == before
        if isinstance(r, str):
            return dict(array=r, scalar=scal, input_unchanged=same)
        res = dict(array=dict(shape=list(np.shape(r)), dtype=str(getattr(r, "dtype", type(r).__name__)),
                              vals=[f2b(v) for v in np.asarray(r).reshape(-1)]), scalar=scal, input_unchanged=same)
        # the result must be a float array of its own: not the caller's integer words under another name
        res["is_float"] = bool(np.issubdtype(np.asarray(r).dtype, np.floating))
        res["shares_memory"] = bool(isinstance(r, np.ndarray) and isinstance(arr, np.ndarray) and np.shares_memory(r, arr))
        if isinstance(r, np.ndarray) and r.size and r.flags.writeable:
            try:
                with np.errstate(all="ignore"):
                    r[...] = r + 0.75            # a float edit of the result ...
            except Exception:
                pass
        res["input_unchanged_after_edit"] = snapshot(arr) == before     # ... must leave the input words alone
        return res
    if kind == "ld":
        # np.longdouble inputs (x87 80-bit on this platform): values given exactly as m * 2**e
        L = np.longdouble
        if np.finfo(L).nmant != 63:
            return dict(platform=False)

        def mk(m, e):
            a, b = divmod(abs(m), 1 << 32)
            x = (L(a) * L(2) ** 32 + L(b)) * L(2) ** L(e)
            return -x if m < 0 else x
        xs = [mk(m, e) for m, e in g["me"]]
        conv, err = construct(tc.NumpyFloatToFixConverter, "fail1", s, n, f)
        sc, e2 = construct(tc.float_to_fp, None, s, n, f)
        scal = [e2 if e2 else guarded(lambda: int(sc(x))) for x in xs]
        old, e3 = construct(tc.float_to_fix, "fail0", s, n, f)
        fixs = [e3 if e3 else guarded(lambda: int(old(x))) for x in xs]
        arr = np.array(xs, dtype=L).reshape(g["shape"])
        r = err if err else guarded(lambda: conv(arr))
        return dict(platform=True, array=r if isinstance(r, str) else to_fix_result(r), scalar=scal, fix=fixs)
    raise ValueError(kind)


if __name__ == "__main__":
    import implutil
    implutil.run_cases(run_group, per_case_s=20)
