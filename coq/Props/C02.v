(* C02 -- Every placer returns a feasible, constraint-respecting placement or fails.
   Property theorems only; each is closed by `exact` of a lemma of Proofs/Place*.v.
   Model: Model/Place.v (outcomes: Ok placement | Failed 0 = InsufficientResourceError | Failed 1 =
   InvalidConstraintError | OtherError = any other exception | OutOfFuel = oracle stream exhausted).
   Spec: Spec/Place.v ([Feasible], [wf_problem] = the documented domain, [consistent]). *)
From Coq Require Import ZArith List Bool.
Require Import Rig.Model.Base Rig.Model.Place Rig.Spec.Place Rig.Proofs.Place Rig.Proofs.PlaceCore
        Rig.Proofs.PlaceMerge Rig.Proofs.PlaceSeq.
Import ListNotations.
Open Scope Z_scope.

(* V -- verified validator.  The check evaluates [check_placement] inside Coq on the real output of all
   seven placer configurations (SA with the C kernel, SA with the Python kernel, Hilbert, RCM, breadth-first,
   sequential, random); each `true` is a proof that that output is feasible.  For the C kernel (rig_c_sa,
   compiled third-party code outside /repo) this per-output validation is all that applies. *)
Theorem C02_check_placement_sound :
  forall vr m cs pl, check_placement vr m cs pl = true -> Feasible vr m cs pl.
Proof. exact check_placement_sound. Qed.

(* U -- sequential placer, for ANY chip order and ANY vertex order listing every vertex (None = the default
   orders).  sequential.place, breadth_first.place, hilbert.place and rcm.place are this function applied to
   their respective orders, so the one theorem covers the four: whatever is returned is feasible (every
   vertex on exactly one working chip, no chip's resources exceeded after reservations, every location and
   same-chip constraint honoured -- chained and duplicated group members included). *)
Theorem C02_seq_place_sound :
  forall vr m cs vertex_order chip_order pl,
    wf_problem vr m cs -> consistent cs ->
    (forall vo, vertex_order = Some vo -> forall v, In v (map fst vr) -> In v vo) ->
    seq_place vr m cs vertex_order chip_order = Ok pl ->
    Feasible vr m cs pl.
Proof. exact seq_place_sound. Qed.

(* U -- random placer, for every stream of random choices. *)
Theorem C02_rand_place_sound :
  forall vr m cs oracle pl,
    wf_problem vr m cs -> consistent cs ->
    rand_place vr m cs oracle = Ok pl -> Feasible vr m cs pl.
Proof. exact rand_place_sound. Qed.

(* Non-vacuity: a problem with a same-chip group, a location constraint on a member of the group, a global
   reservation and a resource exception meets the hypotheses, and both placers succeed on it. *)
Example C02_hypotheses_satisfiable :
  wf_problem ex_vr ex_m ex_cs /\ consistent ex_cs
  /\ seq_place ex_vr ex_m ex_cs None None = Ok [(3, (1, 0)); (4, (1, 0)); (1, (0, 0)); (2, (0, 0))]
  /\ rand_place ex_vr ex_m ex_cs [1%nat; 0%nat; 5%nat] = Ok [(3, (1, 0)); (4, (0, 0)); (1, (0, 0)); (2, (0, 0))].
Proof. exact ex_seq_instance. Qed.
