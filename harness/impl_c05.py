"""Drive rig's allocator on JSON-described cases (runs under /venv/bin/python, PYTHONPATH=/repo)."""
import json
import sys
from collections import OrderedDict

from rig.place_and_route.allocate.greedy import allocate
from rig.place_and_route.machine import Machine
from rig.place_and_route.constraints import (ReserveResourceConstraint, AlignResourceConstraint,
                                             LocationConstraint)
from rig.place_and_route.exceptions import InsufficientResourceError


class SiteReservation(ReserveResourceConstraint):
    """A user-defined subclass: the allocator must treat it as the reservation it is."""


class SiteAlignment(AlignResourceConstraint):
    pass


def mk_constraints(spec, subclass):
    cs = []
    for k in spec:
        sub = subclass and (len(cs) % 2 == 0)
        if k[0] == "reserve":
            cs.append((SiteReservation if sub else ReserveResourceConstraint)(
                k[1], slice(k[2], k[3]), None if k[4] is None else tuple(k[4])))
        elif k[0] == "align":
            cs.append((SiteAlignment if sub else AlignResourceConstraint)(k[1], k[2]))
        else:
            cs.append(LocationConstraint(0, (0, 0)))
    return cs


class Fresh(object):
    """Maps the case's resource numbers to identifiers that are equal but never identical between two mentions."""
    def __init__(self, kind):
        self.kind = kind

    def __call__(self, r):
        if self.kind == "str":
            return "".join(["res", "-", str(r)])
        if self.kind == "tuple":
            return tuple(["res", int(str(r))])
        if self.kind == "bigint":
            return int(str(1000003 + r))
        return r

    def back(self, x):
        if self.kind == "str":
            return int(x.split("-")[1])
        if self.kind == "tuple":
            return x[1]
        if self.kind == "bigint":
            return x - 1000003
        return x


def run_case(c):
    fr = Fresh(c.get("reskind"))
    if c.get("reskind"):
        c = dict(c)
        ren = lambda pairs: [[fr(r), q] for r, q in pairs]
        m0 = c["machine"]
        c["machine"] = dict(m0, res=ren(m0["res"]), exc=[[xy, ren(rs)] for xy, rs in m0["exc"]])
        c["vres"] = [[v, ren(rq)] for v, rq in c["vres"]]
        c["constraints"] = [[k[0], fr(k[1])] + list(k[2:]) if k[0] in ("reserve", "align") else k for k in c["constraints"]]
    m = c["machine"]
    machine = Machine(m["w"], m["h"], chip_resources=OrderedDict((r, q) for r, q in m["res"]),
                      chip_resource_exceptions=OrderedDict(
                          (tuple(xy), OrderedDict((r, q) for r, q in rs)) for xy, rs in m["exc"]),
                      dead_chips=set(tuple(xy) for xy in m["dead"]))
    vres = OrderedDict((v, OrderedDict((r, q) for r, q in rq)) for v, rq in c["vres"])
    cs = []
    for k in c["constraints"]:
        sub = c.get("subclass") and (len(cs) % 2 == 0)        # every other constraint is a subclass instance
        if k[0] == "reserve":
            cs.append((SiteReservation if sub else ReserveResourceConstraint)(
                k[1], slice(k[2], k[3]), None if k[4] is None else tuple(k[4])))
        elif k[0] == "align":
            cs.append((SiteAlignment if sub else AlignResourceConstraint)(k[1], k[2]))
        else:
            cs.append(LocationConstraint(0, (0, 0)))
    pl = OrderedDict((v, tuple(xy)) for v, xy in c["placements"])
    e = c.get("entry")
    try:
        if e and e["how"] == "setitem":
            revive = [tuple(xy) for xy in e.get("revive", [])]
            exc_of = dict((tuple(xy), rs) for xy, rs in m["exc"])
            machine = Machine(m["w"], m["h"], chip_resources=OrderedDict((r, q) for r, q in m["res"]),
                              chip_resource_exceptions=OrderedDict(
                                  (xy, OrderedDict((r, q) for r, q in exc_of[xy])) for xy in revive),
                              dead_chips=set(tuple(xy) for xy in m["dead"]) | set(revive))
            if e.get("copy_between"):
                machine = machine.copy()
            for xy in revive:
                machine.dead_chips.discard(xy)
            for xy, rs in e["history"]:
                if tuple(xy) in revive:
                    continue                    # this chip keeps the exception it was built with
                machine[tuple(xy)] = OrderedDict((r, q) for r, q in rs)
            a = allocate(vres, [], machine, cs, pl)
        elif e and e["how"] == "wrapper":
            import warnings
            from rig.place_and_route.wrapper import wrapper
            warnings.simplefilter("ignore")
            a = wrapper(vres, {v: "app" for v in vres}, [], {}, machine, mk_constraints(e["user"], c.get("subclass")),
                        reserve_monitor=e["reserve_monitor"], align_sdram=e["align_sdram"],
                        place=lambda *a, **k: pl, route=lambda *a, **k: {},
                        core_resource=e["core_resource"], sdram_resource=e["sdram_resource"])[1]
        elif e and e["how"] == "pnr_wrapper":
            from rig.place_and_route.wrapper import place_and_route_wrapper
            from rig.machine_control.machine_controller import SystemInfo, ChipInfo
            from rig.machine_control.consts import AppState
            si = SystemInfo(m["w"], m["h"], OrderedDict(
                (tuple(xy), ChipInfo(num_cores=n, core_states=[AppState[st] for st in states], working_links=set(),
                                     largest_free_sdram_block=sd, largest_free_sram_block=sr))
                for xy, n, states, sd, sr in e["info"]))
            a = place_and_route_wrapper(vres, {v: "app" for v in vres}, [], {}, si, mk_constraints(e["user"], False),
                                        place=lambda *a, **k: pl, route=lambda *a, **k: {},
                                        core_resource=e["core_resource"], sdram_resource=1, sram_resource=2)[1]
        else:
            a = allocate(vres, [], machine, cs, pl)
    except InsufficientResourceError:
        return ["fail", 0]
    except Exception as e:
        return ["other", type(e).__name__]
    return ["ok", [[v, [[fr.back(r), s.start, s.stop] for r, s in ra.items()]] for v, ra in a.items()]]


if __name__ == "__main__":
    import implutil
    implutil.run_cases(run_case, per_case_s=30)     # the long-scan cases take about a second idle
