(* What C12 asks of the flood-fill region list, stated on inputs and outputs only.  Definitions only.

   The documented meaning of a region word (module docstring of rig/machine_control/regions.py, the
   docstring and comments of get_region_for_chip, "Managing Big SpiNNaker Machines"; it is how SC&MP
   decides whether a chip is inside a region: the chip compares the word's top sixteen bits with its
   own coordinates truncated to the block size of the word's level, then looks up its own sub-block
   bit):

     bits 31:24   x coordinate of the block          }  "sig bits x | sig bits y | 2-bit level"
     bits 23:18   y coordinate of the block  (>> 2)   }
     bits 17:16   level l (0 coarsest ... 3 finest)
     bits 15:0    one select bit for each of the 4 x 4 sub-blocks of the block

   A level-l block is a square of side 4^(4-l) chips whose corner is a multiple of its side; its
   sixteen sub-blocks have side 4^(3-l); sub-block (i, j) (i along x, j along y, both 0..3) is select
   bit i + 4 j.  It is written here with division and remainder, on purpose not with the shifts and
   masks of the code.  *)
From Coq Require Import ZArith List Bool Sorted.
Require Import Rig.Model.Regions.
Import ListNotations.
Open Scope Z_scope.

Definition word_level (w : Z) : Z := (w / 2 ^ 16) mod 4.
Definition word_x (w : Z) : Z := (w / 2 ^ 24) mod 256.
Definition word_y (w : Z) : Z := (w / 2 ^ 16) mod 256 - word_level w.
Definition word_blocks (w : Z) : Z := w mod 2 ^ 16.

(* side of one of the sixteen sub-blocks of a level-l block *)
Definition sub_side (l : Z) : Z := 4 ^ (3 - l).

(* chip (x, y) is inside the region denoted by the word w *)
Definition selects (w x y : Z) : bool :=
  let s := sub_side (word_level w) in
  (x / (4 * s) * (4 * s) =? word_x w) && (y / (4 * s) * (4 * s) =? word_y w)
  && Z.testbit (word_blocks w) ((x / s) mod 4 + 4 * ((y / s) mod 4)).

(* core p of chip (x, y) is selected by the flood-fill core select packet (region, core mask) *)
Definition pair_selects (rc : Z * Z) (x y p : Z) : bool :=
  selects (fst rc) x y && Z.testbit (snd rc) p.

(* by how many of the emitted pairs the core is selected *)
Definition times_selected (out : list (Z * Z)) (x y p : Z) : nat :=
  length (filter (fun rc => pair_selects rc x y p) out).

(* the core space of a SpiNNaker machine as far as region words can address it *)
Definition in_space (c : core) : Prop :=
  let '(x, y, p) := c in 0 <= x < 256 /\ 0 <= y < 256 /\ 0 <= p < 18.

Definition core_eqb (a b : core) : bool :=
  let '(x, y, p) := a in let '(x', y', p') := b in (x =? x') && (y =? y') && (p =? p').

(* (x, y, p) occurs in the sequence of requested cores (duplicates and any order allowed) *)
Definition requested (cs : list core) (x y p : Z) : bool := existsb (core_eqb (x, y, p)) cs.

(* the order the loader needs: the pairs strictly increasing, lexicographically ... *)
Definition pair_lt (a b : Z * Z) : Prop := fst a < fst b \/ (fst a = fst b /\ snd a < snd b).
(* ... equivalently as the number `(region << 18) | core_mask` of MachineController._send_ffcs *)
Definition ffcs_key (rc : Z * Z) : Z := fst rc * 2 ^ 18 + snd rc.

(* the words and masks are 32-bit region words and non-empty 18-bit core masks *)
Definition pair_well_formed (rc : Z * Z) : Prop := 0 <= fst rc < 2 ^ 32 /\ 0 < snd rc < 2 ^ 18.
