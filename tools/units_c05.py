UNITS = {
    "GenAlloc": dict(
        props=["C05", "C01", "C17"],
        functions=[
            dict(file="rig/place_and_route/allocate/utils.py", name="slices_overlap",
                 coq="slices_overlap", params={"slice_a": "slice", "slice_b": "slice"},
                 ret="bool"),
            dict(file="rig/place_and_route/allocate/utils.py", name="align",
                 coq="align", params={"value": "Z", "alignment": "Z"}, ret="Z"),
        ]),
    "GenWrapper": dict(props=["C05"], dumper="dump_c05w.py"),
}
