(* C15 -- SDP and SCP packets encode to the wire layout and decode back unchanged.

   Theorems only; each is closed by `exact` of a lemma of Proofs/Packet.v / Proofs/PacketCodec.v.
   The model (Model/Packet.v) packs and unpacks with the struct format STRINGS, flag constants, header value
   expressions (masks, shifts, order of x and y), decode expressions, slice offsets and argument guards that
   Generated/GenPackets.v takes from rig/machine_control/packets.py on every run, so these theorems are
   re-checked against the current text of the source.  The layout itself (Spec/Packet.v: sdp_wire, scp_wire)
   is written independently, byte by byte, with plain arithmetic. *)
From Coq Require Import ZArith String List Bool.
Require Import Rig.Generated.GenPackets Rig.Model.Base Rig.Model.Packet Rig.Spec.Packet.
Require Import Rig.Model.PacketObj Rig.Spec.PacketObj Rig.Proofs.Packet Rig.Proofs.PacketCodec Rig.Proofs.PacketObj.
Import ListNotations.
Open Scope Z_scope.

(* ---- 1. Encoding produces the documented layout.
   For every packet whose fields are within their widths (3-bit ports, 5-bit cores, 8-bit tag and
   coordinates, 16-bit cmd_rc and seq, 32-bit arguments), every payload, 0-3 arguments present in any
   combination: two padding bytes, flags (0x87/0x07), tag, 32*dest_port+dest_cpu, 32*src_port+src_cpu,
   dest_y, dest_x, src_y, src_x; then for SCP cmd_rc, seq (16-bit little endian), each present argument
   (32-bit little endian), the payload. *)
Theorem C15_sdp_layout :
  forall p, sdp_in_width p -> sdp_bytes p = Ok (sdp_wire p).
Proof. exact sdp_layout. Qed.

Theorem C15_scp_layout :
  forall q, scp_in_width q -> scp_bytes q = Ok (scp_wire q).
Proof. exact scp_layout. Qed.

(* the encodings are byte strings (every element 0..255) when the payload is *)
Theorem C15_scp_wire_wellformed :
  forall q, scp_in_width q -> bytes (data (sdp_part q)) -> bytes (scp_wire q).
Proof. exact scp_wire_bytes. Qed.

Theorem C15_sdp_wire_wellformed :
  forall p, sdp_in_width p -> bytes (data p) -> bytes (sdp_wire p).
Proof. exact sdp_wire_bytes. Qed.

(* ---- 1b. Outside the widths (the error branch, stated, for every packet of integers): ports and cores
   are reduced modulo 8 / 32 by the code's masks and never raise; any other field outside its width makes
   struct.pack raise (struct.error = OtherError) and nothing else does. *)
Theorem C15_sdp_bytes_outcome :
  forall p, (sdp_packable p /\ sdp_bytes p = Ok (sdp_wire (mask_ports p)))
            \/ (~ sdp_packable p /\ sdp_bytes p = OtherError).
Proof. exact sdp_bytes_outcome. Qed.

Theorem C15_scp_bytes_outcome :
  forall q, (scp_packable q /\ scp_bytes q = Ok (scp_wire (scp_mask_ports q)))
            \/ (~ scp_packable q /\ scp_bytes q = OtherError).
Proof. exact scp_bytes_outcome. Qed.

(* Finding repaired in /repo (fix commit e289d40, key numpy-int8-port): before the repair the port/core byte was
   computed without int(); for a port given as numpy.int8 the shift `(port & 7) << 5` is done in int8, so a port
   of 4..7 (within its 3-bit width) produced a negative value and struct.pack raised.  With int() the
   expression is the one of Generated/GenPackets.v over unbounded integers, to which theorem 1 applies. *)
Theorem C15_port_byte_int8_orig_refuted :
  exists port cpu, 0 <= port < 8 /\ 0 <= cpu < 32
                   /\ ~ byte (Z.lor (wrap_int8 (Z.shiftl (Z.land port 7) 5)) (Z.land cpu 31)).
Proof. exact port_byte_int8_orig. Qed.

(* ---- 2. Decoding those bytes with the same argument count yields a packet equal in every field
   (equality of the whole record: header fields, cmd_rc, seq, the three arguments, the payload). *)
Theorem C15_sdp_decode_encode :
  forall p, sdp_in_width p -> exists bs, sdp_bytes p = Ok bs /\ sdp_of_bytes bs = Ok p.
Proof. exact sdp_decode_encode. Qed.

Theorem C15_scp_decode_encode :
  forall q, scp_in_width q -> args_prefix q ->
            exists bs, scp_bytes q = Ok bs /\ scp_of_bytes bs (n_present q) = Ok q.
Proof. exact scp_decode_encode. Qed.

(* The guard args_prefix (the present arguments are arg1..argk) is necessary, not a convenience: the wire
   carries no presence bits, decoding ALWAYS returns a prefix, so a packet such as (arg1 absent, arg2 = 5)
   is the decoding of no byte string under any n_args. *)
Theorem C15_decoded_args_are_a_prefix :
  forall bs n q, scp_of_bytes bs n = Ok q -> args_prefix q.
Proof. exact decoded_args_prefix. Qed.

Theorem C15_roundtrip_without_prefix_refuted :
  scp_in_width nonprefix_witness /\ ~ args_prefix nonprefix_witness
  /\ scp_bytes nonprefix_witness = Ok [0; 0; 7; 255; 34; 255; 4; 3; 0; 0; 1; 0; 0; 0; 5; 0; 0; 0]
  /\ forall bs n, scp_of_bytes bs n <> Ok nonprefix_witness.
Proof. exact roundtrip_needs_prefix. Qed.

(* ---- 3. Every field survives over its full width without disturbing its neighbours: two in-width
   packets that differ in one field only have encodings that differ only in the bits that field owns
   (header fields: their byte, ports the top three bits and cores the low five bits of the shared byte;
   cmd_rc bytes 10-11; seq 12-13; an argument its four bytes; the payload everything after the arguments),
   and have the same length unless the payload changed.  (That the field's own bits carry its whole value is
   theorems 1 and 2.) *)
Theorem C15_scp_field_isolation :
  forall f q q', scp_in_width q -> scp_in_width q' -> same_except f q q' ->
    exists bs bs', scp_bytes q = Ok bs /\ scp_bytes q' = Ok bs' /\ differ_only_in f q bs bs'.
Proof. exact scp_field_isolation. Qed.

Theorem C15_sdp_field_isolation :
  forall f p p', sdp_in_width p -> sdp_in_width p' -> sdp_same_except f p p' ->
    exists bs bs', sdp_bytes p = Ok bs /\ sdp_bytes p' = Ok bs' /\ sdp_differ_only_in f bs bs'.
Proof. exact sdp_field_isolation. Qed.

(* ---- 4. Decoding ANY byte string that holds a complete header (no other assumption: any bytes, any
   n_args, negative included): every field is read from its documented position, and exactly
   args_taken n_args len = max 0 (min n_args ((len - 14) / 4) 3) arguments are taken -- as many as both the
   caller allows and the data contains -- the rest, from byte 14 + 4k on, is the payload.  This covers the
   lengths 14+1 .. 14+11 that end inside the argument words.  Shorter strings raise (struct.error). *)
Theorem C15_scp_decode_args_min :
  forall bs n_args, (14 <= length bs)%nat ->
    exists q, scp_of_bytes bs n_args = Ok q /\ scp_decoded bs n_args q.
Proof. exact scp_decode_spec. Qed.

Theorem C15_scp_decode_short_raises :
  forall bs n_args, (length bs < 14)%nat -> scp_of_bytes bs n_args = OtherError.
Proof. exact scp_of_bytes_short. Qed.

Theorem C15_sdp_decode :
  forall bs, (10 <= length bs)%nat -> exists p, sdp_of_bytes bs = Ok p /\ sdp_decoded bs p.
Proof. exact sdp_decode_spec. Qed.

Theorem C15_sdp_decode_short_raises :
  forall bs, (length bs < 10)%nat -> sdp_of_bytes bs = OtherError.
Proof. exact sdp_of_bytes_short. Qed.

(* ---- 4b. Why the SAME argument count is required: a packet encoded with k < 3 arguments (a prefix) whose
   payload has at least 4(3-k) bytes, decoded with n_args = 3, comes back with three arguments -- the extra ones
   read from the payload, which is shortened by those words; the arguments that were present are unchanged. *)
Theorem C15_scp_decode_with_larger_count_takes_payload :
  forall q, scp_in_width q -> args_prefix q -> arg3 q = None ->
    (4 * (3 - Z.to_nat (n_present q)) <= length (data (sdp_part q)))%nat ->
    exists q', scp_of_bytes (scp_wire q) 3 = Ok q'
               /\ arg1 q' <> None /\ arg2 q' <> None /\ arg3 q' <> None
               /\ data (sdp_part q') = skipn (4 * (3 - Z.to_nat (n_present q))) (data (sdp_part q))
               /\ (arg1 q <> None -> arg1 q' = arg1 q) /\ (arg2 q <> None -> arg2 q' = arg2 q).
Proof. exact scp_decode_more_args. Qed.

(* n_args = 0 with a 12-byte payload: nothing is taken; a negative n_args: nothing is taken *)
Example C15_decode_n_args_zero :
  exists q, scp_of_bytes [0; 0; 135; 1; 2; 3; 4; 5; 6; 7; 8; 9; 10; 11;
                          21; 22; 23; 24; 25; 26; 27; 28; 29; 30; 31; 32] 0 = Ok q
            /\ arg1 q = None /\ arg2 q = None /\ arg3 q = None
            /\ data (sdp_part q) = [21; 22; 23; 24; 25; 26; 27; 28; 29; 30; 31; 32].
Proof. exact ex_decode_n_args_0. Qed.

Example C15_decode_negative_n_args :
  exists q, scp_of_bytes [0; 0; 7; 1; 2; 3; 4; 5; 6; 7; 8; 9; 10; 11; 21; 22; 23; 24; 25] (-2) = Ok q
            /\ arg1 q = None /\ arg2 q = None /\ arg3 q = None /\ data (sdp_part q) = [21; 22; 23; 24; 25]
            /\ args_taken (-2) 19 = 0%nat.
Proof. exact ex_decode_negative_n_args. Qed.

(* ---- 5. The other direction: a datagram (bytes, zero padding, flags 0x87 or 0x07) decoded with ANY n_args
   re-encodes to exactly the datagram. *)
Theorem C15_scp_reencode :
  forall bs n q, bytes bs -> nth 0 bs 0 = 0 -> nth 1 bs 0 = 0 -> (nth 2 bs 0 = 135 \/ nth 2 bs 0 = 7) ->
                 scp_of_bytes bs n = Ok q -> scp_bytes q = Ok bs.
Proof. exact scp_reencode. Qed.

Theorem C15_sdp_reencode :
  forall bs p, bytes bs -> nth 0 bs 0 = 0 -> nth 1 bs 0 = 0 -> (nth 2 bs 0 = 135 \/ nth 2 bs 0 = 7) ->
               sdp_of_bytes bs = Ok p -> sdp_bytes p = Ok bs.
Proof. exact sdp_reencode. Qed.

(* ---- 6. Packet OBJECTS (Model/PacketObj.v): field values are Python values -- None, ints, numpy integer
   scalars of any width / signedness, reply_expected anything with a truth value.  The encoding of an object
   depends on its class, the truth value of reply_expected, the INTEGER values of the fields and the payload
   only (the proof reads the generated fact that the source coerces the port / core operands with int()). *)
Theorem C15_object_bytes_depend_on_values_only :
  forall o o', obj_view o = obj_view o' -> obj_bytes o = obj_bytes o'.
Proof. exact obj_bytes_values_only. Qed.

Theorem C15_numpy_scalar_is_its_integer :
  forall o f b s z, obj_bytes (obj_set o f (PNp b s z)) = obj_bytes (obj_set o f (PInt z)).
Proof. exact obj_bytes_numpy. Qed.

Theorem C15_flag_is_its_truth_value :
  forall o v v', truth v = truth v' -> obj_bytes (obj_set o LReply v) = obj_bytes (obj_set o LReply v').
Proof. exact obj_bytes_truth. Qed.

(* a required field still None: the encode raises; all present and in width: the documented layout *)
Theorem C15_object_with_none_raises :
  forall o, In PNone (if o_scp o then scp_required o else sdp_required o) -> obj_bytes o = OtherError.
Proof. exact obj_bytes_none. Qed.

Theorem C15_object_scp_layout :
  forall o q, o_scp o = true -> obj_scp o = Some q -> scp_in_width q -> obj_bytes o = Ok (scp_wire q).
Proof. exact obj_bytes_scp_ok. Qed.

Theorem C15_object_sdp_layout :
  forall o p, o_scp o = false -> obj_sdp o = Some p -> sdp_in_width p -> obj_bytes o = Ok (sdp_wire p).
Proof. exact obj_bytes_sdp_ok. Qed.

(* NOTE on sections 7 and 8 (outside the property text; added for the reuse / buffer streams of the harness):
   history independence and buffer-reuse stability are STRUCTURAL in the model -- an object is an immutable record
   of current values, decoding builds a value from a copied list -- so these theorems state how the model is
   built rather than discover anything.  That the implementation behaves like this model (no cached header, no
   aliasing of the caller's buffer, a failed encode leaving the object intact) is established only by the
   correspondence run of whole histories (harness, obligation correspondence:histories) and the per-step oracle.
   Not covered by any theorem: concurrent encodes (thread search in the harness only); a memoryview passed by
   the caller (aliases by the caller's choice); which exception class (TypeError / struct.error) is raised. *)

(* ---- 7. Histories on ONE object (encode / assign a field / change the bytearray payload in place / encode):
   every encode of a history, whatever came before it -- earlier encodes, failed encodes, assignments -- is the
   encoding of the values the object holds at that moment. *)
Theorem C15_history_encode_is_of_current_values :
  forall pre o post,
    run_obj o (pre ++ OEnc :: post)
    = run_obj o pre ++ obj_bytes (fold_left obj_apply pre o) :: run_obj (fold_left obj_apply pre o) post.
Proof. exact run_obj_app_enc. Qed.

Theorem C15_failed_encode_then_repair :
  forall o f v q, o_scp o = true -> In PNone (scp_required o) ->
    obj_scp (obj_set o f v) = Some q -> scp_in_width q ->
    run_obj o [OEnc; OSet f v; OEnc; OEnc] = [OtherError; Ok (scp_wire q); Ok (scp_wire q)].
Proof. exact run_obj_repair. Qed.

(* ---- 8. Decoding copies: the object decoded from a caller's buffer is, after ANY later overwriting of that or
   any other buffer, any later decodes and any edits of OTHER decoded objects, still the decoding of the bytes
   the buffer held at that time; looked at again it shows those fields and encodes to exactly those bytes. *)
Theorem C15_decoded_object_survives_buffer_reuse :
  forall st is_scp bs n ops, untouched (length (objs st)) ops ->
    nth (length (objs st)) (objs (fold_left dstep ops (dstep st (DDec is_scp bs n)))) None = decode is_scp bs n.
Proof. exact decoded_object_stable. Qed.

Theorem C15_recheck_after_buffer_reuse :
  forall st is_scp bs n ops k,
    datagram bs -> decode is_scp bs n = Some k -> untouched (length (objs st)) ops ->
    dshow (fold_left dstep ops (dstep st (DDec is_scp bs n))) (DRecheck (length (objs st)))
    = [ORechecked (Some k) (Some (Ok bs))].
Proof. exact recheck_after_reuse. Qed.

Example C15_object_history_instance :
  run_obj ex_obj [OEnc; OSet LTag (PInt 255); OEnc; OPoke 1 9; OEnc]
  = [OtherError;
     Ok [0; 0; 135; 255; 177; 255; 4; 200; 0; 0; 3; 0; 255; 255; 7; 0; 0; 0; 1; 2];
     Ok [0; 0; 135; 255; 177; 255; 4; 200; 0; 0; 3; 0; 255; 255; 7; 0; 0; 0; 1; 9]].
Proof. exact ex_obj_history. Qed.

Example C15_buffer_reuse_instance :
  drun dstate0 [DDec true [0; 0; 7; 1; 2; 3; 4; 5; 6; 7; 8; 9; 10; 11; 12; 13] 3;
                DOverwrite 0 [0; 0; 7; 9; 9; 9; 9; 9; 9; 9; 9; 9; 9; 9; 9; 9];
                DRecheck 0]
  = [ODecoded (decode true [0; 0; 7; 1; 2; 3; 4; 5; 6; 7; 8; 9; 10; 11; 12; 13] 3);
     ORechecked (decode true [0; 0; 7; 1; 2; 3; 4; 5; 6; 7; 8; 9; 10; 11; 12; 13] 3)
                (Some (Ok [0; 0; 7; 1; 2; 3; 4; 5; 6; 7; 8; 9; 10; 11; 12; 13]))].
Proof. exact ex_buffer_reuse. Qed.

(* ---- Non-vacuity: a packet with every port/core/cmd_rc/arg1 at the top of its width, two arguments and
   a payload satisfies the hypotheses, encodes to the bytes shown and decodes back to itself; a string whose
   payload ends inside the second argument word; a pair of packets related by same_except. *)
Example C15_hypotheses_satisfiable :
  scp_in_width ex_scp /\ args_prefix ex_scp /\ n_present ex_scp = 2
  /\ scp_bytes ex_scp = Ok [0; 0; 135; 255; 241; 255; 254; 255; 2; 1; 255; 255; 2; 1;
                           255; 255; 255; 255; 3; 2; 1; 0; 9; 8; 7]
  /\ bind (scp_bytes ex_scp) (fun bs => scp_of_bytes bs 2) = Ok ex_scp.
Proof. exact ex_scp_instance. Qed.

Example C15_decode_inside_argument_word :
  exists q, scp_of_bytes [0; 0; 7; 1; 2; 3; 4; 5; 6; 7; 8; 9; 10; 11; 12; 13; 14; 15; 16; 17] 3 = Ok q
            /\ arg1 q = Some 252579084 /\ arg2 q = None /\ arg3 q = None /\ data (sdp_part q) = [16; 17].
Proof. exact ex_decode_inside_word. Qed.

Example C15_same_except_satisfiable :
  same_except FDestCpu ex_scp
    {| sdp_part := {| reply_expected := true; tag := 255; dest_port := 7; dest_cpu := 0; src_port := 7;
                      src_cpu := 31; dest_x := 255; dest_y := 254; src_x := 1; src_y := 2; data := [9; 8; 7] |};
       cmd_rc := 65535; seq := 258; arg1 := Some 4294967295; arg2 := Some 66051; arg3 := None |}.
Proof. exact ex_same_except. Qed.
