(* Completeness of the sequential family under the premise of the property's last sentence
   (Spec.unit_premise): every vertex needs at most one unit of a single resource, no same-chip groups,
   location-constrained vertices fit, reservations fit, the total free capacity suffices.  Then
   seq_place succeeds for every vertex order listing the vertices and every chip order listing each
   working chip exactly once. *)
From Coq Require Import ZArith List Bool Lia Permutation.
Require Import Rig.Model.Base Rig.Model.Place Rig.Spec.Place Rig.Proofs.Place Rig.Proofs.PlaceCore
        Rig.Proofs.PlaceMerge Rig.Proofs.PlaceSeq.
Import ListNotations.
Open Scope Z_scope.

(* ---------------------------------------------------------------------------------------------- *)
(* Without same-chip constraints the merging phase changes nothing                                  *)
(* ---------------------------------------------------------------------------------------------- *)
Lemma apply_sc_none : forall todo done vr subs,
  (forall vs, ~ In (PCSameChip vs) todo) ->
  apply_sc (fun v => v) done todo vr subs = Ok (vr, done ++ todo, subs).
Proof.
  induction todo as [|k rest IH]; intros done vr subs Hn; cbn [apply_sc].
  - rewrite app_nil_r. reflexivity.
  - assert (Hn' : forall vs, ~ In (PCSameChip vs) rest) by (intros vs H; apply (Hn vs); right; exact H).
    assert (Hassoc : (done ++ [k]) ++ rest = done ++ k :: rest) by (rewrite <- app_assoc; reflexivity).
    destruct k as [v l | vs | r s e loc | ]; cbn [subst_c].
    + rewrite IH by exact Hn'. rewrite Hassoc. reflexivity.
    + exfalso. apply (Hn vs). left. reflexivity.
    + rewrite IH by exact Hn'. rewrite Hassoc. reflexivity.
    + rewrite IH by exact Hn'. rewrite Hassoc. reflexivity.
Qed.

(* ---------------------------------------------------------------------------------------------- *)
(* Sums                                                                                             *)
(* ---------------------------------------------------------------------------------------------- *)
Lemma sumf_plus : forall {A} (f g : A -> Z) l, sumf (fun x => f x + g x) l = sumf f l + sumf g l.
Proof.
  intros A f g l. unfold sumf. induction l as [|x t IH]; cbn [map fold_right]; [reflexivity|]. rewrite IH. lia.
Qed.

Lemma sumf_sub : forall {A} (g' g d : A -> Z) l,
  (forall x, In x l -> g' x = g x - d x) -> sumf g' l = sumf g l - sumf d l.
Proof.
  intros A g' g d l. unfold sumf. induction l as [|x t IH]; intros H; cbn [map fold_right]; [reflexivity|].
  rewrite IH by (intros y Hy; apply H; right; exact Hy). rewrite (H x (or_introl eq_refl)). lia.
Qed.

Lemma sumf_zero : forall {A} (g : A -> Z) l, (forall x, In x l -> g x = 0) -> sumf g l = 0.
Proof.
  intros A g l. unfold sumf. induction l as [|x t IH]; intros H; cbn [map fold_right]; [reflexivity|].
  rewrite IH by (intros y Hy; apply H; right; exact Hy). rewrite (H x (or_introl eq_refl)). reflexivity.
Qed.

Lemma sumf_le : forall {A} (f g : A -> Z) l, (forall x, In x l -> f x <= g x) -> sumf f l <= sumf g l.
Proof.
  intros A f g l. unfold sumf. induction l as [|x t IH]; intros H; cbn [map fold_right]; [lia|].
  specialize (IH (fun y Hy => H y (or_intror Hy))). specialize (H x (or_introl eq_refl)). lia.
Qed.

Lemma sumf_nonneg : forall {A} (g : A -> Z) l, (forall x, In x l -> 0 <= g x) -> 0 <= sumf g l.
Proof.
  intros A g l H. rewrite <- (sumf_zero (fun _ : A => 0) l (fun _ _ => eq_refl)). apply sumf_le. exact H.
Qed.

Lemma sumf_indicator : forall (l : list chip) c x, NoDup l -> In c l ->
  sumf (fun c' => if chip_eqb c c' then x else 0) l = x.
Proof.
  intros l c x. unfold sumf. induction l as [|h t IH]; intros Hnd Hin; [destruct Hin|].
  inversion Hnd as [|? ? Hni Hnd']. subst. cbn [map fold_right]. destruct Hin as [Hin | Hin].
  - subst h. rewrite chip_eqb_refl.
    assert (Hz : fold_right Z.add 0 (map (fun c' => if chip_eqb c c' then x else 0) t) = 0).
    { apply (sumf_zero (fun c' => if chip_eqb c c' then x else 0) t). intros y Hy.
      destruct (chip_eqb c y) eqn:E; [|reflexivity]. apply chip_eqb_eq in E. subst. contradiction. }
    rewrite Hz. lia.
  - rewrite (IH Hnd' Hin). destruct (chip_eqb c h) eqn:E; [|lia]. apply chip_eqb_eq in E. subst. contradiction.
Qed.

Lemma sumf_exists_pos : forall {A} (g : A -> Z) l, 0 < sumf g l -> exists x, In x l /\ 0 < g x.
Proof.
  intros A g l. unfold sumf. induction l as [|x t IH]; intros H; cbn [map fold_right] in H; [lia|].
  destruct (Z_lt_le_dec 0 (g x)) as [Hp | Hn].
  - exists x. split; [left; reflexivity | exact Hp].
  - destruct IH as [y [Hy Hgy]]; [lia|]. exists y. split; [right; exact Hy | exact Hgy].
Qed.

(* ---------------------------------------------------------------------------------------------- *)
(* reserved / greserved are monotone when reservations are ranges                                   *)
(* ---------------------------------------------------------------------------------------------- *)
Definition ranges_ok (cs : list pconstr) : Prop := forall r s e loc, In (PCReserve r s e loc) cs -> s <= e.

Lemma reserved_nonneg : forall cs c r, ranges_ok cs -> 0 <= reserved cs c r.
Proof.
  intros cs c r. induction cs as [|k t IH]; intros H; cbn [reserved]; [lia|].
  assert (IH' : 0 <= reserved t c r) by (apply IH; intros r' s e loc Hin; apply (H r' s e loc); right; exact Hin).
  destruct k as [| | r' s e loc |]; try exact IH'.
  assert (s <= e) by (apply (H r' s e loc); left; reflexivity).
  destruct (reserve_applies c r r' loc); lia.
Qed.

Lemma greserved_nonneg : forall cs r, ranges_ok cs -> 0 <= greserved cs r.
Proof.
  intros cs r. induction cs as [|k t IH]; intros H; cbn [greserved]; [lia|].
  assert (IH' : 0 <= greserved t r) by (apply IH; intros r' s e loc Hin; apply (H r' s e loc); right; exact Hin).
  destruct k as [| | r' s e [c|] |]; try exact IH'.
  assert (s <= e) by (apply (H r' s e None); left; reflexivity).
  destruct (r =? r'); lia.
Qed.

Lemma greserved_app : forall a b r, greserved (a ++ b) r = greserved a r + greserved b r.
Proof.
  intros a b r. induction a as [|k t IH]; cbn [app greserved]; [lia|].
  destruct k as [| | r' s e [c|] |]; rewrite IH; lia.
Qed.

Lemma ranges_ok_app : forall a b, ranges_ok (a ++ b) -> ranges_ok a /\ ranges_ok b.
Proof.
  intros a b H. split; intros r s e loc Hin; apply (H r s e loc); apply in_app_iff; [left | right]; exact Hin.
Qed.

(* ---------------------------------------------------------------------------------------------- *)
(* Exact bookkeeping                                                                                *)
(* ---------------------------------------------------------------------------------------------- *)
Lemma load_set_new : forall (vr : vresources) pl v d c c' r,
  NoDup (map fst vr) -> zassoc v vr = Some d -> zassoc v pl = None ->
  load vr (pl_set v c pl) c' r = load vr pl c' r + (if chip_eqb c c' then rget r d else 0).
Proof.
  intros vr pl v d c c' r. unfold load. induction vr as [|[u du] t IH]; intros Hnd Hz Hnew.
  - cbn [zassoc] in Hz. discriminate.
  - cbn [map fold_right fst snd]. cbn [map fst] in Hnd. inversion Hnd as [|? ? Hni Hnd']. subst.
    cbn [zassoc] in Hz. rewrite on_chip_set. destruct (v =? u) eqn:E.
    + apply Z.eqb_eq in E. subst u. inversion Hz. subst du. rewrite Z.eqb_refl.
      pose proof (load_set_other t pl v c c' r Hni) as Hoth. unfold load in Hoth. rewrite Hoth.
      unfold on_chip at 2. rewrite Hnew. destruct (chip_eqb c c'); lia.
    + assert (E' : (u =? v) = false) by (rewrite Z.eqb_sym; exact E). rewrite E'.
      rewrite (IH Hnd' Hz Hnew). lia.
Qed.

Record InvEq (vr : vresources) (m0 : pmachine) (done : list pconstr) (m : pmachine) (pl : placement) : Prop := {
  ie_frame : same_frame m0 m;
  ie_keys : forall c, live m0 c = true -> map fst (chip_res m c) = map fst (chip_res m0 c);
  ie_eq : forall c r, live m0 c = true -> In r (map fst (chip_res m0 c)) ->
          rget r (chip_res m c) = rget r (chip_res m0 c) - reserved done c r - load vr pl c r;
  ie_res_keys : map fst (pm_res m) = map fst (pm_res m0);
  ie_res_eq : forall r, In r (map fst (pm_res m0)) -> rget r (pm_res m) = rget r (pm_res m0) - greserved done r;
  ie_exc_nodup : NoDup (map fst (pm_exc m));
  ie_exc_known : forall c d r, cassoc c (pm_exc m) = Some d -> resource_known m0 r -> In r (map fst d) }.

Lemma InvEq_init : forall vr m, NoDup (map fst (pm_exc m)) -> InvEq vr m [] m [].
Proof.
  intros vr m Hnd. constructor.
  - apply same_frame_refl.
  - reflexivity.
  - intros c r _ _. cbn [reserved]. rewrite load_nil. lia.
  - reflexivity.
  - intros r _. cbn [greserved]. lia.
  - exact Hnd.
  - intros c d r Hc [_ Hk]. apply (Hk c d). apply cassoc_In. exact Hc.
Qed.

Lemma InvEq_skip : forall vr m0 done m pl k,
  (forall c r, reserved [k] c r = 0) -> (forall r, greserved [k] r = 0) ->
  InvEq vr m0 done m pl -> InvEq vr m0 (done ++ [k]) m pl.
Proof.
  intros vr m0 done m pl k Hk Hg [H1 H2 H3 H4 H5 H6 H7]. constructor; try assumption.
  - intros c r Hl Hr. rewrite reserved_app, Hk. rewrite (H3 c r Hl Hr). lia.
  - intros r Hr. rewrite greserved_app, Hg. rewrite (H5 r Hr). lia.
Qed.

Lemma chip_res_known : forall vr m0 done m pl c r,
  InvEq vr m0 done m pl -> resource_known m0 r -> In r (map fst (chip_res m c)).
Proof.
  intros vr m0 done m pl c r Hinv Hk. unfold chip_res. destruct (cassoc c (pm_exc m)) as [d|] eqn:E.
  - apply (ie_exc_known _ _ _ _ _ Hinv c d r E Hk).
  - rewrite (ie_res_keys _ _ _ _ _ Hinv). destruct Hk as [Hk _]. exact Hk.
Qed.

Lemma InvEq_place : forall vr m0 done m pl v d c m',
  NoDup (map fst vr) -> InvEq vr m0 done m pl ->
  zassoc v vr = Some d -> zassoc v pl = None -> live m0 c = true ->
  mset m c (subtract_resources (chip_res m c) d) = Some m' ->
  InvEq vr m0 done m' (pl_set v c pl).
Proof.
  intros vr m0 done m pl v d c m' Wnd Hinv Hz Hnew Hl Hset.
  pose proof (fun r => chip_res_known vr m0 done m pl c r Hinv) as Hknown.
  destruct Hinv as [Hfr Hk Heq Hrk Hre Hnd Hek].
  apply mset_spec in Hset. destruct Hset as [Hfr' [Hres [Hlive [Hexc Hcr]]]].
  constructor.
  - eapply same_frame_trans; eassumption.
  - intros c' Hl'. rewrite Hcr. destruct (chip_eqb c' c) eqn:E.
    + apply chip_eqb_eq in E. subst c'. rewrite subtract_keys. apply Hk. exact Hl.
    + apply Hk. exact Hl'.
  - intros c' r Hl' Hr. rewrite Hcr.
    rewrite (load_set_new vr pl v d c c' r Wnd Hz Hnew). specialize (Heq c' r Hl' Hr).
    destruct (chip_eqb c' c) eqn:E.
    + apply chip_eqb_eq in E. subst c'. rewrite chip_eqb_refl.
      rewrite rget_subtract by (rewrite Hk by exact Hl; exact Hr). lia.
    + rewrite chip_eqb_sym in E. rewrite E. lia.
  - rewrite Hres. exact Hrk.
  - intros r Hr. rewrite Hres. apply Hre. exact Hr.
  - rewrite Hexc. apply cupdate_NoDup. exact Hnd.
  - intros c' d' r Hc Hkn. rewrite Hexc, cassoc_cupdate in Hc. destruct (chip_eqb c' c).
    + inversion Hc. subst d'. rewrite subtract_keys. apply Hknown. exact Hkn.
    + apply (Hek c' d' r Hc Hkn).
Qed.

Lemma overallocated_false_intro : forall a, (forall r q, In (r, q) a -> 0 <= q) -> overallocated a = false.
Proof.
  intros a H. unfold overallocated. destruct (existsb (fun rq => snd rq <? 0) a) eqn:E; [|reflexivity].
  apply existsb_exists in E. destruct E as [[r q] [Hin Hlt]]. cbn [snd] in Hlt. apply Z.ltb_lt in Hlt.
  specialize (H r q Hin). lia.
Qed.

Lemma entries_of_rget : forall a, NoDup (map fst a) -> (forall r, In r (map fst a) -> 0 <= rget r a) ->
  forall r q, In (r, q) a -> 0 <= q.
Proof.
  intros a Hnd H r q Hin. assert (Hq : rget r a = q).
  { unfold rget. rewrite (zassoc_NoDup_In r q a Hnd Hin). reflexivity. }
  rewrite <- Hq. apply H. apply in_map_iff. exists (r, q). split; [reflexivity | exact Hin].
Qed.

(* reserve_exceptions succeeds when every entry knows the resource and no working chip is overdrawn *)
Lemma reserve_exceptions_ok : forall todo m r size,
  NoDup (map fst todo) ->
  (forall c, In c (map fst todo) ->
     exists d d', cassoc c (pm_exc m) = Some d /\ after_reservation d r size = Some d'
                  /\ (live m c = true -> overallocated d' = false)) ->
  exists m', reserve_exceptions m r size todo = Ok m'.
Proof.
  induction todo as [|[loc x] todo IH]; intros m r size Hnd H; cbn [reserve_exceptions].
  - exists m. reflexivity.
  - cbn [map fst] in Hnd, H. inversion Hnd as [|? ? Hni Hnd']. subst.
    destruct (H loc (or_introl eq_refl)) as [d [d' [Hc [Ha Ho]]]]. rewrite Hc, Ha.
    assert (Hcr : chip_res (with_exc m (cupdate loc d' (pm_exc m))) loc = d').
    { unfold chip_res, with_exc. cbn [pm_exc]. rewrite cassoc_cupdate, chip_eqb_refl. reflexivity. }
    rewrite Hcr. change (live (with_exc m (cupdate loc d' (pm_exc m))) loc) with (live m loc).
    destruct (live m loc) eqn:El.
    + rewrite (Ho eq_refl). cbn [andb]. apply IH; [exact Hnd'|].
      intros c Hc'. destruct (H c (or_intror Hc')) as [d1 [d1' [G1 [G2 G3]]]].
      exists d1, d1'. split; [|split; [exact G2 | exact G3]].
      unfold with_exc. cbn [pm_exc]. rewrite cassoc_cupdate.
      destruct (chip_eqb c loc) eqn:E; [|exact G1]. apply chip_eqb_eq in E. subst. contradiction.
    + cbn [andb]. apply IH; [exact Hnd'|].
      intros c Hc'. destruct (H c (or_intror Hc')) as [d1 [d1' [G1 [G2 G3]]]].
      exists d1, d1'. split; [|split; [exact G2 | exact G3]].
      unfold with_exc. cbn [pm_exc]. rewrite cassoc_cupdate.
      destruct (chip_eqb c loc) eqn:E; [|exact G1]. apply chip_eqb_eq in E. subst. contradiction.
Qed.

Lemma after_reservation_some : forall d r size, In r (map fst d) -> exists d', after_reservation d r size = Some d'.
Proof.
  intros d r size H. unfold after_reservation. apply zassoc_key_Some in H. destruct H as [q Hq]. rewrite Hq.
  eexists. reflexivity.
Qed.

Lemma zassoc_key_Some_c : forall {A} c (l : list (chip * A)), In c (map fst l) -> exists v, cassoc c l = Some v.
Proof.
  intros A c l H. destruct (cassoc c l) eqn:E; [eexists; reflexivity|]. apply cassoc_None in E. contradiction.
Qed.

Lemma apply_reserve_extra : forall m r size loc m',
  NoDup (map fst (pm_exc m)) ->
  apply_reserve m r size loc = Ok m' ->
  (match loc with
   | None => after_reservation (pm_res m) r size = Some (pm_res m')
   | Some _ => pm_res m' = pm_res m
   end)
  /\ (forall c d', cassoc c (pm_exc m') = Some d' -> map fst d' = map fst (chip_res m c)).
Proof.
  intros m r size loc m' Hnd H. unfold apply_reserve in H. destruct loc as [c0|].
  - destruct (negb (live m c0)); [discriminate|].
    destruct (after_reservation (chip_res m c0) r size) as [d'|] eqn:Ea; [|discriminate].
    destruct (mset m c0 d') as [m1|] eqn:Es; [|discriminate].
    destruct (overallocated (chip_res m1 c0)); [discriminate|]. inversion H. subst m1. clear H.
    apply mset_spec in Es. destruct Es as [_ [Hres [_ [Hexc _]]]]. split; [exact Hres|].
    intros c d1 Hc. rewrite Hexc, cassoc_cupdate in Hc. destruct (chip_eqb c c0) eqn:E.
    + apply chip_eqb_eq in E. subst c. inversion Hc. subst d1.
      apply after_reservation_spec in Ea. destruct Ea as [Hk _]. exact Hk.
    + unfold chip_res. rewrite Hc. reflexivity.
  - destruct (after_reservation (pm_res m) r size) as [d'|] eqn:Ea; [|discriminate].
    destruct (overallocated d'); [discriminate|].
    destruct (reserve_exceptions_spec (pm_exc (with_res m d')) (with_res m d') r size m' Hnd H)
      as [_ [Hres [_ [Hother Hin]]]].
    split; [rewrite Hres; reflexivity|].
    intros c d1 Hc. destruct (in_dec chip_eq_dec c (map fst (pm_exc m))) as [Hi | Hn].
    + destruct (Hin c Hi) as [d0 [d0' [G1 [G2 [G3 _]]]]]. change (pm_exc (with_res m d')) with (pm_exc m) in G1.
      rewrite G3 in Hc. inversion Hc. subst d1. unfold chip_res. rewrite G1.
      apply after_reservation_spec in G2. destruct G2 as [Hk _]. exact Hk.
    + rewrite (Hother c Hn) in Hc. change (pm_exc (with_res m d')) with (pm_exc m) in Hc.
      apply cassoc_None in Hn. congruence.
Qed.

Lemma InvEq_reserve : forall vr m0 done m pl r s e loc m',
  InvEq vr m0 done m pl ->
  apply_reserve m r (e - s) loc = Ok m' ->
  InvEq vr m0 (done ++ [PCReserve r s e loc]) m' pl.
Proof.
  intros vr m0 done m pl r s e loc m' Hinv H.
  pose proof (fun c r => chip_res_known vr m0 done m pl c r Hinv) as Hknown.
  destruct Hinv as [Hfr Hk Heq Hrk Hre Hnd Hek].
  destruct (apply_reserve_spec m r (e - s) loc m' Hnd H) as [Hfr' [Hnd' Heff]].
  destruct (apply_reserve_extra m r (e - s) loc m' Hnd H) as [Hres Hexc].
  assert (Hlive : forall c, live m0 c = true -> live m c = true).
  { intros c Hl. rewrite (live_frame m0 m c Hfr). exact Hl. }
  constructor.
  - eapply same_frame_trans; eassumption.
  - intros c Hl. specialize (Heff c (Hlive c Hl)).
    destruct (match loc with None => true | Some c' => chip_eqb c c' end).
    + destruct Heff as [d' [Ha [Hc _]]]. apply after_reservation_spec in Ha.
      destruct Ha as [Hkeys _]. rewrite Hc, Hkeys. apply Hk. exact Hl.
    + rewrite Heff. apply Hk. exact Hl.
  - intros c r' Hl Hr. specialize (Heff c (Hlive c Hl)). specialize (Heq c r' Hl Hr).
    rewrite reserved_app. cbn [reserved]. unfold reserve_applies.
    destruct (match loc with None => true | Some c' => chip_eqb c c' end) eqn:Eloc.
    + destruct Heff as [d' [Ha [Hc _]]]. apply after_reservation_spec in Ha.
      destruct Ha as [_ [_ [Hr1 Hr2]]]. rewrite Hc.
      destruct (r' =? r) eqn:Er.
      * apply Z.eqb_eq in Er. subst r'. rewrite Hr1. cbn [andb]. lia.
      * apply Z.eqb_neq in Er. rewrite (Hr2 r' Er). cbn [andb]. lia.
    + rewrite Heff. rewrite andb_false_r. lia.
  - destruct loc as [c0|].
    + rewrite Hres. exact Hrk.
    + apply after_reservation_spec in Hres. destruct Hres as [Hkeys _]. rewrite Hkeys. exact Hrk.
  - intros r' Hr. rewrite greserved_app. cbn [greserved]. specialize (Hre r' Hr). destruct loc as [c0|].
    + rewrite Hres. lia.
    + apply after_reservation_spec in Hres. destruct Hres as [_ [_ [Hr1 Hr2]]].
      destruct (r' =? r) eqn:Er.
      * apply Z.eqb_eq in Er. subst r'. rewrite Hr1. lia.
      * apply Z.eqb_neq in Er. rewrite (Hr2 r' Er). lia.
  - exact Hnd'.
  - intros c d' r' Hc Hkn. rewrite (Hexc c d' Hc). apply Hknown. exact Hkn.
Qed.

Lemma apply_reserve_ok : forall m r size loc,
  NoDup (map fst (pm_exc m)) ->
  (match loc with
   | None => (exists d', after_reservation (pm_res m) r size = Some d' /\ overallocated d' = false)
             /\ (forall c, In c (map fst (pm_exc m)) ->
                   exists d d1, cassoc c (pm_exc m) = Some d /\ after_reservation d r size = Some d1
                                /\ (live m c = true -> overallocated d1 = false))
   | Some c => live m c = true
               /\ exists d', after_reservation (chip_res m c) r size = Some d' /\ overallocated d' = false
   end) ->
  exists m', apply_reserve m r size loc = Ok m'.
Proof.
  intros m r size loc Hnd H. unfold apply_reserve. destruct loc as [c|].
  - destruct H as [Hl [d' [Ha Ho]]]. rewrite Hl, Ha. cbn [negb].
    destruct (mset_live m c d' Hl) as [m1 Hs]. rewrite Hs.
    pose proof (mset_spec _ _ _ _ Hs) as [_ [_ [_ [_ Hcr]]]]. rewrite Hcr, chip_eqb_refl, Ho.
    exists m1. reflexivity.
  - destruct H as [[d' [Ha Ho]] Hexc]. rewrite Ha, Ho.
    apply reserve_exceptions_ok; [exact Hnd | exact Hexc].
Qed.

(* ---------------------------------------------------------------------------------------------- *)
(* The constraint loop cannot fail under the premise                                                *)
(* ---------------------------------------------------------------------------------------------- *)
Lemma rget_other_zero : forall vr m cs r0 v d r,
  unit_premise vr m cs r0 -> In (v, d) vr -> r <> r0 -> rget r d = 0.
Proof.
  intros vr m cs r0 v d r U Hin Hne. unfold rget. destruct (zassoc r d) as [q|] eqn:E; [|reflexivity].
  apply zassoc_In in E. destruct (up_unit _ _ _ _ U v d r q Hin E) as [[H _] | H]; [contradiction | exact H].
Qed.

Lemma rget_unit : forall vr m cs r0 v d,
  unit_premise vr m cs r0 -> In (v, d) vr -> rget r0 d = 0 \/ rget r0 d = 1.
Proof.
  intros vr m cs r0 v d U Hin. unfold rget. destruct (zassoc r0 d) as [q|] eqn:E; [|left; reflexivity].
  apply zassoc_In in E. destruct (up_unit _ _ _ _ U v d r0 q Hin E) as [[_ H] | H]; [exact H | left; exact H].
Qed.

Lemma existsb_is_location : forall v c cs, existsb (is_location v c) cs = true <-> In (PCLocation v c) cs.
Proof.
  intros v c cs. rewrite existsb_exists. split.
  - intros [k [Hk Hl]]. destruct k as [v' c' | | |]; try discriminate. cbn [is_location] in Hl.
    apply andb_true_iff in Hl. destruct Hl as [H1 H2]. apply Z.eqb_eq in H1. apply chip_eqb_eq in H2. subst. exact Hk.
  - intros H. exists (PCLocation v c). split; [exact H|]. cbn [is_location]. rewrite Z.eqb_refl, chip_eqb_refl. reflexivity.
Qed.

Lemma load_le_located : forall (vr : vresources) cs pl c r,
  (forall v d r' q, In (v, d) vr -> In (r', q) d -> 0 <= q) ->
  (forall v l, zassoc v pl = Some l -> In (PCLocation v l) cs) ->
  load vr pl c r <= located vr cs c r.
Proof.
  intros vr cs pl c r Hnn Hfrom. unfold load, located. apply (sumf_le _ _ vr). intros [v d] Hin. cbn [fst snd].
  assert (0 <= rget r d).
  { apply rget_nonneg_of_entries. intros r' q Hq. apply (Hnn v d r' q Hin Hq). }
  destruct (on_chip pl v c) eqn:Eo.
  - apply on_chip_true in Eo. apply Hfrom in Eo. apply existsb_is_location in Eo. rewrite Eo. lia.
  - destruct (existsb (is_location v c) cs); lia.
Qed.

Lemma located_other_zero : forall vr m cs r0 c r, unit_premise vr m cs r0 -> r <> r0 -> located vr cs c r = 0.
Proof.
  intros vr m cs r0 c r U Hne. unfold located. apply (sumf_zero _ vr). intros [v d] Hin. cbn [fst snd].
  rewrite (rget_other_zero vr m cs r0 v d r U Hin Hne). destruct (existsb (is_location v c) cs); reflexivity.
Qed.

(* what is left on a working chip can never be negative while the constraints are being processed *)
Lemma room : forall vr m0 cs r0 done todo pl c r,
  wf_problem vr m0 cs -> unit_premise vr m0 cs r0 -> cs = done ++ todo ->
  (forall v l, zassoc v pl = Some l -> In (PCLocation v l) cs) ->
  live m0 c = true ->
  0 <= capacity m0 c r - reserved done c r - load vr pl c r.
Proof.
  intros vr m0 cs r0 done todo pl c r W U Hcs Hfrom Hl.
  assert (Hrange : ranges_ok cs) by (intros r' s e loc Hin; apply (up_reserve_range _ _ _ _ U r' s e loc Hin)).
  assert (Hres : reserved done c r <= reserved cs c r).
  { rewrite Hcs, reserved_app. rewrite Hcs in Hrange. apply ranges_ok_app in Hrange. destruct Hrange as [_ Hr].
    pose proof (reserved_nonneg todo c r Hr). lia. }
  pose proof (load_le_located vr cs pl c r (wf_demand_nonneg _ _ _ W) Hfrom) as Hload.
  destruct (Z.eq_dec r r0) as [Heq | Hne].
  - subst r. pose proof (up_locations_fit _ _ _ _ U c Hl). lia.
  - rewrite (located_other_zero vr m0 cs r0 c r U Hne) in Hload.
    destruct (up_reservations_fit _ _ _ _ U) as [_ Hfit]. specialize (Hfit c r Hl). lia.
Qed.

Lemma chip_res_nodup : forall vr m cs r0 c, unit_premise vr m cs r0 -> NoDup (map fst (chip_res m c)).
Proof.
  intros vr m cs r0 c U. destruct (up_res_nodup _ _ _ _ U) as [H1 H2]. unfold chip_res.
  destruct (cassoc c (pm_exc m)) as [d|] eqn:E; [apply (H2 c d); apply cassoc_In; exact E | exact H1].
Qed.

Lemma handle_cs_complete : forall vr m0 cs r0,
  wf_problem vr m0 cs -> unit_premise vr m0 cs r0 ->
  forall todo done m pl,
    cs = done ++ todo -> InvEq vr m0 done m pl ->
    (forall v l, zassoc v pl = Some l -> In (PCLocation v l) done) ->
    exists m1 pl1, handle_cs vr todo m pl = Ok (m1, pl1) /\ InvEq vr m0 cs m1 pl1
                   /\ (forall v l, zassoc v pl1 = Some l -> In (PCLocation v l) cs).
Proof.
  intros vr m0 cs r0 W U todo. induction todo as [|k todo IH]; intros done m pl Hcs Hinv Hfrom.
  - rewrite app_nil_r in Hcs. subst done. exists m, pl. cbn [handle_cs].
    split; [reflexivity|]. split; [exact Hinv | exact Hfrom].
  - assert (Hcs' : cs = (done ++ [k]) ++ todo) by (rewrite <- app_assoc; exact Hcs).
    assert (Hkin : In k cs) by (rewrite Hcs; apply in_app_iff; right; left; reflexivity).
    assert (Hfrom_cs : forall pl', (forall v l, zassoc v pl' = Some l -> In (PCLocation v l) (done ++ [k])) ->
                                   forall v l, zassoc v pl' = Some l -> In (PCLocation v l) cs).
    { intros pl' H v l Hz. rewrite Hcs'. apply in_app_iff. left. apply H. exact Hz. }
    assert (Hlm : forall c, live m c = live m0 c) by (intros c; apply live_frame; exact (ie_frame _ _ _ _ _ Hinv)).
    destruct k as [v loc | vs | r s e loc | ]; cbn [handle_cs].
    + (* location *)
      assert (Hl0 : live m0 loc = true) by (apply (up_locations_live _ _ _ _ U v loc Hkin)).
      rewrite Hlm, Hl0. cbn [negb].
      destruct (zassoc v pl) as [l|] eqn:Ez.
      * assert (l = loc).
        { apply (up_locations_once _ _ _ _ U v l loc); [|exact Hkin].
          rewrite Hcs. apply in_app_iff. left. apply Hfrom. exact Ez. }
        subst l. rewrite chip_eqb_refl.
        apply (IH (done ++ [PCLocation v loc]) m pl Hcs').
        -- apply InvEq_skip; [intros; reflexivity | intros; reflexivity | exact Hinv].
        -- intros u l Hz. apply in_app_iff. left. apply Hfrom. exact Hz.
      * assert (Hvk : In v (map fst vr)) by (apply (wf_constr_vertices _ _ _ W _ v Hkin); left; reflexivity).
        apply zassoc_key_Some in Hvk. destruct Hvk as [d Hd]. rewrite Hd.
        unfold mget. rewrite Hlm, Hl0.
        assert (Hlm' : live m loc = true) by (rewrite Hlm; exact Hl0).
        destruct (mset_live m loc (subtract_resources (chip_res m loc) d) Hlm') as [m1 Hs]. rewrite Hs.
        assert (Hi1 : InvEq vr m0 (done ++ [PCLocation v loc]) m1 (pl_set v loc pl)).
        { apply InvEq_skip; [intros; reflexivity | intros; reflexivity|].
          apply (InvEq_place vr m0 done m pl v d loc m1 (wf_vr_nodup _ _ _ W) Hinv Hd Ez Hl0 Hs). }
        assert (Hfrom1 : forall u l, zassoc u (pl_set v loc pl) = Some l -> In (PCLocation u l) (done ++ [PCLocation v loc])).
        { intros u l Hz. unfold pl_set in Hz. rewrite zassoc_zupdate in Hz. apply in_app_iff.
          destruct (u =? v) eqn:E.
          - apply Z.eqb_eq in E. subst u. inversion Hz. subst l. right. left. reflexivity.
          - left. apply Hfrom. exact Hz. }
        assert (Ho : overallocated (chip_res m1 loc) = false).
        { apply overallocated_false_intro. apply entries_of_rget.
          - rewrite (ie_keys _ _ _ _ _ Hi1 loc Hl0). apply (chip_res_nodup vr m0 cs r0 loc U).
          - intros r Hr. rewrite (ie_keys _ _ _ _ _ Hi1 loc Hl0) in Hr.
            rewrite (ie_eq _ _ _ _ _ Hi1 loc r Hl0 Hr).
            apply (room vr m0 cs r0 (done ++ [PCLocation v loc]) todo (pl_set v loc pl) loc r W U Hcs'
                        (Hfrom_cs _ Hfrom1) Hl0). }
        rewrite Ho. apply (IH (done ++ [PCLocation v loc]) m1 (pl_set v loc pl) Hcs' Hi1 Hfrom1).
    + exfalso. apply (up_no_groups _ _ _ _ U vs Hkin).
    + (* reservation *)
      destruct (up_reserve_range _ _ _ _ U r s e loc Hkin) as [Hse Hlocl].
      assert (Hrk : resource_known m0 r) by (apply (wf_reserve_known _ _ _ W r s e loc Hkin)).
      (* the resources a working chip would have after the reservation are non-negative *)
      assert (Hchip : forall c d1, live m0 c = true ->
                        (match loc with None => true | Some c' => chip_eqb c c' end) = true ->
                        after_reservation (chip_res m c) r (e - s) = Some d1 -> overallocated d1 = false).
      { intros c d1 Hl Happ Ha. apply after_reservation_spec in Ha. destruct Ha as [Hk1 [_ [Hr1 Hr2]]].
        apply overallocated_false_intro. apply entries_of_rget.
        - rewrite Hk1, (ie_keys _ _ _ _ _ Hinv c Hl). apply (chip_res_nodup vr m0 cs r0 c U).
        - intros r' Hr'. rewrite Hk1, (ie_keys _ _ _ _ _ Hinv c Hl) in Hr'.
          pose proof (room vr m0 cs r0 (done ++ [PCReserve r s e loc]) todo pl c r' W U Hcs'
                           (fun u l Hz => eq_ind_r (fun x => In (PCLocation u l) x)
                                                   (in_or_app _ _ _ (or_introl (Hfrom u l Hz))) Hcs) Hl) as Hroom.
          rewrite reserved_app in Hroom. cbn [reserved] in Hroom. unfold reserve_applies in Hroom. rewrite Happ in Hroom.
          pose proof (ie_eq _ _ _ _ _ Hinv c r' Hl Hr') as Heq. unfold capacity in Hroom.
          destruct (r' =? r) eqn:Er.
          + apply Z.eqb_eq in Er. subst r'. rewrite Hr1. cbn [andb] in Hroom. lia.
          + apply Z.eqb_neq in Er. rewrite (Hr2 r' Er). cbn [andb] in Hroom. lia. }
      assert (Hok : exists m1, apply_reserve m r (e - s) loc = Ok m1).
      { apply apply_reserve_ok; [exact (ie_exc_nodup _ _ _ _ _ Hinv)|]. destruct loc as [c0|].
        - assert (Hl0 : live m0 c0 = true) by (apply Hlocl; reflexivity).
          split; [rewrite Hlm; exact Hl0|].
          destruct (after_reservation_some (chip_res m c0) r (e - s) (chip_res_known _ _ _ _ _ c0 r Hinv Hrk)) as [d' Hd'].
          exists d'. split; [exact Hd'|]. apply (Hchip c0 d' Hl0 (chip_eqb_refl c0) Hd').
        - split.
          + assert (Hrin : In r (map fst (pm_res m))).
            { rewrite (ie_res_keys _ _ _ _ _ Hinv). destruct Hrk as [Hrk _]. exact Hrk. }
            destruct (after_reservation_some (pm_res m) r (e - s) Hrin) as [d' Hd']. exists d'. split; [exact Hd'|].
            apply after_reservation_spec in Hd'. destruct Hd' as [Hk1 [_ [Hr1 Hr2]]].
            apply overallocated_false_intro. apply entries_of_rget.
            * rewrite Hk1, (ie_res_keys _ _ _ _ _ Hinv). destruct (up_res_nodup _ _ _ _ U) as [Hn _]. exact Hn.
            * intros r' Hr'. rewrite Hk1, (ie_res_keys _ _ _ _ _ Hinv) in Hr'.
              pose proof (ie_res_eq _ _ _ _ _ Hinv r' Hr') as Heq.
              destruct (up_reservations_fit _ _ _ _ U) as [Hfit _]. specialize (Hfit r').
              assert (Hrange : ranges_ok cs) by (intros r1 s1 e1 loc1 Hin; apply (up_reserve_range _ _ _ _ U r1 s1 e1 loc1 Hin)).
              rewrite Hcs' in Hfit, Hrange. rewrite greserved_app in Hfit. apply ranges_ok_app in Hrange.
              destruct Hrange as [_ Hrt]. pose proof (greserved_nonneg todo r' Hrt) as Hgn.
              rewrite greserved_app in Hfit. cbn [greserved] in Hfit.
              destruct (r' =? r) eqn:Er.
              -- apply Z.eqb_eq in Er. subst r'. rewrite Hr1. lia.
              -- apply Z.eqb_neq in Er. rewrite (Hr2 r' Er). lia.
          + intros c Hc. apply zassoc_key_Some_c in Hc. destruct Hc as [d Hd].
            assert (Hcr : chip_res m c = d) by (unfold chip_res; rewrite Hd; reflexivity).
            destruct (after_reservation_some d r (e - s)) as [d1 Hd1].
            { rewrite <- Hcr. apply (chip_res_known _ _ _ _ _ c r Hinv Hrk). }
            exists d, d1. split; [exact Hd|]. split; [exact Hd1|].
            intros Hl. rewrite Hlm in Hl. rewrite <- Hcr in Hd1. apply (Hchip c d1 Hl eq_refl Hd1). }
      destruct Hok as [m1 Hm1]. rewrite Hm1. cbn [bind].
      apply (IH (done ++ [PCReserve r s e loc]) m1 pl Hcs').
      * apply (InvEq_reserve vr m0 done m pl r s e loc m1 Hinv Hm1).
      * intros u l Hz. apply in_app_iff. left. apply Hfrom. exact Hz.
    + apply (IH (done ++ [PCOther]) m pl Hcs').
      * apply InvEq_skip; [intros; reflexivity | intros; reflexivity | exact Hinv].
      * intros u l Hz. apply in_app_iff. left. apply Hfrom. exact Hz.
Qed.

(* ---------------------------------------------------------------------------------------------- *)
(* raster has no repetitions                                                                        *)
(* ---------------------------------------------------------------------------------------------- *)
Lemma NoDup_app_intro : forall {A} (a b : list A),
  NoDup a -> NoDup b -> (forall x, In x a -> ~ In x b) -> NoDup (a ++ b).
Proof.
  intros A a b Ha Hb Hd. induction Ha as [|x t Hx Ht IH]; cbn [app]; [exact Hb|].
  constructor.
  - rewrite in_app_iff. intros [H | H]; [contradiction | apply (Hd x (or_introl eq_refl) H)].
  - apply IH. intros y Hy. apply Hd. right. exact Hy.
Qed.

Lemma zrange_NoDup : forall n, NoDup (zrange n).
Proof.
  intros n. unfold zrange. apply FinFun.Injective_map_NoDup; [|apply seq_NoDup].
  intros a b H. apply Nat2Z.inj. exact H.
Qed.

Lemma raster_NoDup : forall m, NoDup (raster m).
Proof.
  intros m. unfold raster. apply NoDup_filter.
  generalize (zrange_NoDup (pm_width m)). generalize (zrange (pm_width m)) as xs.
  induction xs as [|x xs IH]; intros Hnd; cbn [flat_map]; [constructor|].
  inversion Hnd as [|? ? Hx Hxs]. subst. apply NoDup_app_intro.
  - apply FinFun.Injective_map_NoDup; [|apply zrange_NoDup]. intros a b H. inversion H. reflexivity.
  - apply IH. exact Hxs.
  - intros p Hp Hq. apply in_map_iff in Hp. destruct Hp as [y [Ey _]]. subst p.
    apply in_flat_map in Hq. destruct Hq as [x' [Hx' Hq]]. apply in_map_iff in Hq. destruct Hq as [y' [Ey' _]].
    inversion Ey'. subst. contradiction.
Qed.

Lemma raster_frame : forall m0 m, same_frame m0 m -> raster m = raster m0.
Proof.
  intros m0 m Hfr. unfold raster. destruct Hfr as [H1 [H2 H3]]. rewrite H1, H2.
  apply filter_ext. intros c. unfold live. rewrite H1, H2, H3. reflexivity.
Qed.

(* ---------------------------------------------------------------------------------------------- *)
(* Demand still to be placed versus free capacity                                                   *)
(* ---------------------------------------------------------------------------------------------- *)
Definition unplaced (r0 : res) (vr : vresources) (pl : placement) : Z :=
  sumf (fun vd : vertex * resources => if pl_mem (fst vd) pl then 0 else rget r0 (snd vd)) vr.

Definition tfree (r0 : res) (L : list chip) (m : pmachine) : Z :=
  sumf (fun c => rget r0 (chip_res m c)) L.

Lemma pl_mem_set : forall v c pl u, pl_mem u (pl_set v c pl) = if u =? v then true else pl_mem u pl.
Proof. intros v c pl u. unfold pl_mem, pl_set. rewrite zassoc_zupdate. destruct (u =? v); reflexivity. Qed.

Lemma unplaced_set_other : forall r0 (vr : vresources) pl v c,
  ~ In v (map fst vr) -> unplaced r0 vr (pl_set v c pl) = unplaced r0 vr pl.
Proof.
  intros r0 vr pl v c H. unfold unplaced. apply sumf_ext. intros [u d] Hin. cbn [fst snd]. rewrite pl_mem_set.
  destruct (u =? v) eqn:E; [|reflexivity]. apply Z.eqb_eq in E. subst u. exfalso. apply H.
  apply in_map_iff. exists (v, d). split; [reflexivity | exact Hin].
Qed.

Lemma unplaced_set : forall r0 (vr : vresources) pl v d c,
  NoDup (map fst vr) -> zassoc v vr = Some d -> pl_mem v pl = false ->
  unplaced r0 vr (pl_set v c pl) = unplaced r0 vr pl - rget r0 d.
Proof.
  intros r0 vr pl v d c. induction vr as [|[u du] t IH]; intros Hnd Hz Hnew.
  - cbn [zassoc] in Hz. discriminate.
  - cbn [map fst] in Hnd. inversion Hnd as [|? ? Hni Hnd']. subst. cbn [zassoc] in Hz.
    unfold unplaced, sumf in *. cbn [map fold_right fst snd]. rewrite pl_mem_set. destruct (v =? u) eqn:E.
    + apply Z.eqb_eq in E. subst u. inversion Hz. subst du. rewrite Z.eqb_refl, Hnew.
      pose proof (unplaced_set_other r0 t pl v c Hni) as Ho. unfold unplaced, sumf in Ho. rewrite Ho. lia.
    + assert (E' : (u =? v) = false) by (rewrite Z.eqb_sym; exact E). rewrite E'.
      rewrite (IH Hnd' Hz Hnew). lia.
Qed.

Lemma unplaced_nonneg : forall r0 (vr : vresources) pl,
  (forall v d r q, In (v, d) vr -> In (r, q) d -> 0 <= q) -> 0 <= unplaced r0 vr pl.
Proof.
  intros r0 vr pl H. unfold unplaced. apply sumf_nonneg. intros [v d] Hin. cbn [fst snd].
  destruct (pl_mem v pl); [lia|]. apply rget_nonneg_of_entries. intros r q Hq. apply (H v d r q Hin Hq).
Qed.

Lemma tfree_mset : forall r0 L m c r' m',
  NoDup L -> In c L -> mset m c r' = Some m' ->
  tfree r0 L m' = tfree r0 L m - (rget r0 (chip_res m c) - rget r0 r').
Proof.
  intros r0 L m c r' m' Hnd Hin Hs. apply mset_spec in Hs. destruct Hs as [_ [_ [_ [_ Hcr]]]].
  unfold tfree.
  rewrite (sumf_sub (fun x => rget r0 (chip_res m' x)) (fun x => rget r0 (chip_res m x))
                    (fun x => if chip_eqb c x then rget r0 (chip_res m c) - rget r0 r' else 0) L).
  - rewrite (sumf_indicator L c _ Hnd Hin). reflexivity.
  - intros x _. rewrite Hcr. rewrite (chip_eqb_sym c x). destruct (chip_eqb x c) eqn:E; [|lia].
    apply chip_eqb_eq in E. subst x. lia.
Qed.

(* the loads of all chips add up to the demand of the placed vertices *)
Lemma load_total : forall (vr : vresources) pl r L,
  NoDup L -> (forall v c, zassoc v pl = Some c -> In c L) ->
  sumf (fun c => load vr pl c r) L
  = sumf (fun vd : vertex * resources => if pl_mem (fst vd) pl then rget r (snd vd) else 0) vr.
Proof.
  intros vr pl r L Hnd Hin. induction vr as [|[v d] t IH].
  - unfold load. cbn [map fold_right]. unfold sumf at 2. cbn [map fold_right]. apply sumf_zero. intros; reflexivity.
  - unfold sumf at 2. cbn [map fold_right fst snd]. fold (sumf (fun vd : vertex * resources => if pl_mem (fst vd) pl then rget r (snd vd) else 0) t).
    rewrite <- IH.
    rewrite (sumf_ext (fun c => load ((v, d) :: t) pl c r)
                      (fun c => (if on_chip pl v c then rget r d else 0) + load t pl c r) L)
      by (intros c _; reflexivity).
    rewrite (sumf_plus (fun c => if on_chip pl v c then rget r d else 0) (fun c => load t pl c r) L).
    f_equal. unfold pl_mem, on_chip. destruct (zassoc v pl) as [c0|] eqn:Ez.
    + apply (sumf_indicator L c0 (rget r d) Hnd (Hin v c0 Ez)).
    + apply sumf_zero. intros; reflexivity.
Qed.

Lemma unplaced_split : forall r0 (vr : vresources) pl,
  unplaced r0 vr pl + sumf (fun vd : vertex * resources => if pl_mem (fst vd) pl then rget r0 (snd vd) else 0) vr
  = sumf (fun vd : vertex * resources => rget r0 (snd vd)) vr.
Proof.
  intros r0 vr pl. unfold unplaced. rewrite <- sumf_plus. apply sumf_ext. intros [v d] _. cbn [fst snd].
  destruct (pl_mem v pl); lia.
Qed.

(* ---------------------------------------------------------------------------------------------- *)
(* The placement loop cannot fail                                                                   *)
(* ---------------------------------------------------------------------------------------------- *)
Record LoopInv (vr : vresources) (m0 : pmachine) (r0 : res) (m : pmachine) (pl : placement) : Prop := {
  li_frame : same_frame m0 m;
  li_keys : forall c, live m0 c = true -> map fst (chip_res m c) = map fst (chip_res m0 c);
  li_nn : forall c r q, live m0 c = true -> In (r, q) (chip_res m c) -> 0 <= q;
  li_budget : unplaced r0 vr pl <= tfree r0 (raster m0) m }.

Lemma subtract_entries : forall cr d r q', In (r, q') (subtract_resources cr d) ->
  exists q, In (r, q) cr /\ q' = q - rget r d.
Proof.
  intros cr d r q' H. unfold subtract_resources in H. apply in_map_iff in H. destruct H as [[r1 q1] [E Hin]].
  cbn [fst snd] in E. inversion E. subst. exists q1. split; [exact Hin | reflexivity].
Qed.

Lemma scan_finds : forall m d last cands passed,
  (forall x, In x cands -> live m x = true) -> ~ In last cands ->
  (exists c, In c cands /\ overallocated (subtract_resources (chip_res m c) d) = false) ->
  exists c r' rest', scan m d last passed cands = Ok (Some (c, r', rest'))
    /\ live m c = true /\ r' = subtract_resources (chip_res m c) d /\ overallocated r' = false
    /\ Permutation (passed ++ cands) (c :: rest').
Proof.
  intros m d last cands. induction cands as [|x cs IH]; intros passed Hlive Hlast [c [Hc Hfit]].
  - destruct Hc.
  - cbn [scan]. assert (Hx : chip_eqb x last = false).
    { apply chip_eqb_neq. intros E. apply Hlast. left. exact E. }
    rewrite Hx. unfold try_chip, mget. rewrite (Hlive x (or_introl eq_refl)). cbn [bind].
    destruct (overallocated (subtract_resources (chip_res m x) d)) eqn:Eo.
    + destruct (IH (passed ++ [x])) as [c' [r' [rest' [G1 [G2 [G3 [G4 G5]]]]]]].
      * intros y Hy. apply Hlive. right. exact Hy.
      * intros H. apply Hlast. right. exact H.
      * exists c. split; [|exact Hfit]. destruct Hc as [Hc | Hc]; [subst; congruence | exact Hc].
      * exists c', r', rest'. split; [exact G1|]. split; [exact G2|]. split; [exact G3|]. split; [exact G4|].
        rewrite <- app_assoc in G5. exact G5.
    + exists x, (subtract_resources (chip_res m x) d), (cs ++ passed).
      split; [reflexivity|]. split; [apply Hlive; left; reflexivity|]. split; [reflexivity|]. split; [exact Eo|].
      apply (Permutation_app_comm passed (x :: cs)).
Qed.

Lemma LoopInv_place : forall vr m0 cs r0 m pl v d c m',
  wf_problem vr m0 cs -> LoopInv vr m0 r0 m pl ->
  zassoc v vr = Some d -> pl_mem v pl = false -> live m0 c = true ->
  overallocated (subtract_resources (chip_res m c) d) = false ->
  mset m c (subtract_resources (chip_res m c) d) = Some m' ->
  LoopInv vr m0 r0 m' (pl_set v c pl).
Proof.
  intros vr m0 cs r0 m pl v d c m' W [Hfr Hk Hnn Hb] Hz Hnew Hl Hov Hs.
  pose proof (mset_spec _ _ _ _ Hs) as [Hfr' [_ [_ [_ Hcr]]]].
  constructor.
  - eapply same_frame_trans; eassumption.
  - intros c' Hl'. rewrite Hcr. destruct (chip_eqb c' c) eqn:E.
    + apply chip_eqb_eq in E. subst c'. rewrite subtract_keys. apply Hk. exact Hl.
    + apply Hk. exact Hl'.
  - intros c' r q Hl' Hin. rewrite Hcr in Hin. destruct (chip_eqb c' c).
    + apply (overallocated_false _ Hov r q Hin).
    + apply (Hnn c' r q Hl' Hin).
  - rewrite (unplaced_set r0 vr pl v d c (wf_vr_nodup _ _ _ W) Hz Hnew).
    rewrite (tfree_mset r0 (raster m0) m c _ m' (raster_NoDup m0) (proj2 (raster_In m0 c) Hl) Hs).
    assert (Hx : rget r0 (chip_res m c) - rget r0 (subtract_resources (chip_res m c) d) = rget r0 d).
    { destruct (in_dec Z.eq_dec r0 (map fst (chip_res m c))) as [Hin | Hni].
      - rewrite (rget_subtract _ _ _ Hin). lia.
      - rewrite (rget_notin r0 (chip_res m c) Hni).
        rewrite (rget_notin r0 (subtract_resources (chip_res m c) d)) by (rewrite subtract_keys; exact Hni).
        unfold rget. destruct (zassoc r0 d) as [q|] eqn:E; [|reflexivity].
        exfalso. apply Hni. rewrite (Hk c Hl). apply resource_known_chip.
        apply (wf_demand_known _ _ _ W v d r0 q); [apply zassoc_In; exact Hz | apply zassoc_In; exact E]. }
    lia.
Qed.

Lemma place_loop_complete : forall vr m0 cs r0,
  wf_problem vr m0 cs -> unit_premise vr m0 cs r0 ->
  forall vs m pl cur rest,
    LoopInv vr m0 r0 m pl -> NoDup (cur :: rest) ->
    (forall c, In c (cur :: rest) <-> live m0 c = true) ->
    (forall v, In v vs -> In v (map fst vr)) ->
    exists pl', place_loop vr vs m pl cur rest = Ok pl'.
Proof.
  intros vr m0 cs r0 W U vs. induction vs as [|v vs IH]; intros m pl cur rest Hinv Hnd Hall Hvs.
  - exists pl. reflexivity.
  - cbn [place_loop]. assert (Hvs' : forall u, In u vs -> In u (map fst vr)) by (intros u Hu; apply Hvs; right; exact Hu).
    destruct (pl_mem v pl) eqn:Em; [apply IH; assumption|].
    destruct (zassoc_key_Some v vr (Hvs v (or_introl eq_refl))) as [d Hd]. rewrite Hd.
    assert (Hdin : In (v, d) vr) by (apply zassoc_In; exact Hd).
    assert (Hlm : forall c, live m c = live m0 c) by (intros c; apply live_frame; exact (li_frame _ _ _ _ _ Hinv)).
    assert (Hcur : live m0 cur = true) by (apply Hall; left; reflexivity).
    unfold try_chip at 1. unfold mget. rewrite Hlm, Hcur. cbn [bind].
    destruct (overallocated (subtract_resources (chip_res m cur) d)) eqn:Eo.
    + (* the current chip is full: some other chip has room *)
      assert (Hone : rget r0 d = 1).
      { destruct (rget_unit vr m0 cs r0 v d U Hdin) as [Hz | Ho]; [|exact Ho]. exfalso.
        assert (Hf : overallocated (subtract_resources (chip_res m cur) d) = false).
        { apply overallocated_false_intro. intros r q' Hin. apply subtract_entries in Hin. destruct Hin as [q [Hq Eq]].
          assert (rget r d = 0).
          { destruct (Z.eq_dec r r0) as [E | E]; [subst; exact Hz | apply (rget_other_zero vr m0 cs r0 v d r U Hdin E)]. }
          pose proof (li_nn _ _ _ _ _ Hinv cur r q Hcur Hq). lia. }
        congruence. }
      assert (Hpos : 0 < tfree r0 (raster m0) m).
      { pose proof (li_budget _ _ _ _ _ Hinv) as Hb.
        pose proof (unplaced_set r0 vr pl v d cur (wf_vr_nodup _ _ _ W) Hd Em) as Hu.
        pose proof (unplaced_nonneg r0 vr (pl_set v cur pl) (wf_demand_nonneg _ _ _ W)). lia. }
      apply sumf_exists_pos in Hpos. destruct Hpos as [c [Hc Hgc]]. apply raster_In in Hc.
      assert (Hfit : overallocated (subtract_resources (chip_res m c) d) = false).
      { apply overallocated_false_intro. intros r q' Hin. apply subtract_entries in Hin. destruct Hin as [q [Hq Eq]].
        pose proof (li_nn _ _ _ _ _ Hinv c r q Hc Hq) as Hqn.
        destruct (Z.eq_dec r r0) as [E | E].
        - subst r. assert (Hqq : rget r0 (chip_res m c) = q).
          { unfold rget. rewrite (zassoc_NoDup_In r0 q (chip_res m c)); [reflexivity | | exact Hq].
            exact (eq_ind_r (fun l => NoDup l) (chip_res_nodup vr m0 cs r0 c U) (li_keys _ _ _ _ _ Hinv c Hc)). }
          lia.
        - rewrite (rget_other_zero vr m0 cs r0 v d r U Hdin E) in Eq. lia. }
      assert (Hcrest : In c rest).
      { assert (Hin : In c (cur :: rest)) by (apply Hall; exact Hc). destruct Hin as [Hin | Hin]; [subst; congruence | exact Hin]. }
      inversion Hnd as [|? ? Hcur_ni Hnd_rest]. subst.
      destruct (scan_finds m d cur rest [cur]) as [c' [r' [rest' [G1 [G2 [G3 [G4 G5]]]]]]].
      * intros x Hx. rewrite Hlm. apply Hall. right. exact Hx.
      * exact Hcur_ni.
      * exists c. split; [exact Hcrest | exact Hfit].
      * rewrite G1. cbn [bind]. cbn [app] in G5. rewrite Hlm in G2.
        assert (G2' : live m c' = true) by (rewrite Hlm; exact G2).
        destruct (mset_live m c' r' G2') as [m1 Hs]. rewrite Hs. subst r'.
        apply (IH m1 (pl_set v c' pl) c' rest').
        -- apply (LoopInv_place vr m0 cs r0 m pl v d c' m1 W Hinv Hd Em G2 G4 Hs).
        -- apply (Permutation_NoDup G5). exact Hnd.
        -- intros x. rewrite <- Hall. split; intros Hx; [apply (Permutation_in x (Permutation_sym G5) Hx) | apply (Permutation_in x G5 Hx)].
        -- exact Hvs'.
    + assert (Hcur' : live m cur = true) by (rewrite Hlm; exact Hcur).
      destruct (mset_live m cur (subtract_resources (chip_res m cur) d) Hcur') as [m1 Hs]. rewrite Hs.
      apply (IH m1 (pl_set v cur pl) cur rest).
      * apply (LoopInv_place vr m0 cs r0 m pl v d cur m1 W Hinv Hd Em Hcur Eo Hs).
      * exact Hnd.
      * exact Hall.
      * exact Hvs'.
Qed.

(* ---------------------------------------------------------------------------------------------- *)
(* seq_place succeeds under the premise                                                             *)
(* ---------------------------------------------------------------------------------------------- *)
Lemma LoopInv_after_constraints : forall vr m cs r0 m1 pl0,
  wf_problem vr m cs -> unit_premise vr m cs r0 ->
  InvEq vr m cs m1 pl0 -> (forall v l, zassoc v pl0 = Some l -> In (PCLocation v l) cs) ->
  LoopInv vr m r0 m1 pl0.
Proof.
  intros vr m cs r0 m1 pl0 W U Hinv Hfrom.
  assert (Hcs : cs = cs ++ []) by (rewrite app_nil_r; reflexivity).
  assert (Hnn : forall c r q, live m c = true -> In (r, q) (chip_res m1 c) -> 0 <= q).
  { intros c r q Hl Hin. revert r q Hin. apply entries_of_rget.
    - exact (eq_ind_r (fun l => NoDup l) (chip_res_nodup vr m cs r0 c U) (ie_keys _ _ _ _ _ Hinv c Hl)).
    - intros r Hr. assert (Hr0 : In r (map fst (chip_res m c))).
      { exact (eq_ind (map fst (chip_res m1 c)) (fun l => In r l) Hr _ (ie_keys _ _ _ _ _ Hinv c Hl)). }
      rewrite (ie_eq _ _ _ _ _ Hinv c r Hl Hr0).
      apply (room vr m cs r0 cs [] pl0 c r W U Hcs Hfrom Hl). }
  constructor.
  - exact (ie_frame _ _ _ _ _ Hinv).
  - exact (ie_keys _ _ _ _ _ Hinv).
  - exact Hnn.
  - pose proof (unplaced_split r0 vr pl0) as Hsplit.
    assert (Hplaced_nn : 0 <= sumf (fun vd : vertex * resources => if pl_mem (fst vd) pl0 then rget r0 (snd vd) else 0) vr).
    { apply sumf_nonneg. intros [v d] Hin. cbn [fst snd]. destruct (pl_mem v pl0); [|lia].
      apply rget_nonneg_of_entries. intros r q Hq. apply (wf_demand_nonneg _ _ _ W v d r q Hin Hq). }
    assert (Htf_nn : 0 <= tfree r0 (raster m) m1).
    { unfold tfree. apply sumf_nonneg. intros c Hc. apply raster_In in Hc.
      apply rget_nonneg_of_entries. intros r q Hq. apply (Hnn c r q Hc Hq). }
    destruct (Z_le_gt_dec (sumf (fun vd : vertex * resources => rget r0 (snd vd)) vr) 0) as [Hz | Hp].
    + lia.
    + assert (Hp' : 0 < sumf (fun vd : vertex * resources => rget r0 (snd vd)) vr) by lia.
      apply sumf_exists_pos in Hp'. destruct Hp' as [[v d] [Hvd Hpos]]. cbn [snd] in Hpos.
      assert (Hkn : resource_known m r0).
      { unfold rget in Hpos. destruct (zassoc r0 d) as [q|] eqn:E; [|lia].
        apply (wf_demand_known _ _ _ W v d r0 q Hvd). apply zassoc_In. exact E. }
      pose proof (up_total _ _ _ _ U) as Htot.
      fold (sumf (fun vd : vertex * resources => rget r0 (snd vd)) vr) in Htot.
      fold (sumf (fun c => capacity m c r0 - reserved cs c r0) (raster m)) in Htot.
      assert (Htf : tfree r0 (raster m) m1
                    = sumf (fun c => capacity m c r0 - reserved cs c r0) (raster m)
                      - sumf (fun c => load vr pl0 c r0) (raster m)).
      { unfold tfree. apply sumf_sub. intros c Hc. apply raster_In in Hc.
        rewrite (ie_eq _ _ _ _ _ Hinv c r0 Hc (resource_known_chip m r0 c Hkn)). reflexivity. }
      rewrite (load_total vr pl0 r0 (raster m) (raster_NoDup m)) in Htf.
      * lia.
      * intros u l Hz. apply raster_In. apply (up_locations_live _ _ _ _ U u l). apply Hfrom. exact Hz.
Qed.

Theorem seq_place_complete : forall vr m cs r0 vorder corder,
  wf_problem vr m cs -> unit_premise vr m cs r0 ->
  (forall vo, vorder = Some vo -> vertex_order_ok vr vo) ->
  (forall co, corder = Some co -> chip_order_ok m co) ->
  exists pl, seq_place vr m cs vorder corder = Ok pl.
Proof.
  intros vr m cs r0 vorder corder W U Hvo Hco. unfold seq_place.
  destruct (length vr =? 0)%nat eqn:Elen; [exists []; reflexivity|].
  assert (Hvrne : vr <> []) by (intros E; subst vr; cbn in Elen; discriminate).
  unfold apply_same_chip. rewrite (apply_sc_none cs [] vr [] (up_no_groups _ _ _ _ U)). cbn [app bind].
  destruct (handle_cs_complete vr m cs r0 W U cs [] m [] eq_refl (InvEq_init vr m (wf_exc_nodup _ _ _ W)))
    as [m1 [pl0 [Hh [Hinv Hfrom]]]].
  { intros v l Hz. discriminate. }
  rewrite Hh. cbn [bind].
  pose proof (LoopInv_after_constraints vr m cs r0 m1 pl0 W U Hinv Hfrom) as Hloop.
  assert (Hlm : forall c, live m1 c = live m c) by (intros c; apply live_frame; exact (ie_frame _ _ _ _ _ Hinv)).
  set (vo1 := match vorder with Some vo => vo | None => map fst vr end).
  assert (Hvo1 : (match vorder with Some vo => subst_order [] vo | None => Ok (map fst vr) end) = Ok vo1).
  { unfold vo1. destruct vorder; reflexivity. }
  rewrite Hvo1. cbn [bind].
  assert (Hvs : forall v, In v vo1 -> In v (map fst vr)).
  { unfold vo1. destruct vorder as [vo|]; [|intros v Hv; exact Hv]. intros v Hv. apply (Hvo vo eq_refl). exact Hv. }
  set (chips := filter (live m1) (match corder with Some co => co | None => raster m1 end)).
  assert (Hchips : NoDup chips /\ forall c, In c chips <-> live m c = true).
  { unfold chips. destruct corder as [co|].
    - destruct (Hco co eq_refl) as [Hnd Hall].
      rewrite (filter_ext (live m1) (live m) Hlm). split; [exact Hnd|].
      intros c. rewrite filter_In. split; [tauto|]. intros Hl. split; [apply Hall; exact Hl | exact Hl].
    - rewrite (raster_frame m m1 (ie_frame _ _ _ _ _ Hinv)). split.
      + apply NoDup_filter. apply raster_NoDup.
      + intros c. rewrite filter_In, raster_In, Hlm. tauto. }
  destruct Hchips as [Hnd Hall].
  destruct chips as [|c0 crest] eqn:Ec.
  - exfalso. destruct (up_some_chip _ _ _ _ U Hvrne) as [c Hc]. apply Hall in Hc. destruct Hc.
  - destruct (place_loop_complete vr m cs r0 W U vo1 m1 pl0 c0 crest Hloop Hnd Hall Hvs) as [pl1 Hpl1].
    rewrite Hpl1. cbn [bind rev finalise]. exists pl1. reflexivity.
Qed.

(* ---------------------------------------------------------------------------------------------- *)
(* The premise is satisfiable                                                                       *)
(* ---------------------------------------------------------------------------------------------- *)
Definition exc_vr : vresources := [(1, [(0, 1)]); (2, [(0, 1)]); (3, [])].
Definition exc_m : pmachine :=
  {| pm_width := 2; pm_height := 1; pm_res := [(0, 2)]; pm_exc := []; pm_dead := [] |}.
Definition exc_cs : list pconstr := [PCLocation 1 (1, 0); PCReserve 0 0 1 None].

Ltac in_cases :=
  repeat match goal with
         | H : In _ (_ :: _) |- _ => destruct H as [H | H]
         | H : In _ [] |- _ => destruct H
         | H : _ \/ _ |- _ => destruct H as [H | H]
         | H : False |- _ => destruct H
         | H : (_, _) = (_, _) |- _ => inversion H; clear H; subst
         | H : PCLocation _ _ = _ |- _ => inversion H; clear H; subst
         | H : PCSameChip _ = _ |- _ => inversion H; clear H; subst
         | H : PCReserve _ _ _ _ = _ |- _ => inversion H; clear H; subst
         | H : Some _ = Some _ |- _ => inversion H; clear H; subst
         end.

Lemma exc_known : resource_known exc_m 0.
Proof. split; [left; reflexivity|]. intros c d H. destruct H. Qed.

Lemma exc_wf : wf_problem exc_vr exc_m exc_cs.
Proof.
  constructor.
  - cbn. repeat constructor; cbn; intuition discriminate.
  - intros v H. cbn in H. intuition lia.
  - intros v d H. unfold exc_vr in H. in_cases; cbn; repeat constructor; cbn; intuition.
  - intros v d r q H Hq. unfold exc_vr in H. in_cases; lia.
  - intros v d r q H Hq. unfold exc_vr in H. in_cases; exact exc_known.
  - cbn. constructor.
  - split; [intros r q H; cbn in H; in_cases; lia | intros c d r q H; destruct H].
  - intros k v H Hv. unfold exc_cs in H. in_cases; cbn in Hv; in_cases; cbn; tauto.
  - intros r s e loc H. unfold exc_cs in H. in_cases. exact exc_known.
Qed.

Lemma exc_live : forall c, live exc_m c = true -> c = (0, 0) \/ c = (1, 0).
Proof.
  intros c H. apply raster_In in H.
  assert (E : raster exc_m = [(0, 0); (1, 0)]) by (vm_compute; reflexivity).
  rewrite E in H. destruct H as [H | [H | []]]; [left | right]; symmetry; exact H.
Qed.

Lemma exc_reserved : forall c r, reserved exc_cs c r = if r =? 0 then 1 else 0.
Proof.
  intros c r. unfold exc_cs. cbn [reserved]. unfold reserve_applies. destruct (r =? 0); reflexivity.
Qed.

Lemma exc_capacity : forall c r, capacity exc_m c r = if r =? 0 then 2 else 0.
Proof.
  intros c r. unfold capacity, chip_res. cbn [exc_m pm_exc cassoc pm_res]. unfold rget. cbn [zassoc].
  destruct (r =? 0); reflexivity.
Qed.

Lemma exc_premise : unit_premise exc_vr exc_m exc_cs 0.
Proof.
  constructor.
  - intros v d r q H Hq. unfold exc_vr in H. in_cases; left; split; auto.
  - intros vs H. unfold exc_cs in H. in_cases.
  - intros _. exists (0, 0). reflexivity.
  - split; [cbn; repeat constructor; cbn; intuition | intros c d H; destruct H].
  - intros r s e loc H. unfold exc_cs in H. in_cases. split; [lia | intros c Hc; discriminate].
  - split.
    + intros r. cbn. unfold rget. cbn. destruct (r =? 0); lia.
    + intros c r Hl. rewrite exc_capacity, exc_reserved. destruct (r =? 0); lia.
  - intros v c H. unfold exc_cs in H. in_cases. reflexivity.
  - intros v c c' H H'. unfold exc_cs in H, H'. in_cases. reflexivity.
  - intros c Hl. apply exc_live in Hl. destruct Hl; subst c; vm_compute; discriminate.
  - vm_compute. discriminate.
Qed.

Lemma exc_instance :
  wf_problem exc_vr exc_m exc_cs /\ unit_premise exc_vr exc_m exc_cs 0
  /\ vertex_order_ok exc_vr [3; 1; 2] /\ chip_order_ok exc_m [(1, 0); (5, 5); (0, 0)]
  /\ seq_place exc_vr exc_m exc_cs (Some [3; 1; 2]) (Some [(1, 0); (5, 5); (0, 0)])
     = Ok [(1, (1, 0)); (3, (1, 0)); (2, (0, 0))].
Proof.
  split; [exact exc_wf|]. split; [exact exc_premise|]. split; [|split].
  - intros v. cbn. intuition.
  - split.
    + vm_compute. repeat constructor; cbn; intuition discriminate.
    + intros c Hl. apply exc_live in Hl. destruct Hl; subst c; cbn; tauto.
  - vm_compute. reflexivity.
Qed.

(* ---------------------------------------------------------------------------------------------- *)
(* The random placer succeeds under the premise, for every sufficiently long stream of choices      *)
(* ---------------------------------------------------------------------------------------------- *)
Lemma remove_chip_length : forall c l, In c l -> (length (remove_chip c l) + 1 = length l)%nat.
Proof.
  intros c l. induction l as [|h t IH]; intros H; [destruct H|]. cbn [remove_chip].
  destruct (chip_eqb h c) eqn:E; cbn [length]; [lia|].
  destruct H as [H | H]; [subst; rewrite chip_eqb_refl in E; discriminate|]. specialize (IH H). lia.
Qed.

Lemma remove_chip_other : forall c l x, In x l -> x <> c -> In x (remove_chip c l).
Proof.
  intros c l x. induction l as [|h t IH]; intros H Hne; [destruct H|]. cbn [remove_chip].
  destruct (chip_eqb h c) eqn:E.
  - apply chip_eqb_eq in E. subst h. destruct H as [H | H]; [congruence | exact H].
  - destruct H as [H | H]; [left; exact H | right; apply IH; assumption].
Qed.

Lemma rand_vertex_ok : forall m d fuel locs oracle,
  (length locs < fuel)%nat -> (length locs <= length oracle)%nat ->
  (forall c, In c locs -> live m c = true) ->
  (exists c, In c locs /\ overallocated (subtract_resources (chip_res m c) d) = false) ->
  exists c r' locs' oracle',
    rand_vertex fuel m d locs oracle = Ok (c, r', locs', oracle')
    /\ In c locs' /\ live m c = true /\ r' = subtract_resources (chip_res m c) d /\ overallocated r' = false
    /\ (forall x, In x locs' -> In x locs)
    /\ (forall x, In x locs -> ~ In x locs' -> overallocated (subtract_resources (chip_res m x) d) = true)
    /\ (length oracle' + length locs + 1 = length oracle + length locs')%nat.
Proof.
  intros m d fuel. induction fuel as [|fuel IH]; intros locs oracle Hf Ho Hlive [c0 [Hc0 Hfit0]]; [lia|].
  cbn [rand_vertex]. destruct locs as [|l0 lt] eqn:El; [destruct Hc0|]. rewrite <- El in *.
  assert (Hlen : (0 < length locs)%nat) by (subst locs; cbn [length]; lia).
  destruct oracle as [|n oracle1]; [cbn [length] in Ho; lia|].
  set (c := nth (Nat.modulo n (length locs)) locs l0).
  assert (Hc : In c locs) by (apply nth_In; apply Nat.mod_upper_bound; lia).
  unfold try_chip, mget. rewrite (Hlive c Hc). cbn [bind].
  destruct (overallocated (subtract_resources (chip_res m c) d)) eqn:Eo.
  - assert (Hne : c0 <> c) by (intros E; subst; congruence).
    pose proof (remove_chip_length c locs Hc) as Hrl.
    destruct (IH (remove_chip c locs) oracle1) as [c' [r' [locs' [oracle' [G1 [G2 [G3 [G4 [G5 [G6 [G7 G8]]]]]]]]]]].
    + lia.
    + cbn [length] in Ho. lia.
    + intros x Hx. apply Hlive. eapply remove_chip_subset. exact Hx.
    + exists c0. split; [apply remove_chip_other; assumption | exact Hfit0].
    + exists c', r', locs', oracle'. split; [exact G1|]. split; [exact G2|]. split; [exact G3|]. split; [exact G4|].
      split; [exact G5|]. split; [intros x Hx; eapply remove_chip_subset; apply G6; exact Hx|]. split.
      * intros x Hx Hn. destruct (chip_eq_dec x c) as [E | E]; [subst; exact Eo|].
        apply G7; [apply remove_chip_other; assumption | exact Hn].
      * cbn [length]. lia.
  - exists c, (subtract_resources (chip_res m c) d), locs, oracle1.
    split; [reflexivity|]. split; [exact Hc|]. split; [apply Hlive; exact Hc|]. split; [reflexivity|]. split; [exact Eo|].
    split; [intros x Hx; exact Hx|]. split; [intros x Hx Hn; contradiction|]. cbn [length]. lia.
Qed.

Lemma filter_len_le : forall {A} (f : A -> bool) l, (length (filter f l) <= length l)%nat.
Proof.
  intros A f l. induction l as [|x t IH]; cbn [filter length]; [lia|]. destruct (f x); cbn [length]; lia.
Qed.

Lemma rand_loop_complete : forall vr m0 cs r0,
  wf_problem vr m0 cs -> unit_premise vr m0 cs r0 ->
  forall vs m pl locs oracle,
    LoopInv vr m0 r0 m pl -> NoDup vs ->
    (forall v, In v vs -> In v (map fst vr) /\ pl_mem v pl = false) ->
    locs <> [] -> (forall c, In c locs -> live m0 c = true) ->
    (forall c, live m0 c = true -> ~ In c locs -> rget r0 (chip_res m c) <= 0) ->
    (length vs + length locs <= length oracle)%nat ->
    exists pl', rand_loop vr vs m pl locs oracle = Ok pl'.
Proof.
  intros vr m0 cs r0 W U vs. induction vs as [|v vs IH]; intros m pl locs oracle Hinv Hnd Hvs Hne Hlocs Hfull Hlen.
  - exists pl. reflexivity.
  - cbn [rand_loop]. inversion Hnd as [|? ? Hv_ni Hnd']. subst.
    destruct (Hvs v (or_introl eq_refl)) as [Hvk Hnew].
    destruct (zassoc_key_Some v vr Hvk) as [d Hd]. rewrite Hd.
    assert (Hdin : In (v, d) vr) by (apply zassoc_In; exact Hd).
    assert (Hlm : forall c, live m c = live m0 c) by (intros c; apply live_frame; exact (li_frame _ _ _ _ _ Hinv)).
    (* when does a chip have room for v *)
    assert (Hroom : forall c, live m0 c = true -> rget r0 d <= rget r0 (chip_res m c) ->
                              overallocated (subtract_resources (chip_res m c) d) = false).
    { intros c Hc Hle. apply overallocated_false_intro. intros r q' Hin. apply subtract_entries in Hin.
      destruct Hin as [q [Hq Eq]]. pose proof (li_nn _ _ _ _ _ Hinv c r q Hc Hq) as Hqn.
      destruct (Z.eq_dec r r0) as [E | E].
      - subst r. assert (Hqq : rget r0 (chip_res m c) = q).
        { unfold rget. rewrite (zassoc_NoDup_In r0 q (chip_res m c)); [reflexivity | | exact Hq].
          exact (eq_ind_r (fun l => NoDup l) (chip_res_nodup vr m0 cs r0 c U) (li_keys _ _ _ _ _ Hinv c Hc)). }
        lia.
      - rewrite (rget_other_zero vr m0 cs r0 v d r U Hdin E) in Eq. lia. }
    assert (Hnn0 : forall c, live m0 c = true -> 0 <= rget r0 (chip_res m c)).
    { intros c Hc. apply rget_nonneg_of_entries. intros r q Hq. apply (li_nn _ _ _ _ _ Hinv c r q Hc Hq). }
    assert (Hex : exists c, In c locs /\ overallocated (subtract_resources (chip_res m c) d) = false).
    { destruct (rget_unit vr m0 cs r0 v d U Hdin) as [Hz | Ho].
      - destruct locs as [|c t]; [congruence|]. exists c. split; [left; reflexivity|].
        apply Hroom; [apply Hlocs; left; reflexivity|]. rewrite Hz. apply Hnn0. apply Hlocs. left. reflexivity.
      - assert (Hpos : 0 < tfree r0 (raster m0) m).
        { pose proof (li_budget _ _ _ _ _ Hinv) as Hb.
          pose proof (unplaced_set r0 vr pl v d (0, 0) (wf_vr_nodup _ _ _ W) Hd Hnew) as Hu.
          pose proof (unplaced_nonneg r0 vr (pl_set v (0, 0) pl) (wf_demand_nonneg _ _ _ W)). lia. }
        apply sumf_exists_pos in Hpos. destruct Hpos as [c [Hc Hgc]]. apply raster_In in Hc.
        exists c. split.
        + destruct (in_dec chip_eq_dec c locs) as [Hi | Hn]; [exact Hi|]. specialize (Hfull c Hc Hn). lia.
        + apply Hroom; [exact Hc | lia]. }
    destruct (rand_vertex_ok m d (S (length locs)) locs oracle) as [c [r' [locs' [oracle' [G1 [G2 [G3 [G4 [G5 [G6 [G7 G8]]]]]]]]]]].
    + lia.
    + cbn [length] in Hlen. lia.
    + intros c Hc. rewrite Hlm. apply Hlocs. exact Hc.
    + exact Hex.
    + rewrite G1. cbn [bind]. destruct (mset_live m c r' G3) as [m1 Hs]. rewrite Hs. subst r'.
      rewrite Hlm in G3.
      pose proof (mset_spec _ _ _ _ Hs) as [_ [_ [_ [_ Hcr]]]].
      apply (IH m1 (pl_set v c pl) locs' oracle').
      * apply (LoopInv_place vr m0 cs r0 m pl v d c m1 W Hinv Hd Hnew G3 G5 Hs).
      * exact Hnd'.
      * intros u Hu. destruct (Hvs u (or_intror Hu)) as [H1 H2]. split; [exact H1|].
        rewrite pl_mem_set. destruct (u =? v) eqn:E; [|exact H2]. apply Z.eqb_eq in E. subst u. contradiction.
      * intros E. subst locs'. destruct G2.
      * intros x Hx. apply Hlocs. apply G6. exact Hx.
      * intros x Hx Hn. rewrite Hcr. destruct (chip_eqb x c) eqn:E; [apply chip_eqb_eq in E; subst x; contradiction|].
        destruct (in_dec chip_eq_dec x locs) as [Hi | Hni]; [|apply Hfull; assumption].
        (* x was rejected just now: it has no room for a vertex that needs one unit *)
        specialize (G7 x Hi Hn).
        destruct (Z_le_gt_dec (rget r0 d) (rget r0 (chip_res m x))) as [Hle | Hgt].
        -- rewrite (Hroom x Hx Hle) in G7. discriminate.
        -- destruct (rget_unit vr m0 cs r0 v d U Hdin) as [Hz | Ho]; [|lia]. specialize (Hnn0 x Hx). lia.
      * cbn [length] in Hlen. lia.
Qed.

Theorem rand_place_complete : forall vr m cs r0 oracle,
  wf_problem vr m cs -> unit_premise vr m cs r0 ->
  (length vr + length (raster m) <= length oracle)%nat ->
  exists pl, rand_place vr m cs oracle = Ok pl.
Proof.
  intros vr m cs r0 oracle W U Hlen. unfold rand_place.
  unfold apply_same_chip. rewrite (apply_sc_none cs [] vr [] (up_no_groups _ _ _ _ U)). cbn [app bind].
  destruct (handle_cs_complete vr m cs r0 W U cs [] m [] eq_refl (InvEq_init vr m (wf_exc_nodup _ _ _ W)))
    as [m1 [pl0 [Hh [Hinv Hfrom]]]].
  { intros v l Hz. discriminate. }
  rewrite Hh. cbn [bind].
  pose proof (LoopInv_after_constraints vr m cs r0 m1 pl0 W U Hinv Hfrom) as Hloop.
  rewrite (raster_frame m m1 (ie_frame _ _ _ _ _ Hinv)).
  set (movable := filter (fun v => negb (pl_mem v pl0)) (map fst vr)).
  destruct (length vr =? 0)%nat eqn:Elen.
  - apply Nat.eqb_eq in Elen. destruct vr; [|discriminate]. cbn. exists pl0. reflexivity.
  - assert (Hvrne : vr <> []) by (intros E; subst vr; cbn in Elen; discriminate).
    destruct (rand_loop_complete vr m cs r0 W U movable m1 pl0 (raster m) oracle Hloop) as [pl1 Hpl1].
    + unfold movable. apply NoDup_filter. exact (wf_vr_nodup _ _ _ W).
    + intros v Hv. unfold movable in Hv. apply filter_In in Hv. destruct Hv as [H1 H2].
      split; [exact H1 | apply negb_true_iff; exact H2].
    + destruct (up_some_chip _ _ _ _ U Hvrne) as [c Hc]. apply raster_In in Hc. intros E. rewrite E in Hc. destruct Hc.
    + intros c Hc. apply raster_In. exact Hc.
    + intros c Hc Hn. exfalso. apply Hn. apply raster_In. exact Hc.
    + assert (length movable <= length (map fst vr))%nat by (unfold movable; apply filter_len_le).
      rewrite map_length in H. lia.
    + rewrite Hpl1. cbn [bind rev finalise]. exists pl1. reflexivity.
Qed.

(* ---------------------------------------------------------------------------------------------- *)
(* Termination of the random placer: a rejected chip leaves the candidate set, so |vertices| +      *)
(* |chips| random choices always suffice                                                            *)
(* ---------------------------------------------------------------------------------------------- *)
Lemma rand_vertex_nofuel : forall m d fuel locs oracle,
  (length locs < fuel)%nat -> (length locs <= length oracle)%nat ->
  match rand_vertex fuel m d locs oracle with
  | OutOfFuel => False
  | Ok (c, r', locs', oracle') => (length oracle' + length locs + 1 = length oracle + length locs')%nat
  | _ => True
  end.
Proof.
  intros m d fuel. induction fuel as [|fuel IH]; intros locs oracle Hf Ho; [lia|].
  cbn [rand_vertex]. destruct locs as [|l0 lt] eqn:El; [exact I|]. rewrite <- El in *.
  assert (Hlen : (0 < length locs)%nat) by (subst locs; cbn [length]; lia).
  destruct oracle as [|n oracle1]; [cbn [length] in Ho; lia|].
  set (c := nth (Nat.modulo n (length locs)) locs l0).
  assert (Hc : In c locs) by (apply nth_In; apply Nat.mod_upper_bound; lia).
  destruct (try_chip m d c) as [o| | |] eqn:Et; cbn [bind]; try exact I.
  - destruct o as [r'|].
    + cbn [length]. lia.
    + pose proof (remove_chip_length c locs Hc) as Hrl.
      specialize (IH (remove_chip c locs) oracle1). cbn [length] in Ho.
      destruct (rand_vertex fuel m d (remove_chip c locs) oracle1) as [[[[c' r'] locs'] oracle']| | |];
        try exact I; try (apply IH; lia).
      cbn [length]. assert (Hx := IH ltac:(lia) ltac:(lia)). cbn beta iota in Hx. lia.
  - exfalso. apply (try_chip_fuel m d c Et).
Qed.

Lemma rand_loop_nofuel : forall vr vs m pl locs oracle,
  (length vs + length locs <= length oracle)%nat -> rand_loop vr vs m pl locs oracle <> OutOfFuel.
Proof.
  intros vr vs. induction vs as [|v vs IH]; intros m pl locs oracle Hlen; cbn [rand_loop]; [discriminate|].
  destruct (zassoc v vr) as [d|]; [|discriminate]. cbn [length] in Hlen.
  pose proof (rand_vertex_nofuel m d (S (length locs)) locs oracle ltac:(lia) ltac:(lia)) as Hv.
  destruct (rand_vertex (S (length locs)) m d locs oracle) as [[[[c r'] locs'] oracle']| | |]; cbn [bind];
    try discriminate; [|destruct Hv].
  destruct (mset m c r'); [|discriminate]. apply IH. lia.
Qed.

Theorem rand_place_terminates : forall vr m cs oracle,
  (length vr + length (raster m) <= length oracle)%nat -> rand_place vr m cs oracle <> OutOfFuel.
Proof.
  intros vr m cs oracle Hlen. unfold rand_place.
  destruct (apply_same_chip vr cs) as [[[vr1 cs1] subs]| | |] eqn:Ea; cbn [bind]; try discriminate.
  2: { exfalso. apply (apply_sc_fuel _ _ _ _ _ Ea). }
  destruct (handle_cs vr1 cs1 m []) as [[m1 pl0]| | |] eqn:Eh; cbn [bind]; try discriminate.
  2: { exfalso. apply (handle_cs_fuel _ _ _ _ Eh). }
  apply bind_fuel; [|intros pl1 _; apply finalise_fuel].
  apply rand_loop_nofuel.
  (* merging never increases the number of vertices, the frame of the machine is unchanged *)
  assert (Hk : (length (map fst vr1) <= length vr)%nat).
  { clear -Ea. unfold apply_same_chip in Ea. revert Ea. generalize (fun v : vertex => v) as f.
    generalize (@nil pconstr) as done. generalize (@nil substitution) as subs0. revert vr.
    induction cs as [|k rest IH]; intros vr subs0 done f H; cbn [apply_sc] in H.
    - inversion H. subst. rewrite map_length. lia.
    - destruct (subst_c f k) as [| vs | |]; try (apply (IH _ _ _ _ H)).
      destruct (length vs <=? 1)%nat eqn:El; [apply (IH _ _ _ _ H)|].
      destruct (pop_all (dedup vs) vr []) as [[total vr']|] eqn:Ep; [|discriminate].
      specialize (IH _ _ _ _ H). rewrite app_length in IH. cbn [length] in IH.
      assert (Hp : (length vr' + length (dedup vs) = length vr)%nat).
      { clear -Ep. revert vr total vr' Ep. generalize (@nil (res * Z)) as tot.
        induction (dedup vs) as [|x S IHS]; intros tot vr total vr' Ep; cbn [pop_all] in Ep.
        - inversion Ep. subst. cbn [length]. lia.
        - destruct (vr_pop x vr) as [[d vr1]|] eqn:Ev; [|discriminate].
          specialize (IHS _ _ _ _ Ep). cbn [length].
          assert (length vr1 + 1 = length vr)%nat.
          { clear -Ev. revert d vr1 Ev. induction vr as [|[u du] t IHt]; intros d vr1 Ev; cbn [vr_pop] in Ev; [discriminate|].
            destruct (x =? u); [inversion Ev; subst; cbn [length]; lia|].
            destruct (vr_pop x t) as [[d1 t1]|]; [|discriminate]. inversion Ev. subst. cbn [length].
            specialize (IHt _ _ eq_refl). lia. }
          lia. }
      assert (Hd : (1 <= length (dedup vs))%nat).
      { destruct vs as [|a t]; [cbn in El; discriminate|].
        assert (In a (dedup (a :: t))) by (apply dedup_In; left; reflexivity).
        destruct (dedup (a :: t)); [destruct H0 | cbn [length]; lia]. }
      lia. }
  assert (Hfr : raster m1 = raster m).
  { destruct (handle_cs vr1 cs1 m []) as [[m1' pl0']| | |] eqn:Eh'; inversion Eh. subst.
    apply raster_frame. clear -Eh'. revert Eh'. generalize (@nil (vertex * chip)) as pl. revert m.
    assert (Hap : forall m r size loc m', apply_reserve m r size loc = Ok m' -> same_frame m m').
    { intros m r size loc m' H. unfold apply_reserve in H. destruct loc as [c|].
      - destruct (negb (live m c)); [discriminate|].
        destruct (after_reservation (chip_res m c) r size) as [d'|]; [|discriminate].
        destruct (mset m c d') as [m2|] eqn:Es; [|discriminate].
        destruct (overallocated (chip_res m2 c)); [discriminate|]. inversion H. subst.
        apply (proj1 (mset_spec _ _ _ _ Es)).
      - destruct (after_reservation (pm_res m) r size) as [d'|]; [|discriminate].
        destruct (overallocated d'); [discriminate|].
        assert (Hre : forall todo m0 m1, reserve_exceptions m0 r size todo = Ok m1 -> same_frame m0 m1).
        { induction todo as [|[l x] todo IHt]; intros m0 m2 H0; cbn [reserve_exceptions] in H0.
          - inversion H0. apply same_frame_refl.
          - destruct (cassoc l (pm_exc m0)) as [d|]; [|discriminate].
            destruct (after_reservation d r size) as [d1|]; [|discriminate].
            match type of H0 with (if ?b then _ else _) = _ => destruct b end; [discriminate|].
            eapply same_frame_trans; [apply with_exc_frame | apply (IHt _ _ H0)]. }
        eapply same_frame_trans; [apply with_res_frame | apply (Hre _ _ _ H)]. }
    induction cs1 as [|k cs1 IH]; intros m pl H; cbn [handle_cs] in H.
    - inversion H. apply same_frame_refl.
    - destruct k as [v loc | vs | r s e loc |]; try apply (IH _ _ H).
      + destruct (negb (live m loc)); [discriminate|].
        destruct (match zassoc v pl with Some l => chip_eqb l loc | None => false end); [apply (IH _ _ H)|].
        destruct (zassoc v vr1) as [d|]; [|discriminate].
        destruct (mget m loc) as [cr|]; [|discriminate].
        destruct (mset m loc (subtract_resources cr d)) as [m2|] eqn:Es; [|discriminate].
        destruct (overallocated (chip_res m2 loc)); [discriminate|].
        eapply same_frame_trans; [apply (proj1 (mset_spec _ _ _ _ Es)) | apply (IH _ _ H)].
      + destruct (apply_reserve m r (e - s) loc) as [m2| | |] eqn:Er; cbn [bind] in H; try discriminate.
        eapply same_frame_trans; [apply (Hap _ _ _ _ _ Er) | apply (IH _ _ H)]. }
  rewrite Hfr.
  assert (length (filter (fun v => negb (pl_mem v pl0)) (map fst vr1)) <= length (map fst vr1))%nat by apply filter_len_le.
  lia.
Qed.
