(* C10 -- predicates for the theorems about build_routing_tables (definitions only) *)
From Coq Require Import ZArith List Bool.
Require Import Rig.Model.Base Rig.Model.Tables.
Import ListNotations.
Open Scope Z_scope.

(* the table a chip gets: a chip that is not in the dictionary has no entries *)
Definition table_at (T : list (chip * list entry)) (c : chip) : list entry :=
  match cassoc c T with Some es => es | None => [] end.

(* l' is l with some elements left out (same order) *)
Inductive subseq {A : Type} : list A -> list A -> Prop :=
| subseq_nil : subseq [] []
| subseq_keep : forall x l' l, subseq l' l -> subseq (x :: l') (x :: l)
| subseq_drop : forall x l' l, subseq l' l -> subseq l' (x :: l).
