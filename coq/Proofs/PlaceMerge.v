(* Proofs about same-chip merging: apply_same_chip_constraints replaces each group by one fresh vertex
   whose demand is the sum of the members', finalise_same_chip_constraints expands a placement of the
   merged problem (in reverse order of the substitutions).  Main result [apply_sc_sound]: a feasible
   placement of the merged problem expands to a feasible placement of the original problem. *)
From Coq Require Import ZArith List Bool Lia.
Require Import Rig.Model.Base Rig.Model.Place Rig.Spec.Place Rig.Proofs.Place Rig.Proofs.PlaceCore.
Import ListNotations.
Open Scope Z_scope.

Definition sumf {A} (f : A -> Z) (l : list A) : Z := fold_right Z.add 0 (map f l).

Lemma sumf_app : forall {A} (f : A -> Z) a b, sumf f (a ++ b) = sumf f a + sumf f b.
Proof.
  intros A f a b. unfold sumf. induction a as [|x t IH]; cbn [app map fold_right]; [lia|]. rewrite IH. lia.
Qed.

Lemma sumf_ext : forall {A} (f g : A -> Z) l, (forall x, In x l -> f x = g x) -> sumf f l = sumf g l.
Proof.
  intros A f g l. unfold sumf. induction l as [|x t IH]; intros H; cbn [map fold_right]; [reflexivity|].
  rewrite IH by (intros y Hy; apply H; right; exact Hy). rewrite (H x (or_introl eq_refl)). reflexivity.
Qed.

Lemma load_sumf : forall vr pl c r,
  load vr pl c r = sumf (fun vd : vertex * resources => if on_chip pl (fst vd) c then rget r (snd vd) else 0) vr.
Proof. reflexivity. Qed.

(* ---------------------------------------------------------------------------------------------- *)
(* dedup                                                                                            *)
(* ---------------------------------------------------------------------------------------------- *)
Lemma dedup_In : forall l x, In x (dedup l) <-> In x l.
Proof.
  induction l as [|h t IH]; intros x; cbn [dedup]; [tauto|].
  destruct (zmem h t) eqn:E.
  - rewrite IH. cbn [In]. split; [tauto|]. intros [H | H]; [subst; apply zmem_In; exact E | exact H].
  - cbn [In]. rewrite IH. tauto.
Qed.

Lemma dedup_NoDup : forall l, NoDup (dedup l).
Proof.
  induction l as [|h t IH]; cbn [dedup]; [constructor|].
  destruct (zmem h t) eqn:E; [exact IH|].
  constructor; [|exact IH]. rewrite dedup_In. apply zmem_false. exact E.
Qed.

Lemma zmem_dedup : forall v l, zmem v (dedup l) = zmem v l.
Proof.
  intros v l. destruct (zmem v l) eqn:E.
  - apply zmem_In. apply dedup_In. apply zmem_In. exact E.
  - apply zmem_false. rewrite dedup_In. apply zmem_false. exact E.
Qed.

(* ---------------------------------------------------------------------------------------------- *)
(* vr_pop, accumulate, pop_all                                                                      *)
(* ---------------------------------------------------------------------------------------------- *)
Lemma vr_pop_spec : forall v (vr : vresources) d vr',
  vr_pop v vr = Some (d, vr') -> NoDup (map fst vr) ->
  zassoc v vr = Some d /\ NoDup (map fst vr')
  /\ (forall u, In u (map fst vr') <-> In u (map fst vr) /\ u <> v)
  /\ (forall u, u <> v -> zassoc u vr' = zassoc u vr)
  /\ (forall x, In x vr' -> In x vr)
  /\ (forall f : vertex * resources -> Z, sumf f vr = f (v, d) + sumf f vr').
Proof.
  intros v vr. induction vr as [|[u du] t IH]; intros d vr' H Hnd; cbn [vr_pop] in H.
  - discriminate.
  - cbn [map fst] in Hnd. inversion Hnd as [|? ? Hni Hnd']. subst.
    destruct (v =? u) eqn:E.
    + apply Z.eqb_eq in E. subst u. inversion H. subst du vr'. clear H.
      cbn [zassoc]. rewrite Z.eqb_refl. split; [reflexivity|]. split; [exact Hnd'|]. split.
      * intros x. cbn [map fst In]. split.
        -- intros Hx. split; [right; exact Hx | intros Heq; subst; contradiction].
        -- intros [[Hx | Hx] Hne]; [congruence | exact Hx].
      * split.
        -- intros x Hne. cbn [zassoc]. destruct (x =? v) eqn:E'; [apply Z.eqb_eq in E'; contradiction | reflexivity].
        -- split; [intros x Hx; right; exact Hx|]. intros f. unfold sumf. cbn [map fold_right]. reflexivity.
    + destruct (vr_pop v t) as [[d1 t1]|] eqn:Ep; [|discriminate]. inversion H. subst d1 vr'. clear H.
      destruct (IH d t1 eq_refl Hnd') as [G1 [G2 [G3 [G4 [G5 G6]]]]].
      cbn [zassoc]. rewrite E. split; [exact G1|]. split.
      * cbn [map fst]. constructor; [|exact G2]. intros Hin. apply G3 in Hin. destruct Hin as [Hin _]. contradiction.
      * split.
        -- intros x. cbn [map fst In]. rewrite G3. apply Z.eqb_neq in E. split.
           ++ intros [Hx | [Hx Hne]]; [subst; split; [left; reflexivity | congruence] | split; [right; exact Hx | exact Hne]].
           ++ intros [[Hx | Hx] Hne]; [left; exact Hx | right; split; assumption].
        -- split.
           ++ intros x Hne. cbn [zassoc]. destruct (x =? u); [reflexivity | apply G4; exact Hne].
           ++ split.
              ** intros x [Hx | Hx]; [left; exact Hx | right; apply G5; exact Hx].
              ** intros f. unfold sumf in *. cbn [map fold_right]. rewrite (G6 f). lia.
Qed.

Lemma rget_zupdate : forall r k v l, rget r (zupdate k v l) = if r =? k then v else rget r l.
Proof. intros r k v l. unfold rget. rewrite zassoc_zupdate. destruct (r =? k); reflexivity. Qed.

Lemma rget_cons : forall r r1 q1 t, rget r ((r1, q1) :: t) = if r =? r1 then q1 else rget r t.
Proof. intros r r1 q1 t. unfold rget. cbn [zassoc]. destruct (r =? r1); reflexivity. Qed.

Lemma accumulate_spec : forall d total,
  NoDup (map fst d) ->
  (forall r, rget r (accumulate total d) = rget r total + rget r d)
  /\ (forall r, In r (map fst (accumulate total d)) <-> In r (map fst total) \/ In r (map fst d))
  /\ (NoDup (map fst total) -> NoDup (map fst (accumulate total d))).
Proof.
  unfold accumulate. induction d as [|[r1 q1] t IH]; intros total Hnd; cbn [fold_left map fst].
  - repeat split; try tauto.
    + intros r. unfold rget at 3. cbn [zassoc]. lia.
    + intros [H | []]. exact H.
  - cbn [map fst] in Hnd. inversion Hnd as [|? ? Hni Hnd']. subst.
    destruct (IH (zupdate r1 (rget r1 total + q1) total) Hnd') as [G1 [G2 G3]]. cbn [fst snd].
    repeat split.
    + intros r. rewrite G1, rget_zupdate, rget_cons.
      destruct (r =? r1) eqn:E; [|lia].
      apply Z.eqb_eq in E. subst r. rewrite (rget_notin r1 t Hni). lia.
    + intros H. apply G2 in H. rewrite zupdate_In_keys in H. cbn [In].
      destruct H as [[H | H] | H]; [right; left; symmetry; exact H | left; exact H | right; right; exact H].
    + intros H. apply G2. rewrite zupdate_In_keys. cbn [In] in H.
      destruct H as [H | [H | H]]; [left; right; exact H | left; left; symmetry; exact H | right; exact H].
    + intros H. apply G3. apply zupdate_NoDup. exact H.
Qed.

Definition sumz (g : Z -> Z) (l : list Z) : Z := fold_right Z.add 0 (map g l).

Definition vsum (f : vertex * resources -> Z) (vr : vresources) (v : vertex) : Z :=
  match zassoc v vr with Some d => f (v, d) | None => 0 end.

Lemma sumz_ext : forall g h l, (forall x, In x l -> g x = h x) -> sumz g l = sumz h l.
Proof.
  intros g h l. unfold sumz. induction l as [|x t IH]; intros H; cbn [map fold_right]; [reflexivity|].
  rewrite IH by (intros y Hy; apply H; right; exact Hy). rewrite (H x (or_introl eq_refl)). reflexivity.
Qed.

Lemma sumz_cons : forall g x l, sumz g (x :: l) = g x + sumz g l.
Proof. reflexivity. Qed.

Lemma pop_all_spec : forall S (vr : vresources) tot total vr',
  pop_all S vr tot = Some (total, vr') -> NoDup S -> NoDup (map fst vr) ->
  (forall v d, In (v, d) vr -> NoDup (map fst d)) ->
  (forall v, In v S -> In v (map fst vr))
  /\ NoDup (map fst vr')
  /\ (forall u, In u (map fst vr') <-> In u (map fst vr) /\ ~ In u S)
  /\ (forall u, ~ In u S -> zassoc u vr' = zassoc u vr)
  /\ (forall x, In x vr' -> In x vr)
  /\ (forall f : vertex * resources -> Z, sumf f vr = sumf f vr' + sumz (vsum f vr) S)
  /\ (forall r, rget r total = rget r tot + sumz (fun v => demand vr v r) S)
  /\ (forall r, In r (map fst total) -> In r (map fst tot) \/ exists v d, In (v, d) vr /\ In r (map fst d))
  /\ (NoDup (map fst tot) -> NoDup (map fst total)).
Proof.
  induction S as [|v S IH]; intros vr tot total vr' H HndS Hnd Hdn; cbn [pop_all] in H.
  - inversion H. subst total vr'. unfold sumz. cbn [map fold_right In].
    repeat split; try tauto; try (intros; lia).
  - destruct (vr_pop v vr) as [[d vr1]|] eqn:Ep; [|discriminate].
    inversion HndS as [|? ? HvS HndS']. subst.
    destruct (vr_pop_spec v vr d vr1 Ep Hnd) as [P1 [P2 [P3 [P4 [P5 P6]]]]].
    assert (Hdn1 : forall v0 d0, In (v0, d0) vr1 -> NoDup (map fst d0)).
    { intros v0 d0 Hin. apply (Hdn v0 d0). apply P5. exact Hin. }
    destruct (IH vr1 (accumulate tot d) total vr' H HndS' P2 Hdn1) as [G1 [G2 [G3 [G4 [G5 [G6 [G7 [G8 G9]]]]]]]].
    assert (Hdnd : NoDup (map fst d)) by (apply (Hdn v d); apply zassoc_In; exact P1).
    destruct (accumulate_spec d tot Hdnd) as [A1 [A2 A3]].
    assert (Hsame : forall u, In u S -> zassoc u vr1 = zassoc u vr).
    { intros u Hu. apply P4. intros Heq. subst. contradiction. }
    split.
    { intros u [Hu | Hu]; [subst; apply zassoc_Some_key in P1; exact P1 | apply G1 in Hu; apply P3 in Hu; tauto]. }
    split; [exact G2|].
    split.
    { intros u. split.
      - intros Hu. apply G3 in Hu. destruct Hu as [Hu HnS]. apply P3 in Hu. destruct Hu as [Hu Hne]. split; [exact Hu|].
        cbn [In]. intros [Hx | Hx]; [congruence | contradiction].
      - intros [Hu HnS]. apply G3. cbn [In] in HnS. split; [apply P3; split; [exact Hu | intros Heq; apply HnS; left; congruence] | tauto]. }
    split.
    { intros u HnS. cbn [In] in HnS. rewrite G4 by tauto. apply P4. intros Heq. apply HnS. left. congruence. }
    split.
    { intros x Hx. apply P5. apply G5. exact Hx. }
    repeat split.
    + intros f. rewrite (P6 f), (G6 f), sumz_cons.
      assert (Hs : sumz (vsum f vr1) S = sumz (vsum f vr) S).
      { apply sumz_ext. intros x Hx. unfold vsum. rewrite (Hsame x Hx). reflexivity. }
      assert (Hv : vsum f vr v = f (v, d)) by (unfold vsum; rewrite P1; reflexivity).
      rewrite Hs, Hv. lia.
    + intros r. rewrite G7, A1, sumz_cons.
      assert (Hs : sumz (fun v0 => demand vr1 v0 r) S = sumz (fun v0 => demand vr v0 r) S).
      { apply sumz_ext. intros x Hx. unfold demand. rewrite (Hsame x Hx). reflexivity. }
      assert (Hv : demand vr v r = rget r d) by (unfold demand; rewrite P1; reflexivity).
      rewrite Hs, Hv. lia.
    + intros r Hr. apply G8 in Hr. destruct Hr as [Hr | [u [du [Hu Hr]]]].
      * apply A2 in Hr. destruct Hr as [Hr | Hr]; [left; exact Hr|].
        right. exists v, d. split; [apply zassoc_In; exact P1 | exact Hr].
      * right. exists u, du. split; [apply P5; exact Hu | exact Hr].
    + intros Ht. apply G9. apply A3. exact Ht.
Qed.

(* ---------------------------------------------------------------------------------------------- *)
(* Expanding one substitution in a placement                                                        *)
(* ---------------------------------------------------------------------------------------------- *)
Definition expand1 (mv : vertex) (vs : list vertex) (p : chip) (pl : placement) : placement :=
  fold_left (fun pl' v => pl_set v p pl') vs (pl_remove mv pl).

Lemma pl_remove_spec : forall mv (pl : placement), NoDup (map fst pl) ->
  NoDup (map fst (pl_remove mv pl))
  /\ (forall u, zassoc u (pl_remove mv pl) = if u =? mv then None else zassoc u pl).
Proof.
  intros mv pl. induction pl as [|[u c] t IH]; intros Hnd; cbn [pl_remove].
  - split; [constructor|]. intros u. cbn [zassoc]. destruct (u =? mv); reflexivity.
  - cbn [map fst] in Hnd. inversion Hnd as [|? ? Hni Hnd']. subst.
    destruct (IH Hnd') as [G1 G2]. destruct (mv =? u) eqn:E.
    + apply Z.eqb_eq in E. subst u. split; [exact Hnd'|].
      intros x. cbn [zassoc]. destruct (x =? mv) eqn:E'; [|reflexivity].
      apply Z.eqb_eq in E'. subst x. apply zassoc_None. exact Hni.
    + split.
      * cbn [map fst]. constructor; [|exact G1]. intros Hin.
        apply zassoc_key_Some in Hin. destruct Hin as [c' Hc']. rewrite G2 in Hc'.
        destruct (u =? mv); [discriminate|]. apply zassoc_Some_key in Hc'. contradiction.
      * intros x. cbn [zassoc]. destruct (x =? u) eqn:E'.
        -- apply Z.eqb_eq in E'. subst x. rewrite Z.eqb_sym, E. reflexivity.
        -- apply G2.
Qed.

Lemma fold_set_spec : forall p vs (pl : placement), NoDup (map fst pl) ->
  NoDup (map fst (fold_left (fun pl' v => pl_set v p pl') vs pl))
  /\ (forall u, zassoc u (fold_left (fun pl' v => pl_set v p pl') vs pl)
                = if zmem u vs then Some p else zassoc u pl).
Proof.
  intros p vs. induction vs as [|v vs IH]; intros pl Hnd; cbn [fold_left].
  - split; [exact Hnd|]. intros u. reflexivity.
  - destruct (IH (pl_set v p pl) (zupdate_NoDup v p pl Hnd)) as [G1 G2]. split; [exact G1|].
    intros u. rewrite G2. unfold pl_set. rewrite zassoc_zupdate. unfold zmem. cbn [existsb].
    fold (zmem u vs). destruct (zmem u vs); [rewrite orb_true_r; reflexivity|].
    rewrite orb_false_r. reflexivity.
Qed.

Lemma expand1_spec : forall mv vs p (pl : placement), NoDup (map fst pl) ->
  NoDup (map fst (expand1 mv vs p pl))
  /\ (forall u, zassoc u (expand1 mv vs p pl)
                = if zmem u vs then Some p else if u =? mv then None else zassoc u pl).
Proof.
  intros mv vs p pl Hnd. unfold expand1. destruct (pl_remove_spec mv pl Hnd) as [R1 R2].
  destruct (fold_set_spec p vs (pl_remove mv pl) R1) as [F1 F2]. split; [exact F1|].
  intros u. rewrite F2, R2. reflexivity.
Qed.

(* ---------------------------------------------------------------------------------------------- *)
(* Substitution in constraints                                                                      *)
(* ---------------------------------------------------------------------------------------------- *)
Lemma subst_c_comp : forall f g k, subst_c (fun v => g (f v)) k = subst_c g (subst_c f k).
Proof. intros f g k. destruct k; cbn [subst_c]; try reflexivity. rewrite map_map. reflexivity. Qed.

Lemma subst_c_id : forall cs, map (subst_c (fun v => v)) cs = cs.
Proof.
  induction cs as [|k t IH]; cbn [map]; [reflexivity|]. rewrite IH. f_equal.
  destruct k; cbn [subst_c]; try reflexivity. rewrite map_id. reflexivity.
Qed.

Lemma reserved_subst : forall f cs c r, reserved (map (subst_c f) cs) c r = reserved cs c r.
Proof.
  intros f cs c r. induction cs as [|k t IH]; cbn [map reserved]; [reflexivity|].
  destruct k; cbn [subst_c reserved]; rewrite IH; reflexivity.
Qed.

Lemma constr_vertices_subst : forall f k, constr_vertices (subst_c f k) = map f (constr_vertices k).
Proof. intros f k. destruct k; reflexivity. Qed.

Lemma degenerate_subst : forall f k, degenerate k -> degenerate (subst_c f k).
Proof.
  intros f k H. destruct k as [v l | vs | r s e loc | ]; cbn [subst_c degenerate] in *; try exact I.
  destruct H as [x Hx]. exists (f x). intros v Hv. apply in_map_iff in Hv. destruct Hv as [u [Hu Hin]].
  subst v. rewrite (Hx u Hin). reflexivity.
Qed.

(* ---------------------------------------------------------------------------------------------- *)
(* Well-formedness carried through the merges                                                       *)
(* ---------------------------------------------------------------------------------------------- *)
Record pwf (m : pmachine) (vr : vresources) (cs : list pconstr) : Prop := {
  pwf_nodup : NoDup (map fst vr);
  pwf_dnodup : forall v d, In (v, d) vr -> NoDup (map fst d);
  pwf_nonneg : forall v d r q, In (v, d) vr -> In (r, q) d -> 0 <= q;
  pwf_known : forall v d r q, In (v, d) vr -> In (r, q) d -> resource_known m r;
  pwf_cv : forall k v, In k cs -> In v (constr_vertices k) -> In v (map fst vr);
  pwf_consistent : consistent cs }.

Definition ids_above (b : Z) (vr : vresources) (cs : list pconstr) : Prop :=
  (forall v, In v (map fst vr) -> b < v) /\ (forall k v, In k cs -> In v (constr_vertices k) -> b < v).

Lemma sumz_nonneg : forall g l, (forall x, In x l -> 0 <= g x) -> 0 <= sumz g l.
Proof.
  intros g l. unfold sumz. induction l as [|x t IH]; intros H; cbn [map fold_right]; [lia|].
  assert (0 <= g x) by (apply H; left; reflexivity).
  assert (0 <= fold_right Z.add 0 (map g t)) by (apply IH; intros y Hy; apply H; right; exact Hy). lia.
Qed.

Lemma demand_nonneg : forall (vr : vresources) v r,
  (forall v d r q, In (v, d) vr -> In (r, q) d -> 0 <= q) -> 0 <= demand vr v r.
Proof.
  intros vr v r H. unfold demand. destruct (zassoc v vr) as [d|] eqn:E; [|lia].
  apply rget_nonneg_of_entries. intros r' q Hq. apply (H v d r' q); [apply zassoc_In; exact E | exact Hq].
Qed.


(* one merge: group vs (distinct members S), fresh vertex mv *)

Lemma step_pwf : forall m (vr : vresources) cs vs mv total (vr' : vresources),
  pwf m vr cs -> In (PCSameChip vs) cs -> vs <> [] ->
  pop_all (dedup vs) vr [] = Some (total, vr') ->
  ids_above mv vr cs ->
  pwf m (vr' ++ [(mv, total)]) (map (subst_c (subst_v mv (dedup vs))) cs).
Proof.
  intros m vr cs vs mv total vr' [W1 W2 W3 W4 W5 W6] Hin Hne Hpop [Hid1 Hid2].
  destruct (pop_all_spec (dedup vs) vr [] total vr' Hpop (dedup_NoDup vs) W1 W2)
    as [G1 [G2 [G3 [G4 [G5 [G6 [G7 [G8 G9]]]]]]]].
  assert (Hmv : ~ In mv (map fst vr)) by (intros H; apply Hid1 in H; lia).
  constructor.
  - rewrite map_app. cbn [map fst]. apply NoDup_snoc; [exact G2|].
    intros H. apply G3 in H. tauto.
  - intros v d H. apply in_app_iff in H. destruct H as [H | [H | []]].
    + apply (W2 v d). apply G5. exact H.
    + inversion H. subst. apply G9. constructor.
  - intros v d r q H Hq. apply in_app_iff in H. destruct H as [H | [H | []]].
    + apply (W3 v d r q); [apply G5; exact H | exact Hq].
    + inversion H. subst v d.
      assert (Hq' : rget r total = q).
      { unfold rget. rewrite (zassoc_NoDup_In r q total (G9 (NoDup_nil _)) Hq). reflexivity. }
      rewrite <- Hq', G7. unfold rget at 1. cbn [zassoc].
      assert (0 <= sumz (fun v => demand vr v r) (dedup vs)).
      { apply sumz_nonneg. intros x _. apply demand_nonneg. exact W3. }
      lia.
  - intros v d r q H Hq. apply in_app_iff in H. destruct H as [H | [H | []]].
    + apply (W4 v d r q); [apply G5; exact H | exact Hq].
    + inversion H. subst v d.
      assert (Hr : In r (map fst total)) by (apply in_map_iff; exists (r, q); split; [reflexivity | exact Hq]).
      apply G8 in Hr. destruct Hr as [[] | [u [du [Hu Hr]]]].
      apply in_map_iff in Hr. destruct Hr as [[r1 q1] [E Hq1]]. cbn [fst] in E. subst r1.
      apply (W4 u du r q1 Hu Hq1).
  - intros k v Hk Hv. apply in_map_iff in Hk. destruct Hk as [k0 [E Hk0]]. subst k.
    rewrite constr_vertices_subst in Hv. apply in_map_iff in Hv. destruct Hv as [u [E Hu]]. subst v.
    rewrite map_app, in_app_iff. cbn [map fst In]. unfold subst_v.
    destruct (zmem u (dedup vs)) eqn:Ez.
    + right. left. reflexivity.
    + left. apply G3. split; [apply (W5 k0 u Hk0 Hu) | apply zmem_false; exact Ez].
  - destruct W6 as [f0 [F1 F2]].
    assert (Hh : In (hd 0 vs) vs) by (destruct vs; [congruence | left; reflexivity]).
    set (h := hd 0 vs) in *. clearbody h.
    exists (fun v => if v =? mv then f0 h else f0 v). split.
    + intros v c Hk. apply in_map_iff in Hk. destruct Hk as [k0 [E Hk0]].
      destruct k0 as [u l | | | ]; cbn [subst_c] in E; try discriminate. inversion E. subst v c. clear E.
      assert (Hu : mv < u) by (apply (Hid2 (PCLocation u l) u Hk0); left; reflexivity).
      unfold subst_v. destruct (zmem u (dedup vs)) eqn:Ez.
      * rewrite Z.eqb_refl. rewrite <- (F1 u l Hk0).
        apply (F2 vs h u Hin); [exact Hh | apply dedup_In; apply zmem_In; exact Ez].
      * destruct (u =? mv) eqn:E; [apply Z.eqb_eq in E; lia|]. apply (F1 u l Hk0).
    + intros ws a b Hk Ha Hb. apply in_map_iff in Hk. destruct Hk as [k0 [E Hk0]].
      destruct k0 as [ | ws0 | | ]; cbn [subst_c] in E; try discriminate. inversion E. subst ws. clear E.
      apply in_map_iff in Ha. destruct Ha as [a0 [Ea Ha0]]. apply in_map_iff in Hb. destruct Hb as [b0 [Eb Hb0]].
      assert (Hval : forall x, In x ws0 ->
                (if subst_v mv (dedup vs) x =? mv then f0 h else f0 (subst_v mv (dedup vs) x)) = f0 x).
      { intros x Hx. assert (Hxid : mv < x) by (apply (Hid2 (PCSameChip ws0) x Hk0); exact Hx).
        unfold subst_v. destruct (zmem x (dedup vs)) eqn:Ez.
        - rewrite Z.eqb_refl. apply (F2 vs h x Hin); [exact Hh | apply dedup_In; apply zmem_In; exact Ez].
        - destruct (x =? mv) eqn:E; [apply Z.eqb_eq in E; lia | reflexivity]. }
      subst a b. rewrite (Hval a0 Ha0), (Hval b0 Hb0). apply (F2 ws0 a0 b0 Hk0 Ha0 Hb0).
Qed.

Lemma sumz_const_if : forall (b : bool) g l,
  sumz (fun v => if b then g v else 0) l = if b then sumz g l else 0.
Proof.
  intros b g l. destruct b; [reflexivity|]. unfold sumz. induction l as [|x t IH]; cbn [map fold_right]; [reflexivity|].
  rewrite IH. reflexivity.
Qed.

Lemma step_feasible : forall m (vr : vresources) cs vs mv (total : resources) (vr' : vresources) pl2 p,
  NoDup (map fst vr) -> (forall v d, In (v, d) vr -> NoDup (map fst d)) ->
  pop_all (dedup vs) vr [] = Some (total, vr') ->
  ids_above mv vr cs ->
  Feasible (vr' ++ [(mv, total)]) m (map (subst_c (subst_v mv (dedup vs))) cs) pl2 ->
  zassoc mv pl2 = Some p ->
  Feasible vr m cs (expand1 mv vs p pl2).
Proof.
  intros m vr cs vs mv total vr' pl2 p W1 W2 Hpop [Hid1 Hid2] [F1 F2 F3 F4 F5 F6] Hp.
  destruct (pop_all_spec (dedup vs) vr [] total vr' Hpop (dedup_NoDup vs) W1 W2)
    as [G1 [G2 [G3 [G4 [G5 [G6 [G7 [G8 G9]]]]]]]].
  assert (Hmv : ~ In mv (map fst vr)) by (intros H; apply Hid1 in H; lia).
  assert (Hvs : forall v, In v vs -> In v (map fst vr)) by (intros v Hv; apply G1; apply dedup_In; exact Hv).
  assert (Hmvvs : zmem mv vs = false) by (apply zmem_false; intros H; apply Hmv; apply Hvs; exact H).
  destruct (expand1_spec mv vs p pl2 F1) as [E1 E2].
  (* the chip of a vertex of the original problem *)
  assert (Hplace : forall u c, mv < u -> zassoc (subst_v mv (dedup vs) u) pl2 = Some c ->
                               zassoc u (expand1 mv vs p pl2) = Some c).
  { intros u c Hu Hz. rewrite E2. unfold subst_v in Hz. rewrite zmem_dedup in Hz.
    destruct (zmem u vs); [congruence|]. destruct (u =? mv) eqn:E; [apply Z.eqb_eq in E; lia | exact Hz]. }
  constructor.
  - exact E1.
  - intros v. split.
    + intros Hv. apply zassoc_key_Some in Hv. destruct Hv as [c Hc]. rewrite E2 in Hc.
      destruct (zmem v vs) eqn:Ez; [apply Hvs; apply zmem_In; exact Ez|].
      destruct (v =? mv) eqn:E; [discriminate|]. apply zassoc_Some_key in Hc. apply F2 in Hc.
      rewrite map_app, in_app_iff in Hc. cbn [map fst In] in Hc. destruct Hc as [Hc | [Hc | []]].
      * apply G3 in Hc. tauto.
      * apply Z.eqb_neq in E. congruence.
    + intros Hv. destruct (zmem v vs) eqn:Ez.
      * apply (zassoc_Some_key v _ p). rewrite E2, Ez. reflexivity.
      * assert (Hv2 : In v (map fst pl2)).
        { apply F2. rewrite map_app, in_app_iff. left. apply G3. split; [exact Hv|].
          rewrite dedup_In. apply zmem_false. exact Ez. }
        apply zassoc_key_Some in Hv2. destruct Hv2 as [c Hc]. apply (zassoc_Some_key v _ c).
        rewrite E2, Ez. destruct (v =? mv) eqn:E; [apply Z.eqb_eq in E; subst; contradiction | exact Hc].
  - intros v c Hz. rewrite E2 in Hz. destruct (zmem v vs).
    + inversion Hz. subst c. apply (F3 mv p Hp).
    + destruct (v =? mv); [discriminate|]. apply (F3 v c Hz).
  - intros c r Hl. specialize (F4 c r Hl). rewrite reserved_subst in F4.
    assert (Hload : load vr (expand1 mv vs p pl2) c r = load (vr' ++ [(mv, total)]) pl2 c r).
    { rewrite !load_sumf. rewrite sumf_app. unfold sumf at 3. cbn [map fold_right fst snd].
      rewrite (G6 (fun vd => if on_chip (expand1 mv vs p pl2) (fst vd) c then rget r (snd vd) else 0)).
      assert (H1 : sumf (fun vd : vertex * resources => if on_chip (expand1 mv vs p pl2) (fst vd) c then rget r (snd vd) else 0) vr'
                   = sumf (fun vd : vertex * resources => if on_chip pl2 (fst vd) c then rget r (snd vd) else 0) vr').
      { apply sumf_ext. intros [u d] Hin. cbn [fst snd].
        assert (Hk : In u (map fst vr')) by (apply in_map_iff; exists (u, d); split; [reflexivity | exact Hin]).
        apply G3 in Hk. destruct Hk as [Hk HnS]. rewrite dedup_In in HnS.
        unfold on_chip. rewrite E2. apply zmem_false in HnS. rewrite HnS.
        destruct (u =? mv) eqn:E; [apply Z.eqb_eq in E; subst; contradiction | reflexivity]. }
      rewrite H1.
      assert (H2 : sumz (vsum (fun vd : vertex * resources => if on_chip (expand1 mv vs p pl2) (fst vd) c then rget r (snd vd) else 0) vr) (dedup vs)
                   = if chip_eqb p c then sumz (fun v => demand vr v r) (dedup vs) else 0).
      { rewrite <- sumz_const_if. apply sumz_ext. intros x Hx. unfold vsum, demand.
        destruct (zassoc x vr) as [d|]; [|destruct (chip_eqb p c); reflexivity].
        cbn [fst snd]. unfold on_chip. rewrite E2.
        assert (Hxz : zmem x vs = true) by (apply zmem_In; apply dedup_In; exact Hx).
        rewrite Hxz. reflexivity. }
      assert (Hoc : on_chip pl2 mv c = chip_eqb p c) by (unfold on_chip; rewrite Hp; reflexivity).
      assert (Hnil : rget r [] = 0) by reflexivity.
      rewrite H2, Hoc, G7, Hnil.
      destruct (chip_eqb p c); lia. }
    rewrite Hload. exact F4.
  - intros v c Hin. apply Hplace.
    + apply (Hid2 (PCLocation v c) v Hin). left. reflexivity.
    + apply F5. apply in_map_iff. exists (PCLocation v c). split; [reflexivity | exact Hin].
  - intros ws Hin.
    destruct (F6 (map (subst_v mv (dedup vs)) ws)) as [c Hc].
    { apply in_map_iff. exists (PCSameChip ws). split; [reflexivity | exact Hin]. }
    exists c. intros v Hv. apply Hplace.
    + apply (Hid2 (PCSameChip ws) v Hin). exact Hv.
    + apply Hc. apply in_map. exact Hv.
Qed.



(* ---------------------------------------------------------------------------------------------- *)
(* vertex_order rewriting keeps every vertex of the merged problem                                  *)
(* ---------------------------------------------------------------------------------------------- *)
Lemma replace_first_In : forall x y l l', replace_first x y l = Some l' ->
  In y l' /\ (forall z, In z l -> z <> x -> In z l').
Proof.
  intros x y l. induction l as [|h t IH]; intros l' H; cbn [replace_first] in H; [discriminate|].
  destruct (h =? x) eqn:E.
  - inversion H. subst l'. split; [left; reflexivity|].
    intros z [Hz | Hz] Hne; [apply Z.eqb_eq in E; congruence | right; exact Hz].
  - destruct (replace_first x y t) as [t'|]; [|discriminate]. inversion H. subst l'.
    destruct (IH t' eq_refl) as [G1 G2]. split; [right; exact G1|].
    intros z [Hz | Hz] Hne; [left; exact Hz | right; apply G2; assumption].
Qed.

Lemma remove_first_In : forall x l l', remove_first x l = Some l' -> forall z, In z l -> z <> x -> In z l'.
Proof.
  intros x l. induction l as [|h t IH]; intros l' H; cbn [remove_first] in H; [discriminate|].
  destruct (h =? x) eqn:E.
  - inversion H. subst l'. intros z [Hz | Hz] Hne; [apply Z.eqb_eq in E; congruence | exact Hz].
  - destruct (remove_first x t) as [t'|]; [|discriminate]. inversion H. subst l'.
    intros z [Hz | Hz] Hne; [left; exact Hz | right; apply (IH t' eq_refl); assumption].
Qed.

Lemma remove_members_In : forall vs removed vo vo', remove_members vs removed vo = Some vo' ->
  forall z, In z vo -> ~ In z vs -> In z vo'.
Proof.
  induction vs as [|v vs IH]; intros removed vo vo' H z Hz Hn; cbn [remove_members] in H.
  - inversion H. subst. exact Hz.
  - destruct (zmem v removed).
    + apply (IH removed vo vo' H z Hz). intros Hin. apply Hn. right. exact Hin.
    + destruct (remove_first v vo) as [vo1|] eqn:E; [|discriminate].
      apply (IH (v :: removed) vo1 vo' H z).
      * apply (remove_first_In v vo vo1 E z Hz). intros Heq. apply Hn. left. congruence.
      * intros Hin. apply Hn. right. exact Hin.
Qed.

(* ---------------------------------------------------------------------------------------------- *)
(* finalise                                                                                         *)
(* ---------------------------------------------------------------------------------------------- *)
Lemma finalise_app : forall a b pl, finalise (a ++ b) pl = bind (finalise a pl) (finalise b).
Proof.
  induction a as [|[mv vs] t IH]; intros b pl; cbn [app finalise].
  - reflexivity.
  - destruct (zassoc mv pl); [apply IH | reflexivity].
Qed.

Lemma finalise_one : forall mv vs pl p, zassoc mv pl = Some p ->
  finalise [(mv, vs)] pl = Ok (expand1 mv vs p pl).
Proof. intros mv vs pl p H. cbn [finalise]. rewrite H. reflexivity. Qed.

(* ---------------------------------------------------------------------------------------------- *)
(* apply_sc                                                                                         *)
(* ---------------------------------------------------------------------------------------------- *)
Lemma apply_sc_sound : forall m todo f done vr subs vr1 cs1 subs1,
  apply_sc f done todo vr subs = Ok (vr1, cs1, subs1) ->
  pwf m vr (done ++ map (subst_c f) todo) ->
  ids_above (- Z.of_nat (S (length subs))) vr (done ++ map (subst_c f) todo) ->
  Forall degenerate done ->
  exists new, subs1 = subs ++ new
    /\ pwf m vr1 cs1 /\ Forall degenerate cs1
    /\ (forall vo vo', (forall v, In v (map fst vr) -> In v vo) -> subst_order new vo = Ok vo' ->
                       forall v, In v (map fst vr1) -> In v vo')
    /\ (forall pl1, Feasible vr1 m cs1 pl1 ->
          exists pl, finalise (rev new) pl1 = Ok pl /\ Feasible vr m (done ++ map (subst_c f) todo) pl).
Proof.
  intros m todo. induction todo as [|c0 rest IH]; intros f done vr subs vr1 cs1 subs1 H Hwf Hids Hdeg.
  - cbn [apply_sc] in H. inversion H. subst vr1 cs1 subs1. cbn [map] in *. rewrite app_nil_r in *.
    exists []. rewrite app_nil_r. split; [reflexivity|]. split; [exact Hwf|]. split; [exact Hdeg|]. split.
    + intros vo vo' Hc Hs. cbn [subst_order] in Hs. inversion Hs. subst. exact Hc.
    + intros pl1 Hf. exists pl1. split; [reflexivity | exact Hf].
  - cbn [apply_sc] in H. cbn [map] in Hwf, Hids. cbn [map].
    assert (Hassoc : forall l : list pconstr, done ++ subst_c f c0 :: l = (done ++ [subst_c f c0]) ++ l)
      by (intros l; rewrite <- app_assoc; reflexivity).
    assert (Hskip : degenerate (subst_c f c0) ->
              apply_sc f (done ++ [subst_c f c0]) rest vr subs = Ok (vr1, cs1, subs1) ->
              exists new, subs1 = subs ++ new /\ pwf m vr1 cs1 /\ Forall degenerate cs1
                /\ (forall vo vo', (forall v, In v (map fst vr) -> In v vo) -> subst_order new vo = Ok vo' ->
                       forall v, In v (map fst vr1) -> In v vo')
                /\ (forall pl1, Feasible vr1 m cs1 pl1 ->
                      exists pl, finalise (rev new) pl1 = Ok pl
                                 /\ Feasible vr m (done ++ subst_c f c0 :: map (subst_c f) rest) pl)).
    { intros Hd H'. rewrite Hassoc in Hwf, Hids.
      destruct (IH f (done ++ [subst_c f c0]) vr subs vr1 cs1 subs1 H' Hwf Hids) as [new G].
      { apply Forall_app. split; [exact Hdeg | constructor; [exact Hd | constructor]]. }
      exists new. rewrite Hassoc. exact G. }
    destruct (subst_c f c0) as [v l | vs | r s e loc | ] eqn:Ec.
    + apply Hskip; [exact I | exact H].
    + destruct (length vs <=? 1)%nat eqn:Elen.
      * apply Hskip; [|exact H]. cbn [degenerate]. apply Nat.leb_le in Elen.
        destruct vs as [|a [|b t]]; [exists 0; intros v [] | exists a; intros v [Hv | []]; congruence | cbn [length] in Elen; lia].
      * (* a merge *)
        set (mv := - Z.of_nat (S (length subs))) in *.
        destruct (pop_all (dedup vs) vr []) as [[total vr']|] eqn:Epop; [|discriminate].
        set (g := subst_v mv (dedup vs)) in *.
        set (cur := done ++ PCSameChip vs :: map (subst_c f) rest) in *.
        assert (Hvsne : vs <> []) by (intros E; subst vs; cbn in Elen; discriminate).
        assert (Hincur : In (PCSameChip vs) cur) by (unfold cur; apply in_app_iff; right; left; reflexivity).
        assert (Hcur' : map (subst_c g) (done ++ [PCSameChip vs]) ++ map (subst_c (fun v => g (f v))) rest
                        = map (subst_c g) cur).
        { unfold cur. rewrite (Hassoc (map (subst_c f) rest)), (map_app (subst_c g) (done ++ [PCSameChip vs])).
          f_equal. rewrite map_map. apply map_ext. intros k. apply subst_c_comp. }
        assert (Hwf2 : pwf m (vr' ++ [(mv, total)]) (map (subst_c g) cur))
          by (exact (step_pwf m vr cur vs mv total vr' Hwf Hincur Hvsne Epop Hids)).
        assert (Hids2 : ids_above (- Z.of_nat (S (length (subs ++ [(mv, vs)])))) (vr' ++ [(mv, total)]) (map (subst_c g) cur)).
        { rewrite app_length. cbn [length]. destruct Hids as [I1 I2].
          destruct (pop_all_spec (dedup vs) vr [] total vr' Epop (dedup_NoDup vs) (pwf_nodup _ _ _ Hwf) (pwf_dnodup _ _ _ Hwf))
            as [_ [_ [G3 _]]].
          assert (Hlt : - Z.of_nat (S (length subs + 1)) < mv) by (unfold mv; lia).
          split.
          - intros v Hv. rewrite map_app, in_app_iff in Hv. cbn [map fst In] in Hv.
            destruct Hv as [Hv | [Hv | []]]; [apply G3 in Hv; destruct Hv as [Hv _]; apply I1 in Hv; lia | subst v; exact Hlt].
          - intros k v Hk Hv. apply in_map_iff in Hk. destruct Hk as [k0 [E Hk0]]. subst k.
            rewrite constr_vertices_subst in Hv. apply in_map_iff in Hv. destruct Hv as [u [E Hu]]. subst v.
            unfold g, subst_v. destruct (zmem u (dedup vs)); [exact Hlt | apply (I2 k0 u Hk0) in Hu; lia]. }
        rewrite <- Hcur' in Hwf2, Hids2.
        destruct (IH (fun v => g (f v)) (map (subst_c g) (done ++ [PCSameChip vs])) (vr' ++ [(mv, total)])
                     (subs ++ [(mv, vs)]) vr1 cs1 subs1 H Hwf2 Hids2) as [new' [N1 [N2 [N3 [N4 N5]]]]].
        { rewrite map_app. apply Forall_app. split.
          - rewrite Forall_forall in *. intros k Hk. apply in_map_iff in Hk. destruct Hk as [k0 [E Hk0]]. subst k.
            apply degenerate_subst. apply Hdeg. exact Hk0.
          - constructor; [|constructor]. cbn [subst_c degenerate]. exists mv. intros v Hv.
            apply in_map_iff in Hv. destruct Hv as [u [E Hu]]. subst v. unfold g, subst_v.
            assert (Hz : zmem u (dedup vs) = true) by (apply zmem_In; apply dedup_In; exact Hu).
            rewrite Hz. reflexivity. }
        rewrite Hcur' in N5.
        exists ((mv, vs) :: new'). split; [rewrite N1, <- app_assoc; reflexivity|].
        split; [exact N2|]. split; [exact N3|]. split.
        -- (* vertex order *)
           intros vo vo' Hcov Hs. cbn [subst_order] in Hs.
           destruct vs as [|v0 vs']; [congruence|].
           destruct (replace_first v0 mv vo) as [vo1|] eqn:Er; [|discriminate].
           destruct (remove_members vs' [v0] vo1) as [vo2|] eqn:Em; [|discriminate].
           apply (N4 vo2 vo'); [|exact Hs].
           destruct (pop_all_spec (dedup (v0 :: vs')) vr [] total vr' Epop (dedup_NoDup _) (pwf_nodup _ _ _ Hwf) (pwf_dnodup _ _ _ Hwf))
             as [G1 [_ [G3 _]]].
           destruct (replace_first_In v0 mv vo vo1 Er) as [R1 R2].
           assert (Hmvn : ~ In mv (v0 :: vs')).
           { intros Hin. assert (In mv (map fst vr)) by (apply G1; apply dedup_In; exact Hin).
             destruct Hids as [I1 _]. apply I1 in H0. unfold mv in H0. lia. }
           intros v Hv. rewrite map_app, in_app_iff in Hv. cbn [map fst In] in Hv.
           destruct Hv as [Hv | [Hv | []]].
           ++ apply G3 in Hv. destruct Hv as [Hv HnS]. rewrite dedup_In in HnS.
              apply (remove_members_In vs' [v0] vo1 vo2 Em).
              ** apply R2; [apply Hcov; exact Hv | intros Heq; apply HnS; left; congruence].
              ** intros Hin. apply HnS. right. exact Hin.
           ++ subst v. apply (remove_members_In vs' [v0] vo1 vo2 Em); [exact R1|].
              intros Hin. apply Hmvn. right. exact Hin.
        -- (* feasibility *)
           intros pl1 Hf. destruct (N5 pl1 Hf) as [pl' [Hfin Hf']].
           assert (Hmvin : In mv (map fst pl')).
           { apply (feas_vertices _ _ _ _ Hf'). rewrite map_app, in_app_iff. right. left. reflexivity. }
           apply zassoc_key_Some in Hmvin. destruct Hmvin as [p Hp].
           exists (expand1 mv vs p pl'). split.
           ++ cbn [rev]. rewrite finalise_app, Hfin. cbn [bind]. apply finalise_one. exact Hp.
           ++ apply (step_feasible m vr cur vs mv total vr' pl' p (pwf_nodup _ _ _ Hwf) (pwf_dnodup _ _ _ Hwf) Epop Hids Hf' Hp).
    + apply Hskip; [exact I | exact H].
    + apply Hskip; [exact I | exact H].
Qed.
