(* C18 -- proofs about the resolution of contextual arguments (Model/Context.v vs Spec/Context.v). *)
From Coq Require Import ZArith List Bool String Lia.
Require Import Rig.Model.Base Rig.Generated.GenSignatures Rig.Generated.GenCtxGeometry Rig.Model.Context Rig.Spec.Context.
Import ListNotations.
Open Scope string_scope.
Open Scope list_scope.
Open Scope Z_scope.

(* ------------------------------------------------------------------ dictionaries *)
Lemma eqb_sym_s : forall a b, String.eqb a b = String.eqb b a.
Proof. intros. apply String.eqb_sym. Qed.

Lemma sassoc_supdate : forall {A} k k' (v : A) l,
  sassoc k (supdate k' v l) = if String.eqb k k' then Some v else sassoc k l.
Proof.
  intros A k k' v l. induction l as [|[k0 v0] l IH]; simpl.
  - destruct (String.eqb_spec k k'); reflexivity.
  - destruct (String.eqb_spec k' k0) as [E|NE]; simpl.
    + subst k0. destruct (String.eqb_spec k k'); reflexivity.
    + destruct (String.eqb_spec k k0) as [E2|NE2].
      * subst k0. destruct (String.eqb_spec k k') as [E3|_]; [subst; congruence|reflexivity].
      * exact IH.
Qed.

Lemma smem_supdate : forall {A} k k' (v : A) l,
  smem k (supdate k' v l) = String.eqb k k' || smem k l.
Proof.
  intros. unfold smem. rewrite sassoc_supdate. destruct (String.eqb k k'); reflexivity.
Qed.

Lemma sassoc_supdate_all : forall {A} k (pairs d : list (string * A)),
  sassoc k (supdate_all pairs d) = match slast k pairs with Some v => Some v | None => sassoc k d end.
Proof.
  intros A k pairs. unfold supdate_all.
  induction pairs as [|[k0 v0] r IH]; intros d; simpl.
  - reflexivity.
  - rewrite IH. destruct (slast k r); [reflexivity|].
    rewrite sassoc_supdate. destruct (String.eqb k k0); reflexivity.
Qed.

Lemma sassoc_merge_from : forall k (s : stack) (acc : ctx),
  sassoc k (fold_left (fun cargs c => supdate_all c cargs) s acc)
  = match stack_lookup k s with Some v => Some v | None => sassoc k acc end.
Proof.
  intros k s. induction s as [|c r IH]; intros acc; simpl.
  - reflexivity.
  - rewrite IH. destruct (stack_lookup k r); [reflexivity|].
    apply sassoc_supdate_all.
Qed.

(* get_context_arguments yields, for every name, the value of the innermost context that sets it *)
Lemma sassoc_merge_stack : forall k s, sassoc k (merge_stack s) = stack_lookup k s.
Proof.
  intros. unfold merge_stack. rewrite sassoc_merge_from. destruct (stack_lookup k s); reflexivity.
Qed.

Lemma in_keys_supdate : forall {A} k k' (v : A) l,
  In k (map fst (supdate k' v l)) -> k = k' \/ In k (map fst l).
Proof.
  intros A k k' v l. induction l as [|[k0 v0] l IH]; simpl.
  - intros [H|[]]; auto.
  - destruct (String.eqb_spec k' k0) as [E|NE]; simpl.
    + intros [H|H]; auto.
    + intros [H|H]; auto. destruct (IH H); auto.
Qed.

Lemma nodup_keys_supdate : forall {A} k (v : A) l,
  NoDup (map fst l) -> NoDup (map fst (supdate k v l)).
Proof.
  intros A k v l. induction l as [|[k0 v0] l IH]; simpl; intros H.
  - constructor; [intros []|constructor].
  - inversion H as [|? ? Hn Hd]; subst.
    destruct (String.eqb_spec k k0) as [E|NE]; simpl.
    + subst. constructor; assumption.
    + constructor; [|apply IH; assumption].
      intros Hin. apply in_keys_supdate in Hin. destruct Hin as [E|Hin]; [congruence|contradiction].
Qed.

Lemma nodup_keys_supdate_all : forall {A} (pairs d : list (string * A)),
  NoDup (map fst d) -> NoDup (map fst (supdate_all pairs d)).
Proof.
  intros A pairs. unfold supdate_all. induction pairs as [|[k v] r IH]; intros d H; simpl.
  - exact H.
  - apply IH. apply nodup_keys_supdate. exact H.
Qed.

Lemma nodup_keys_merge : forall s, NoDup (map fst (merge_stack s)).
Proof.
  intros s. unfold merge_stack.
  assert (G : forall acc, NoDup (map fst acc) ->
              NoDup (map fst (fold_left (fun cargs c => supdate_all c cargs) s acc))).
  { induction s as [|c r IH]; intros acc H; simpl; [exact H|].
    apply IH. apply nodup_keys_supdate_all. exact H. }
  apply G. constructor.
Qed.

Lemma sassoc_none_notin : forall {A} k (l : list (string * A)), sassoc k l = None -> ~ In k (map fst l).
Proof.
  intros A k l. induction l as [|[k0 v0] l IH]; simpl; intros H; [tauto|].
  destruct (String.eqb_spec k k0); [discriminate|].
  intros [E|Hin]; [congruence|]. exact (IH H Hin).
Qed.

Lemma notin_sassoc_none : forall {A} k (l : list (string * A)), ~ In k (map fst l) -> sassoc k l = None.
Proof.
  intros A k l. induction l as [|[k0 v0] l IH]; simpl; intros H; [reflexivity|].
  destruct (String.eqb_spec k k0); [subst; tauto|]. apply IH. tauto.
Qed.

Lemma slast_none_notin : forall {A} k (l : list (string * A)), slast k l = None -> ~ In k (map fst l).
Proof.
  intros A k l. induction l as [|[k0 v0] l IH]; simpl; intros H; [tauto|].
  destruct (slast k l); [discriminate|].
  destruct (String.eqb_spec k k0); [discriminate|].
  intros [E|Hin]; [congruence|]. exact (IH eq_refl Hin).
Qed.

Lemma slast_nodup : forall {A} k (l : list (string * A)), NoDup (map fst l) -> slast k l = sassoc k l.
Proof.
  intros A k l. induction l as [|[k0 v0] l IH]; simpl; intros H; [reflexivity|].
  inversion H as [|? ? Hn Hd]; subst. rewrite (IH Hd).
  destruct (String.eqb_spec k k0) as [E|NE].
  - subst. rewrite (notin_sassoc_none _ _ Hn). reflexivity.
  - destruct (sassoc k l); reflexivity.
Qed.

Lemma sassoc_in : forall {A} k (v : A) l, sassoc k l = Some v -> In (k, v) l.
Proof.
  intros A k v l. induction l as [|[k0 v0] l IH]; simpl; intros H; [discriminate|].
  destruct (String.eqb_spec k k0); [inversion H; subst; auto|auto].
Qed.

(* the context overlay of the wrapper: only names still open are overwritten *)
Definition overlay (cx : list (string * value)) (a0 : list (string * default)) :=
  fold_left (fun a kv => if smem (fst kv) a then supdate (fst kv) (DVal (snd kv)) a else a) cx a0.

Lemma overlay_keys : forall cx a0, map fst (overlay cx a0) = map fst a0.
Proof.
  unfold overlay. induction cx as [|[k v] r IH]; intros a0; simpl; [reflexivity|].
  rewrite IH. destruct (smem k a0) eqn:E; [|reflexivity].
  clear IH. induction a0 as [|[k0 d0] a0 IHa]; simpl.
  - unfold smem in E. simpl in E. discriminate.
  - destruct (String.eqb_spec k k0) as [E2|NE]; simpl; [subst; reflexivity|].
    f_equal. apply IHa. unfold smem in *. simpl in E.
    destruct (String.eqb_spec k k0); [congruence|exact E].
Qed.

Lemma smem_keys : forall {A B} k (l : list (string * A)) (l' : list (string * B)),
  map fst l = map fst l' -> smem k l = smem k l'.
Proof.
  intros A B k l. unfold smem. induction l as [|[k0 v0] l IH]; intros [|[k1 v1] l'] H; simpl in *;
    try discriminate; [reflexivity|].
  inversion H; subst. destruct (String.eqb k k1); [reflexivity|]. apply IH. assumption.
Qed.

Lemma sassoc_overlay : forall k cx a0,
  sassoc k (overlay cx a0)
  = if smem k a0 then match slast k cx with Some v => Some (DVal v) | None => sassoc k a0 end else None.
Proof.
  intros k cx. unfold overlay. induction cx as [|[k1 v1] r IH]; intros a0; simpl.
  - unfold smem. destruct (sassoc k a0); reflexivity.
  - rewrite IH. destruct (smem k1 a0) eqn:E1.
    + rewrite smem_supdate. destruct (String.eqb_spec k k1) as [E|NE]; simpl.
      * subst k1. rewrite E1. rewrite sassoc_supdate, String.eqb_refl.
        destruct (slast k r); reflexivity.
      * rewrite sassoc_supdate. destruct (String.eqb_spec k k1); [congruence|].
        destruct (slast k r); reflexivity.
    + destruct (String.eqb_spec k k1) as [E|NE].
      * subst k1. rewrite E1. reflexivity.
      * destruct (slast k r); reflexivity.
Qed.

(* ------------------------------------------------------------------ lists of parameters *)
Lemma name_in_iff : forall k l, name_in k l = true <-> In k l.
Proof.
  intros k l. unfold name_in. rewrite existsb_exists. split.
  - intros [x [Hin E]]. apply String.eqb_eq in E. subst. exact Hin.
  - intros H. exists k. split; [exact H|apply String.eqb_refl].
Qed.

Lemma smem_iff : forall {A} k (l : list (string * A)), smem k l = true <-> In k (map fst l).
Proof.
  intros A k l. unfold smem. split.
  - destruct (sassoc k l) eqn:E; [|discriminate]. intros _.
    apply sassoc_in in E. apply in_map_iff. exists (k, a). auto.
  - intros H. destruct (sassoc k l) eqn:E; [reflexivity|].
    exfalso. exact (sassoc_none_notin _ _ E H).
Qed.

Lemma index_of_some : forall n l i, index_of n l = Some i -> nth_error l i = Some n.
Proof.
  intros n l. induction l as [|k r IH]; simpl; intros i H; [discriminate|].
  destruct (String.eqb_spec n k).
  - inversion H; subst. reflexivity.
  - destruct (index_of n r) eqn:E; [|discriminate]. inversion H; subst. simpl. apply IH. reflexivity.
Qed.

Lemma index_of_none : forall n l, index_of n l = None -> ~ In n l.
Proof.
  intros n l. induction l as [|k r IH]; simpl; intros H; [tauto|].
  destruct (String.eqb_spec n k); [discriminate|].
  destruct (index_of n r); [discriminate|]. intros [E|Hin]; [congruence|]. exact (IH eq_refl Hin).
Qed.

(* positional binding: combine names pos *)
Lemma sassoc_combine : forall (names : list string) (pos : list value) n,
  sassoc n (combine names pos)
  = match index_of n names with Some i => nth_error pos i | None => None end
    \/ (exists i, index_of n names = Some i /\ False).
Proof. intros. left.
  revert pos. induction names as [|k r IH]; intros pos; simpl; [reflexivity|].
  destruct pos as [|v pos]; simpl.
  - destruct (String.eqb n k); [reflexivity|]. destruct (index_of n r); reflexivity.
  - destruct (String.eqb_spec n k); [reflexivity|].
    rewrite IH. destruct (index_of n r); reflexivity.
Qed.

Lemma sassoc_combine' : forall (names : list string) (pos : list value) n,
  sassoc n (combine names pos) = match index_of n names with Some i => nth_error pos i | None => None end.
Proof. intros. destruct (sassoc_combine names pos n) as [H|[i [_ []]]]. exact H. Qed.

Lemma sassoc_skipn_params : forall (ps : list (string * default)) k n i,
  NoDup (map fst ps) -> index_of n (map fst ps) = Some i -> (k <= i)%nat ->
  sassoc n (skipn k ps) = sassoc n ps.
Proof.
  intros ps. induction ps as [|[p d] r IH]; intros k n i Hnd Hi Hk; simpl in *.
  - destruct k; reflexivity.
  - destruct k as [|k]; [reflexivity|]. simpl.
    inversion Hnd as [|? ? Hn Hd]; subst.
    destruct (String.eqb_spec n p) as [E|NE].
    + inversion Hi; subst. lia.
    + destruct (index_of n (map fst r)) eqn:E2; [|discriminate]. inversion Hi; subst.
      apply (IH k n n0); auto. lia.
Qed.

Lemma sassoc_skipn_small : forall (ps : list (string * default)) k n i,
  NoDup (map fst ps) -> index_of n (map fst ps) = Some i -> (i < k)%nat ->
  sassoc n (skipn k ps) = None.
Proof.
  intros ps. induction ps as [|[p d] r IH]; intros k n i Hnd Hi Hk; simpl in *.
  - discriminate.
  - destruct k as [|k]; [lia|]. simpl.
    inversion Hnd as [|? ? Hn Hd]; subst.
    destruct (String.eqb_spec n p) as [E|NE].
    + subst. apply notin_sassoc_none. intros Hin. apply Hn.
      clear -Hin. revert k Hin. induction r as [|a r IHr]; intros k Hin; destruct k; simpl in *; auto.
      right. eapply IHr. exact Hin.
    + destruct (index_of n (map fst r)) eqn:E2; [|discriminate]. inversion Hi; subst.
      apply (IH k n n0); auto. lia.
Qed.

Lemma sassoc_skipn_notparam : forall (ps : list (string * default)) k n,
  index_of n (map fst ps) = None -> sassoc n (skipn k ps) = None.
Proof.
  intros ps k n H. apply index_of_none in H. apply notin_sassoc_none. intros Hin. apply H.
  clear -Hin. revert k Hin. induction ps as [|a r IH]; intros k Hin; destruct k; simpl in *; auto.
  right. eapply IH. exact Hin.
Qed.

Lemma index_of_in : forall n l, In n l -> exists i, index_of n l = Some i.
Proof.
  intros n l. induction l as [|k r IH]; simpl; intros H; [tauto|].
  destruct (String.eqb_spec n k); [eauto|].
  destruct H as [E|H]; [congruence|]. destruct (IH H) as [i Hi]. rewrite Hi. eauto.
Qed.

Lemma index_of_lt : forall n l i, index_of n l = Some i -> (i < List.length l)%nat.
Proof.
  intros n l i H. apply index_of_some in H. apply nth_error_Some. congruence.
Qed.

(* ------------------------------------------------------------------ new_kwargs, name by name *)
Definition open_default (sg : msig) (npos : nat) (n : string) : option default :=
  match slast n (sg_kwonly sg) with
  | Some d => Some d
  | None => sassoc n (skipn npos (sg_params sg))
  end.

Lemma sassoc_map_dval : forall k (kw : list (string * value)),
  slast k (map (fun kv => (fst kv, DVal (snd kv))) kw)
  = match slast k kw with Some v => Some (DVal v) | None => None end.
Proof.
  intros k kw. induction kw as [|[k0 v0] r IH]; simpl; [reflexivity|].
  rewrite IH. destruct (slast k r); [reflexivity|]. destruct (String.eqb k k0); reflexivity.
Qed.

Lemma new_kwargs_lookup : forall sg s npos kw n,
  sassoc n (new_kwargs sg s npos kw)
  = match slast n kw with
    | Some v => Some (DVal v)
    | None => match open_default sg npos n with
              | None => None
              | Some d => match stack_lookup n s with Some v => Some (DVal v) | None => Some d end
              end
    end.
Proof.
  intros sg s npos kw n. unfold new_kwargs.
  rewrite sassoc_supdate_all, sassoc_map_dval.
  destruct (slast n kw); [reflexivity|].
  fold (overlay (merge_stack s) (supdate_all (sg_kwonly sg) (skipn npos (sg_params sg)))).
  rewrite sassoc_overlay.
  rewrite (slast_nodup _ _ (nodup_keys_merge s)), sassoc_merge_stack.
  unfold smem. rewrite sassoc_supdate_all. fold (open_default sg npos n).
  destruct (open_default sg npos n); [|reflexivity].
  destruct (stack_lookup n s); reflexivity.
Qed.

Lemma strip_lookup : forall nk n,
  existsb (fun kd => is_required (snd kd)) nk = false ->
  sassoc n (strip nk) = match sassoc n nk with Some (DVal v) => Some v | _ => None end.
Proof.
  intros nk n. induction nk as [|[k d] r IH]; simpl; intros H; [reflexivity|].
  apply orb_false_iff in H. destruct H as [H1 H2]. destruct d; [discriminate|]. simpl.
  destruct (String.eqb n k); [reflexivity|]. apply IH. exact H2.
Qed.

Lemma strip_keys : forall nk,
  existsb (fun kd => is_required (snd kd)) nk = false -> map fst (strip nk) = map fst nk.
Proof.
  induction nk as [|[k d] r IH]; simpl; intros H; [reflexivity|].
  apply orb_false_iff in H. destruct H as [H1 H2]. destruct d; [discriminate|]. simpl. f_equal. auto.
Qed.

Lemma required_found : forall nk n,
  sassoc n nk = Some DRequired -> existsb (fun kd => is_required (snd kd)) nk = true.
Proof.
  intros nk n H. apply sassoc_in in H. apply existsb_exists. exists (n, DRequired). auto.
Qed.

Lemma sassoc_app : forall {A} k (l1 l2 : list (string * A)),
  sassoc k (l1 ++ l2) = match sassoc k l1 with Some v => Some v | None => sassoc k l2 end.
Proof.
  intros A k l1 l2. induction l1 as [|[k0 v0] r IH]; simpl; [reflexivity|].
  destruct (String.eqb k k0); [reflexivity|exact IH].
Qed.

(* ------------------------------------------------------------------ resolve_precedence *)
Lemma open_default_is_arg : forall sg npos n d, open_default sg npos n = Some d -> is_arg sg n = true.
Proof.
  intros sg npos n d H. unfold open_default in H. unfold is_arg. apply orb_true_iff.
  destruct (slast n (sg_kwonly sg)) eqn:E.
  - right. apply name_in_iff. destruct (in_dec string_dec n (map fst (sg_kwonly sg))) as [Hin|Hn]; [exact Hin|].
    exfalso. assert (slast n (sg_kwonly sg) = None); [|congruence].
    clear -Hn. induction (sg_kwonly sg) as [|[k v] r IH]; simpl in *; [reflexivity|].
    rewrite IH by tauto. destruct (String.eqb_spec n k); [subst; tauto|reflexivity].
  - left. apply name_in_iff. apply sassoc_in in H.
    assert (In (n, d) (sg_params sg)).
    { clear -H. revert H. generalize (sg_params sg). induction npos; intros l H; [exact H|].
      destruct l; [destruct H|]. right. apply IHnpos. exact H. }
    apply in_map_iff. exists (n, d). auto.
Qed.

Lemma open_default_default_of : forall sg npos n d i,
  sig_wf sg -> open_default sg npos n = Some d ->
  (index_of n (map fst (sg_params sg)) = Some i -> (npos <= i)%nat) ->
  default_of sg n = Some d.
Proof.
  intros sg npos n d i Hwf H Hi. unfold open_default in H. unfold default_of.
  destruct (slast n (sg_kwonly sg)); [exact H|].
  destruct (index_of n (map fst (sg_params sg))) eqn:E.
  - rewrite <- H. symmetry. eapply sassoc_skipn_params; eauto.
    destruct (Nat.le_gt_cases npos n0); [assumption|].
    rewrite (sassoc_skipn_small _ npos n n0 Hwf E) in H by lia. discriminate.
  - rewrite sassoc_skipn_notparam in H by assumption. discriminate.
Qed.

Theorem resolve_precedence : forall sg s pos kw e,
  sig_wf sg -> resolve sg s pos kw = Some e ->
  forall n v, sassoc n (e_args e) = Some v -> spec_value sg s pos kw n = Some (DVal v).
Proof.
  intros sg s pos kw e Hwf Hres n v Hn.
  unfold resolve in Hres.
  set (nk := new_kwargs sg s (List.length pos) kw) in *.
  destruct (existsb (fun kd => is_required (snd kd)) nk) eqn:Hreq; [discriminate|].
  unfold bind_call in Hres.
  set (names := map fst (sg_params sg)) in *.
  destruct ((List.length names <? List.length pos)%nat && negb (sg_varargs sg)); [discriminate|].
  destruct (existsb (fun kv => smem (fst kv) (combine names pos)) (strip nk)) eqn:Hmult; [discriminate|].
  destruct (negb (sg_varkw sg) && existsb (fun kv => negb (name_in (fst kv) names)) (strip nk)); [discriminate|].
  destruct (negb (forallb (fun n0 => smem n0 (combine names pos) || smem n0 (strip nk)) names)); [discriminate|].
  inversion Hres; subst e; clear Hres. simpl in Hn.
  rewrite sassoc_app in Hn. rewrite sassoc_combine' in Hn.
  unfold spec_value, explicit_value. fold names.
  destruct (index_of n names) as [i|] eqn:Hidx.
  - destruct (nth_error pos i) as [vp|] eqn:Hnth.
    + (* bound positionally: a keyword for the same name would have been "multiple values" *)
      inversion Hn; subst vp.
      destruct (slast n kw) as [vk|] eqn:Hkw; [|reflexivity].
      exfalso.
      assert (Hs : sassoc n (strip nk) = Some vk).
      { rewrite strip_lookup by assumption. unfold nk. rewrite new_kwargs_lookup, Hkw. reflexivity. }
      apply sassoc_in in Hs.
      assert (existsb (fun kv => smem (fst kv) (combine names pos)) (strip nk) = true); [|congruence].
      apply existsb_exists. exists (n, vk). split; [assumption|]. simpl.
      unfold smem. rewrite sassoc_combine', Hidx, Hnth. reflexivity.
    + rewrite strip_lookup in Hn by assumption. unfold nk in Hn. rewrite new_kwargs_lookup in Hn.
      destruct (slast n kw) as [vk|]; [inversion Hn; reflexivity|].
      destruct (open_default sg (List.length pos) n) as [d|] eqn:Hod; [|discriminate].
      unfold ctx_or_default. rewrite (open_default_is_arg _ _ _ _ Hod).
      destruct (stack_lookup n s) as [vc|]; [inversion Hn; reflexivity|].
      destruct d as [|vd]; [discriminate|]. inversion Hn; subst vd.
      apply (open_default_default_of sg (List.length pos) n (DVal v) i Hwf Hod).
      intros _. apply nth_error_None. exact Hnth.
  - rewrite strip_lookup in Hn by assumption. unfold nk in Hn. rewrite new_kwargs_lookup in Hn.
    destruct (slast n kw) as [vk|]; [inversion Hn; reflexivity|].
    destruct (open_default sg (List.length pos) n) as [d|] eqn:Hod; [|discriminate].
    unfold ctx_or_default. rewrite (open_default_is_arg _ _ _ _ Hod).
    destruct (stack_lookup n s) as [vc|]; [inversion Hn; reflexivity|].
    destruct d as [|vd]; [discriminate|]. inversion Hn; subst vd.
    apply (open_default_default_of sg (List.length pos) n (DVal v) O Hwf Hod).
    intros Hi. fold names in Hi. rewrite Hidx in Hi. discriminate.
Qed.

(* every argument of the method has a value once the call is accepted *)
Theorem resolve_total : forall sg s pos kw e,
  sig_wf sg -> resolve sg s pos kw = Some e ->
  forall n, is_arg sg n = true -> exists v, sassoc n (e_args e) = Some v.
Proof.
  intros sg s pos kw e Hwf Hres n Harg.
  unfold resolve in Hres.
  set (nk := new_kwargs sg s (List.length pos) kw) in *.
  destruct (existsb (fun kd => is_required (snd kd)) nk) eqn:Hreq; [discriminate|].
  unfold bind_call in Hres.
  set (names := map fst (sg_params sg)) in *.
  destruct ((List.length names <? List.length pos)%nat && negb (sg_varargs sg)); [discriminate|].
  destruct (existsb (fun kv => smem (fst kv) (combine names pos)) (strip nk)); [discriminate|].
  destruct (negb (sg_varkw sg) && existsb (fun kv => negb (name_in (fst kv) names)) (strip nk)); [discriminate|].
  destruct (forallb (fun n0 => smem n0 (combine names pos) || smem n0 (strip nk)) names) eqn:Hall;
    [|discriminate].
  inversion Hres; subst e; clear Hres. simpl.
  assert (G : smem n (combine names pos ++ strip nk) = true).
  { apply smem_iff. rewrite map_app. apply in_or_app.
    unfold is_arg in Harg. apply orb_true_iff in Harg. destruct Harg as [Hp|Hk].
    - apply name_in_iff in Hp. rewrite forallb_forall in Hall. specialize (Hall n Hp).
      apply orb_true_iff in Hall. destruct Hall as [H|H]; apply smem_iff in H; auto.
    - right. rewrite strip_keys by assumption. apply smem_iff.
      unfold smem. unfold nk. rewrite new_kwargs_lookup.
      destruct (slast n kw); [reflexivity|].
      assert (Hod : exists d, open_default sg (List.length pos) n = Some d).
      { unfold open_default. apply name_in_iff in Hk.
        destruct (slast n (sg_kwonly sg)) eqn:E; [eauto|].
        exfalso. exact (slast_none_notin _ _ E Hk). }
      destruct Hod as [d Hod]. rewrite Hod. destruct (stack_lookup n s); reflexivity. }
  unfold smem in G. destruct (sassoc n (combine names pos ++ strip nk)); [eauto|discriminate].
Qed.

(* ------------------------------------------------------------------ required_rejected_before_send *)
Lemma spec_required_new_kwargs : forall sg s pos kw n,
  sig_wf sg -> spec_value sg s pos kw n = Some DRequired ->
  sassoc n (new_kwargs sg s (List.length pos) kw) = Some DRequired.
Proof.
  intros sg s pos kw n Hwf H. unfold spec_value, explicit_value in H.
  rewrite new_kwargs_lookup.
  destruct (slast n kw); [discriminate|].
  unfold ctx_or_default in H.
  destruct (is_arg sg n) eqn:Harg; [|destruct (index_of n (map fst (sg_params sg))); [destruct (nth_error pos n0)|]; discriminate].
  assert (Hopen : forall i, index_of n (map fst (sg_params sg)) = Some i -> nth_error pos i = None ->
                  open_default sg (List.length pos) n = default_of sg n).
  { intros i Hi Hnth. unfold open_default, default_of.
    destruct (slast n (sg_kwonly sg)); [reflexivity|].
    eapply sassoc_skipn_params; eauto. apply nth_error_None. exact Hnth. }
  destruct (index_of n (map fst (sg_params sg))) as [i|] eqn:Hidx.
  - destruct (nth_error pos i) eqn:Hnth; [discriminate|].
    rewrite (Hopen i eq_refl Hnth).
    destruct (stack_lookup n s); [discriminate|].
    rewrite H. reflexivity.
  - assert (Hopen2 : open_default sg (List.length pos) n = default_of sg n).
    { unfold open_default, default_of. destruct (slast n (sg_kwonly sg)); [reflexivity|].
      rewrite sassoc_skipn_notparam by assumption.
      symmetry. apply notin_sassoc_none. apply index_of_none. exact Hidx. }
    rewrite Hopen2. destruct (stack_lookup n s); [discriminate|]. rewrite H. reflexivity.
Qed.

Theorem required_rejected : forall sg s pos kw n,
  sig_wf sg -> spec_value sg s pos kw n = Some DRequired -> resolve sg s pos kw = None.
Proof.
  intros sg s pos kw n Hwf H. unfold resolve.
  rewrite (required_found _ n (spec_required_new_kwargs _ _ _ _ _ Hwf H)). reflexivity.
Qed.

Lemma call_rejects : forall fuel c cls m s pos kw sg,
  find_sig cls m = Some sg -> resolve sg s pos kw = None ->
  call (S fuel) c cls m s pos kw = ([], Some TypeErr).
Proof. intros. simpl. rewrite H, H0. reflexivity. Qed.

Theorem required_rejected_before_send : forall fuel c cls m s pos kw sg n,
  sig_wf sg -> find_sig cls m = Some sg ->
  spec_value sg s pos kw n = Some DRequired ->
  call (S fuel) c cls m s pos kw = ([], Some TypeErr).
Proof.
  intros. eapply call_rejects; eauto. eapply required_rejected; eauto.
Qed.

(* ------------------------------------------------------------------ the generated signatures *)
Fixpoint nodupb (l : list string) : bool :=
  match l with
  | [] => true
  | k :: r => negb (name_in k r) && nodupb r
  end.

Lemma nodupb_sound : forall l, nodupb l = true -> NoDup l.
Proof.
  induction l as [|k r IH]; simpl; intros H; [constructor|].
  apply andb_true_iff in H. destruct H as [H1 H2]. constructor; [|auto].
  intros Hin. apply name_in_iff in Hin. rewrite Hin in H1. discriminate.
Qed.

Lemma all_signatures_wf : Forall sig_wf all_signatures.
Proof.
  apply Forall_forall. intros sg Hin. apply nodupb_sound.
  assert (G : forallb (fun sg => nodupb (map fst (sg_params sg))) all_signatures = true)
    by (vm_compute; reflexivity).
  rewrite forallb_forall in G. apply G. exact Hin.
Qed.

Lemma find_sig_in_list : forall l cls m sg, find_sig_in l cls m = Some sg -> In sg l /\ sg_cls sg = cls /\ sg_name sg = m.
Proof.
  induction l as [|a r IH]; simpl; intros cls m sg H; [discriminate|].
  destruct (String.eqb cls (sg_cls a) && String.eqb m (sg_name a)) eqn:E.
  - inversion H; subst. apply andb_true_iff in E. destruct E as [E1 E2].
    apply String.eqb_eq in E1. apply String.eqb_eq in E2. auto.
  - destruct (IH _ _ _ H) as [H1 H2]. auto.
Qed.

Lemma find_sig_wf : forall cls m sg, find_sig cls m = Some sg -> sig_wf sg.
Proof.
  intros cls m sg H. apply find_sig_in_list in H. destruct H as [H _].
  pose proof all_signatures_wf as G. rewrite Forall_forall in G. auto.
Qed.

Lemma every_signature_has_a_body :
  forallb (fun sg => match body_of (sg_cls sg) (sg_name sg) with Some _ => true | None => false end)
          all_signatures = true.
Proof. vm_compute. reflexivity. Qed.

(* what an accepted call hands to the wrapped function *)
Lemma resolve_shape : forall sg s pos kw e,
  resolve sg s pos kw = Some e ->
  existsb (fun kd => is_required (snd kd)) (new_kwargs sg s (List.length pos) kw) = false
  /\ e_args e = combine (map fst (sg_params sg)) pos ++ strip (new_kwargs sg s (List.length pos) kw)
  /\ e_varargs e = skipn (List.length (map fst (sg_params sg))) pos.
Proof.
  intros sg s pos kw e Hres. unfold resolve in Hres.
  destruct (existsb (fun kd => is_required (snd kd)) (new_kwargs sg s (List.length pos) kw)) eqn:Hreq;
    [discriminate|].
  unfold bind_call in Hres.
  destruct ((List.length (map fst (sg_params sg)) <? List.length pos)%nat && negb (sg_varargs sg)); [discriminate|].
  destruct (existsb _ (strip (new_kwargs sg s (List.length pos) kw))); [discriminate|].
  destruct (negb (sg_varkw sg) && _); [discriminate|].
  destruct (negb _); [discriminate|].
  inversion Hres; subst e. simpl. auto.
Qed.

(* ------------------------------------------------------------------ connection_choice *)
Theorem mc_connection_choice : forall c x y k,
  mc_get_connection c x y = Some k -> chip_connection_ok c x y k.
Proof.
  intros c x y k H. unfold mc_get_connection in H. unfold chip_connection_ok.
  destruct (c_width c) as [w|]; [|inversion H; reflexivity].
  destruct (c_height c) as [h|]; [|inversion H; reflexivity].
  destruct (c_root c) as [[rx ry]|]; [|inversion H; reflexivity].
  destruct (as_int x) as [xi|]; [|discriminate].
  destruct (as_int y) as [yi|]; [|discriminate].
  destruct (cassoc (c18_local_eth_coord xi yi w h rx ry) (c_conns c)); inversion H; reflexivity.
Qed.

Theorem bmp_connection_choice : forall c a b d k,
  bmp_get_connection c a b d = Some k -> bmp_connection_ok c a b d k.
Proof.
  intros c a b d k H. unfold bmp_get_connection in H. unfold bmp_connection_ok.
  destruct (as_int a) as [ci|]; [|discriminate].
  destruct (as_int b) as [fi|]; [|discriminate].
  destruct (as_int d) as [bi|]; [|exact H].
  destruct (kassoc [ci; fi; bi] (c_bmp c)); [inversion H; reflexivity|exact H].
Qed.
