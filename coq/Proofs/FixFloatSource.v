(* C16, tie T: the programs extracted from the text of rig/type_casts.py (Generated/GenFixFloat.v), run by the
   evaluator of Model/FixFloatSyntax.v, ARE the hand-written model functions of Model/FixFloat.v, for all
   inputs.  These proofs are re-checked whenever the source text changes (the generated file changes); a
   statement or expression outside the extractor's subset is a broken translation obligation, a changed
   expression makes the corresponding lemma below fail. *)
From Coq Require Import ZArith Reals List Bool String Lia.
From Flocq Require Import Core BinarySingleNaN.
Require Import Rig.Model.Base Rig.Model.FixFloat Rig.Model.FixFloatSyntax Rig.Generated.GenFixFloat Rig.Model.FixFloatSource.
Require Import Rig.Spec.FixFloat Rig.Proofs.FixFloat.
Import ListNotations.
Open Scope Z_scope.

Ltac run_src :=
  cbv [src_float_to_fp src_fp_to_float src_float_to_fix src_fix_to_float src_np_float_to_fix src_np_fix_to_float
       src_validate fmt_env
       src_float_to_fp_setup src_float_to_fp_call src_fp_to_float_setup src_fp_to_float_call
       src_float_to_fix_setup src_float_to_fix_call src_fix_to_float_setup src_fix_to_float_call
       src_validate_fp_params src_np_float_to_fix_setup src_np_float_to_fix_call
       src_np_fix_to_float_setup src_np_fix_to_float_call
       run_setup run_returning exec_block exec eval lookup no_ext as_int as_float
       prim_bin prim_cmp prim_call1 prim_call2 prim_call3 truthy to_float dtype_of
       bind fst snd String.eqb Ascii.eqb Bool.eqb existsb negb].


Ltac unfold_model :=
  cbv [float_to_fp fp_to_float float_to_fix fix_to_float np_float_to_fix np_fix_to_float fp_bounds clamp
       fix_clipped_scaled validate_fp_params np_init np_scaled_clipped bind fst snd].

Lemma py_float_of_int_0 : py_float_of_int 0 = Ok b64_zero.
Proof. reflexivity. Qed.

Ltac case_on t := destruct t eqn:?.

Ltac step :=
  run_src; unfold_model; rewrite ?Z.mul_1_l, ?Z.sub_0_r, ?Z.add_0_l, ?py_float_of_int_0;
  first
  [ reflexivity
  | match goal with
    | |- context [if ?c then _ else _] =>
        first [ is_var c | match c with (_ <? _) => idtac | (_ <=? _) => idtac | (_ =? _) => idtac
                                       | Bltb _ _ => idtac | Bleb _ _ => idtac | is_nan _ => idtac
                                       | (_ || _)%bool => idtac | (_ && _)%bool => idtac | negb _ => idtac end ];
        case_on c
    | |- context [py_pow2 ?k] => case_on (py_pow2 k)
    | |- context [py_float_of_int ?k] => case_on (py_float_of_int k)
    | |- context [py_int ?k] => case_on (py_int k)
    end ].

Lemma src_float_to_fp_eq :
  forall signed n_bits n_frac x,
    src_float_to_fp signed n_bits n_frac x = float_to_fp signed n_bits n_frac x.
Proof.
  intros signed n_bits n_frac x. repeat step.
  all: try (f_equal; f_equal; lia).
Qed.

Lemma src_fp_to_float_eq :
  forall n_frac v, src_fp_to_float n_frac v = fp_to_float n_frac v.
Proof.
  intros n_frac v. repeat step.
Qed.

Ltac boolhyps :=
  repeat match goal with
  | H : (_ || _)%bool = false |- _ => apply orb_false_iff in H; destruct H
  | H : (_ || _)%bool = true |- _ => apply orb_true_iff in H; destruct H
  | H : (_ <? _) = true |- _ => apply Z.ltb_lt in H
  | H : (_ <? _) = false |- _ => apply Z.ltb_ge in H
  | H : (_ <=? _) = true |- _ => apply Z.leb_le in H
  | H : (_ <=? _) = false |- _ => apply Z.leb_gt in H
  | H : (_ =? _) = true |- _ => apply Z.eqb_eq in H
  | H : (_ =? _) = false |- _ => apply Z.eqb_neq in H
  end.

Lemma src_validate_eq :
  forall s n f,
    src_validate (VBool s) (VInt n) (VInt f) =
    bind (validate_fp_params s n f) (fun mm => Ok (VTup (VInt (fst mm)) (VFlt (snd mm)))).
Proof.
  intros s n f. destruct s; repeat step.
  all: boolhyps; try lia.
Qed.


Ltac run_src' :=
  cbv [src_float_to_fix src_fix_to_float fmt_env
       src_float_to_fix_setup src_float_to_fix_call src_fix_to_float_setup src_fix_to_float_call
       run_setup run_returning exec_block exec eval lookup no_ext as_int as_float
       prim_bin prim_cmp prim_call1 prim_call2 prim_call3 truthy to_float dtype_of
       bind fst snd String.eqb Ascii.eqb Bool.eqb existsb negb].
Ltac unfold_model' := cbv [float_to_fix fix_to_float fix_clipped_scaled bind fst snd].

Ltac step' :=
  run_src'; unfold_model'; rewrite ?Z.mul_1_l, ?Z.sub_0_r, ?Z.add_0_l, ?py_float_of_int_0, ?src_validate_eq;
  first
  [ reflexivity
  | match goal with
    | |- context [validate_fp_params ?a ?b ?c] => case_on (validate_fp_params a b c)
    | |- context [if ?c then _ else _] =>
        first [ is_var c | match c with (_ <? _) => idtac | (_ <=? _) => idtac | (_ =? _) => idtac
                                       | Bltb _ _ => idtac | Bleb _ _ => idtac | is_nan _ => idtac
                                       | (_ || _)%bool => idtac | (_ && _)%bool => idtac | negb _ => idtac end ];
        case_on c
    | |- context [py_pow2 ?k] => case_on (py_pow2 k)
    | |- context [py_float_of_int ?k] => case_on (py_float_of_int k)
    | |- context [py_int ?k] => case_on (py_int k)
    end ].

Lemma validate_inv :
  forall s n f mm, validate_fp_params s n f = Ok mm ->
    1 <= n /\ 0 <= f /\ (if s then 1 else 0) + f <= n.
Proof.
  intros s n f mm H. unfold validate_fp_params in H.
  destruct (n <? 1) eqn:E1; [discriminate|].
  destruct ((n <? (if s then 1 else 0) + f) || (f <? 0))%bool eqn:E2; [discriminate|].
  boolhyps. lia.
Qed.


Ltac reuse :=
  repeat match goal with
  | H : py_float_of_int ?k = _ |- context [py_float_of_int ?k] => rewrite H
  | H : py_pow2 ?k = _ |- context [py_pow2 ?k] => rewrite H
  | H : py_int ?k = _ |- context [py_int ?k] => rewrite H
  | H : ?c = true |- context [if ?c then _ else _] => rewrite H
  | H : ?c = false |- context [if ?c then _ else _] => rewrite H
  end.

Ltac step_v Hv :=
  run_src'; cbv [bind fst snd andb];
  rewrite ?Z.mul_1_l, ?Z.sub_0_r, ?Z.add_0_l, ?py_float_of_int_0, ?src_validate_eq, ?Hv; reuse;
  first
  [ reflexivity
  | match goal with
    | |- context [if ?c then _ else _] =>
        first [ is_var c | match c with (_ <? _) => idtac | (_ <=? _) => idtac | (_ =? _) => idtac
                                       | Bltb _ _ => idtac | Bleb _ _ => idtac | is_nan _ => idtac | Z.testbit _ _ => idtac
                                       | (_ || _)%bool => idtac | (_ && _)%bool => idtac | negb _ => idtac end ];
        case_on c
    | |- context [py_pow2 ?k] => case_on (py_pow2 k)
    | |- context [py_float_of_int ?k] => case_on (py_float_of_int k)
    | |- context [py_int ?k] => case_on (py_int k)
    end ].

Lemma src_float_to_fix_eq :
  forall signed n_bits n_frac x, 0 <= n_bits ->
    src_float_to_fix signed n_bits n_frac x = float_to_fix signed n_bits n_frac x.
Proof.
  intros signed n_bits n_frac x Hn.
  unfold float_to_fix, fix_clipped_scaled.
  destruct (validate_fp_params signed n_bits n_frac) as [[mn mx]|k| |] eqn:Hv;
    (destruct signed; repeat (step_v Hv)).
  all: try (apply validate_inv in Hv).
  all: boolhyps; try lia.
Qed.

Lemma land_pow2_testbit : forall w k, 0 <= k -> negb (Z.land w (2 ^ k) =? 0) = Z.testbit w k.
Proof.
  intros w k Hk. destruct (Z.testbit w k) eqn:E.
  - destruct (Z.land w (2 ^ k) =? 0) eqn:E0; [|reflexivity].
    apply Z.eqb_eq in E0. assert (H : Z.testbit (Z.land w (2 ^ k)) k = false) by (rewrite E0; apply Z.bits_0).
    rewrite Z.land_spec, E, Z.pow2_bits_true in H by lia. discriminate.
  - replace (Z.land w (2 ^ k)) with 0; [reflexivity|].
    symmetry. apply Z.bits_inj'. intros i Hi. rewrite Z.bits_0, Z.land_spec, Z.pow2_bits_eqb by lia.
    destruct (Z.eqb_spec k i) as [->|]; [rewrite E; reflexivity|apply andb_false_r].
Qed.

Lemma land_pow2_testbit' :
  forall w k, 0 <= k -> (if Z.land w (2 ^ k) =? 0 then false else true) = Z.testbit w k.
Proof. intros w k Hk. rewrite <- land_pow2_testbit by assumption. reflexivity. Qed.

Lemma src_fix_to_float_eq :
  forall signed n_bits n_frac w,
    src_fix_to_float signed n_bits n_frac w = fix_to_float signed n_bits n_frac w.
Proof.
  intros signed n_bits n_frac w.
  unfold fix_to_float.
  destruct (validate_fp_params signed n_bits n_frac) as [[mn mx]|k| |] eqn:Hv;
    [pose proof (validate_inv _ _ _ _ Hv) as (Hn & Hf & Hnf)| | |];
    (destruct signed; repeat (run_src'; rewrite ?Z.mul_1_l, ?land_pow2_testbit' by lia; step_v Hv)).
  all: boolhyps; try lia.
Qed.

Lemma src_np_fix_to_float_eq :
  forall n_frac v, src_np_fix_to_float n_frac v = np_fix_to_float n_frac v.
Proof. intros n_frac v. repeat step. Qed.

Lemma py_float_of_int_small : forall v, Z.abs v < 2 ^ 53 -> exists y, py_float_of_int v = Ok y.
Proof.
  intros v Hv. destruct (py_float_of_int_exact v) as (y & Hy & _).
  - apply small_int_is_double; assumption.
  - apply Rlt_le_trans with (bpow radix2 53); [apply IZR_lt_bpow; [lia|assumption]|apply bpow_le; lia].
  - exists y; assumption.
Qed.

Ltac run_np :=
  cbv -[py_pow2 py_float_of_int b64_mult b64_div np_clip np_cast is_nan Bleb].

Ltac step_np :=
  run_np; reuse;
  first
  [ reflexivity
  | match goal with
    | |- context [py_pow2 ?k] => case_on (py_pow2 k)
    | |- context [py_float_of_int ?k] => case_on (py_float_of_int k)
    | |- context [if is_nan ?c then _ else _] => case_on (is_nan c)
    | |- context [if Bleb ?a ?b then _ else _] => case_on (Bleb a b)
    end ].

Ltac np_case n :=
  let y := fresh "y" in let H := fresh "H" in let y' := fresh "y" in let H' := fresh "H" in
  destruct (py_float_of_int_small 8 eq_refl) as [y H];
  destruct (py_float_of_int_small n eq_refl) as [y' H'];
  match goal with |- context [src_np_float_to_fix ?s _ _ _] => destruct s end; repeat step_np.

Lemma src_np_float_to_fix_eq :
  forall signed n_bits n_frac x,
    src_np_float_to_fix signed n_bits n_frac x = np_float_to_fix signed n_bits n_frac x.
Proof.
  intros signed n_bits n_frac x.
  destruct (Z.eqb_spec n_bits 8) as [->|N8]; [np_case 8|].
  destruct (Z.eqb_spec n_bits 16) as [->|N16]; [np_case 16|].
  destruct (Z.eqb_spec n_bits 32) as [->|N32]; [np_case 32|].
  destruct (Z.eqb_spec n_bits 64) as [->|N64]; [np_case 64|].
  apply Z.eqb_neq in N8, N16, N32, N64.
  unfold np_float_to_fix, np_init. run_src. rewrite N8, N16, N32, N64. reflexivity.
Qed.

(* ------------------------------------------------------------------ consequences stated on the extracted programs *)
Lemma source_fp_exact :
  forall signed n_bits n_frac (x : b64),
    1 <= n_bits -> in_domain n_frac x ->
    src_float_to_fp signed n_bits n_frac x = Ok (fp_spec signed n_bits n_frac (B2R x)).
Proof. intros. rewrite src_float_to_fp_eq. apply float_to_fp_exact; assumption. Qed.

Lemma source_numpy_agrees :
  forall signed n_bits n_frac (x : b64),
    n_bits = 8 \/ n_bits = 16 \/ n_bits = 32 \/ n_bits = 64 -> in_domain n_frac x ->
    src_np_float_to_fix signed n_bits n_frac x = src_float_to_fp signed n_bits n_frac x.
Proof. intros. rewrite src_np_float_to_fix_eq, src_float_to_fp_eq. apply numpy_agrees; assumption. Qed.

Lemma source_fix_agrees_mod_2n :
  forall signed n_bits n_frac (x : b64),
    valid_format signed n_bits n_frac -> in_domain n_frac x ->
    exists v, src_float_to_fp signed n_bits n_frac x = Ok v /\
              src_float_to_fix signed n_bits n_frac x = Ok (v mod 2 ^ n_bits).
Proof.
  intros signed n_bits n_frac x Hv Hd. rewrite src_float_to_fp_eq, src_float_to_fix_eq.
  - apply fix_agrees_mod_2n; assumption.
  - destruct Hv as ((H & _) & _). lia.
Qed.

Lemma source_fix_to_float_agrees :
  forall signed n_bits n_frac w,
    valid_format signed n_bits n_frac -> 0 <= w < 2 ^ n_bits ->
    src_fix_to_float signed n_bits n_frac w = src_fp_to_float n_frac (word_value signed n_bits w).
Proof. intros. rewrite src_fix_to_float_eq, src_fp_to_float_eq. apply unfix_agrees; assumption. Qed.

(* ------------------------------------------------------------------ error clauses *)
Lemma numpy_invalid_width :
  forall signed n_bits n_frac (x : b64),
    n_bits <> 8 -> n_bits <> 16 -> n_bits <> 32 -> n_bits <> 64 ->
    np_float_to_fix signed n_bits n_frac x = Failed 1.
Proof.
  intros signed n_bits n_frac x N8 N16 N32 N64. apply Z.eqb_neq in N8, N16, N32, N64.
  unfold np_float_to_fix, np_init. rewrite N8, N16, N32, N64. reflexivity.
Qed.

Lemma unfix_invalid_format :
  forall signed n_bits n_frac w,
    n_bits < 1 \/ n_frac < 0 \/ n_bits - sbit signed < n_frac ->
    fix_to_float signed n_bits n_frac w = Failed 0.
Proof.
  intros signed n_bits n_frac w H. unfold fix_to_float, validate_fp_params.
  destruct (n_bits <? 1) eqn:E1; [reflexivity|]. apply Z.ltb_ge in E1.
  fold (sbit signed).
  destruct ((n_bits <? sbit signed + n_frac) || (n_frac <? 0)) eqn:E2; [reflexivity|].
  apply orb_false_iff in E2. destruct E2 as [Ea Eb]. apply Z.ltb_ge in Ea. apply Z.ltb_ge in Eb. lia.
Qed.

Lemma source_is_model :
  (forall signed n_bits n_frac x, src_float_to_fp signed n_bits n_frac x = float_to_fp signed n_bits n_frac x) /\
  (forall n_frac v, src_fp_to_float n_frac v = fp_to_float n_frac v) /\
  (forall s n f, src_validate (VBool s) (VInt n) (VInt f) =
                 bind (validate_fp_params s n f) (fun mm => Ok (VTup (VInt (fst mm)) (VFlt (snd mm))))) /\
  (forall signed n_bits n_frac x, 0 <= n_bits ->
     src_float_to_fix signed n_bits n_frac x = float_to_fix signed n_bits n_frac x) /\
  (forall signed n_bits n_frac w, src_fix_to_float signed n_bits n_frac w = fix_to_float signed n_bits n_frac w) /\
  (forall signed n_bits n_frac x,
     src_np_float_to_fix signed n_bits n_frac x = np_float_to_fix signed n_bits n_frac x) /\
  (forall n_frac v, src_np_fix_to_float n_frac v = np_fix_to_float n_frac v).
Proof.
  exact (conj src_float_to_fp_eq (conj src_fp_to_float_eq (conj src_validate_eq (conj src_float_to_fix_eq
        (conj src_fix_to_float_eq (conj src_np_float_to_fix_eq src_np_fix_to_float_eq)))))).
Qed.

Lemma source_sentences :
  (forall signed n_bits n_frac (x : b64),
     1 <= n_bits -> in_domain n_frac x ->
     src_float_to_fp signed n_bits n_frac x = Ok (fp_spec signed n_bits n_frac (B2R x))) /\
  (forall signed n_bits n_frac (x : b64),
     n_bits = 8 \/ n_bits = 16 \/ n_bits = 32 \/ n_bits = 64 -> in_domain n_frac x ->
     src_np_float_to_fix signed n_bits n_frac x = src_float_to_fp signed n_bits n_frac x) /\
  (forall signed n_bits n_frac (x : b64),
     valid_format signed n_bits n_frac -> in_domain n_frac x ->
     exists v, src_float_to_fp signed n_bits n_frac x = Ok v /\
               src_float_to_fix signed n_bits n_frac x = Ok (v mod 2 ^ n_bits)) /\
  (forall signed n_bits n_frac w,
     valid_format signed n_bits n_frac -> 0 <= w < 2 ^ n_bits ->
     src_fix_to_float signed n_bits n_frac w = src_fp_to_float n_frac (word_value signed n_bits w)).
Proof.
  exact (conj source_fp_exact (conj source_numpy_agrees (conj source_fix_agrees_mod_2n source_fix_to_float_agrees))).
Qed.
