"""A simulated SpiNNaker machine for property C07: byte-addressed memory per chip, answering the SCP memory
commands (sver, read, write, fill, link_read, link_write) datagram by datagram.

Self-contained: nothing of rig is imported; the wire layout, the command numbers, the return codes and the
command semantics are written down here from the SC&MP / SARK documentation, independently of rig's
packets.py / consts.py and of the Gallina model coq/Model/Machine.v (whose [exec] re-checks, in the trace
validator, every reply this simulator gave).

Semantics (the data-type rule): read / write transfer floor(len / unit) units of 1, 2 or 4 bytes starting at
the address with its low bits cleared; the len mod unit bytes that remain are not transferred (a read returns
0 for them).  len > advertised buffer size or an unknown type -> RC_ARG; write / link_write whose payload
length differs from len -> RC_LEN.  fill stores size // 4 little-endian words.  link_read / link_write are
word transfers on the chip across the named link of the addressed chip (torus of the given dimensions).

Memory = a pattern (function of seed, chip, address) + sparse initial overrides + sparse bytes written.
"""
import struct

CMD_VER, CMD_READ, CMD_WRITE, CMD_FILL, CMD_LINK_READ, CMD_LINK_WRITE, CMD_INFO = 0, 2, 3, 5, 17, 18, 31
CONTROL = (CMD_VER, CMD_INFO)          # queries that do not touch memory
RC_OK, RC_LEN, RC_CMD, RC_ARG = 0x80, 0x81, 0x83, 0x84
UNITS = {0: 1, 1: 2, 2: 4}
LINK_DELTA = {0: (1, 0), 1: (1, 1), 2: (0, 1), 3: (-1, 0), 4: (-1, -1), 5: (0, -1)}


def pattern_byte(seed, chip, a):
    return ((a & 255) * 167 + ((a >> 8) & 255) * 91 + chip[0] * 59 + chip[1] * 101 + seed * 13) & 255


def data_byte(seed, i):
    return (i * 73 + (i >> 8) * 5 + seed * 29 + 11) & 255


def pattern_data(seed, n):
    return bytes(bytearray(data_byte(seed, i) for i in range(n)))


def digest(bs):
    h = 0
    for b in bytearray(bs):
        h = (h * 257 + b + 1) & 0x3fffffff
    return h


def pack_runs(cells):
    """sorted (x, y, address, byte) -> [[x, y, first address, hex of the consecutive bytes], ...]"""
    runs = []
    for x, y, a, b in cells:
        if runs and runs[-1][0] == x and runs[-1][1] == y and runs[-1][2] + len(runs[-1][3]) == a:
            runs[-1][3].append(b)
        else:
            runs.append([x, y, a, bytearray([b])])
    return [[x, y, a, bytes(bs).hex()] for x, y, a, bs in runs]


def unpack_runs(runs):
    return [(x, y, a + i, b) for x, y, a, hx in runs for i, b in enumerate(bytearray.fromhex(hx))]


class Memory(object):
    """initial contents (pattern + overrides) and the bytes stored since"""

    def __init__(self, seed, over):
        self.seed = seed
        self.over = {}
        for x, y, pairs in over:
            d = self.over.setdefault((x, y), {})
            for a, b in pairs:
                d.setdefault(a, b)          # first entry wins (association list)
        self.stored = {}          # (chip, address) -> (stamp, byte)
        self.fills = []           # big word fills kept as intervals: (stamp, chip, base, nbytes, 4 bytes of the word)
        self.clock = 0

    def initial(self, chip, a):
        o = self.over.get(chip)
        if o is not None and a in o:
            return o[a]
        return pattern_byte(self.seed, chip, a)

    def current(self, chip, a):
        """(stamp, byte) of the latest store to the address, or None"""
        best = self.stored.get((chip, a))
        for st, c, base, n, word in self.fills:
            if c == chip and base <= a < base + n and (best is None or st > best[0]):
                best = (st, word[(a - base) % 4])
        return best

    def get(self, chip, a):
        v = self.current(chip, a)
        return self.initial(chip, a) if v is None else v[1]

    def put(self, chip, a, b):
        self.clock += 1
        self.stored[(chip, a)] = (self.clock, b & 0xff)

    def fill(self, chip, base, n, word):
        """n bytes from base (a multiple of 4 bytes) become copies of the 4-byte string `word`: byte by byte when
        small, as one interval when big (a fill of megabytes is not spelt out)"""
        if n <= BIG_FILL:
            for i in range(n):
                self.put(chip, base + i, word[i % 4])
        else:
            self.clock += 1
            self.fills.append((self.clock, chip, base, n, bytes(word)))

    def diff(self):
        """every byte of the machine OUTSIDE the big-fill intervals that differs from its initial value, as runs of
        consecutive addresses [[x, y, first address, hex bytes], ...] sorted (bytes stored after a big fill inside
        its interval are listed too); the big fills themselves are reported by big_fills()"""
        cells = []
        for (c, a), (st, b) in self.stored.items():
            cur = self.current(c, a)
            if cur[0] == st and (b != self.initial(c, a) or any(f[1] == c and f[2] <= a < f[2] + f[3] for f in self.fills)):
                cells.append((c[0], c[1], a, b))
        return pack_runs(sorted(cells))

    def big_fills(self):
        return [[c[0], c[1], base, n, word.hex()] for st, c, base, n, word in self.fills]


BIG_FILL = 65536


class SimMachine(object):
    def __init__(self, seed, over, buffer_size, dims=(8, 8), boot=(0, 0), eth=()):
        self.eth = dict(((x, y), k) for x, y, k in eth)      # Ethernet-connected chips -> last byte of 10.11.12.k
        self.mem = Memory(seed, over)
        self.buffer_size = buffer_size
        self.core_buffers = {}      # core -> buffer size of the kernel running there, where it differs (application cores)
        self.dims = tuple(dims)
        self.boot = tuple(boot)
        self.log = []          # one entry per datagram executed: dict(x, y, p, cmd, args, data, rc, reply)
        self.cache = {}        # transmission index -> reply fields (a duplicated reply is the same datagram)
        self.refused = []      # return codes with which the machine refused a command without executing it

    def neighbour(self, chip, link):
        dx, dy = LINK_DELTA.get(link, (0, -1))
        return ((chip[0] + dx) % self.dims[0], (chip[1] + dy) % self.dims[1])

    # ------------------------------------------------------------------ unit-wise transfers
    def read_units(self, chip, addr, n, unit):
        base = addr - addr % unit
        whole = unit * (n // unit)
        return bytes(bytearray(self.mem.get(chip, base + i) if i < whole else 0 for i in range(n)))

    def write_units(self, chip, addr, n, unit, data):
        base = addr - addr % unit
        whole = unit * (n // unit)
        for i in range(whole):
            self.mem.put(chip, base + i, data[i])

    # ------------------------------------------------------------------ one command
    def limit(self, p):
        """the data buffer of the kernel on core p: a command is checked against the buffer of the core it addresses"""
        return self.core_buffers.get(p, self.buffer_size)

    def execute(self, chip, p, cmd, args, data):
        """-> (rc, reply args, reply data)"""
        a1, a2, a3 = args
        if cmd == CMD_VER:
            arg1 = (((chip[0] << 8) | chip[1]) << 16) | (p & 0xff)
            return RC_OK, (arg1, (133 << 16) | (self.limit(p) & 0xffff), 0), b"SC&MP/SpiNNaker\0"
        if cmd == CMD_INFO:
            # chip information: arg1 = cores | links << 8 | free router entries << 14 | ethernet up << 25;
            # data = 18 core states, nearest Ethernet chip (x << 8 | y), IP address
            up = chip in self.eth
            arg1 = 18 | (0x3f << 8) | (1023 << 14) | ((1 if up else 0) << 25)
            near = min(self.eth or {self.boot: 0}, key=lambda e: (abs(e[0] - chip[0]) + abs(e[1] - chip[1]), e))
            data = bytes(bytearray([0] * 18)) + struct.pack("<H", (near[0] << 8) | near[1]) + \
                bytes(bytearray([10, 11, 12, self.eth.get(chip, 0)]))
            return RC_OK, (arg1, 1 << 20, 1 << 14), data
        if cmd == CMD_READ:
            if a3 not in UNITS or a2 > self.limit(p):
                return RC_ARG, (), b""
            return RC_OK, (), self.read_units(chip, a1, a2, UNITS[a3])
        if cmd == CMD_WRITE:
            if a3 not in UNITS or a2 > self.limit(p):
                return RC_ARG, (), b""
            if len(data) != a2:
                return RC_LEN, (), b""
            self.write_units(chip, a1, a2, UNITS[a3], data)
            return RC_OK, (), b""
        if cmd == CMD_FILL:
            self.mem.fill(chip, a1 - a1 % 4, 4 * (a3 // 4), bytearray(struct.pack("<I", a2)))
            return RC_OK, (), b""
        if cmd == CMD_LINK_READ:
            if a2 > self.limit(p):
                return RC_ARG, (), b""
            return RC_OK, (), self.read_units(self.neighbour(chip, a3), a1, a2, 4)
        if cmd == CMD_LINK_WRITE:
            if a2 > self.limit(p):
                return RC_ARG, (), b""
            if len(data) != a2:
                return RC_LEN, (), b""
            self.write_units(self.neighbour(chip, a3), a1, a2, 4, data)
            return RC_OK, (), b""
        return RC_CMD, (), b""

    def handle(self, dgram, tx=None, forced_rc=None):
        """One request datagram -> one reply datagram.  forced_rc: the machine refuses the command with this
        (retryable) return code without executing it."""
        dgram = bytes(dgram)
        flags, tag, dpc, spc, dy, dx, sy, sx = struct.unpack_from("<2x8B", dgram)
        cmd, seq = struct.unpack_from("<2H", dgram, 10)
        rest = dgram[14:]
        if len(rest) >= 12:
            args = struct.unpack_from("<3I", rest)
            data = rest[12:]
        else:
            args, data = (0, 0, 0), b""
        p = dpc & 0x1f
        chip = self.boot if (dx, dy) == (255, 255) else (dx, dy)
        if forced_rc is not None and forced_rc != RC_OK:
            rc, rargs, rdata = forced_rc, (), b""
            self.refused.append(forced_rc)
        elif tx is not None and tx in self.cache:
            rc, rargs, rdata = self.cache[tx]
        else:
            rc, rargs, rdata = self.execute(chip, p, cmd, args, data)
            self.log.append(dict(x=chip[0], y=chip[1], p=p, cmd=cmd, args=list(args), data=data.hex(),
                                 rc=rc, reply=rdata.hex(), tx=tx, port=dpc >> 5))
            if tx is not None:
                self.cache[tx] = (rc, rargs, rdata)
        hdr = struct.pack("<2x8B", 0x07, tag, spc, dpc, sy, sx, chip[1], chip[0])
        return hdr + struct.pack("<2H", rc, seq) + b"".join(struct.pack("<I", v & 0xffffffff) for v in rargs) + rdata

    def responder(self, net, tx, data, rc):
        """responder of scpsim.FaultSim: rc is RC_OK or the retryable code the fault plan injects"""
        return self.handle(data, tx=tx, forced_rc=rc)
