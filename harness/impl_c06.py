"""Drive the real rig.machine_control.scp_connection.SCPConnection against a scripted network (scpsim).

A case is one connection: {"n_tries", "timeout", "advance_seq", "policy", "ops"}; ops are bursts
(send_scp_burst), single commands (send_scp) and idle periods.  The result lists, per burst, the exact
sequence of socket sends, selects, receives and callback invocations, the way the call ended, and the
concrete environment events it consumed (so that the Gallina model can be run on the very same events).
Runs under /venv/bin/python, PYTHONPATH=/repo:/verif/harness.
"""
import hashlib
import signal
import warnings

warnings.simplefilter("ignore")
import scpsim                                                   # noqa: E402
from rig.machine_control import scp_connection                  # noqa: E402
from rig.machine_control.scp_connection import SCPConnection, scpcall   # noqa: E402


def dg(b):
    d = scpsim.decode(b)
    return [d["cmd_rc"], d["seq"], d["args"][0] if d["args"] else -1]


def dgh(b):
    """(rc, seq, src) and a digest of the whole datagram"""
    return dg(b) + [hashlib.sha1(bytes(b)).hexdigest()[:10]]


def make_policy(p):
    if p["kind"] == "raw":
        return scpsim.RawScript(p["events"], pad=p.get("pad", 0), pad_step=p.get("pad_step", 1000))
    sim = scpsim.FaultSim(p["plan"], exact=p.get("exact", ()), max_selects=p.get("max_selects", 20000),
                          late=p.get("late"))
    if p.get("full_replies"):
        sim.responder = lambda net, tx, data, rc: scpsim.echo_responder(net, tx, data, rc, full=True)
    return sim


def call_send_scp(conn, bs, f, op):
    return conn.send_scp(bs, f["x"], f["y"], f["p"], f["cmd"], f["arg1"], f["arg2"], f["arg3"],
                         f["data"], expected_args=op["nargs"], timeout=op["extra"])


def canon_log(net, lo):
    out = []
    for e in net.log[lo:]:
        if e[0] == "send":
            d = scpsim.decode(e[2])
            cid = d["args"][0] if d["args"] else -1
            # the transmission "carries command cid" only if the WHOLE datagram (but for the sequence number) is
            # that command as submitted; anything else is named -1000000 - arg1 (the model has no such send)
            if cid < 0 or scpsim.make_request(scpsim.cmd_fields(cid), d["seq"]) != bytes(e[2]):
                cid = -1000000 - cid
            out.append(["send", e[1], cid, d["seq"], e[3],
                        hashlib.sha1(e[2][:12] + e[2][14:]).hexdigest()[:10]])
        elif e[0] == "select":
            t = e[1]
            out.append(["select", int(t) if t == int(t) else repr(t)])
        elif e[0] == "recv":
            out.append(["recv"] + dgh(e[1]))
        elif e[0] == "cb":
            out.append(["cb", e[1]] + dgh(e[2]))
    return out


def run_case(c):
    if any(op.get("cmds_range", [0, 0, 0])[1] > 1000 for op in c["ops"]):
        # a 65 537-command schedule: seconds on an idle machine; the harness's per-case alarm (a backstop --
        # a loop that never ends is normally caught by the script running out of selects) is extended
        signal.setitimer(signal.ITIMER_PROF, 300)     # the per-case limit is CPU time (implutil.run_cases)
        signal.alarm(2400)
    net = scpsim.Net(make_policy(c["policy"]))
    net.buffer_size = bs = c.get("buffer_size", 256)
    restore = net.install(scp_connection)
    try:
        if c.get("positional"):        # (spinnaker_host, port, n_tries, timeout), as discover_connections passes them
            conn = SCPConnection("127.0.0.1", 17893, c["n_tries"], c["timeout"])
        else:
            conn = SCPConnection("127.0.0.1", n_tries=c["n_tries"], timeout=c["timeout"])
        # n_tries and timeout are set through the constructor only and never assigned afterwards: the oracle counts
        # transmissions and measures retransmission spacing against the CONFIGURED values
        for _ in range(c.get("advance_seq", 0)):
            next(conn.seq)
        bursts = []
        for op in c["ops"]:
            if op["op"] == "idle":
                net.now += op["dt"]
                continue
            # buffer_size is an argument of every call: it may differ from call to call on one connection
            net.buffer_size = bs = op.get("buffer_size", c.get("buffer_size", 256))
            lo, elo = net.mark()
            start = dict(now=net.now, ntx=net.ntx, buf=[dg(b) for b in net.buf])
            ret = None
            try:
                if op["op"] == "burst":
                    shared = bytearray()       # op["shared_payload"]: ONE buffer refilled for every command

                    def calls():
                        first, n, rextra = op.get("cmds_range", [0, 0, 0])
                        for cid, extra in op["cmds"] + [[first + i, rextra] for i in range(n)]:
                            def cb(packet, cid=cid):
                                net.log.append(["cb", cid, bytes(packet)])
                                net.now += op.get("cb", {}).get(str(cid), 0)      # a slow callback
                            net.now += op.get("iter", {}).get(str(cid), 0)        # a slow command iterable
                            f = scpsim.cmd_fields(cid)
                            data = f["data"]
                            if op.get("shared_payload"):
                                # a lazy producer that reuses its buffer (like readinto): the command is what the
                                # buffer holds when it is yielded; the buffer is overwritten for the next command
                                shared[:] = data
                                data = shared
                            yield scpcall(f["x"], f["y"], f["p"], f["cmd"], f["arg1"], f["arg2"], f["arg3"],
                                          data, cb, extra)
                            if op.get("shared_payload"):
                                shared[:] = b"\xee" * len(shared)      # scribbled over as soon as control returns
                    conn.send_scp_burst(bs, op["window"], calls())
                else:
                    f = scpsim.cmd_fields(op["id"])
                    # send_scp's callback is internal (it parses the reply with SCPPacket.from_bytestring and
                    # keeps it): observe its invocation by wrapping that class method from outside
                    real_packet = scp_connection.SCPPacket

                    class ObservedSCPPacket(real_packet):
                        @classmethod
                        def from_bytestring(cls, data, n_args=3):
                            net.log.append(["cb", op["id"], bytes(data)])
                            net.now += op.get("cb", {}).get(str(op["id"]), 0)
                            return real_packet.from_bytestring(data, n_args=n_args)
                    scp_connection.SCPPacket = ObservedSCPPacket
                    try:
                        p = call_send_scp(conn, bs, f, op)
                    finally:
                        scp_connection.SCPPacket = real_packet
                    args = [p.arg1, p.arg2, p.arg3][:op["nargs"]]
                    ret = dict(cmd_rc=int(p.cmd_rc), seq=int(p.seq), args=[None if a is None else int(a) for a in args],
                               rest=[p.arg1, p.arg2, p.arg3][op["nargs"]:], data=bytes(p.data).hex())
                outcome = ["return"]
            except scp_connection.TimeoutError as e:
                outcome = ["timeout", e.packet.arg1 if e.packet is not None else None]
            except scp_connection.FatalReturnCodeError as e:
                outcome = ["fatal", int(e.return_code), e.packet.arg1 if e.packet is not None else None]
            except scpsim.ScriptExhausted:
                outcome = ["stuck"]
            except Exception as e:                               # noqa
                outcome = ["other", type(e).__name__, str(e)[:200]]
            trace = canon_log(net, lo)
            pending = ([[p[0]] + dg(p[2]) for p in getattr(net.policy, "pending", [])] +
                       [[a] + dg(b) for a, b in zip(net.buf_arrival, net.buf)])     # ... and unread in the socket
            bursts.append(dict(trace=trace, outcome=outcome, start=start, ret=ret, end_now=net.now,
                               pending=pending,   # replies in the simulated network / socket not yet read: [arrival, rc, seq, src]
                               events=[[[dg(b) for b in ds], t] for ds, t in net.events[elo:]],
                               raw_replies=[[b.hex() for b in ds] for ds, t in net.events[elo:]]
                               if op["op"] == "scp" else None))
        return dict(bursts=bursts, recv_sizes=sorted(net.recv_sizes),
                    blocking=[s.blocking for s in net.sockets], nsock=len(net.sockets))
    finally:
        restore()


if __name__ == "__main__":
    import implutil
    implutil.run_cases(run_case, per_case_s=20)
