#!/usr/bin/env python3
"""Differential self-test of tools/py2v.py (the trusted translator of tie T).

  1. random programs INSIDE the accepted subset (plus a share of "loose" programs that touch its
     borders) are written to a scratch directory, translated with py2v.translate_unit, run in
     Python and evaluated in Coq (`Eval vm_compute`) on random and boundary arguments; every
     difference is reported with a reproducer.  A program py2v rejects is fine (fail closed) and
     is only counted.  A call on which Python raises (division by zero, negative shift count) is
     outside the translator's contract and is only counted.
  2. directed tests: every spec option (tables, lookups, casts, defaults, ignore_params,
     fragment, km, requires, sum-comprehension, globals), the expression mode the dumpers use
     (Fn(None, ...).expr / as_bool / block), the operator semantics on negative operands, and a
     list of programs that MUST be rejected (every construct whose Coq reading could differ).

Deterministic under --seed.  Exit 0 when everything agrees, 1 otherwise (reproducer on stdout).
Usage: py2v_selftest.py [--seed N] [--functions N] [--args N] [--keep] [-v]
"""
import argparse
import ast
import os
import random
import shutil
import subprocess
import sys
import tempfile
import time

HERE = os.path.dirname(os.path.abspath(__file__))
sys.path.insert(0, HERE)
sys.path.insert(0, os.path.join(os.path.dirname(HERE), "harness"))
import py2v  # noqa: E402
from lib import parse_term, split_evals  # noqa: E402

DEG_MAX = 6            # bound on the polynomial degree of generated values (keeps numbers < ~600 bits)
BOUNDARY = [0, 1, -1, 2, -2, 3, 7, -8, 255, 256, -256, 65535, 2 ** 31 - 1, 2 ** 31, -2 ** 31,
            2 ** 32 - 1, 2 ** 32, -2 ** 32, 2 ** 63, 2 ** 64 - 1, -2 ** 64, 2 ** 70, -2 ** 70]
LITS = ["0", "1", "2", "3", "4", "5", "7", "8", "12", "15", "16", "31", "32", "63", "255", "256",
        "1000", "0xffff", "0xffffffff", "4294967296", "18446744073709551615"]
NAMES = ["a", "b", "c", "d", "x", "y", "z", "w", "n", "m", "k", "t", "u", "v", "p", "q", "r", "s",
         "lo", "hi", "acc", "tmp", "length", "value", "key", "mask",
         "end", "at", "mod", "fun", "using", "where", "fix", "struct", "Set", "Type"]   # Coq keywords
HAZARD_NAMES = ["true", "false", "fst", "snd", "Z", "map", "negb", "end_", "_", "min", "abs"]


# ===================================================================== random programs
class FnGen:
    """Generator of one function.  env: name -> (type, degree); types Z bool Z2 Z3 slice."""

    def __init__(self, rng, name, pool, loose):
        self.rng, self.name, self.pool, self.loose = rng, name, pool, loose
        self.maxdeg = 0
        self.sumdepth = 0
        self.ret = None

    # ------------------------------------------------------------ helpers
    def pick(self, items):
        return items[self.rng.randrange(len(items))]

    def weighted(self, pairs):
        pairs = [(k, w) for k, w in pairs if w > 0]
        r = self.rng.random() * sum(w for _, w in pairs)
        for k, w in pairs:
            r -= w
            if r < 0:
                return k
        return pairs[-1][0]

    def note(self, deg):
        self.maxdeg = max(self.maxdeg, deg)
        return deg

    def vars_of(self, env, t):
        return [n for n, (ty, _) in env.items() if ty == t]

    def fresh(self, env, hazard_ok=True):
        if self.loose and hazard_ok and self.rng.random() < 0.25:
            tuples = [n for n, (ty, _) in env.items() if ty in ("Z2", "Z3")]
            c = [h for h in HAZARD_NAMES if h not in env] + [n + "_0" for n in tuples if n + "_0" not in env]
            if c:
                return self.pick(c)
        c = [n for n in NAMES if n not in env]
        return self.pick(c) if c else "v%d" % len(env)

    # ------------------------------------------------------------ expressions
    def atom_Z(self, env):
        zs = self.vars_of(env, "Z")
        comps = [("%s[%d]" % (n, i), d) for n, (ty, d) in env.items() if ty in ("Z2", "Z3")
                 for i in range(int(ty[1]))]
        comps += [("%s.%s" % (n, a), d) for n, (ty, d) in env.items() if ty == "slice"
                  for a in ("start", "stop")]
        k = self.weighted([("lit", 30), ("var", 50 if zs else 0), ("comp", 20 if comps else 0)])
        if k == "var":
            n = self.pick(zs)
            return n, env[n][1]
        if k == "comp":
            return self.pick(comps)
        return self.pick(LITS), 0

    def small(self, src):
        return "(%s %% 251)" % src, 0

    def divisor(self, env, d):
        k = self.weighted([("lit", 40), ("abs1", 25), ("odd", 20), ("raw", 15)])
        if k == "lit":
            lit = self.pick([x for x in LITS if x != "0"])
            return (lit if self.rng.random() < 0.6 else "(-%s)" % lit), 0
        e, de = self.gen_Z(env, d)
        if k == "abs1":
            return "(abs(%s) + 1)" % e, de
        if k == "odd":
            return "(%s | 1)" % e, de
        return e, de

    def count(self, env, d):
        k = self.weighted([("lit", 40), ("and", 25), ("absmod", 20), ("clamp", 15)])
        if k == "lit":
            return str(self.rng.randrange(0, 13))
        e, _ = self.gen_Z(env, d)
        if k == "and":
            return "(%s & 7)" % e
        if k == "absmod":
            return "(abs(%s) %% 6)" % e
        return "min(max(%s, 0), 9)" % e

    def gen_Z(self, env, d):
        src, deg = self._gen_Z(env, d)
        return src, self.note(deg)

    def _gen_Z(self, env, d):
        if d <= 0 or self.rng.random() < 0.2:
            return self.atom_Z(env)
        has_call = any(f["ret"] == "Z" for f in self.pool)
        k = self.weighted([("bin", 46), ("neg", 5), ("inv", 5), ("minmax", 9), ("abs", 5), ("ifexp", 8),
                           ("call", 12 if has_call else 0), ("int", 2), ("sum", 3 if self.sumdepth < 2 else 0),
                           ("hazard", 4 if self.loose else 0)])
        if k == "bin":
            op = self.pick(["+", "-", "*", "//", "%", "&", "|", "^", "<<", ">>", "+", "-", "&", "|"])
            a, da = self.gen_Z(env, d - 1)
            if op in ("+", "-", "&", "|", "^"):
                b, db = self.gen_Z(env, d - 1)
                return "(%s %s %s)" % (a, op, b), max(da, db)
            if op == "*":
                b, db = self.gen_Z(env, d - 1)
                if da + db > DEG_MAX:
                    b, db = self.small(b)
                return "(%s * %s)" % (a, b), da + db
            if op in ("//", "%"):
                b, db = self.divisor(env, d - 1)
                return "(%s %s %s)" % (a, op, b), max(da, db)
            c = self.count(env, d - 1)
            if op == "<<" and da >= DEG_MAX:
                a, da = self.small(a)
            return "(%s %s %s)" % (a, op, c), da + (1 if op == "<<" else 0)
        if k == "neg":
            a, da = self.gen_Z(env, d - 1)
            return "(-%s)" % a, da
        if k == "inv":
            a, da = self.gen_Z(env, d - 1)
            return "(~%s)" % a, da
        if k == "minmax":
            parts = [self.gen_Z(env, d - 1) for _ in range(self.rng.randrange(2, 5))]
            return "%s(%s)" % (self.pick(["min", "max"]), ", ".join(p[0] for p in parts)), \
                max(p[1] for p in parts)
        if k == "abs":
            a, da = self.gen_Z(env, d - 1)
            return "abs(%s)" % a, da
        if k == "ifexp":
            c = self.cond(env, d - 1)
            a, da = self.gen_Z(env, d - 1)
            b, db = self.gen_Z(env, d - 1)
            return "(%s if %s else %s)" % (a, c, b), max(da, db)
        if k == "call":
            return self.call(env, d, "Z")
        if k == "int":
            a, da = self.gen_Z(env, d - 1)
            return "int(%s)" % a, da
        if k == "sum":
            var = "i%d" % self.sumdepth
            self.sumdepth += 1
            env2 = dict(env)
            env2[var] = ("Z", 0)
            elt, de = self.gen_Z(env2, d - 1)
            cnd = (" if " + self.cond(env2, d - 1)) if self.rng.random() < 0.6 else ""
            self.sumdepth -= 1
            return "sum(%s for %s in range(%d)%s)" % (elt, var, self.rng.randrange(0, 11), cnd), de
        # hazards: valid Python whose value py2v must either reject or get right
        a, da = self.gen_Z(env, d - 1)
        b, db = self.gen_Z(env, d - 1)
        h = self.pick(["((%s < %s) + 1)", "(%s and %s)", "(%s or %s)", "(True + %s + %s)", "(+%s - %s)",
                       "(%s if %s is not None else 0)", "((%s == %s) * 3)", "(%s - (not %s))",
                       "min(%s, %s < 3)", "((%s, %s)[0])", "abs(%s > %s)", "(%s // 1 ** %s)"])
        return h % (a, b), max(da, db) + 1

    def call(self, env, d, ret):
        f = self.pick([f for f in self.pool if f["ret"] == ret])
        args = []
        degs = [0]
        for _, t in f["params"]:
            s, dg = self.gen_typed(t, env, min(d - 1, 1))
            args.append((t, s))
            degs.append(dg)
        deg = f["deg"] * max(degs)
        if deg > DEG_MAX:
            args = [(t, self.reduced(t, env)) for t, _ in args]
            deg = 1
        return "%s(%s)" % (f["name"], ", ".join(s for _, s in args)), deg

    def reduced(self, t, env):
        def z():
            return self.small(self.atom_Z(env)[0])[0]
        if t == "Z":
            return z()
        if t == "bool":
            return self.gen_bool(env, 0)
        if t == "slice":
            return "slice(%s, %s)" % (z(), z())
        return "(" + ", ".join(z() for _ in range(int(t[1]))) + ")"

    def cond(self, env, d):
        if self.rng.random() < 0.25:
            return self.gen_Z(env, d)[0]
        return self.gen_bool(env, d)

    def cmp(self, env, d, n):
        terms = [self.gen_Z(env, d)[0] for _ in range(n + 1)]
        out = terms[0]
        for t in terms[1:]:
            out += " %s %s" % (self.pick(["<", "<=", ">", ">=", "==", "!="]), t)
        return "(" + out + ")"

    def gen_bool(self, env, d):
        bs = self.vars_of(env, "bool")
        if d <= 0:
            k = self.weighted([("cmp", 70), ("var", 20 if bs else 0), ("const", 10)])
        else:
            has_call = any(f["ret"] == "bool" for f in self.pool)
            k = self.weighted([("cmp", 45), ("chain", 12), ("not", 10), ("andor", 15), ("var", 6 if bs else 0),
                               ("const", 2), ("bool", 3), ("call", 6 if has_call else 0), ("ifexp", 3)])
        if k == "cmp":
            return self.cmp(env, max(d - 1, 0), 1)
        if k == "chain":
            return self.cmp(env, d - 1, self.rng.randrange(2, 4))
        if k == "var":
            return self.pick(bs)
        if k == "const":
            return self.pick(["True", "False"])
        if k == "not":
            return "(not %s)" % self.cond(env, d - 1)
        if k == "andor":
            parts = [self.gen_bool(env, d - 1) for _ in range(self.rng.randrange(2, 4))]
            return "(" + (" %s " % self.pick(["and", "or"])).join(parts) + ")"
        if k == "bool":
            return "bool(%s)" % self.cond(env, d - 1)
        if k == "call":
            return self.call(env, d, "bool")[0]
        return "(%s if %s else %s)" % (self.gen_bool(env, d - 1), self.cond(env, d - 1),
                                       self.gen_bool(env, d - 1))

    def gen_tuple(self, env, t, d):
        n = int(t[1])
        vs = self.vars_of(env, t)
        has_call = any(f["ret"] == t for f in self.pool)
        k = self.weighted([("lit", 60), ("var", 20 if vs else 0), ("call", 15 if has_call else 0),
                           ("ifexp", 5 if d > 0 else 0)])
        if k == "var":
            v = self.pick(vs)
            return v, env[v][1]
        if k == "call":
            return self.call(env, d, t)
        if k == "ifexp":
            a, da = self.gen_tuple(env, t, d - 1)
            b, db = self.gen_tuple(env, t, d - 1)
            return "(%s if %s else %s)" % (a, self.cond(env, d - 1), b), max(da, db)
        parts = [self.gen_Z(env, d - 1) for _ in range(n)]
        return "(" + ", ".join(p[0] for p in parts) + ")", max(p[1] for p in parts)

    def gen_typed(self, t, env, d):
        if t == "Z":
            return self.gen_Z(env, d)
        if t == "bool":
            return self.gen_bool(env, d), 0
        if t == "slice":
            vs = self.vars_of(env, "slice")
            if vs and self.rng.random() < 0.4:
                v = self.pick(vs)
                return v, env[v][1]
            a, da = self.gen_Z(env, d - 1)
            b, db = self.gen_Z(env, d - 1)
            return "slice(%s, %s)" % (a, b), max(da, db)
        return self.gen_tuple(env, t, d)

    # ------------------------------------------------------------ statements
    def stmts(self, env, depth, restricted, n):
        """-> (lines, env, returned).  restricted: inside an `if` that contains no return, where
        py2v joins the branches on the integer variables they assign."""
        lines = []
        for _ in range(n):
            zs = self.vars_of(env, "Z")
            k = self.weighted([("assign", 30), ("aug", 15 if zs else 0), ("swap", 6 if len(zs) > 1 else 0),
                               ("unpack", 0 if restricted else 7), ("other", 0 if restricted else 8),
                               ("if", 25 if depth > 0 else 0), ("return", 0 if restricted else 7),
                               ("pass", 2)])
            if k == "assign":
                e, de = self.gen_Z(env, 3)
                if restricted:
                    if not zs:
                        lines.append("pass")
                        continue
                    v = self.pick(zs)
                else:
                    v = self.pick(zs) if zs and self.rng.random() < 0.5 else self.fresh(env)
                lines.append("%s = %s" % (v, e))
                env[v] = ("Z", max(de, env[v][1] if restricted else 0))
            elif k == "aug":
                v = self.pick(zs)
                op = self.pick(["+", "-", "*", "//", "%", "&", "|", "^", "<<", ">>"])
                dv = env[v][1]
                if op in ("<<", ">>"):
                    e, de = self.count(env, 1), 0
                    if op == "<<":
                        if dv >= DEG_MAX:
                            continue
                        dv += 1
                elif op in ("//", "%"):
                    e, de = self.divisor(env, 1)
                else:
                    e, de = self.gen_Z(env, 2)
                if op == "*":
                    if dv + de > DEG_MAX:
                        e, de = self.small(e)
                    dv = dv + de
                else:
                    dv = max(dv, de)
                lines.append("%s %s= %s" % (v, op, e))
                env[v] = ("Z", self.note(dv))
            elif k == "swap":
                a, b = self.rng.sample(zs, 2)
                if self.rng.random() < 0.5:
                    lines.append("%s, %s = %s, %s" % (a, b, b, a))
                else:
                    e, de = self.gen_Z(env, 2)
                    lines.append("%s, %s = %s, (%s + %s)" % (a, b, b, a, e))
                    env[b] = ("Z", max(env[a][1], env[b][1], de))
                dm = max(env[a][1], env[b][1])
                env[a], env[b] = ("Z", dm), ("Z", dm)
            elif k == "unpack":
                t = self.pick(["Z2", "Z2", "Z3"])
                e, de = self.gen_tuple(env, t, 2)
                names = []
                for _i in range(int(t[1])):
                    envx = dict(env)
                    envx.update((x, ("Z", 0)) for x in names)
                    v = self.fresh(envx) if self.rng.random() < 0.6 or not zs else self.pick(zs)
                    while v in names:
                        v = self.fresh(envx, False)
                    names.append(v)
                lines.append("%s = %s" % (", ".join(names), e))
                for v in names:
                    env[v] = ("Z", de)
            elif k == "other":
                t = self.pick(["Z2", "Z3", "slice", "bool", "bool"])
                e, de = self.gen_typed(t, env, 2)
                v = self.fresh(env)
                lines.append("%s = %s" % (v, e))
                env[v] = (t, de)
            elif k == "if":
                ls, env, returned = self.if_stmt(env, depth, restricted)
                lines += ls
                if returned:
                    return lines, env, True
            elif k == "return":
                lines.append("return " + self.gen_typed(self.ret, env, 3)[0])
                return lines, env, True
            else:
                lines.append("pass")
        return lines, env, False

    @staticmethod
    def merge(envs):
        out = {}
        for n, (t, d) in envs[0].items():
            if all(n in e and e[n][0] == t for e in envs[1:]):
                out[n] = (t, max(e[n][1] for e in envs))
        return out

    def if_stmt(self, env, depth, restricted):
        nbr = self.weighted([(1, 50), (2, 30), (3, 20)])
        has_else = self.rng.random() < 0.6
        with_ret = (not restricted) and self.rng.random() < 0.5
        fresh_both = None
        zs = self.vars_of(env, "Z")
        if not with_ret:
            if not zs or self.rng.random() < 0.25:
                has_else = True
                fresh_both = self.fresh(env)
        one_sided = (self.loose and not with_ret and self.rng.random() < 0.3)
        lines, outs = [], []
        ret_at = self.rng.randrange(nbr + (1 if has_else else 0)) if with_ret else -1
        all_ret = True
        for i in range(nbr + (1 if has_else else 0)):
            e = dict(env)
            if i < nbr:
                lines.append("%s %s:" % ("if" if i == 0 else "elif", self.cond(e, 2)))
            else:
                lines.append("else:")
            body = []
            if fresh_both:
                x, dx = self.gen_Z(e, 2)
                body.append("%s = %s" % (fresh_both, x))
                e[fresh_both] = ("Z", dx)
            if one_sided and i == 0:
                x, dx = self.gen_Z(e, 2)
                body.append("%s = %s" % (self.fresh(e), x))       # never read afterwards
            if not with_ret and i == 0 and not fresh_both and zs:
                v = self.pick(zs)
                x, dx = self.gen_Z(e, 2)
                body.append("%s = %s" % (v, x))
                e[v] = ("Z", max(dx, e[v][1]))
            ls, e, returned = self.stmts(e, depth - 1, not with_ret, self.rng.randrange(0 if body else 1, 3))
            body += ls
            if not returned and (i == ret_at or (with_ret and self.rng.random() < 0.3)):
                body.append("return " + self.gen_typed(self.ret, e, 3)[0])
                returned = True
            if not body:
                body = ["pass"]
            lines += ["    " + b for b in body]
            if not returned:
                outs.append(e)
                all_ret = False
        if not has_else:
            outs.append(dict(env))
            all_ret = False
        if all_ret:
            return lines, env, True
        return lines, self.merge(outs), False

    # ------------------------------------------------------------ the function
    def function(self):
        rng = self.rng
        ptypes = [self.weighted([("Z", 60), ("Z2", 12), ("Z3", 8), ("slice", 10), ("bool", 10)])
                  for _ in range(rng.randrange(1, 5))]
        self.ret = self.weighted([("Z", 55), ("bool", 15), ("Z2", 15), ("Z3", 8), ("slice", 7)])
        env, params = {}, []
        for t in ptypes:
            n = self.fresh(env, False)
            env[n] = (t, 0 if t == "bool" else 1)
            params.append((n, t))
        body = []
        if rng.random() < 0.3:
            body.append('"""docstring of %s"""' % self.name)
        sl = self.vars_of(env, "slice")
        if sl and rng.random() < 0.5:
            body.append("assert %s.step is None" % sl[0])
        tp = [n for n, (t, _) in env.items() if t in ("Z2", "Z3")]
        if tp and rng.random() < 0.5:
            names = []
            for _ in range(int(env[tp[0]][0][1])):
                e2 = dict(env)
                e2.update((x, ("Z", 0)) for x in names)
                names.append(self.fresh(e2))
            if len(set(names)) == len(names):
                body.append("%s = %s" % (", ".join(names), tp[0]))
                for n in names:
                    env[n] = ("Z", 1)
        if not self.vars_of(env, "Z") or rng.random() < 0.5:
            e, de = self.gen_Z(env, 2)
            v = self.fresh(env)
            body.append("%s = %s" % (v, e))
            env[v] = ("Z", de)
        ls, env, returned = self.stmts(env, rng.randrange(1, 4), False, rng.randrange(1, 6))
        body += ls
        if not returned:
            body.append("return " + self.gen_typed(self.ret, env, 3)[0])
        spec = dict(name=self.name, coq="c_" + self.name, params=dict(params), ret=self.ret)
        head = ", ".join(n for n, _ in params)
        # trailing integer defaults / a method of a class
        kind = self.weighted([("plain", 80), ("defaults", 8), ("static", 6), ("class", 6)])
        lines = []
        if kind == "defaults" and params[-1][1] == "Z":
            dv = rng.randrange(0, 100)
            head = ", ".join([n for n, _ in params[:-1]] + ["%s=%d" % (params[-1][0], dv)])
            spec["defaults"] = {params[-1][0]: dv}
        if kind in ("static", "class"):
            cls = "K_" + self.name
            spec["name"] = cls + "." + self.name
            lines.append("class %s(object):" % cls)
            if kind == "static":
                lines.append("    @staticmethod")
            else:
                lines.append("    @classmethod")
                head = "cls, " + head
                spec["ignore_params"] = ["cls"]
            lines.append("    def %s(%s):" % (self.name, head))
            lines += ["        " + b for b in body]
        else:
            lines.append("def %s(%s):" % (self.name, head))
            lines += ["    " + b for b in body]
        info = dict(name=self.name, params=params, ret=self.ret, deg=max(self.maxdeg, 1),
                    callable=kind not in ("static", "class"))
        return "\n".join(lines) + "\n", spec, info


# ===================================================================== values
def rand_int(rng):
    if rng.random() < 0.35:
        return BOUNDARY[rng.randrange(len(BOUNDARY))]
    v = rng.getrandbits(rng.randrange(1, 71))
    return -v if rng.random() < 0.5 else v


def rand_value(rng, t, fixed=None):
    z = (lambda: fixed) if fixed is not None else (lambda: rand_int(rng))
    if t == "Z":
        return z()
    if t == "bool":
        return rng.random() < 0.5
    if t == "slice":
        return slice(z(), z())
    return tuple(z() for _ in range(int(t[1])))


def arg_tuples(rng, ptypes, n):
    out = [[rand_value(rng, t, f) for t in ptypes] for f in (0, -1, 1, 2 ** 70, -2 ** 70)][:max(0, n - 1)]
    while len(out) < n:
        out.append([rand_value(rng, t) for t in ptypes])
    return out


def coq_lit(v):
    if isinstance(v, bool):
        return "true" if v else "false"
    if isinstance(v, int):
        return "(%d)" % v
    if isinstance(v, slice):
        return "(%s, %s)" % (coq_lit(v.start), coq_lit(v.stop))
    if isinstance(v, tuple):
        return "(" + ", ".join(coq_lit(x) for x in v) + ")"
    if v is None:
        return "None"
    raise TypeError(v)


def canon(v):
    """Python result -> the value lib.parse_term gives for the Coq result."""
    if isinstance(v, bool) or v is None:
        return v
    if isinstance(v, int):
        return int(v)
    if isinstance(v, slice):
        return (canon(v.start), canon(v.stop))
    if isinstance(v, tuple):
        return tuple(canon(x) for x in v)
    return ("?", repr(v))


def same(a, b):
    if type(a) is not type(b):
        return False
    if isinstance(a, tuple):
        return len(a) == len(b) and all(same(x, y) for x, y in zip(a, b))
    return a == b


# ===================================================================== the run
class Run:
    def __init__(self, tmp, verbose):
        self.tmp, self.verbose = tmp, verbose
        self.units = []        # dict(label, text, source, specs)
        self.evals = []        # dict(label, unit, exprs, expect, show)
        self.problems = []     # printed reproducers
        self.n = dict(programs=0, functions=0, rejected=0, accepted=0, cases=0, raised=0, raised_other=0,
                      evaluated=0, disagreements=0, directed=0, directed_failed=0, expr_mode=0)
        self.reject_reasons = {}

    def problem(self, title, text):
        self.problems.append("=" * 78 + "\n" + title + "\n" + text.rstrip() + "\n")

    def add_eval(self, label, unit, exprs, expect, show):
        if exprs:
            self.evals.append(dict(label=label, unit=unit, exprs=exprs, expect=expect, show=show))

    # ------------------------------------------------------------ random programs
    def random_programs(self, rng, n_functions, n_args, per_program=6):
        k = 0
        while self.n["functions"] < n_functions:
            self.n["programs"] += 1
            file = "prog_%03d.py" % k
            path = os.path.join(self.tmp, file)
            sources, specs, pool = [], [], []
            for j in range(min(per_program, n_functions - self.n["functions"])):
                name = "f%d_%d" % (k, j)
                loose = rng.random() < 0.15
                src, spec, info = FnGen(rng, name, pool, loose).function()
                spec["file"] = file
                self.n["functions"] += 1
                with open(path, "w") as f:
                    f.write("\n\n".join(sources + [src]))
                try:
                    ast.parse(src)
                    py2v.translate_unit(self.tmp, dict(functions=specs + [spec]))
                except py2v.Unsupported as e:
                    self.n["rejected"] += 1
                    what = str(e).split("unsupported ")[-1].split(":")[0][:60] if "unsupported" in str(e) \
                        else str(e).split(": ", 1)[-1][:60]
                    self.reject_reasons[what] = self.reject_reasons.get(what, 0) + 1
                    if self.verbose:
                        print("rejected %s: %s" % (name, str(e)[:150]))
                    continue
                sources.append(src)
                specs.append(spec)
                spec["_info"] = info
                if info["callable"]:
                    pool.append(info)
            with open(path, "w") as f:
                f.write("\n\n".join(sources))
            k += 1
            if not specs:
                continue
            text = py2v.translate_unit(self.tmp, dict(functions=specs))
            unit = len(self.units)
            self.units.append(dict(label=file, text=text, source="\n\n".join(sources), specs=specs))
            ns = {}
            exec(compile("\n\n".join(sources), file, "exec"), ns)
            for spec in specs:
                self.n["accepted"] += 1
                obj = ns
                for part in spec["name"].split("."):
                    obj = obj[part] if isinstance(obj, dict) else getattr(obj, part)
                exprs, expect, shown = [], [], []
                for args in arg_tuples(rng, list(spec["params"].values()), n_args):
                    self.n["cases"] += 1
                    try:
                        v = obj(*args)
                    except (ZeroDivisionError, ValueError, OverflowError, MemoryError):
                        self.n["raised"] += 1
                        continue
                    except Exception:
                        self.n["raised_other"] += 1
                        continue
                    exprs.append("%s %s" % (spec["coq"], " ".join(coq_lit(a) for a in args)))
                    expect.append(canon(v))
                    shown.append("%s(%s)" % (spec["name"], ", ".join(repr(a) for a in args)))
                self.add_eval(spec["name"], unit, exprs, expect, shown)

    # ------------------------------------------------------------ Coq
    def coqc(self, name, text, timeout=600):
        path = os.path.join(self.tmp, name + ".v")
        with open(path, "w") as f:
            f.write(text)
        p = subprocess.run("ulimit -s unlimited 2>/dev/null; timeout %d coqc -Q %s Selftest %s 2>&1"
                           % (timeout, self.tmp, path), shell=True, cwd=self.tmp, stdout=subprocess.PIPE,
                           universal_newlines=True)
        return p.returncode, p.stdout

    def evaluate(self):
        """One coqc run over every accepted unit and every Eval; a unit Coq refuses is reported (py2v
        accepted something that is not even well-typed), dropped, and the run repeated."""
        dropped = set()
        for attempt in range(4):
            # (the standard-library imports once: a repeated `Require Import` re-activates every
            # notation, and fifty of them make each later command thirty times slower)
            lines, where = ["From Coq Require Import ZArith Bool List."], [None]   # where[i]: unit of line i+1
            for u, unit in enumerate(self.units):
                if u in dropped:
                    continue
                # (the unit verbatim; its `Open Scope` is closed again: a scope opened fifty times makes
                # the interpretation of every later literal fifty times slower)
                t = unit["text"].rstrip("\n").split("\n") + ["Close Scope Z_scope."]
                t = ["(* %s *)" % x if x in ("From Coq Require Import ZArith Bool.",
                                             "From Coq Require Import ZArith Bool List.") else x for x in t]
                lines += t + [""]
                where += [u] * (len(t) + 1)
            head = ["Import ListNotations.", "Open Scope Z_scope."]
            lines += head
            where += [None] * len(head)
            live = [e for e in self.evals if e["unit"] not in dropped]
            for e in live:
                lines.append("Eval vm_compute in [%s]." % "; ".join("(%s)" % x for x in e["exprs"]))
                where.append(e["unit"])
            rc, out = self.coqc("SelftestAll", "\n".join(lines) + "\n")
            if rc == 0:
                break
            if attempt > 1:
                self.problem("coqc failed (rc=%d)" % rc, out[-2000:])
                self.n["disagreements"] += 1
                return
            # some unit is not accepted by Coq: compile every unit on its own (in parallel) to find them all
            import concurrent.futures
            todo = [u for u in range(len(self.units)) if u not in dropped]
            with concurrent.futures.ThreadPoolExecutor(max_workers=min(16, os.cpu_count() or 4)) as ex:
                res = list(ex.map(lambda u: self.coqc("SelftestUnit%d" % u, self.units[u]["text"] + "\n", 120), todo))
            found = False
            for u, (rc1, out1) in zip(todo, res):
                if rc1 != 0:
                    found = True
                    unit = self.units[u]
                    self.n["disagreements"] += 1
                    self.problem("Coq refuses a unit that py2v accepted: %s" % unit["label"],
                                 out1[-1200:] + "\n--- python source\n" + unit["source"] + "\n--- generated\n"
                                 + unit["text"])
                    dropped.add(u)
            if not found:
                self.problem("coqc failed outside any unit (rc=%d)" % rc, out[-2000:])
                self.n["disagreements"] += 1
                return
        else:
            return
        vals = split_evals(out)
        if len(vals) != len(live):
            self.problem("coqc printed %d values for %d Evals" % (len(vals), len(live)), out[-1500:])
            self.n["disagreements"] += 1
            return
        bad = []
        for e, v in zip(live, vals):
            try:
                got = parse_term(v)
            except ValueError as ex:
                got = ["unparsable: %s" % ex] * len(e["expect"])
            if not isinstance(got, list) or len(got) != len(e["expect"]):
                got = [("unexpected output", v[:200])] * len(e["expect"])
            for i, (g, w) in enumerate(zip(got, e["expect"])):
                self.n["evaluated"] += 1
                if not same(g, w):
                    self.n["disagreements"] += 1
                    bad.append((e, i, g, w))
        # reproducers: for each function the smallest failing call, functions with short sources first
        seen = {}
        for e, i, g, w in bad:
            key = (e["unit"], e["label"])
            if key not in seen or len(e["show"][i]) < len(e["show"][seen[key][1]]):
                seen[key] = (e, i, g, w)
        for (u, label), (e, i, g, w) in sorted(seen.items(), key=lambda kv: len(self.source_of(*kv[0])))[:5]:
            self.problem("DISAGREEMENT in %s (%s)" % (label, self.units[u]["label"]),
                         "call    : %s\npython  : %r\ncoq     : %r\ncoq expr: %s\n--- python source (with the functions it calls)\n%s"
                         "\n--- spec\n%r\n--- generated Coq\n%s"
                         % (e["show"][i], w, g, e["exprs"][i], self.source_of(u, label),
                            [{k: v for k, v in s.items() if k != "_info"} for s in self.units[u]["specs"]
                             if s["name"] == label], self.coq_of(u, label)))

    def source_of(self, u, label):
        """The function and (transitively) the functions of its unit it calls."""
        unit = self.units[u]
        try:
            tree = ast.parse(unit["source"])
        except SyntaxError:
            return unit["source"]
        tops = {n.name: n for n in tree.body if isinstance(n, (ast.FunctionDef, ast.ClassDef))}
        need, todo = [], [label.split(".")[0]]
        while todo:
            n = todo.pop()
            if n in tops and n not in need:
                need.append(n)
                todo += [c.func.id for c in ast.walk(tops[n]) if isinstance(c, ast.Call)
                         and isinstance(c.func, ast.Name)]
        if not need:
            return unit["source"] if len(unit["source"]) < 3000 else "(see the call above)"
        return "\n\n".join(ast.get_source_segment(unit["source"], tops[n]) or "" for n in tops if n in need)

    def coq_of(self, u, label):
        for s in self.units[u]["specs"]:
            if s["name"] == label:
                t = self.units[u]["text"]
                i = t.find("Definition %s " % s["coq"])
                ends = [j for j in (t.find("\n(* ", i), t.find("\nDefinition ", i)) if j > 0]
                return t[i:min(ends) if ends else len(t)]
        return self.units[u]["text"]


# ===================================================================== directed tests
# A module shaped like the parts of /repo the units and dumpers translate (rig/links.py, rig/geometry.py,
# ordered_covering._get_generality / _Merge.__new__, allocate/utils.py), with its constant tables.
DIRECTED_SRC = '''
import enum

LIMIT = 12
TBL = (((0, 0), (1, -1), (2, 5)), ((-3, 4), (7, 7), (0, -9)), ((8, 1), (-2, -2), (6, 0)))


class Dir(enum.IntEnum):
    east = 0
    north_east = 1
    north = 2
    west = 3
    south_west = 4
    south = 5

    @classmethod
    def from_vector(cls, vector):
        """docstring"""
        x, y = vector
        if abs(x) > 1:
            x = -1 if x > 0 else 1
        if abs(y) > 1:
            y = -1 if y > 0 else 1
        return _lk[(x, y)]

    def to_vector(self):
        return _rev[self]

    @property
    def opposite(self):
        return Dir((self + 3) % 6)


_lk = {(+1, +0): Dir.east, (-1, +0): Dir.west, (+0, +1): Dir.north, (+0, -1): Dir.south,
       (+1, +1): Dir.north_east, (-1, -1): Dir.south_west}
_rev = {l: v for (v, l) in _lk.items()}


def local_coord(x, y, w, h, root_x=0, root_y=0):
    dx, dy = TBL[(y - root_y) % 3][(x - root_x) % 3]
    return ((x + dx) % w, (y + dy) % h)


def generality(key, mask):
    xs = ~key & ~mask
    return sum(1 for i in range(32) if xs & (1 << i))


def weighted(key):
    return sum(i * ((key >> i) & 1) for i in range(9))


def overlap(slice_a, slice_b):
    assert slice_a.step is None
    return max(slice_a.start, slice_b.start) < min(slice_a.stop, slice_b.stop)


def align(value, alignment):
    return ((value + alignment - 1) // alignment) * alignment


def clamp(value):
    return LIMIT if value > LIMIT else value


def align_twice(value, alignment):
    once = align(value, alignment)
    return align(once + 1, alignment)


class Entry(object):
    def __init__(self, key, mask):
        self.key, self.mask = key, mask


class Merge(object):
    def __new__(cls, table, entries=()):
        sources = set()
        any_ones = 0x00000000  # comment
        all_ones = 0xffffffff
        all_selected = 0xffffffff

        for i in entries:
            entry = table[i]
            any_ones |= entry.key
            all_ones &= entry.key
            all_selected &= entry.mask
            sources.add(i)

        any_zeros = ~all_ones
        new_xs = any_ones ^ any_zeros
        mask = all_selected & new_xs
        key = all_ones & mask
        self = object.__new__(cls)
        self.key, self.mask = key, mask
        return self
'''

_ACC = ["any_ones", "all_ones", "all_selected"]
_LK = {"_lk": dict(coq="lk_dir", key="Z2", elem="optZ"), "_rev": dict(coq="lk_vec", key="Z", elem="optZ2")}
_F = "directed.py"
DIRECTED_UNIT = dict(
    requires=["Selftest.SelftestTables"],
    functions=[
        dict(file=_F, name="Dir.from_vector", coq="d_from_vector", ignore_params=["cls"],
             params={"vector": "Z2"}, ret="optZ", lookups=_LK),
        dict(file=_F, name="Dir.to_vector", coq="d_to_vector", params={"self": "Z"}, ret="optZ2", lookups=_LK),
        dict(file=_F, name="Dir.opposite", coq="d_opposite", params={"self": "Z"}, ret="Z", casts=["Dir"]),
        dict(file=_F, name="local_coord", coq="d_local_coord",
             params={"x": "Z", "y": "Z", "w": "Z", "h": "Z", "root_x": "Z", "root_y": "Z"}, ret="Z2",
             defaults={"root_x": 0, "root_y": 0}, tables={"TBL": dict(coq="tbl_at", elem="Z2")}),
        dict(file=_F, name="generality", coq="d_generality", params={"key": "Z", "mask": "Z"}, ret="Z"),
        dict(file=_F, name="weighted", coq="d_weighted", params={"key": "Z"}, ret="Z"),
        dict(file=_F, name="overlap", coq="d_overlap", params={"slice_a": "slice", "slice_b": "slice"},
             ret="bool"),
        dict(file=_F, name="align", coq="d_align", params={"value": "Z", "alignment": "Z"}, ret="Z"),
        dict(file=_F, name="clamp", coq="d_clamp", params={"value": "Z"}, ret="Z",
             globals={"LIMIT": dict(coq="tbl_limit", type="Z")}),
        dict(file=_F, name="align_twice", coq="d_align_twice", params={"value": "Z", "alignment": "Z"}, ret="Z"),
        dict(file=_F, name="Merge.__new__", coq="d_acc_init", params={}, ret="Z3",
             fragment=dict(where="before_for", targets=_ACC, returns=_ACC, count=3)),
        dict(file=_F, name="Merge.__new__", coq="d_acc_step",
             params={"any_ones": "Z", "all_ones": "Z", "all_selected": "Z", "entry": "km"}, ret="Z3",
             fragment=dict(where="in_for", targets=_ACC, returns=_ACC, count=3)),
        dict(file=_F, name="Merge.__new__", coq="d_key_mask",
             params={"any_ones": "Z", "all_ones": "Z", "all_selected": "Z"}, ret="Z2",
             fragment=dict(where="after_for", targets=["any_zeros", "new_xs", "mask", "key"],
                           returns=["key", "mask"], count=4)),
    ])


def tables_v(ns):
    """What a dumper prints for the live tables of the directed module."""
    rows = "; ".join("[" + "; ".join(coq_lit(c) for c in row) + "]" for row in ns["TBL"])
    lk = "; ".join("(%s, %s)" % (coq_lit(k), coq_lit(int(v))) for k, v in ns["_lk"].items())
    return ("From Coq Require Import ZArith List.\nImport ListNotations.\nOpen Scope Z_scope.\n"
            "Definition tbl : list (list (Z * Z)) := [%s].\n"
            "Definition tbl_at (i j : Z) : Z * Z := nth (Z.to_nat j) (nth (Z.to_nat i) tbl []) (0, 0).\n"
            "Definition tbl_limit : Z := (%d).\n"
            "Definition lk : list ((Z * Z) * Z) := [%s].\n"
            "Definition lk_dir (k : Z * Z) : option Z :=\n"
            "  match find (fun e => Z.eqb (fst (fst e)) (fst k) && Z.eqb (snd (fst e)) (snd k))%%bool lk with\n"
            "  | Some e => Some (snd e) | None => None end.\n"
            "Definition lk_vec (d : Z) : option (Z * Z) :=\n"
            "  match find (fun e => Z.eqb (snd e) d) lk with Some e => Some (fst e) | None => None end.\n"
            % (rows, ns["LIMIT"], lk))


def directed_positive(run, rng):
    """Every spec option, used the way the units use it; Python result against Coq result."""
    with open(os.path.join(run.tmp, _F), "w") as f:
        f.write(DIRECTED_SRC)
    ns = {}
    exec(compile(DIRECTED_SRC, _F, "exec"), ns)
    rc, out = run.coqc("SelftestTables", tables_v(ns))
    if rc != 0:
        run.problem("the tables of the directed tests do not compile", out[-1500:])
        run.n["directed_failed"] += 1
        return
    try:
        text = py2v.translate_unit(run.tmp, DIRECTED_UNIT)
    except py2v.Unsupported as e:
        run.problem("directed unit rejected (spec options tables/lookups/casts/defaults/ignore_params/"
                    "fragment/km/globals/sum)", str(e))
        run.n["directed_failed"] += 1
        return
    ok = ("Require Import Selftest.SelftestTables." in text and "ZArith Bool List." in text
          and "(entry_key : Z) (entry_mask : Z)" in text)
    run.n["directed"] += 1
    if not ok:
        run.n["directed_failed"] += 1
        run.problem("directed unit: requires / List import / km binders missing", text)
    u = len(run.units)
    run.units.append(dict(label="directed.py", text=text, source=DIRECTED_SRC, specs=DIRECTED_UNIT["functions"]))
    Dir = ns["Dir"]
    ints = [0, 1, -1, 2, -2, 5, 6, 7, -7, 11, 12, 13, 255, -256, 2 ** 32 - 1, 2 ** 32, -2 ** 63, 2 ** 70, -2 ** 70]
    ints += [rand_int(rng) for _ in range(12)]

    def opt(v):
        return None if v is None else ("Some", canon(v))

    def group(label, coq, fn, argsets, conv=canon):
        exprs, expect, show = [], [], []
        for a in argsets:
            try:
                v = conv(fn(*a))
            except KeyError:
                v = None                      # a lookup function answers None for a missing key
            except ZeroDivisionError:
                continue
            exprs.append("%s %s" % (coq, " ".join(coq_lit(x) for x in a)))
            expect.append(v)
            show.append("%s%r" % (label, tuple(a)))
        run.n["directed"] += 1
        run.add_eval(label, u, exprs, expect, show)

    vecs = [(x, y) for x in (-3, -2, -1, 0, 1, 2, 5) for y in (-4, -1, 0, 1, 2)]
    group("Dir.from_vector", "d_from_vector", Dir.from_vector, [(v,) for v in vecs], opt)
    group("Dir.to_vector", "d_to_vector", lambda d: Dir(d).to_vector(), [(d,) for d in range(6)], opt)
    group("Dir.opposite", "d_opposite", lambda d: Dir(d).opposite, [(d,) for d in range(6)])
    pts = [[rng.randrange(-40, 40), rng.randrange(-40, 40), rng.randrange(1, 30) * rng.choice([1, -1]),
            rng.randrange(1, 30), rng.randrange(-5, 5), rng.randrange(-5, 5)] for _ in range(40)]
    group("local_coord", "d_local_coord", ns["local_coord"], pts)
    group("local_coord(defaults)", "d_local_coord", lambda x, y, w, h, rx, ry: ns["local_coord"](x, y, w, h),
          [p[:4] + [0, 0] for p in pts[:10]])
    group("generality", "d_generality", ns["generality"], [(a, b) for a in ints[:14] for b in ints[3:9]])
    group("weighted", "d_weighted", ns["weighted"], [(a,) for a in ints])
    sl = [slice(a, b) for a in (-5, 0, 3, 10) for b in (-6, 0, 4, 10, 2 ** 70)]
    group("overlap", "d_overlap", ns["overlap"], [(a, b) for a in sl[::3] for b in sl[::2]])
    group("align", "d_align", ns["align"], [(a, b) for a in ints for b in (1, 2, 3, 4, 8, -4, 4096, 2 ** 40)])
    group("clamp", "d_clamp", ns["clamp"], [(a,) for a in ints])
    group("align_twice", "d_align_twice", ns["align_twice"], [(a, b) for a in ints[:12] for b in (1, 3, 8, -5)])
    # the three fragments of Merge.__new__ composed the way Model/Table.v composes them
    exprs, expect, show = [], [], []
    for _ in range(25):
        table = [ns["Entry"](rng.getrandbits(32), rng.getrandbits(32)) for _ in range(rng.randrange(1, 6))]
        idx = [rng.randrange(len(table)) for _ in range(rng.randrange(0, 5))]
        m = ns["Merge"](table, idx)
        acc = "d_acc_init"
        for i in idx:
            acc = "(let '(a, b, c) := %s in d_acc_step a b c (%d) (%d))" % (acc, table[i].key, table[i].mask)
        exprs.append("let '(a, b, c) := %s in d_key_mask a b c" % acc)
        expect.append((m.key, m.mask))
        show.append("Merge(%r, %r)" % ([(e.key, e.mask) for e in table], idx))
    run.n["directed"] += 1
    run.add_eval("Merge.__new__ (fragments before_for / in_for with km / after_for)", u, exprs, expect, show)


# Operator semantics on the operands where Python and a careless translation differ.
SEMANTIC_SRC = '''
def s_divmod(a, b):
    return (a // b, a % b)

def s_bits(a, b):
    return (a & b, a | b, a ^ b)

def s_inv(a):
    return (~a, -a, abs(a))

def s_shift(a, k):
    return (a << k, a >> k)

def s_chain(a, b, c):
    return a < b <= c

def s_chain2(a, b, c):
    return (a == b != c, a >= b > c, 0 <= a < 10)

def s_minmax(a, b, c):
    return (min(a, b), max(a, b), min(a, b, c), max(c, a, b, 0))

def s_truth(a, b):
    return (1 if a else 0, 1 if not a else 0, 1 if bool(a) and b > 0 else 0)

def s_andor(a, b, c):
    if a < b and (b < c or not c) or a == 7:
        return 1
    return 0

def s_ifexp(a, b):
    return (a if a > b else b) - (b if a > b else a)

def s_aug(a, b):
    a += b
    a *= 3
    a -= 1
    a //= 4
    a %= 1000
    a <<= 2
    a |= b
    a ^= 5
    a &= 0xffff
    a >>= 1
    return a

def s_swap(a, b):
    a, b = b, a
    a, b = b + 1, a + b
    return (a, b)

def s_rebind(a, b):
    length = a
    if b > length:
        length = b
    elif b < -length:
        length = -b
    else:
        a = a + 1
    end = length + a
    return end

def s_early(a, b, c):
    if a > 0:
        if b > 0:
            return 1
        c = c + 1
    elif a < 0:
        if b > 0:
            c = c * 2
        else:
            return 3
    else:
        pass
    if c > 10:
        return c
    return -c

def s_tuple(p, q):
    """tuple parameters, constant subscripts, rebinding of a tuple variable"""
    x, y = p
    t = (q[1], q[0])
    p = (t[0] + x, t[1] + y)
    return (p[0], p[1], q[0])

def s_reserved(end, at, mod, fun):
    using = end + at
    where, fix = mod, fun
    return using * where - fix

def s_slice(s, n):
    r = slice(s.start + n, s.stop - n)
    return r.stop - r.start

def s_bool(flag, a):
    ok = a > 3
    if flag and ok:
        return True
    return not flag
'''
SEMANTIC_SPECS = [
    ("s_divmod", {"a": "Z", "b": "Z"}, "Z2"), ("s_bits", {"a": "Z", "b": "Z"}, "Z3"),
    ("s_inv", {"a": "Z"}, "Z3"), ("s_shift", {"a": "Z", "k": "Z"}, "Z2"),
    ("s_chain", {"a": "Z", "b": "Z", "c": "Z"}, "bool"), ("s_minmax", {"a": "Z", "b": "Z", "c": "Z"}, "Z4"),
    ("s_truth", {"a": "Z", "b": "Z"}, "Z3"), ("s_andor", {"a": "Z", "b": "Z", "c": "Z"}, "Z"),
    ("s_ifexp", {"a": "Z", "b": "Z"}, "Z"), ("s_aug", {"a": "Z", "b": "Z"}, "Z"),
    ("s_swap", {"a": "Z", "b": "Z"}, "Z2"), ("s_rebind", {"a": "Z", "b": "Z"}, "Z"),
    ("s_early", {"a": "Z", "b": "Z", "c": "Z"}, "Z"), ("s_tuple", {"p": "Z2", "q": "Z2"}, "Z3"),
    ("s_reserved", {"end": "Z", "at": "Z", "mod": "Z", "fun": "Z"}, "Z"),
    ("s_slice", {"s": "slice", "n": "Z"}, "Z"), ("s_bool", {"flag": "bool", "a": "Z"}, "bool"),
]


def directed_semantics(run, rng):
    file = "semantic.py"
    with open(os.path.join(run.tmp, file), "w") as f:
        f.write(SEMANTIC_SRC)
    specs = [dict(file=file, name=n, coq="c_" + n, params=p, ret=r) for n, p, r in SEMANTIC_SPECS]
    # s_chain2 returns a tuple of booleans: outside the subset (tuples hold integers) -- must be rejected
    try:
        py2v.translate_unit(run.tmp, dict(functions=[dict(file=file, name="s_chain2", coq="x",
                                                          params={"a": "Z", "b": "Z", "c": "Z"}, ret="Z3")]))
        run.problem("a tuple of booleans was accepted", "s_chain2")
        run.n["directed_failed"] += 1
    except py2v.Unsupported:
        pass
    try:
        text = py2v.translate_unit(run.tmp, dict(functions=specs))
    except py2v.Unsupported as e:
        run.problem("the unit of operator semantics was rejected", str(e))
        run.n["directed_failed"] += 1
        return
    u = len(run.units)
    run.units.append(dict(label=file, text=text, source=SEMANTIC_SRC, specs=specs))
    ns = {}
    exec(compile(SEMANTIC_SRC, file, "exec"), ns)
    small = [-9, -8, -7, -4, -3, -2, -1, 0, 1, 2, 3, 4, 7, 8, 9, 10, 11]
    big = [2 ** 31 - 1, -2 ** 31, 2 ** 32, 2 ** 64 - 1, -2 ** 64, 2 ** 70, -2 ** 70 + 1]
    for spec in specs:
        n = len(spec["params"])
        types = list(spec["params"].values())
        sets = []
        if all(t == "Z" for t in types):
            pool = small if n >= 3 else small + big
            if n == 1:
                sets = [(a,) for a in pool]
            elif n == 2:
                sets = [(a, b) for a in pool for b in pool]
            else:
                sets = [tuple(rng.choice(small + big[:2]) for _ in range(n)) for _ in range(300)]
            if spec["name"] == "s_shift":
                sets = [(a, k) for a in small + big for k in (0, 1, 2, 5, 31, 32, 64, 100)]
        else:
            sets = [tuple(rand_value(rng, t) if t != "Z" or rng.random() < 0.5 else rng.choice(small)
                          for t in types) for _ in range(60)]
        exprs, expect, show = [], [], []
        for a in sets:
            try:
                v = ns[spec["name"]](*a)
            except (ZeroDivisionError, ValueError):
                continue
            exprs.append("%s %s" % (spec["coq"], " ".join(coq_lit(x) for x in a)))
            expect.append(canon(v))
            show.append("%s%r" % (spec["name"], tuple(a)))
        run.n["directed"] += 1
        for i in range(0, len(exprs), 100):
            run.add_eval(spec["name"], u, exprs[i:i + 100], expect[i:i + 100], show[i:i + 100])


# Programs that MUST be rejected: (label, source, spec overrides).  Default spec: function f, integer
# parameters as in the source, result Z.
def _neg(label, src, **kw):
    return (label, src, kw)


MUST_REJECT = [
    _neg("component clash x / x_0", "def f(x, x_0):\n    return x[0] + x_0\n", params={"x": "Z2", "x_0": "Z"}),
    _neg("component clash with a local", "def f(x):\n    x_1 = 5\n    t = (x, x)\n    t_0 = 7\n    return t[0] + t_0\n"),
    _neg("renaming clash end / end_", "def f(end, end_):\n    return end - end_\n"),
    _neg("local named true", "def f(a):\n    true = a > 3\n    if true:\n        return 1\n    return 0\n"),
    _neg("local named false captures False", "def f(a):\n    false = True\n    return a if False else 1\n"),
    _neg("local named fst", "def f(s, fst):\n    return s.start + fst\n", params={"s": "slice", "fst": "Z"}),
    _neg("parameter named Z", "def f(Z):\n    return Z + 1\n"),
    _neg("local named like the Coq definition", "def f(a):\n    c_f = a\n    return c_f\n", coq="c_f"),
    _neg("assigned in one branch only", "def f(a):\n    if a > 0:\n        y = 1\n    return a\n"),
    _neg("read where possibly unassigned", "def f(a):\n    if a > 0:\n        y = 1\n        return y\n    return y\n"),
    _neg("read before assignment", "def f(a):\n    b = c + a\n    c = 1\n    return b\n"),
    _neg("undeclared global", "K = 5\ndef f(a):\n    return a + K\n"),
    _neg("augmented assignment of an unbound name", "def f(a):\n    tot += a\n    return tot\n"),
    _neg("local shadows min", "def f(a, b):\n    min = a\n    return min(a, b)\n"),
    _neg("parameter shadows abs", "def f(a, abs):\n    return abs(a)\n"),
    _neg("module rebinds max", "def max(a, b):\n    return a\ndef f(a, b):\n    return max(a, b)\n"),
    _neg("module imports its own min", "from heapq import nsmallest as min\ndef f(a, b):\n    return min(a, b)\n"),
    _neg("star import may rebind abs", "from os.path import *\ndef f(a):\n    return abs(a)\n"),
    _neg("function defined twice", "def f(a):\n    return a\ndef f(a):\n    return a + 1\n"),
    _neg("function rebound by assignment", "def f(a):\n    return a\nf = lambda a: a + 1\n"),
    _neg("unknown decorator", "import functools\n@functools.wraps(abs)\ndef f(a):\n    return a\n"),
    _neg("wrapping decorator", "def twice(g):\n    return lambda a: 2 * g(a)\n@twice\ndef f(a):\n    return a\n"),
    _neg("defaults not stated", "def f(a, b=1):\n    return a + b\n"),
    _neg("defaults differ", "def f(a, b=1):\n    return a + b\n", defaults={"b": 2}),
    _neg("stated default missing in the source", "def f(a, b):\n    return a + b\n", defaults={"b": 1}),
    _neg("boolean default", "def f(a, b=True):\n    return a\n", defaults={"b": 1}),
    _neg("ignored parameter used", "class K:\n    @classmethod\n    def f(cls, a):\n        return cls.g(a)\n",
         name="K.f", ignore_params=["cls"]),
    _neg("parameter list differs", "def f(a, b):\n    return a\n", params={"a": "Z"}),
    _neg("*args", "def f(a, *r):\n    return a\n"),
    _neg("keyword-only parameter", "def f(a, *, b):\n    return a\n"),
    _neg("tuple assignment binding a name twice", "def f(a, b):\n    c, c = a, b\n    return c\n"),
    _neg("read of _", "def f(p):\n    a, _ = p\n    return a + _\n", params={"p": "Z2"}),
    _neg("division by the literal 0", "def f(a):\n    return a // 0\n"),
    _neg("modulo the literal 0", "def f(a):\n    return a % 0\n"),
    _neg("shift by a negative literal", "def f(a):\n    return a << -1\n"),
    _neg("and of integers", "def f(a, b):\n    return a and b\n"),
    _neg("or of integers", "def f(a, b):\n    return a or b\n"),
    _neg("and of a boolean and an integer", "def f(a, b):\n    return 1 if (a > 0 and b) else 0\n"),
    _neg("True + 1", "def f(a):\n    return True + a\n"),
    _neg("comparison used as an integer", "def f(a, b):\n    return (a < b) + 1\n"),
    _neg("comparison of a boolean", "def f(a, b):\n    return 1 if (a < b) == True else 0\n"),
    _neg("min of a boolean", "def f(a, b):\n    return min(a, a < b)\n"),
    _neg("int of a boolean", "def f(a, b):\n    return int(a < b)\n"),
    _neg("boolean returned as integer", "def f(a):\n    return a > 1\n"),
    _neg("integer returned as boolean", "def f(a):\n    return a\n", ret="bool"),
    _neg("float literal", "def f(a):\n    return a + 1.0\n"),
    _neg("true division", "def f(a):\n    return a / 2\n"),
    _neg("power", "def f(a):\n    return a ** 2\n"),
    _neg("matrix multiplication", "def f(a):\n    return a @ a\n"),
    _neg("unary plus", "def f(a):\n    return +a\n"),
    _neg("is", "def f(a, b):\n    return 1 if a is b else 0\n"),
    _neg("is not None", "def f(a):\n    return 1 if a is not None else 0\n"),
    _neg("in", "def f(a):\n    return 1 if a in (1, 2) else 0\n"),
    _neg("string", "def f(a):\n    return a + len('x')\n"),
    _neg("None", "def f(a):\n    return None\n"),
    _neg("min of one argument", "def f(p):\n    return min(p)\n", params={"p": "Z2"}),
    _neg("min with a keyword", "def f(a, b):\n    return min(a, b, key=abs)\n"),
    _neg("divmod", "def f(a, b):\n    q, r = divmod(a, b)\n    return q\n"),
    _neg("pow", "def f(a):\n    return pow(a, 2)\n"),
    _neg("method call", "def f(a):\n    return a.bit_length()\n"),
    _neg("variable subscript", "def f(p, i):\n    return p[i]\n", params={"p": "Z2", "i": "Z"}),
    _neg("negative subscript", "def f(p):\n    return p[-1]\n", params={"p": "Z2"}),
    _neg("subscript out of range", "def f(p):\n    return p[2]\n", params={"p": "Z2"}),
    _neg("slice of a tuple", "def f(p):\n    a, b = p[0:2]\n    return a\n", params={"p": "Z3"}),
    _neg("comparison of tuples", "def f(p, q):\n    return 1 if p == q else 0\n", params={"p": "Z2", "q": "Z2"}),
    _neg("tuple as a condition", "def f(p):\n    return 1 if p else 0\n", params={"p": "Z2"}),
    _neg("nested tuple", "def f(a):\n    t = ((a, a), a)\n    return a\n"),
    _neg("starred unpacking", "def f(p):\n    a, *b = p\n    return a\n", params={"p": "Z3"}),
    _neg("unpacking of the wrong size", "def f(p):\n    a, b = p\n    return a\n", params={"p": "Z3"}),
    _neg("step of a slice", "def f(s):\n    return s.step\n", params={"s": "slice"}),
    _neg("slice with a step", "def f(a):\n    s = slice(a, a, 2)\n    return s.start\n"),
    _neg("tuple rebound inside an if", "def f(p, a):\n    if a:\n        p = (a, a)\n    return p[0]\n",
         params={"p": "Z2", "a": "Z"}),
    _neg("branches of different type", "def f(a):\n    return a if a else (a, a)\n"),
    _neg("while loop", "def f(a):\n    while a > 0:\n        a -= 1\n    return a\n"),
    _neg("for loop", "def f(a):\n    for i in range(3):\n        a += i\n    return a\n"),
    _neg("lambda", "def f(a):\n    g = lambda x: x\n    return g(a)\n"),
    _neg("walrus", "def f(a):\n    return (b := a) + b\n"),
    _neg("annotated assignment", "def f(a):\n    b: int = a\n    return b\n"),
    _neg("chained assignment", "def f(a):\n    b = c = a\n    return b + c\n"),
    _neg("global statement", "K = 1\ndef f(a):\n    global K\n    return a\n"),
    _neg("nested function", "def f(a):\n    def g(x):\n        return x\n    return g(a)\n"),
    _neg("recursion", "def f(a):\n    return a if a < 1 else f(a - 1)\n"),
    _neg("call of an untranslated function", "def g(a):\n    return a\ndef f(a):\n    return g(a)\n"),
    _neg("falls off the end", "def f(a):\n    if a:\n        return 1\n"),
    _neg("bare return", "def f(a):\n    return\n"),
    _neg("general assert", "def f(a):\n    assert a > 0\n    return a\n"),
    _neg("raise", "def f(a):\n    if a < 0:\n        raise ValueError()\n    return a\n"),
    _neg("try", "def f(a):\n    try:\n        return a\n    except Exception:\n        return 0\n"),
    _neg("expression statement", "def f(a):\n    print(a)\n    return a\n"),
    _neg("list comprehension", "def f(a):\n    return sum([i for i in range(3)])\n"),
    _neg("sum over a non-literal range", "def f(a):\n    return sum(i for i in range(a))\n"),
    _neg("sum over range(a, b)", "def f(a):\n    return sum(i for i in range(1, 4))\n"),
    _neg("sum variable shadows a parameter", "def f(a):\n    return sum(a for a in range(4))\n"),
    _neg("sum with two generators", "def f(a):\n    return sum(i + j for i in range(2) for j in range(2))\n"),
    _neg("rebound range", "def f(a):\n    range = a\n    return sum(i for i in range(4))\n"),
    _neg("async function", "async def f(a):\n    return a\n"),
    _neg("generator function", "def f(a):\n    yield a\n"),
    _neg("unknown parameter type", "def f(a):\n    return a\n", params={"a": "float"}),
    _neg("local named like a table", "def f(a):\n    TBL = a\n    return TBL[0][1]\n",
         tables={"TBL": dict(coq="tbl_at", elem="Z")}),
    _neg("lookup key of the wrong type", "D = {}\ndef f(a):\n    return D[(a, a)]\n",
         lookups={"D": dict(coq="lk", key="Z", elem="Z")}),
    _neg("cast not declared", "def f(a):\n    return Dir(a)\n"),
    _neg("cast rebound locally", "def f(a, Dir):\n    return Dir(a)\n", casts=["Dir"]),
]
# calls by a bare name that does not denote the translated function
MUST_REJECT_UNITS = [
    ("bare-name call of a method", "class K:\n    @staticmethod\n    def g(a):\n        return a + 1\n"
     "def g(a):\n    return a - 1\ndef f(a):\n    return g(a)\n",
     [dict(name="K.g", coq="kg", params={"a": "Z"}, ret="Z"), dict(name="f", coq="f", params={"a": "Z"}, ret="Z")]),
    ("wrong number of arguments", "def g(a, b=1):\n    return a + b\ndef f(a):\n    return g(a)\n",
     [dict(name="g", coq="g", params={"a": "Z", "b": "Z"}, ret="Z", defaults={"b": 1}),
      dict(name="f", coq="f", params={"a": "Z"}, ret="Z")]),
    ("argument of the wrong type", "def g(p):\n    return p[0]\ndef f(a):\n    return g(a)\n",
     [dict(name="g", coq="g", params={"p": "Z2"}, ret="Z"), dict(name="f", coq="f", params={"a": "Z"}, ret="Z")]),
    ("callee shadowed by a local", "def g(a):\n    return a\ndef f(a):\n    g = a\n    return g(a)\n",
     [dict(name="g", coq="g", params={"a": "Z"}, ret="Z"), dict(name="f", coq="f", params={"a": "Z"}, ret="Z")]),
    ("local named like an earlier Coq definition", "def g(a):\n    return a\ndef f(a):\n    gg = a\n    return gg\n",
     [dict(name="g", coq="gg", params={"a": "Z"}, ret="Z"), dict(name="f", coq="f", params={"a": "Z"}, ret="Z")]),
]
_FRAG = ("class M:\n    def __new__(cls, es):\n        acc = 0\n        top = 1\n        for e in es:\n%s"
         "        return acc\n")
_TWO = "            acc |= e.key\n            acc &= e.mask\n"
MUST_REJECT_FRAGMENTS = [
    ("annotated assignment of a listed name", _FRAG % (_TWO + "            acc: int = 0\n")),
    ("listed name bound by a with", _FRAG % (_TWO + "            with e as acc:\n                pass\n")),
    ("listed name bound by a nested for", _FRAG % (_TWO + "            for acc in es:\n                pass\n")),
    ("listed name assigned under an if", _FRAG % (_TWO + "            if e:\n                acc = 0\n")),
    ("a name the fragment reads is rebound in between",
     _FRAG % "            acc |= e.key\n            e = es[0]\n            acc &= e.mask\n"),
    ("control flow between the selected statements",
     _FRAG % "            acc |= e.key\n            if e.key:\n                continue\n            acc &= e.mask\n"),
    ("mixed listed and unlisted targets", _FRAG % "            acc, top = e.key, 1\n"),
    ("listed name bound by a walrus", _FRAG % (_TWO + "            print(acc := 0)\n")),
    ("listed name bound by an import", _FRAG % (_TWO + "            import os as acc\n")),
    ("wrong count", _FRAG % "            acc |= e.key\n            acc |= e.mask\n            acc |= 1\n"),
]


def directed_negative(run):
    file = "negative.py"
    path = os.path.join(run.tmp, file)
    for label, src, kw in MUST_REJECT:
        run.n["directed"] += 1
        with open(path, "w") as f:
            f.write(src)
        tree = ast.parse(src)
        node = [n for n in ast.walk(tree) if isinstance(n, (ast.FunctionDef, ast.AsyncFunctionDef))
                and n.name == "f"][0]
        spec = dict(file=file, name="f", coq="c_f", params={a.arg: "Z" for a in node.args.args}, ret="Z")
        spec.update(kw)
        try:
            text = py2v.translate_unit(run.tmp, dict(functions=[spec]))
        except py2v.Unsupported:
            continue
        run.n["directed_failed"] += 1
        run.problem("NOT REJECTED: " + label, src + "--- spec\n%r\n--- generated\n%s" % (spec, text))
    for label, src, specs in MUST_REJECT_UNITS:
        run.n["directed"] += 1
        with open(path, "w") as f:
            f.write(src)
        try:
            text = py2v.translate_unit(run.tmp, dict(functions=[dict(s, file=file) for s in specs]))
        except py2v.Unsupported:
            continue
        run.n["directed_failed"] += 1
        run.problem("NOT REJECTED: " + label, src + "--- generated\n" + text)
    for label, src in MUST_REJECT_FRAGMENTS:
        run.n["directed"] += 1
        with open(path, "w") as f:
            f.write(src)
        spec = dict(file=file, name="M.__new__", coq="c_f", params={"acc": "Z", "e": "km"}, ret="Z",
                    fragment=dict(where="in_for", targets=["acc"], returns=["acc"], count=2))
        try:
            text = py2v.translate_unit(run.tmp, dict(functions=[spec]))
        except py2v.Unsupported:
            continue
        run.n["directed_failed"] += 1
        run.problem("NOT REJECTED (fragment): " + label, src + "--- generated\n" + text)
    # the positive control of the fragment tests (same shape, nothing wrong) must be accepted
    run.n["directed"] += 1
    with open(path, "w") as f:
        f.write(_FRAG % "            k = e\n            acc |= e.key\n            print(k)\n            acc &= e.mask\n")
    try:
        py2v.translate_unit(run.tmp, dict(functions=[dict(
            file=file, name="M.__new__", coq="c_f", params={"acc": "Z", "e": "km"}, ret="Z",
            fragment=dict(where="in_for", targets=["acc"], returns=["acc"], count=2))]))
    except py2v.Unsupported as e:
        run.n["directed_failed"] += 1
        run.problem("the well-formed fragment was rejected", str(e))
    # a bare-name call across files: accepted exactly when the caller's module imports that function
    os.makedirs(os.path.join(run.tmp, "pkg", "sub"), exist_ok=True)
    with open(os.path.join(run.tmp, "pkg", "y.py"), "w") as f:
        f.write("def g(a):\n    return a + 1\n")
    gspec = dict(file="pkg/y.py", name="g", coq="c_g", params={"a": "Z"}, ret="Z")
    for imp, where, want in (("from pkg.y import g", "pkg/x.py", True), ("from .y import g", "pkg/x.py", True),
                             ("from ..y import g", "pkg/sub/x.py", True), ("from pkg.y import g as h", "pkg/x.py", False),
                             ("from pkg.z import g", "pkg/x.py", False), ("from .y import g", "pkg/sub/x.py", False),
                             ("g = abs", "pkg/x.py", False), ("import pkg.y", "pkg/x.py", False)):
        run.n["directed"] += 1
        with open(os.path.join(run.tmp, where), "w") as f:
            f.write(imp + "\ndef f(a):\n    return g(a) * 2\n")
        try:
            t = py2v.translate_unit(run.tmp, dict(functions=[gspec, dict(file=where, name="f", coq="c_f",
                                                                         params={"a": "Z"}, ret="Z")]))
            got = "(c_g a)" in t
        except py2v.Unsupported:
            got = False
        if got != want:
            run.n["directed_failed"] += 1
            run.problem("cross-file call: `%s` in %s should be %s" % (imp, where, "accepted" if want else "rejected"), "")
    # header of a unit must not depend on the units translated before it in the same process
    run.n["directed"] += 1
    with open(path, "w") as f:
        f.write("def f(a):\n    return sum(i for i in range(3))\ndef g(a):\n    return a\n")
    py2v.translate_unit(run.tmp, dict(functions=[dict(file=file, name="f", coq="c_f", params={"a": "Z"}, ret="Z")]))
    t = py2v.translate_unit(run.tmp, dict(functions=[dict(file=file, name="g", coq="c_g", params={"a": "Z"}, ret="Z")]))
    if "List" in t.split("\n")[1]:
        run.n["directed_failed"] += 1
        run.problem("the List import of one unit leaks into the next", t)


# ===================================================================== expression mode (the dumpers' API)
def expression_mode(run, rng, n_exprs=60, n_args=12):
    """tools/dump_c07/c09/c10/c12/c14/c15 call Fn(None, dict(name=..., ret=...), {}) with `types` preset
    and translate single expressions (expr / as_bool) or a list of assignments plus a return (block)."""
    names = {"a": "Z", "b": "Z", "length": "Z", "end": "Z", "flag": "bool"}
    binders = " ".join("(%s : %s)" % (py2v.ident(n), t) for n, t in names.items())
    defs, cases = [], []
    g = FnGen(rng, "expr", [], False)
    env = {n: (t, 1) for n, t in names.items()}
    k = 0
    while k < n_exprs:
        kind = rng.choice(["Z", "Z", "bool", "cond", "block"])
        if kind == "block":
            lines, e2, _ = g.stmts(dict(env), 0, True, 3)       # assignments to the given variables only
            src = "\n".join([l for l in lines if l != "pass"] + ["return " + g.gen_Z(e2, 2)[0]])
            f = py2v.Fn(None, dict(name="expr", params={n: "Z" for n in names}, ret="Z"), {})
            f.types = dict(names)
            try:
                text = f.block(ast.parse(src).body if False else ast.parse("def _():\n" + "\n".join(
                    "    " + l for l in src.split("\n"))).body[0].body, None)
            except py2v.Unsupported:
                continue
            typ = "Z"
            pyf = "def _f(%s):\n%s\n" % (", ".join(names), "\n".join("    " + l for l in src.split("\n")))
        else:
            src = g.gen_Z(env, 3)[0] if kind == "Z" else g.gen_bool(env, 3) if kind == "bool" else g.cond(env, 2)
            f = py2v.Fn(None, dict(name="expr", ret="Z"), {})
            f.types = dict(names)
            try:
                if kind == "cond":
                    text, typ = f.as_bool(ast.parse(src, mode="eval").body), "bool"
                    pyf = "def _f(%s):\n    return bool(%s)\n" % (", ".join(names), src)
                else:
                    text, typ = f.expr(ast.parse(src, mode="eval").body)
                    pyf = "def _f(%s):\n    return %s\n" % (", ".join(names), src)
            except py2v.Unsupported:
                continue
        defs.append("Definition e_%d %s : %s :=\n  %s." % (k, binders, typ, text))
        ns = {}
        exec(pyf, ns)
        exprs, expect, show = [], [], []
        for args in arg_tuples(rng, list(names.values()), n_args):
            try:
                v = ns["_f"](*args)
            except (ZeroDivisionError, ValueError, OverflowError):
                continue
            exprs.append("e_%d %s" % (k, " ".join(coq_lit(a) for a in args)))
            expect.append(canon(v))
            show.append("%s  with %r" % (src.replace("\n", "; "), dict(zip(names, args))))
        cases.append((src, exprs, expect, show))
        k += 1
    u = len(run.units)
    text = "From Coq Require Import ZArith Bool List.\nOpen Scope Z_scope.\n" + "\n".join(defs)
    run.units.append(dict(label="expression mode", text=text,
                          source="\n".join("# e_%d\n%s" % (i, c[0]) for i, c in enumerate(cases)),
                          specs=[dict(name="e_%d" % i, coq="e_%d" % i) for i in range(len(cases))]))
    for i, (src, exprs, expect, show) in enumerate(cases):
        run.n["expr_mode"] += 1
        run.add_eval("e_%d" % i, u, exprs, expect, show)


# ===================================================================== main
def main():
    ap = argparse.ArgumentParser(description=__doc__.split("\n\n")[0])
    ap.add_argument("--seed", type=int, default=0)
    ap.add_argument("--functions", type=int, default=300)
    ap.add_argument("--args", type=int, default=20)
    ap.add_argument("--keep", action="store_true", help="keep the scratch directory")
    ap.add_argument("-v", "--verbose", action="store_true")
    a = ap.parse_args()
    t0 = time.time()
    tmp = tempfile.mkdtemp(prefix="py2v-selftest-")
    run = Run(tmp, a.verbose)
    try:
        rng = random.Random("py2v-selftest-%d" % a.seed)
        directed_negative(run)
        directed_positive(run, rng)
        directed_semantics(run, rng)
        expression_mode(run, rng)
        run.random_programs(rng, a.functions, a.args)
        run.evaluate()
    except Exception:
        import traceback
        run.problem("the self-test itself failed", traceback.format_exc())
    finally:
        if a.keep:
            print("scratch directory kept:", tmp)
        else:
            shutil.rmtree(tmp, ignore_errors=True)
    n = run.n
    for p in run.problems[:12]:
        print(p)
    if a.verbose:
        for k, v in sorted(run.reject_reasons.items(), key=lambda kv: -kv[1]):
            print("%4d rejected: %s" % (v, k))
    ok = not run.problems and n["disagreements"] == 0 and n["directed_failed"] == 0
    print("py2v self-test: %s seed=%d programs=%d functions=%d rejected=%d accepted=%d calls=%d "
          "python-raised=%d(+%d other) evaluated=%d disagreements=%d directed=%d directed-failed=%d "
          "expr-mode=%d wall=%.1fs"
          % ("ok" if ok else "FAILED", a.seed, n["programs"], n["functions"], n["rejected"], n["accepted"],
             n["cases"], n["raised"], n["raised_other"], n["evaluated"], n["disagreements"], n["directed"],
             n["directed_failed"], n["expr_mode"], time.time() - t0))
    return 0 if ok else 1


if __name__ == "__main__":
    sys.exit(main())
