"""A small simulated SpiNNaker machine for property C10 (router tables).  Self-contained: nothing of rig
is imported; the command numbers, the sv addresses and the 16-byte record layout are written down here
from the SC&MP / SARK documentation, independently of rig's consts.py and sark.struct.

Per chip:
  slots      1024 records [next, free, route, key, mask] -- the router's multicast table as SARK keeps
             it in the copy that hosts read back; an entry whose route has the top byte 0xff is unused
  free       the allocator's free list [[first entry, number of entries], ...]
  zero_ok    whether a request for 0 entries is granted
  buf        sv->sdram_sys, address of the staging buffer in system SDRAM; bufmem its bytes
  rtr_copy   sv->rtr_copy, address of the copy of the router table

The controller reaches the machine through a connection object with the three methods it uses of
rig's SCPConnection (send_scp, read, write); `FakeConnection` implements them on the simulated machine and
logs every call (the division of reads/writes into packets is property C07's, not modelled here).

Commands understood (anything else raises SimError, the stand-in for an error return code):
  CMD_ALLOC (28), arg1 = app_id << 8 | 3 (allocate router entries), arg2 = count
        -> arg1 of the reply = first entry of the allocated block, 0 when there is none.  Best fit: the
           smallest free block that is large enough, the first of equally small ones.
  CMD_RTR (29), arg1 = count << 16 | app_id << 8 | 2 (load), arg2 = address of the records, arg3 = base
        -> every 16-byte record (entry number relative to base, unused, route, key, mask) is installed
           in entry `number + base` with the application id; refused if an entry is outside 1..1023.
  read / write of memory: the two sv fields (4 bytes each), the staging buffer, the router copy (read only).
"""
import struct

CMD_ALLOC, CMD_RTR = 28, 29
OP_ALLOC_RTR, OP_RTR_LOAD = 3, 2
SV_BASE = 0xf5007f00
SV_SDRAM_SYS = SV_BASE + 0xc8
SV_RTR_COPY = SV_BASE + 0xd4
N_SLOTS = 1024
REC = "<HHIII"


class SimError(Exception):
    pass


def cksum(bs):
    a = s = 0
    for b in bytes(bs):
        a += b + 1
        s += a
    return s * 4294967296 + a


class SimChip(object):
    def __init__(self, spec):
        """spec: dict(dflt=[next, free, route_low24, key, mask] of the unused entries,
        listed=[[index, [next, free, route, key, mask]], ...], free=[[base, size], ...], zero_ok=bool,
        buf, bufsize, fill, rtr_copy)"""
        d = spec["dflt"]
        dflt = [d[0], d[1], 0xff000000 | d[2], d[3], d[4]]
        self.slots = [list(dflt) for _ in range(N_SLOTS)]
        for i, s in spec["listed"]:
            self.slots[i] = list(s)
        self.free = [list(b) for b in spec["free"]]
        self.zero_ok = bool(spec["zero_ok"])
        self.buf = spec["buf"]
        self.bufmem = bytearray([spec["fill"]]) * spec["bufsize"]
        self.rtr_copy = spec["rtr_copy"]

    # ------------------------------------------------------------------ allocator
    def rtr_alloc(self, count):
        if count < 0 or (count == 0 and not self.zero_ok):
            return 0
        best = None
        for b, s in self.free:
            if s >= count and (best is None or s < best[1]):
                best = (b, s)
        if best is None:
            return 0
        for k, (b, s) in enumerate(self.free):
            if b == best[0]:
                if count < s:
                    self.free[k] = [b + count, s - count]
                else:
                    del self.free[k]
                break
        return best[0]

    # ------------------------------------------------------------------ router load
    def rtr_load(self, count, app_id, addr, base):
        n = 16 * count
        if not (self.buf <= addr and addr + n <= self.buf + len(self.bufmem)):
            raise SimError("router load from outside the staging buffer")
        data = bytes(self.bufmem[addr - self.buf: addr - self.buf + n])
        slots = [list(s) for s in self.slots]
        for k in range(count):
            nx, _, route, key, mask = struct.unpack(REC, data[16 * k: 16 * k + 16])
            idx = nx + base
            if not (1 <= idx < N_SLOTS):
                raise SimError("router entry %d outside 1..1023" % idx)
            slots[idx] = [0, app_id, route, key, mask]
        self.slots = slots

    # ------------------------------------------------------------------ memory
    def rendered(self):
        return b"".join(struct.pack(REC, *s) for s in self.slots)

    def read(self, addr, n):
        if addr == SV_SDRAM_SYS and n == 4:
            return struct.pack("<I", self.buf)
        if addr == SV_RTR_COPY and n == 4:
            return struct.pack("<I", self.rtr_copy)
        if n >= 0 and self.buf <= addr and addr + n <= self.buf + len(self.bufmem):
            return bytes(self.bufmem[addr - self.buf: addr - self.buf + n])
        if n >= 0 and self.rtr_copy <= addr and addr + n <= self.rtr_copy + 16 * N_SLOTS:
            return self.rendered()[addr - self.rtr_copy: addr - self.rtr_copy + n]
        raise SimError("read of %d bytes at %#x" % (n, addr))

    def write(self, addr, data):
        data = bytes(data)
        if self.buf <= addr and addr + len(data) <= self.buf + len(self.bufmem):
            self.bufmem[addr - self.buf: addr - self.buf + len(data)] = data
            return
        raise SimError("write of %d bytes at %#x" % (len(data), addr))

    def scp(self, p, cmd, a1, a2, a3):
        if p != 0:
            raise SimError("command for core %d" % p)
        if cmd == CMD_ALLOC and a1 & 0xff == OP_ALLOC_RTR:
            return self.rtr_alloc(a2)
        if cmd == CMD_RTR and a1 & 0xff == OP_RTR_LOAD:
            self.rtr_load(a1 >> 16, (a1 >> 8) & 0xff, a2, a3)
            return 0
        raise SimError("command %d arg1 %#x" % (cmd, a1))

    # ------------------------------------------------------------------ observation
    def digest(self):
        used = [[i, list(s)] for i, s in enumerate(self.slots) if s[2] & 0xff000000 != 0xff000000]
        return [used, [list(b) for b in self.free], cksum(self.bufmem), cksum(self.rendered())]


class Reply(object):
    def __init__(self, arg1):
        self.arg1 = arg1
        self.arg2 = self.arg3 = 0
        self.data = b""


class FakeConnection(object):
    """Stands where the controller keeps its SCPConnection (mc.connections[None])."""

    def __init__(self, chips):
        self.chips = chips                # {(x, y): SimChip}
        self.log = []

    def _chip(self, x, y):
        if (x, y) not in self.chips:
            raise SimError("no chip (%r, %r)" % (x, y))
        return self.chips[(x, y)]

    def send_scp(self, buffer_size, x, y, p, cmd, arg1=0, arg2=0, arg3=0, data=b"", expected_args=3,
                 timeout=0.0):
        r = self._chip(x, y).scp(p, int(cmd), int(arg1), int(arg2), int(arg3))
        self.log.append(["scp", x, y, p, int(cmd), int(arg1), int(arg2), int(arg3), r])
        return Reply(r)

    def read(self, buffer_size, window_size, x, y, p, address, length_bytes):
        if p != 0:
            raise SimError("read through core %d" % p)
        bs = self._chip(x, y).read(address, length_bytes)
        self.log.append(["read", x, y, p, address, length_bytes, cksum(bs)])
        return bs

    def write(self, buffer_size, window_size, x, y, p, address, data):
        if p != 0:
            raise SimError("write through core %d" % p)
        self._chip(x, y).write(address, data)
        self.log.append(["write", x, y, p, address, len(data), cksum(data)])

    def close(self):
        pass
