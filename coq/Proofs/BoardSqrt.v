(* C19 -- the float step of standard_system_dimensions: over IEEE-754 binary64 (Flocq),
   int(math.sqrt(k)) = Z.sqrt k for every integer 0 <= k < 2^52.
   Argument: k is a double; the correctly rounded square root r lies between two doubles that pin its
   integer part: n = Z.sqrt k is a double below sqrt k, and p = n + 1 - 2^-27 is a double (n + 1 <= 2^26)
   with k <= (n+1)^2 - 1 <= p^2, hence sqrt k <= p < n + 1; rounding is monotone and fixes doubles.
   This file depends on the axioms of the Reals library (reported by Print Assumptions); the other C19
   theorems do not import it. *)
From Coq Require Import ZArith Reals List Bool Lia Lra.
From Flocq Require Import Core BinarySingleNaN Operations.
Require Import Rig.Model.Base Rig.Model.FixFloat Rig.Model.Board Rig.Model.BoardSqrt Rig.Spec.Board
               Rig.Proofs.Board.
Import ListNotations.
Open Scope Z_scope.

Notation fexp64 := (FLT_exp (-1074) 53).
Notation rnd64 := (round radix2 fexp64 ZnearestE).
Notation fmt64 := (generic_format radix2 fexp64).
Notation bpow2 := (bpow radix2).

(* ------------------------------------------------------------------ binary64 basics *)
Lemma IZR_F2R0 : forall v, IZR v = F2R (Float radix2 v 0).
Proof. intros v. unfold F2R; simpl; ring. Qed.

Lemma flt64_double : forall m e, Z.abs m < 2 ^ 53 -> -1074 <= e -> fmt64 (F2R (Float radix2 m e)).
Proof.
  intros m e Hm He. apply generic_format_FLT.
  exact (FLT_spec radix2 (-1074) 53 _ (Float radix2 m e) eq_refl Hm He).
Qed.

Lemma small_int_double : forall v, Z.abs v < 2 ^ 53 -> fmt64 (IZR v).
Proof. intros v Hv. rewrite IZR_F2R0. apply flt64_double; [exact Hv | lia]. Qed.

Lemma IZR_lt_bpow1024 : forall v, Z.abs v < 2 ^ 53 -> (Rabs (IZR v) < bpow2 1024)%R.
Proof.
  intros v Hv. rewrite <- abs_IZR. apply Rlt_trans with (bpow2 53).
  - replace (bpow2 53) with (IZR (2 ^ 53)) by (rewrite (IZR_Zpower radix2) by lia; reflexivity).
    apply IZR_lt. exact Hv.
  - apply bpow_lt. lia.
Qed.

(* float(v) is exact for |v| < 2^53 *)
Lemma float_of_small_int : forall v, Z.abs v < 2 ^ 53 ->
  exists fv, py_float_of_int v = Ok fv /\ B2R fv = IZR v /\ is_finite fv = true.
Proof.
  intros v Hv. unfold py_float_of_int.
  generalize (binary_normalize_correct 53 1024 prec64_gt_0 prec64_lt_emax mode_NE v 0 false).
  cbv zeta. change (SpecFloat.fexp 53 1024) with fexp64. change (round_mode mode_NE) with ZnearestE.
  rewrite <- IZR_F2R0.
  rewrite round_generic by (auto using small_int_double with typeclass_instances).
  rewrite Rlt_bool_true by (apply IZR_lt_bpow1024; exact Hv).
  intros (H1 & H2 & _). rewrite H2. eexists; split; [reflexivity|]. split; assumption.
Qed.

Lemma Btrunc_is_Ztrunc : forall x : b64, Btrunc x = Ztrunc (B2R x).
Proof.
  intros x. apply eq_IZR. rewrite (Btrunc_correct 53 1024 prec64_lt_emax). apply round_FIX_IZR.
Qed.

Lemma py_int_of_finite : forall z : b64, is_finite z = true -> py_int z = Ok (Ztrunc (B2R z)).
Proof. intros z Hz. rewrite <- Btrunc_is_Ztrunc. destruct z; try discriminate; reflexivity. Qed.

(* ------------------------------------------------------------------ the real-number core *)
Lemma trunc_rounded_sqrt : forall k, 0 <= k < 2 ^ 52 ->
  Ztrunc (rnd64 (sqrt (IZR k))) = Z.sqrt k.
Proof.
  intros k Hk.
  pose proof (Z.sqrt_spec k ltac:(lia)) as Hs. cbv zeta in Hs.
  pose proof (Z.sqrt_nonneg k) as Hn0.
  set (n := Z.sqrt k) in *.
  assert (Hn26 : n + 1 <= 2 ^ 26) by nia.
  assert (HRn0 : (0 <= IZR n)%R) by (apply IZR_le; exact Hn0).
  (* below: n is a double not above sqrt k *)
  assert (Hlow : (IZR n <= rnd64 (sqrt (IZR k)))%R).
  { assert (Hf : fmt64 (IZR n)) by (apply small_int_double; lia).
    apply round_ge_generic; auto with typeclass_instances.
    rewrite <- (sqrt_square (IZR n)) at 1 by exact HRn0.
    apply sqrt_le_1_alt. rewrite <- mult_IZR. apply IZR_le. lia. }
  (* above: p = n + 1 - 2^-27 is a double not below sqrt k *)
  set (M := (n + 1) * 2 ^ 27 - 1).
  set (p := F2R (Float radix2 M (-27))).
  assert (Hp0 : (0 <= p)%R) by (apply F2R_ge_0; simpl; unfold M; lia).
  assert (Hpfmt : fmt64 p) by (apply flt64_double; unfold M; lia).
  assert (Hkp : (IZR k <= p * p)%R).
  { unfold p. rewrite <- F2R_mult. unfold Fmult. cbn [Fnum Fexp].
    rewrite IZR_F2R0. rewrite (F2R_change_exp radix2 (-54) k 0) by lia.
    change (-27 + -27) with (-54). apply F2R_le.
    change (Zpower radix2 (0 - -54)) with (2 ^ 54).
    replace (M * M) with ((n + 1) * (n + 1) * 2 ^ 54 - (n + 1) * 2 ^ 28 + 1) by (unfold M; ring).
    lia. }
  assert (Hsp : (sqrt (IZR k) <= p)%R).
  { rewrite <- (sqrt_square p) by exact Hp0. apply sqrt_le_1_alt. exact Hkp. }
  assert (Hup : (rnd64 (sqrt (IZR k)) <= p)%R)
    by (apply round_le_generic; auto with typeclass_instances).
  assert (Hpn : (p < IZR (n + 1))%R).
  { unfold p. rewrite (IZR_F2R0 (n + 1)). rewrite (F2R_change_exp radix2 (-27) (n + 1) 0) by lia.
    apply F2R_lt. change (Zpower radix2 (0 - -27)) with (2 ^ 27). unfold M. lia. }
  rewrite Ztrunc_floor by lra. apply Zfloor_imp. lra.
Qed.

(* ------------------------------------------------------------------ int(math.sqrt(k)) over binary64 *)
Theorem float_isqrt_exact : forall k, 0 <= k < 2 ^ 52 -> float_isqrt_f k = Ok (Z.sqrt k).
Proof.
  intros k Hk. unfold float_isqrt_f.
  destruct (k <? 0) eqn:E; [apply Z.ltb_lt in E; lia|].
  destruct (float_of_small_int k ltac:(lia)) as (fv & Hfv & Hrv & Hff).
  rewrite Hfv. cbn [bind].
  destruct (Bsqrt_correct 53 1024 prec64_gt_0 prec64_lt_emax mode_NE fv) as (H1 & H2 & _).
  assert (Hfin : is_finite (Bsqrt mode_NE fv) = true).
  { rewrite H2. destruct fv as [s | s | | s m e Hb]; try discriminate Hff; try reflexivity.
    destruct s; [|reflexivity]. exfalso.
    assert (Hneg : (B2R (B754_finite true m e Hb) < 0)%R) by (apply F2R_lt_0; reflexivity).
    rewrite Hrv in Hneg. assert (0 <= IZR k)%R by (apply IZR_le; lia). lra. }
  rewrite (py_int_of_finite _ Hfin). f_equal.
  rewrite H1, Hrv. change (SpecFloat.fexp 53 1024) with fexp64. change (round_mode mode_NE) with ZnearestE.
  apply trunc_rounded_sqrt. exact Hk.
Qed.

(* the binary64 model and the Z.sqrt model of standard_system_dimensions coincide for board counts whose
   third is below 2^52 (and for every count that is not a positive multiple of 3) *)
Theorem standard_dims_f_eq : forall n, n / 3 < 2 ^ 52 ->
  standard_system_dimensions_f n = standard_system_dimensions n.
Proof.
  intros n Hn. unfold standard_system_dimensions_f, standard_system_dimensions.
  destruct (n =? 0); [reflexivity|]. destruct (n =? 1); [reflexivity|].
  destruct (negb (n mod 3 =? 0)); [reflexivity|]. cbv zeta.
  destruct (n / 3 <? 0) eqn:E.
  - unfold float_isqrt_f. rewrite E. reflexivity.
  - apply Z.ltb_ge in E. rewrite float_isqrt_exact by lia. reflexivity.
Qed.

Theorem standard_dims_f_squarest : forall n k, 1 <= k < 2 ^ 52 -> n = 3 * k ->
  exists a b, standard_system_dimensions_f n = Ok (a * 12, b * 12) /\ squarest k a b.
Proof.
  intros n k Hk Hn. rewrite standard_dims_f_eq.
  - apply standard_dims_squarest; [lia | exact Hn].
  - subst n. replace (3 * k) with (k * 3) by ring. rewrite Z.div_mul by lia. lia.
Qed.

Theorem standard_dims_f_special :
  standard_system_dimensions_f 0 = Ok (0, 0) /\ standard_system_dimensions_f 1 = Ok (8, 8).
Proof. split; reflexivity. Qed.

Theorem standard_dims_f_error : forall n, n <> 0 -> n <> 1 -> n mod 3 <> 0 \/ n < 0 ->
  standard_system_dimensions_f n = Failed 0.
Proof.
  intros n H0 H1 H. unfold standard_system_dimensions_f.
  destruct (n =? 0) eqn:E0; [apply Z.eqb_eq in E0; contradiction|].
  destruct (n =? 1) eqn:E1; [apply Z.eqb_eq in E1; contradiction|].
  destruct (n mod 3 =? 0) eqn:E3; [|reflexivity]. cbn [negb]. cbv zeta.
  apply Z.eqb_eq in E3. destruct H as [H | H]; [contradiction|].
  assert (Hk : n / 3 < 0) by (apply Z.div_lt_upper_bound; lia).
  apply Z.ltb_lt in Hk. unfold float_isqrt_f. rewrite Hk. reflexivity.
Qed.

Theorem standard_dims_f_gas_correct : forall gas n,
  standard_system_dimensions_f_gas gas n <> OutOfFuel ->
  standard_system_dimensions_f_gas gas n = standard_system_dimensions_f n.
Proof.
  intros gas n. unfold standard_system_dimensions_f_gas, standard_system_dimensions_f.
  destruct (n =? 0); [reflexivity|]. destruct (n =? 1); [reflexivity|].
  destruct (negb (n mod 3 =? 0)); [reflexivity|]. cbv zeta.
  destruct (float_isqrt_f (n / 3)) as [s | | |] eqn:Es; cbn [bind]; try reflexivity.
  destruct (first_factor_down_gas (n / 3) s gas) as [r|] eqn:E; [|intros H; contradiction H; reflexivity].
  intros _.
  destruct (Z_le_gt_dec 0 s) as [Hs | Hs].
  - rewrite (first_factor_down_gas_correct _ _ _ _ Hs E). destruct r; reflexivity.
  - (* a negative count (impossible for a square root, but the statement does not need that) *)
    destruct gas as [|g]; cbn [first_factor_down_gas] in E; [discriminate|].
    replace (s <=? 0) with true in E by (symmetry; apply Z.leb_le; lia).
    injection E as <-. replace (Z.to_nat s) with O by lia. reflexivity.
Qed.
