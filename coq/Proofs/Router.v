(* C10 -- loading router entries and reading them back: proofs about Model/Router.v *)
From Coq Require Import ZArith List Bool Lia.
Require Import Rig.Model.Base Rig.Generated.GenRouter Rig.Model.Tables Rig.Model.Router.
Require Import Rig.Spec.Router Rig.Proofs.RouterWord Rig.Proofs.RouterBytes.
Import ListNotations.
Open Scope Z_scope.

Ltac Zify.zify_post_hook ::= Z.to_euclidean_division_equations.

(* ------------------------------------------------------------------------------------------------ *)
(** * set_nth *)

Lemma set_nth_length : forall {A} (l : list A) n x, length (set_nth n x l) = length l.
Proof.
  induction l as [|y l IH]; intros n x; [reflexivity|].
  destruct n; simpl; [reflexivity|]. rewrite IH. reflexivity.
Qed.

Lemma set_nth_same : forall {A} (l : list A) n x, (n < length l)%nat -> nth_error (set_nth n x l) n = Some x.
Proof.
  induction l as [|y l IH]; intros n x H; [simpl in H; lia|].
  destruct n; simpl; [reflexivity|]. apply IH. simpl in H. lia.
Qed.

Lemma set_nth_other : forall {A} (l : list A) n j x, j <> n -> nth_error (set_nth n x l) j = nth_error l j.
Proof.
  induction l as [|y l IH]; intros n j x H; [reflexivity|].
  destruct n; destruct j; simpl; try reflexivity; try congruence.
  apply IH. congruence.
Qed.

(* ------------------------------------------------------------------------------------------------ *)
(** * association lists of chips *)

Lemma chip_eqb_eq : forall a b : chip, chip_eqb a b = true <-> a = b.
Proof.
  intros [a1 a2] [b1 b2]. unfold chip_eqb. simpl. rewrite andb_true_iff, !Z.eqb_eq.
  split; [intros [-> ->]; reflexivity|intros H; injection H; auto].
Qed.

Lemma chip_eqb_refl : forall a, chip_eqb a a = true.
Proof. intros. apply chip_eqb_eq. reflexivity. Qed.

Lemma chip_eqb_neq : forall a b : chip, a <> b -> chip_eqb a b = false.
Proof.
  intros a b H. destruct (chip_eqb a b) eqn:E; [|reflexivity]. apply chip_eqb_eq in E. contradiction.
Qed.

Lemma cassoc_cupd_same : forall (m : machine) c v v0, cassoc c m = Some v0 -> cassoc c (cupd c v m) = Some v.
Proof.
  induction m as [|[c' v'] m IH]; intros c v v0 H; simpl in *; [discriminate|].
  destruct (chip_eqb c c') eqn:E; simpl; rewrite ?chip_eqb_refl, ?E; [reflexivity|].
  eapply IH. exact H.
Qed.

Lemma cassoc_cupd_other : forall (m : machine) c c2 v, c2 <> c -> cassoc c2 (cupd c v m) = cassoc c2 m.
Proof.
  induction m as [|[c' v'] m IH]; intros c c2 v H; simpl; [reflexivity|].
  destruct (chip_eqb c c') eqn:E; simpl.
  - apply chip_eqb_eq in E. subst c'. rewrite chip_eqb_neq by exact H. reflexivity.
  - destruct (chip_eqb c2 c'); [reflexivity|]. apply IH. exact H.
Qed.

Lemma cupd_cupd : forall (m : machine) c v w, cupd c w (cupd c v m) = cupd c w m.
Proof.
  induction m as [|[c' v'] m IH]; intros c v w; simpl; [reflexivity|].
  destruct (chip_eqb c c') eqn:E; simpl; rewrite ?chip_eqb_refl, ?E; [reflexivity|].
  rewrite IH. reflexivity.
Qed.

(* ------------------------------------------------------------------------------------------------ *)
(** * the allocator *)

Lemma best_fit_spec : forall count fl best b s,
  best_fit count fl best = Some (b, s) ->
  (In (b, s) fl /\ count <= s) \/ best = Some (b, s).
Proof.
  induction fl as [|[b' s'] fl IH]; intros best b s H; simpl in H.
  - right. exact H.
  - apply IH in H. destruct H as [[Hin Hle]|H].
    + left. split; [right; exact Hin|exact Hle].
    + destruct best as [[b0 s0]|].
      * destruct ((count <=? s') && (s' <? s0)) eqn:E.
        -- injection H as <- <-. apply andb_prop in E. destruct E as [E _]. apply Z.leb_le in E.
           left. split; [left; reflexivity|exact E].
        -- right. exact H.
      * destruct (count <=? s') eqn:E.
        -- injection H as <- <-. apply Z.leb_le in E. left. split; [left; reflexivity|exact E].
        -- discriminate.
Qed.

(* an allocation leaves everything but the free list alone; a granted block lies within 1..1023 and a
   refused request changes nothing at all *)
Lemma rtr_alloc_spec : forall cs count cs1 base,
  chip_ok cs -> rtr_alloc cs count = (cs1, base) ->
  cs_slots cs1 = cs_slots cs /\ cs_bufmem cs1 = cs_bufmem cs /\ cs_buf cs1 = cs_buf cs /\
  cs_rtr_copy cs1 = cs_rtr_copy cs /\
  (base = 0 -> cs1 = cs) /\
  (base <> 0 -> 0 <= count /\ 1 <= base /\ base + count <= 1024).
Proof.
  intros cs count cs1 base Hok H. unfold rtr_alloc in H.
  destruct ((count <? 0) || ((count =? 0) && negb (cs_zero_ok cs))) eqn:Eg.
  - injection H as <- <-. repeat split; try reflexivity; intros Hb; congruence.
  - apply orb_false_elim in Eg. destruct Eg as [Eg _]. apply Z.ltb_ge in Eg.
    destruct (best_fit count (cs_free cs) None) as [[b s]|] eqn:Eb.
    + injection H as <- <-. unfold set_free. simpl.
      apply best_fit_spec in Eb. destruct Eb as [[Hin Hle]|Eb]; [|discriminate].
      destruct Hok as [_ [Hfree _]]. rewrite Forall_forall in Hfree. apply Hfree in Hin. simpl in Hin.
      repeat split; try reflexivity; try lia; intros Hb; try lia.
    + injection H as <- <-. repeat split; try reflexivity; intros Hb; congruence.
Qed.

Lemma take_block_ok : forall fl b count,
  0 <= count ->
  Forall (fun b => 1 <= fst b /\ fst b + snd b <= 1024) fl ->
  Forall (fun b => 1 <= fst b /\ fst b + snd b <= 1024) (take_block b count fl).
Proof.
  induction fl as [|[b' s] fl IH]; intros b count Hc H; simpl; [constructor|].
  inversion H as [|? ? Hh Ht]; subst. simpl in Hh.
  destruct (b' =? b) eqn:E.
  - apply Z.eqb_eq in E. subst b'. destruct (count <? s) eqn:E2; [|exact Ht].
    constructor; [simpl; lia|exact Ht].
  - constructor; [exact Hh|apply IH; assumption].
Qed.

Lemma rtr_alloc_free_ok : forall cs count cs1 base,
  chip_ok cs -> rtr_alloc cs count = (cs1, base) ->
  Forall (fun b => 1 <= fst b /\ fst b + snd b <= 1024) (cs_free cs1).
Proof.
  intros cs count cs1 base Hok H. destruct Hok as [_ [Hfree _]]. unfold rtr_alloc in H.
  destruct ((count <? 0) || ((count =? 0) && negb (cs_zero_ok cs))) eqn:Eg.
  - injection H as <- <-. exact Hfree.
  - apply orb_false_elim in Eg. destruct Eg as [Eg _]. apply Z.ltb_ge in Eg.
    destruct (best_fit count (cs_free cs) None) as [[b s]|] eqn:Eb.
    + injection H as <- <-. unfold set_free. simpl. apply take_block_ok; assumption.
    + injection H as <- <-. exact Hfree.
Qed.

(* ------------------------------------------------------------------------------------------------ *)
(** * the commands, as the machine decodes them *)

Lemma land_shl_255 : forall a k, 8 <= k -> Z.land (Z.shiftl a k) 255 = 0.
Proof.
  intros a k Hk. change 255 with (Z.ones 8). rewrite Z.land_ones by lia.
  rewrite Z.shiftl_mul_pow2 by lia.
  replace k with (8 + (k - 8)) by lia. rewrite Z.pow_add_r by lia.
  rewrite Z.mul_assoc, (Z.mul_comm a), <- Z.mul_assoc. change (2 ^ 8) with 256.
  rewrite Z.mul_comm. apply Z.mod_mul. lia.
Qed.

Lemma land_small_255 : forall a, 0 <= a < 256 -> Z.land a 255 = a.
Proof. intros a Ha. change 255 with (Z.ones 8). rewrite Z.land_ones by lia. apply Z.mod_small. exact Ha. Qed.

Lemma shr_small : forall a k, 0 <= a < 2 ^ k -> 0 <= k -> Z.shiftr a k = 0.
Proof. intros a k Ha Hk. rewrite Z.shiftr_div_pow2 by exact Hk. apply Z.div_small. exact Ha. Qed.

Lemma alloc_arg1_op : forall app_id count, Z.land (lrte_alloc_arg1 app_id count) 255 = 3.
Proof.
  intros. unfold lrte_alloc_arg1, AllocOperations_alloc_rtr.
  rewrite Z.land_lor_distr_l, land_shl_255 by lia. reflexivity.
Qed.

Lemma load_arg1_op : forall count app_id buf base, Z.land (lrte_load_arg1 count app_id buf base) 255 = 2.
Proof.
  intros. unfold lrte_load_arg1, RouterOperations_load.
  rewrite !Z.land_lor_distr_l, !land_shl_255 by lia. reflexivity.
Qed.

Lemma load_arg1_count : forall count app_id buf base,
  0 <= app_id < 256 -> Z.shiftr (lrte_load_arg1 count app_id buf base) 16 = count.
Proof.
  intros count app_id buf base Ha. unfold lrte_load_arg1, RouterOperations_load.
  rewrite !Z.shiftr_lor.
  rewrite Z.shiftr_shiftl_l by lia. change (16 - 16) with 0. rewrite Z.shiftl_0_r.
  rewrite Z.shiftr_shiftl_r by lia. change (16 - 8) with 8.
  rewrite (shr_small app_id 8) by (change (2 ^ 8) with 256; lia).
  change (Z.shiftr 2 16) with 0. rewrite !Z.lor_0_r. reflexivity.
Qed.

Lemma load_arg1_app : forall count app_id buf base,
  0 <= app_id < 256 -> Z.land (Z.shiftr (lrte_load_arg1 count app_id buf base) 8) 255 = app_id.
Proof.
  intros count app_id buf base Ha. unfold lrte_load_arg1, RouterOperations_load.
  rewrite !Z.shiftr_lor.
  rewrite Z.shiftr_shiftl_l by lia. change (16 - 8) with 8.
  rewrite Z.shiftr_shiftl_l by lia. change (8 - 8) with 0. rewrite Z.shiftl_0_r.
  change (Z.shiftr 2 8) with 0. rewrite Z.lor_0_r.
  rewrite Z.land_lor_distr_l, land_shl_255 by lia. rewrite Z.lor_0_l.
  apply land_small_255. exact Ha.
Qed.

Lemma scp_alloc : forall cs app_id count,
  scp_exec cs lrte_alloc_p lrte_alloc_cmd (lrte_alloc_arg1 app_id count) (lrte_alloc_arg2 app_id count) 0
  = Some (rtr_alloc cs count).
Proof.
  intros. unfold scp_exec.
  change (negb (lrte_alloc_p =? 0)) with false. cbv iota.
  change (lrte_alloc_cmd =? 28) with true. rewrite alloc_arg1_op. reflexivity.
Qed.

Lemma scp_load : forall cs count app_id buf base,
  0 <= app_id < 256 ->
  scp_exec cs lrte_load_p lrte_load_cmd (lrte_load_arg1 count app_id buf base)
           (lrte_load_arg2 count app_id buf base) (lrte_load_arg3 count app_id buf base)
  = match rtr_load cs count app_id buf base with Some cs' => Some (cs', 0) | None => None end.
Proof.
  intros cs count app_id buf base Ha. unfold scp_exec.
  change (negb (lrte_load_p =? 0)) with false. cbv iota.
  change (lrte_load_cmd =? 28) with false. change (lrte_load_cmd =? 29) with true.
  rewrite load_arg1_op, load_arg1_count, load_arg1_app by exact Ha.
  reflexivity.
Qed.

(* ------------------------------------------------------------------------------------------------ *)
(** * memory *)

Lemma read_sdram_sys : forall cs, mem_read cs sv_sdram_sys_addr sv_field_size = Some (le_bytes 4 (cs_buf cs)).
Proof. intros. reflexivity. Qed.

Lemma read_rtr_copy_ptr : forall cs, mem_read cs sv_rtr_copy_addr sv_field_size = Some (le_bytes 4 (cs_rtr_copy cs)).
Proof. intros. reflexivity. Qed.

Lemma le_value_4 : forall v, 0 <= v < 2 ^ 32 -> le_value (le_bytes 4 v) = v.
Proof. intros v Hv. apply le_value_bytes. exact Hv. Qed.

Lemma write_at_0 : forall (data mem : list Z),
  len data <= len mem -> write_at 0 data mem = Some (data ++ skipn (length data) mem).
Proof.
  intros data mem H. unfold write_at.
  assert (E : (0 <=? 0) && (0 + len data <=? len mem) = true).
  { apply andb_true_intro. split; apply Z.leb_le; lia. }
  rewrite E. f_equal.
  replace (Z.to_nat (0 + len data)) with (length data) by (unfold len; lia).
  reflexivity.
Qed.

Lemma mem_write_buf : forall cs data,
  len data <= len (cs_bufmem cs) ->
  mem_write cs (cs_buf cs) data = Some (set_bufmem cs (data ++ skipn (length data) (cs_bufmem cs))).
Proof.
  intros cs data H. unfold mem_write.
  assert (E : (cs_buf cs <=? cs_buf cs) && (cs_buf cs + len data <=? cs_buf cs + len (cs_bufmem cs)) = true).
  { apply andb_true_intro. split; apply Z.leb_le; lia. }
  rewrite E, Z.sub_diag, write_at_0 by exact H. reflexivity.
Qed.

Lemma region_read_prefix : forall base (data rest : list Z),
  region_read base (data ++ rest) base (len data) = Some data.
Proof.
  intros base data rest. unfold region_read.
  assert (E : (base <=? base) && (0 <=? len data) && (base + len data <=? base + len (data ++ rest)) = true).
  { rewrite len_app. pose proof (len_nonneg data). pose proof (len_nonneg rest).
    repeat (apply andb_true_intro; split); apply Z.leb_le; lia. }
  rewrite E, Z.sub_diag. simpl skipn. f_equal.
  apply firstn_app_exact. unfold len. lia.
Qed.

Lemma region_read_miss : forall base mem addr n,
  (base + len mem <= addr \/ addr + n <= base) -> 0 < n -> region_read base mem addr n = None.
Proof.
  intros base mem addr n H Hn. unfold region_read.
  assert (E : (base <=? addr) && (0 <=? n) && (addr + n <=? base + len mem) = false).
  { apply not_true_is_false. intros E. apply andb_prop in E. destruct E as [E E3].
    apply andb_prop in E. destruct E as [E1 E2]. apply Z.leb_le in E1, E2, E3. lia. }
  rewrite E. reflexivity.
Qed.

Lemma region_read_all : forall base (mem : list Z), region_read base mem base (len mem) = Some mem.
Proof.
  intros base mem. rewrite <- (app_nil_r mem) at 1. rewrite region_read_prefix. reflexivity.
Qed.

(* ------------------------------------------------------------------------------------------------ *)
(** * the router-load command installs the records *)

Lemma load_records_spec : forall es i slots base app_id,
  Forall entry_ok es -> 0 <= i -> i + len es <= 2 ^ 16 ->
  1 <= base + i -> base + i + len es <= 1024 -> length slots = 1024%nat ->
  exists slots',
    load_records (map (unpack_fields [2; 2; 4; 4; 4]) (recs_from i es)) base app_id slots = Some slots'
    /\ length slots' = 1024%nat
    /\ (forall k e, nth_error es k = Some e ->
                    nth_error slots' (Z.to_nat (base + i) + k) = Some (slot_of app_id e))
    /\ (forall j, ~ (Z.to_nat (base + i) <= j < Z.to_nat (base + i) + length es)%nat ->
                  nth_error slots' j = nth_error slots j).
Proof.
  induction es as [|e es IH]; intros i slots base app_id Hok Hi Hn Hb1 Hb2 Hlen.
  - exists slots. split; [reflexivity|]. split; [exact Hlen|]. split.
    + intros k e H. destruct k; discriminate.
    + intros j _. reflexivity.
  - inversion Hok as [|? ? He Hes]; subst.
    unfold len in Hn, Hb2. cbn [length] in Hn, Hb2. rewrite Nat2Z.inj_succ in Hn, Hb2.
    cbn [recs_from map load_records].
    rewrite unpack_record by (try assumption; lia).
    assert (Eidx : (1 <=? i + base) && (i + base <? N_SLOTS) = true).
    { apply andb_true_intro. unfold N_SLOTS. split; [apply Z.leb_le|apply Z.ltb_lt]; lia. }
    rewrite Eidx.
    set (slots1 := set_nth (Z.to_nat (i + base))
                           (mkSlot 0 app_id (route_word (e_route e)) (e_key e) (e_mask e)) slots).
    destruct (IH (i + 1) slots1 base app_id Hes) as [slots' [Hl [Hlen' [Hin Hout]]]];
      try (unfold len; lia).
    { unfold slots1. rewrite set_nth_length. exact Hlen. }
    exists slots'. split; [exact Hl|]. split; [exact Hlen'|]. split.
    + intros k e0 Hk. destruct k as [|k].
      * simpl in Hk. injection Hk as <-.
        rewrite Hout by lia. rewrite Nat.add_0_r.
        replace (Z.to_nat (base + i)) with (Z.to_nat (i + base)) by lia.
        unfold slots1. rewrite set_nth_same by lia. reflexivity.
      * simpl in Hk. apply Hin in Hk.
        replace (Z.to_nat (base + i) + S k)%nat with (Z.to_nat (base + (i + 1)) + k)%nat by lia.
        exact Hk.
    + intros j Hj. cbn [length] in Hj.
      rewrite Hout by lia. unfold slots1. apply set_nth_other. lia.
Qed.

Lemma recs_from_all_16 : forall es i, Forall (fun c => length c = 16%nat) (recs_from i es).
Proof.
  induction es as [|e es IH]; intros i; cbn [recs_from]; constructor; [apply rec_bytes_length|apply IH].
Qed.

(* rtr_load after the staging buffer was filled with the records of es *)
Lemma rtr_load_spec : forall cs es rest base app_id,
  Forall entry_ok es -> len es <= 2 ^ 16 ->
  1 <= base -> base + len es <= 1024 -> length (cs_slots cs) = 1024%nat ->
  cs_bufmem cs = concat (recs_from 0 es) ++ rest ->
  exists slots',
    rtr_load cs (len es) app_id (cs_buf cs) base = Some (set_slots cs slots')
    /\ installed slots' base app_id es
    /\ unchanged_outside (cs_slots cs) slots' base (length es).
Proof.
  intros cs es rest base app_id Hok Hn Hb1 Hb2 Hlen Hmem.
  unfold rtr_load. rewrite Hmem.
  assert (Elen : SLOT_BYTES * len es = len (concat (recs_from 0 es))).
  { unfold len, SLOT_BYTES. rewrite concat_recs_length. lia. }
  rewrite Elen, region_read_prefix.
  rewrite chunks_concat; [|lia|apply recs_from_all_16|].
  2:{ rewrite concat_recs_length, recs_from_length. lia. }
  destruct (load_records_spec es 0 (cs_slots cs) base app_id Hok) as [slots' [Hl [Hlen' [Hin Hout]]]];
    try lia; try assumption.
  exists slots'. rewrite Hl. split; [reflexivity|]. split.
  - intros k e Hk. replace (Z.to_nat base) with (Z.to_nat (base + 0)) by lia. apply Hin. exact Hk.
  - split; [lia|]. intros j Hj. apply Hout. replace (Z.to_nat (base + 0)) with (Z.to_nat base) by lia. exact Hj.
Qed.

(* ------------------------------------------------------------------------------------------------ *)
(** * load_routing_table_entries *)

(* allocation refused: the router error, nothing but the allocation command was issued, the chip is in
   the state it was in (router, free list, memory) *)
Theorem load_alloc_failure : forall m es x y app_id cs cs1,
  cassoc (x, y) m = Some cs -> chip_ok cs ->
  rtr_alloc cs (len es) = (cs1, 0) ->
  exists m',
    load_routing_table_entries m es x y app_id
    = (LRouterError (len es) x y, m', [alloc_item x y app_id (len es) 0])
    /\ cassoc (x, y) m' = Some cs
    /\ (forall c, c <> (x, y) -> cassoc c m' = cassoc c m).
Proof.
  intros m es x y app_id cs cs1 Hc Hok Ha.
  destruct (rtr_alloc_spec _ _ _ _ Hok Ha) as [_ [_ [_ [_ [H0 _]]]]].
  specialize (H0 eq_refl). subst cs1.
  exists (cupd (x, y) cs m).
  unfold load_routing_table_entries. rewrite Hc, scp_alloc, Ha.
  change (lrte_alloc_failed 0) with true. cbv iota.
  split; [reflexivity|]. split.
  - eapply cassoc_cupd_same. exact Hc.
  - intros c Hne. apply cassoc_cupd_other. exact Hne.
Qed.

(* allocation granted *)
Theorem load_success : forall m es x y app_id cs cs1 base,
  cassoc (x, y) m = Some cs -> chip_ok cs ->
  Forall entry_ok es -> 0 <= app_id < 256 ->
  16 * len es <= len (cs_bufmem cs) ->
  rtr_alloc cs (len es) = (cs1, base) -> base <> 0 ->
  exists m' cs' data,
    load_routing_table_entries m es x y app_id
    = (LOk, m',
       [alloc_item x y app_id (len es) base;
        TRead x y 0 sv_sdram_sys_addr sv_field_size (cksum (le_bytes 4 (cs_buf cs)));
        TWrite x y 0 (cs_buf cs) (16 * len es) (cksum data);
        TScp x y lrte_load_p lrte_load_cmd
             (lrte_load_arg1 (len es) app_id (cs_buf cs) base) (cs_buf cs) base 0])
    /\ data = concat (recs_from 0 es)
    /\ cassoc (x, y) m' = Some cs'
    /\ (forall c, c <> (x, y) -> cassoc c m' = cassoc c m)
    /\ 1 <= base /\ base + len es <= 1024
    /\ installed (cs_slots cs') base app_id es
    /\ unchanged_outside (cs_slots cs) (cs_slots cs') base (length es)
    /\ cs_free cs' = cs_free cs1
    /\ chip_ok cs'.
Proof.
  intros m es x y app_id cs cs1 base Hc Hok Hes Happ Hbuf Ha Hb.
  destruct (rtr_alloc_spec _ _ _ _ Hok Ha) as [Hs1 [Hm1 [Hb1 [Hr1 [_ Hgr]]]]].
  destruct (Hgr Hb) as [Hcnt [Hbase1 Hbase2]].
  pose proof Hok as Hok'. destruct Hok' as [Hlen [Hfree [Hbuf0 [Hbuf1 [Hrc0 [Hrc1 Hdisj]]]]]].
  assert (Hn16 : len es <= 2 ^ 16) by (change (2 ^ 16) with 65536; lia).
  pose proof (len_nonneg (cs_bufmem cs)) as Hmemnn.
  set (data := concat (recs_from 0 es)).
  assert (Hdlen : len data = 16 * len es).
  { unfold data, len. rewrite concat_recs_length. lia. }
  set (cs2 := set_bufmem cs1 (data ++ skipn (length data) (cs_bufmem cs1))).
  destruct (rtr_load_spec cs2 es (skipn (length data) (cs_bufmem cs1)) base app_id Hes Hn16 Hbase1 Hbase2)
    as [slots' [Hl [Hinst Hunch]]].
  { unfold cs2, set_bufmem. simpl. rewrite Hs1. exact Hlen. }
  { reflexivity. }
  exists (cupd (x, y) (set_slots cs2 slots') m), (set_slots cs2 slots'), data.
  split.
  - unfold load_routing_table_entries. rewrite Hc, scp_alloc, Ha.
    assert (Ef : lrte_alloc_failed base = false) by (unfold lrte_alloc_failed; apply Z.eqb_neq; exact Hb).
    rewrite Ef. cbv iota.
    rewrite read_sdram_sys, Hb1.
    rewrite le_value_4 by exact Hbuf0.
    rewrite (pack_entries_spec es Hn16 Hes). fold data.
    rewrite <- Hb1. rewrite mem_write_buf by (rewrite Hm1; lia). fold cs2.
    rewrite scp_load by exact Happ.
    change (cs_buf cs1) with (cs_buf cs2) at 1.
    replace (cs_buf cs1) with (cs_buf cs2) by reflexivity.
    rewrite Hl.
    unfold alloc_item, lrte_load_arg2, lrte_load_arg3. rewrite Hdlen.
    replace (cs_buf cs2) with (cs_buf cs) by (unfold cs2; simpl; symmetry; exact Hb1).
    reflexivity.
  - split; [reflexivity|]. split; [eapply cassoc_cupd_same; exact Hc|].
    split; [intros c Hne; apply cassoc_cupd_other; exact Hne|].
    split; [exact Hbase1|]. split; [exact Hbase2|].
    split; [exact Hinst|]. split.
    + unfold cs2, set_bufmem in Hunch. simpl in Hunch. rewrite Hs1 in Hunch. exact Hunch.
    + split; [reflexivity|].
      unfold chip_ok, set_slots, cs2, set_bufmem. simpl.
      destruct Hunch as [Hl' _]. unfold cs2, set_bufmem in Hl'. simpl in Hl'.
      rewrite Hl', Hs1, Hb1, Hr1.
      assert (Hlenmem : len (data ++ skipn (length data) (cs_bufmem cs1)) = len (cs_bufmem cs)).
      { rewrite Hm1. unfold len. rewrite app_length, skipn_length.
        unfold len in Hbuf, Hdlen. lia. }
      rewrite Hlenmem.
      split; [exact Hlen|]. split.
      * pose proof (rtr_alloc_free_ok _ _ _ _ Hok Ha) as Hf. exact Hf.
      * destruct Hbuf0 as [? ?]. repeat split; assumption.
Qed.

(* ------------------------------------------------------------------------------------------------ *)
(** * get_routing_table_entries *)

Lemma render_slot_length : forall s, length (render_slot s) = 16%nat.
Proof. intros. unfold render_slot. rewrite !app_length, !le_bytes_length. reflexivity. Qed.

Lemma render_slots_length : forall l, length (render_slots l) = (16 * length l)%nat.
Proof.
  induction l as [|s l IH]; [reflexivity|].
  unfold render_slots in *. cbn [flat_map]. rewrite app_length, render_slot_length, IH. cbn [length]. lia.
Qed.

Lemma unpack_entry_16 : forall bs, length bs = 16%nat -> unpack_entry bs = Ok (decode_bytes bs).
Proof.
  intros bs H. unfold decode_bytes, unpack_entry.
  assert (E : negb (len bs =? rte_size) = false).
  { unfold len. rewrite H. reflexivity. }
  rewrite E. destruct (urte_unused _); reflexivity.
Qed.

Lemma unpack_all_render : forall l,
  unpack_all (map render_slot l) = Ok (map (fun s => decode_bytes (render_slot s)) l).
Proof.
  induction l as [|s l IH]; [reflexivity|].
  cbn [map unpack_all]. rewrite unpack_entry_16 by apply render_slot_length. rewrite IH. reflexivity.
Qed.

(* reading back: one decoded item per router entry, in order *)
Theorem read_back : forall m x y cs,
  cassoc (x, y) m = Some cs -> chip_ok cs ->
  get_routing_table_entries m x y
  = (Ok (map (fun s => decode_bytes (render_slot s)) (cs_slots cs)), readback_trace x y cs).
Proof.
  intros m x y cs Hc Hok.
  destruct Hok as [Hlen [_ [Hbuf0 [Hbuf1 [Hrc0 [Hrc1 Hdisj]]]]]].
  unfold get_routing_table_entries. rewrite Hc, read_rtr_copy_ptr.
  rewrite le_value_4 by lia.
  change (grte_read_len rte_size) with 16384.
  assert (Hrl : len (render_slots (cs_slots cs)) = 16384).
  { unfold len. rewrite render_slots_length, Hlen. reflexivity. }
  assert (Hm : mem_read cs (cs_rtr_copy cs) 16384 = Some (render_slots (cs_slots cs))).
  { unfold mem_read. change (16384 =? 4) with false. rewrite !andb_false_r.
    rewrite region_read_miss by (try lia; exact Hdisj).
    rewrite <- Hrl. apply region_read_all. }
  rewrite Hm.
  change (Z.to_nat rte_size) with 16%nat.
  unfold render_slots at 1 2. rewrite flat_map_concat_map.
  rewrite chunks_concat.
  - rewrite unpack_all_render. unfold readback_trace, render_slots. rewrite flat_map_concat_map. reflexivity.
  - lia.
  - apply Forall_forall. intros c Hin. apply in_map_iff in Hin. destruct Hin as [s [<- _]].
    apply render_slot_length.
  - rewrite <- flat_map_concat_map. fold (render_slots (cs_slots cs)).
    rewrite render_slots_length, map_length. lia.
Qed.

(* the decode of a slot that holds a given entry *)
Lemma decode_loaded : forall app_id e,
  entry_ok e -> 0 <= app_id < 256 ->
  read_back_of app_id e (decode_bytes (render_slot (slot_of app_id e))).
Proof.
  intros app_id e [Hr [Hk Hm]] Ha.
  pose proof (route_word_bound (e_route e) 24 ltac:(lia) Hr) as Hw.
  assert (Hw32 : 0 <= route_word (e_route e) < 2 ^ 32).
  { assert (2 ^ 24 < 2 ^ 32) by (apply Z.pow_lt_mono_r; lia). lia. }
  assert (F : forall s v, 0 <= v < 2 ^ (8 * s) -> fits s v = true).
  { intros s v Hv. unfold fits. apply andb_true_intro. split; [apply Z.leb_le|apply Z.ltb_lt]; lia. }
  assert (Hvals : unpack_fields rte_field_sizes (render_slot (slot_of app_id e))
                  = [0; app_id; route_word (e_route e); e_key e; e_mask e]).
  { apply unpack_pack_fields.
    - unfold rte_field_sizes. repeat constructor; lia.
    - unfold rte_field_sizes, render_slot, slot_of. cbn [sl_next sl_free sl_route sl_key sl_mask].
      rewrite <- (app_nil_r (le_bytes 4 (e_mask e))).
      change (le_bytes 2 0) with (le_bytes (Z.to_nat 2) 0).
      change (le_bytes 2 app_id) with (le_bytes (Z.to_nat 2) app_id).
      change (le_bytes 4 (route_word (e_route e))) with (le_bytes (Z.to_nat 4) (route_word (e_route e))).
      change (le_bytes 4 (e_key e)) with (le_bytes (Z.to_nat 4) (e_key e)).
      change (le_bytes 4 (e_mask e)) with (le_bytes (Z.to_nat 4) (e_mask e)).
      apply pack_fields_cons_ok; [apply F; change (2 ^ (8 * 2)) with 65536; lia|].
      apply pack_fields_cons_ok; [apply F; change (2 ^ (8 * 2)) with 65536; lia|].
      apply pack_fields_cons_ok; [apply F; change (8 * 4) with 32; lia|].
      apply pack_fields_cons_ok; [apply F; change (8 * 4) with 32; lia|].
      apply pack_fields_cons_ok; [apply F; change (8 * 4) with 32; lia|].
      reflexivity. }
  unfold decode_bytes, unpack_entry.
  assert (E : negb (len (render_slot (slot_of app_id e)) =? rte_size) = false).
  { unfold len. rewrite render_slot_length. reflexivity. }
  rewrite E, Hvals.
  change (nth urte_pos_free [0; app_id; route_word (e_route e); e_key e; e_mask e] 0) with app_id.
  change (nth urte_pos_route [0; app_id; route_word (e_route e); e_key e; e_mask e] 0)
    with (route_word (e_route e)).
  change (nth urte_pos_key [0; app_id; route_word (e_route e); e_key e; e_mask e] 0) with (e_key e).
  change (nth urte_pos_mask [0; app_id; route_word (e_route e); e_key e; e_mask e] 0) with (e_mask e).
  rewrite unused_small by exact Hw.
  exists (decode_word (route_word (e_route e))). split; [|split].
  - assert (E1 : urte_app_id app_id = app_id) by (unfold urte_app_id; apply land_small_255; exact Ha).
    assert (E2 : urte_core app_id = 0).
    { unfold urte_core. rewrite shr_small by (change (2 ^ 8) with 256; lia). reflexivity. }
    rewrite E1, E2. unfold decode_word. reflexivity.
  - destruct (decode_word_sorted (route_word (e_route e))) as [l [<- Hnd]]. exact Hnd.
  - apply decode_route_word. exact Hr.
Qed.

(* loading, then reading back *)
Theorem load_then_read : forall m es x y app_id cs cs1 base,
  cassoc (x, y) m = Some cs -> chip_ok cs ->
  Forall entry_ok es -> 0 <= app_id < 256 ->
  16 * len es <= len (cs_bufmem cs) ->
  rtr_alloc cs (len es) = (cs1, base) -> base <> 0 ->
  exists m' tr l tr',
    load_routing_table_entries m es x y app_id = (LOk, m', tr)
    /\ get_routing_table_entries m' x y = (Ok l, tr')
    /\ length l = 1024%nat
    /\ forall i e, nth_error es i = Some e ->
         exists got, nth_error l (Z.to_nat base + i) = Some got /\ read_back_of app_id e got.
Proof.
  intros m es x y app_id cs cs1 base Hc Hok Hes Happ Hbuf Ha Hb.
  destruct (load_success m es x y app_id cs cs1 base Hc Hok Hes Happ Hbuf Ha Hb)
    as [m' [cs' [data [Hload [_ [Hc' [_ [_ [_ [Hinst [_ [_ Hok']]]]]]]]]]]].
  exists m'. eexists. eexists. eexists.
  split; [exact Hload|]. split; [apply (read_back m' x y cs' Hc' Hok')|].
  split.
  - rewrite map_length. destruct Hok' as [Hl _]. exact Hl.
  - intros i e Hi.
    exists (decode_bytes (render_slot (slot_of app_id e))). split.
    + rewrite nth_error_map. rewrite (Hinst i e Hi). reflexivity.
    + apply decode_loaded; [|exact Happ].
      rewrite Forall_forall in Hes. apply Hes. eapply nth_error_In. exact Hi.
Qed.

(* ------------------------------------------------------------------------------------------------ *)
(** * load_routing_tables: one chip after the other *)

Lemma grantable_ext : forall m m1 c es,
  cassoc c m1 = cassoc c m -> grantable m c es -> grantable m1 c es.
Proof.
  intros m m1 c es E [cs [cs1 [base [H1 H]]]]. exists cs, cs1, base. rewrite E. split; [exact H1|exact H].
Qed.

Theorem load_tables_success : forall tables m app_id,
  NoDup (map fst tables) -> 0 <= app_id < 256 ->
  (forall c es, In (c, es) tables -> grantable m c es) ->
  exists m' tr,
    load_routing_tables m tables app_id = (LOk, m', tr)
    /\ (forall c es, In (c, es) tables -> table_installed m m' app_id c es)
    /\ (forall c, ~ In c (map fst tables) -> cassoc c m' = cassoc c m).
Proof.
  induction tables as [|[[x y] es] rest IH]; intros m app_id Hnd Happ Hall.
  - exists m, []. split; [reflexivity|]. split; [intros c es []|intros c _; reflexivity].
  - cbn [map fst] in Hnd. inversion Hnd as [|? ? Hnin Hnd']; subst.
    destruct (Hall (x, y) es (or_introl eq_refl)) as [cs [cs1 [base [Hc [Hok [Hes [Hbuf [Ha Hb]]]]]]]].
    destruct (load_success m es x y app_id cs cs1 base Hc Hok Hes Happ Hbuf Ha Hb)
      as [m1 [cs' [data [Hload [_ [Hc' [Hoth [_ [_ [Hinst [Hunch _]]]]]]]]]]].
    assert (Hrest : forall c es0, In (c, es0) rest -> grantable m1 c es0).
    { intros c es0 Hin. apply (grantable_ext m m1).
      - apply Hoth. intros ->. apply Hnin. apply in_map_iff. exists ((x, y), es0). split; [reflexivity|exact Hin].
      - apply Hall. right. exact Hin. }
    destruct (IH m1 app_id Hnd' Happ Hrest) as [m' [tr [Hl [Hinst' Hother']]]].
    eexists. eexists. split.
    + cbn [load_routing_tables fst snd]. rewrite Hload, Hl. reflexivity.
    + split.
      * intros c es0 [Heq|Hin].
        -- injection Heq as <- <-. exists cs, cs1, base, cs'.
           split; [exact Hc|]. split; [exact Ha|]. split; [exact Hb|].
           split; [rewrite (Hother' (x, y) Hnin); exact Hc'|]. split; assumption.
        -- destruct (Hinst' c es0 Hin) as [cs0 [cs01 [base0 [cs0' [G1 G]]]]].
           exists cs0, cs01, base0, cs0'. split; [|exact G].
           rewrite <- G1. symmetry. apply Hoth. intros ->. apply Hnin.
           apply in_map_iff. exists ((x, y), es0). split; [reflexivity|exact Hin].
      * intros c Hc2. cbn [map fst] in Hc2.
        rewrite Hother' by (intros H; apply Hc2; right; exact H).
        apply Hoth. intros ->. apply Hc2. left. reflexivity.
Qed.

(* the first chip whose allocation is refused ends the loop: the router error for that chip; the chips
   before it are loaded; that chip and every chip not before it are exactly as they were *)
Theorem load_tables_first_failure : forall pre m app_id x y es rest cs cs1,
  NoDup (map fst (pre ++ ((x, y), es) :: rest)) -> 0 <= app_id < 256 ->
  (forall c es0, In (c, es0) pre -> grantable m c es0) ->
  cassoc (x, y) m = Some cs -> chip_ok cs -> rtr_alloc cs (len es) = (cs1, 0) ->
  exists m' tr,
    load_routing_tables m (pre ++ ((x, y), es) :: rest) app_id = (LRouterError (len es) x y, m', tr)
    /\ (forall c es0, In (c, es0) pre -> table_installed m m' app_id c es0)
    /\ (forall c, ~ In c (map fst pre) -> cassoc c m' = cassoc c m).
Proof.
  induction pre as [|[[x0 y0] es0] pre IH]; intros m app_id x y es rest cs cs1 Hnd Happ Hall Hc Hok Ha.
  - destruct (load_alloc_failure m es x y app_id cs cs1 Hc Hok Ha) as [m' [Hl [Hc' Hoth]]].
    exists m'. eexists. split.
    + cbn [app load_routing_tables fst snd]. rewrite Hl. reflexivity.
    + split; [intros c es0 []|].
      intros c _. destruct (chip_eqb c (x, y)) eqn:E.
      * apply chip_eqb_eq in E. subst c. rewrite Hc', Hc. reflexivity.
      * apply Hoth. intros ->. rewrite chip_eqb_refl in E. discriminate.
  - cbn [app map fst] in Hnd. inversion Hnd as [|? ? Hnin Hnd']; subst.
    destruct (Hall (x0, y0) es0 (or_introl eq_refl)) as [cs0 [cs01 [base [Hc0 [Hok0 [Hes [Hbuf [Ha0 Hb]]]]]]]].
    destruct (load_success m es0 x0 y0 app_id cs0 cs01 base Hc0 Hok0 Hes Happ Hbuf Ha0 Hb)
      as [m1 [cs' [data [Hload [_ [Hc' [Hoth [_ [_ [Hinst [Hunch _]]]]]]]]]]].
    assert (Hne : (x, y) <> (x0, y0)).
    { intros E. apply Hnin. rewrite map_app, in_app_iff. right. left. cbn [fst]. exact E. }
    assert (Hpre : forall c es1, In (c, es1) pre -> grantable m1 c es1).
    { intros c es1 Hin. apply (grantable_ext m m1).
      - apply Hoth. intros ->. apply Hnin. rewrite map_app, in_app_iff. left.
        apply in_map_iff. exists ((x0, y0), es1). split; [reflexivity|exact Hin].
      - apply Hall. right. exact Hin. }
    assert (Hc1 : cassoc (x, y) m1 = Some cs) by (rewrite Hoth by exact Hne; exact Hc).
    destruct (IH m1 app_id x y es rest cs cs1 Hnd' Happ Hpre Hc1 Hok Ha) as [m' [tr [Hl [Hinst' Hother']]]].
    eexists. eexists. split.
    + cbn [app load_routing_tables fst snd]. rewrite Hload, Hl. reflexivity.
    + assert (Hx0 : ~ In (x0, y0) (map fst pre)).
      { intros H. apply Hnin. rewrite map_app, in_app_iff. left. exact H. }
      split.
      * intros c es1 [Heq|Hin].
        -- injection Heq as <- <-. exists cs0, cs01, base, cs'.
           split; [exact Hc0|]. split; [exact Ha0|]. split; [exact Hb|].
           split; [rewrite (Hother' (x0, y0) Hx0); exact Hc'|]. split; assumption.
        -- destruct (Hinst' c es1 Hin) as [d0 [d1 [b0 [d' [G1 G]]]]].
           exists d0, d1, b0, d'. split; [|exact G].
           rewrite <- G1. symmetry. apply Hoth. intros ->. apply Hx0.
           apply in_map_iff. exists ((x0, y0), es1). split; [reflexivity|exact Hin].
      * intros c Hc2. cbn [map fst] in Hc2.
        rewrite Hother' by (intros H; apply Hc2; right; exact H).
        apply Hoth. intros ->. apply Hc2. left. reflexivity.
Qed.
