"""Dumper of unit GenRouter (property C10).  Run under /venv/bin/python with PYTHONPATH=/repo.

Two kinds of content, both regenerated from the current /repo on every run:

  * expressions read with `ast` from the *source text* of
      MachineController.load_routing_tables / load_routing_table_entries / get_routing_table_entries
      and unpack_routing_table_entry                       (rig/machine_control/machine_controller.py)
    and translated by the expression translator of tools/py2v.py (the arguments of the allocation and
    router-load commands, the failure test, the route word accumulation, the offset and the values of
    every packed record, the decode masks and shifts).  The statements around them are matched one by
    one against the shape the hand-written model (coq/Model/Router.v) follows; any other shape raises
    (fail closed), which the check reports as the broken obligation translate:GenRouter.
  * live objects: RTE_PACK_STRING and the field sizes `struct` gives it, RTR_ENTRIES, the enum members
    the functions name, list(Routes), list(Links), Routes.opposite / Links.opposite / Routes.core as
    tables, the addresses of sv.sdram_sys and sv.rtr_copy in the default struct file.
"""
import ast
import copy
import importlib
import os
import struct
import sys
import warnings

warnings.simplefilter("ignore")       # stderr is merged into the generated text by the caller

sys.path.insert(0, os.path.dirname(os.path.abspath(__file__)))
import dumplib  # noqa: E402
import py2v  # noqa: E402

MC = "rig/machine_control/machine_controller.py"


class Shape(Exception):
    pass


def need(cond, node, what):
    if not cond:
        raise Shape("%s:%s: source no longer has the modelled shape: %s [%s]" % (
            MC, getattr(node, "lineno", "?"), what,
            ast.unparse(node)[:200] if isinstance(node, ast.AST) else node))


def strip_doc(body):
    body = list(body)
    if body and isinstance(body[0], ast.Expr) and isinstance(body[0].value, ast.Constant) \
            and isinstance(body[0].value.value, str):
        body = body[1:]
    return [s for s in body if not isinstance(s, ast.Pass)]


ENUMS_USED = {}          # "SCPCommands_alloc_free" -> value, filled while translating


class Subst(ast.NodeTransformer):
    """consts.<Enum>.<member> / <Enum>.<member> -> <Enum>_<member> (value taken from the live enum);
    consts.NAME -> NAME; entry.key -> key; entry.mask -> mask; len(entries) -> count."""

    def __init__(self, live):
        self.live = live

    def visit_Attribute(self, n):
        u = ast.unparse(n)
        parts = u.split(".")
        if parts[0] == "consts":
            parts = parts[1:]
        if len(parts) == 2 and parts[0] in ("SCPCommands", "AllocOperations", "RouterOperations"):
            cls = getattr(self.live, parts[0])
            need(parts[1] in cls.__members__, n, "member of " + parts[0])
            name = "%s_%s" % tuple(parts)
            ENUMS_USED[name] = int(cls[parts[1]])
            return ast.copy_location(ast.Name(id=name, ctx=ast.Load()), n)
        if u in ("consts.RTR_ENTRIES",):
            return ast.copy_location(ast.Name(id="RTR_ENTRIES", ctx=ast.Load()), n)
        if u in ("entry.key", "entry.mask"):
            return ast.copy_location(ast.Name(id=parts[1], ctx=ast.Load()), n)
        return self.generic_visit(n)

    def visit_Call(self, n):
        if ast.unparse(n) == "len(entries)":
            return ast.copy_location(ast.Name(id="count", ctx=ast.Load()), n)
        return self.generic_visit(n)


def tr(e, free, live, want="Z"):
    e = Subst(live).visit(copy.deepcopy(e))
    ast.fix_missing_locations(e)
    for n in ast.walk(e):
        if isinstance(n, ast.Name):
            need(n.id in free or n.id in ENUMS_USED or n.id == "RTR_ENTRIES", n,
                 "free name in a translated expression")
    f = py2v.Fn(None, dict(name=MC, ret="Z"), {})
    f.types = {v: "Z" for v in free}
    text, typ = f.expr(e)
    need(typ == want, e, "expression of type %s, expected %s" % (typ, want))
    return text


def defn(name, params, typ, body):
    return "Definition %s %s: %s :=\n  %s.\n" % (name, "".join("(%s : Z) " % p for p in params), typ, body)


def fmt_sizes(fmt):
    """Field sizes of a little-endian standard-size struct format of unsigned integers."""
    need(fmt[:1] == "<", fmt, "little-endian standard-size format")
    sizes, count = [], ""
    for ch in fmt[1:]:
        if ch.isdigit():
            count += ch
        elif ch == " ":
            need(count == "", fmt, "count followed by a space")
        elif ch in "BHI":
            sizes += [{"B": 1, "H": 2, "I": 4}[ch]] * (int(count) if count else 1)
            count = ""
        else:
            need(False, fmt, "format character %r" % ch)
    need(count == "" and sum(sizes) == struct.calcsize(fmt), fmt, "sizes add up to calcsize")
    return sizes


def call_args(n, func, nargs=None):
    need(isinstance(n, ast.Call) and ast.unparse(n.func) == func and not n.keywords, n, "call of " + func)
    if nargs is not None:
        need(len(n.args) == nargs, n, "%d arguments" % nargs)
    return list(n.args)


def main():
    spec = importlib.util.find_spec("rig")
    root = os.path.dirname(list(spec.submodule_search_locations)[0])
    with open(os.path.join(root, MC)) as f:
        tree = ast.parse(f.read())
    consts = importlib.import_module("rig.machine_control.consts")
    mcmod = importlib.import_module("rig.machine_control.machine_controller")
    rt = importlib.import_module("rig.routing_table")
    links = importlib.import_module("rig.links")
    out = []
    U = ast.unparse

    # ================================================================== load_routing_tables
    fn = py2v.find_function(tree, "MachineController.load_routing_tables")
    need([a.arg for a in fn.args.args] == ["self", "routing_tables", "app_id"], fn, "parameters")
    b = strip_doc(fn.body)
    need(len(b) == 1 and isinstance(b[0], ast.For) and not b[0].orelse
         and U(b[0].target) == "((x, y), table)" and U(b[0].iter) == "iteritems(routing_tables)"
         and len(b[0].body) == 1
         and U(b[0].body[0]) == "self.load_routing_table_entries(table, x=x, y=y, app_id=app_id)",
         fn, "for (x, y), table in iteritems(routing_tables): self.load_routing_table_entries(table, ...)")
    out.append("(* %s : load_routing_tables, line %d: one load_routing_table_entries per chip, in the "
               "order of the dictionary; shape checked *)" % (MC, fn.lineno))

    # ================================================================== load_routing_table_entries
    fn = py2v.find_function(tree, "MachineController.load_routing_table_entries")
    out.append("(* %s : load_routing_table_entries, line %d *)" % (MC, fn.lineno))
    need([a.arg for a in fn.args.args] == ["self", "entries", "x", "y", "app_id"], fn, "parameters")
    b = strip_doc(fn.body)
    need(len(b) == 9, fn, "nine statements")
    need(U(b[0]) == "count = len(entries)", b[0], "count = len(entries)")
    # allocation command
    need(isinstance(b[1], ast.Assign) and U(b[1].targets[0]) == "rv", b[1], "rv = self._send_scp(...)")
    a = call_args(b[1].value, "self._send_scp", 6)
    need([U(x) for x in a[:2]] == ["x", "y"], b[1], "allocation sent to (x, y)")
    fv = ["app_id", "count"]
    out.append(defn("lrte_alloc_p", [], "Z", tr(a[2], [], consts)))
    out.append(defn("lrte_alloc_cmd", [], "Z", tr(a[3], [], consts)))
    out.append(defn("lrte_alloc_arg1", fv, "Z", tr(a[4], fv, consts)))
    out.append(defn("lrte_alloc_arg2", fv, "Z", tr(a[5], fv, consts)))
    need(U(b[2]) == "rtr_base = rv.arg1", b[2], "rtr_base = rv.arg1")
    need(isinstance(b[3], ast.If) and not b[3].orelse and len(b[3].body) == 1
         and U(b[3].body[0]) == "raise SpiNNakerRouterError(count, x, y)", b[3],
         "if <test>: raise SpiNNakerRouterError(count, x, y)")
    out.append(defn("lrte_alloc_failed", ["rtr_base"], "bool", tr(b[3].test, ["rtr_base"], consts, "bool")))
    # staging buffer
    need(U(b[4]) == "buf = self.read_struct_field('sv', 'sdram_sys', x, y)", b[4],
         "buf = self.read_struct_field('sv', 'sdram_sys', x, y)")
    need(isinstance(b[5], ast.Assign) and U(b[5].targets[0]) == "data", b[5], "data = bytearray(...)")
    a = call_args(b[5].value, "bytearray", 1)
    out.append(defn("lrte_data_len", ["count"], "Z", tr(a[0], ["count"], consts)))
    # the packing loop
    lp = b[6]
    need(isinstance(lp, ast.For) and not lp.orelse and U(lp.target) == "(i, entry)"
         and U(lp.iter) == "enumerate(entries)" and len(lp.body) == 3, lp,
         "for i, entry in enumerate(entries): three statements")
    s0, s1, s2 = lp.body
    need(isinstance(s0, ast.Assign) and U(s0.targets[0]) == "route", s0, "route = <init>")
    out.append(defn("lrte_route_init", [], "Z", tr(s0.value, [], consts)))
    need(isinstance(s1, ast.For) and not s1.orelse and U(s1.target) == "r" and U(s1.iter) == "entry.route"
         and len(s1.body) == 1 and isinstance(s1.body[0], ast.AugAssign)
         and U(s1.body[0].target) == "route", s1, "for r in entry.route: route <op>= <expr>")
    step = ast.BinOp(left=ast.Name(id="route", ctx=ast.Load()), op=s1.body[0].op, right=s1.body[0].value)
    ast.copy_location(step, s1.body[0])
    out.append(defn("lrte_route_step", ["route", "r"], "Z", tr(step, ["route", "r"], consts)))
    need(isinstance(s2, ast.Expr), s2, "struct.pack_into(...)")
    a = call_args(s2.value, "struct.pack_into")
    need(len(a) >= 3 and U(a[0]) == "consts.RTE_PACK_STRING" and U(a[1]) == "data", s2,
         "struct.pack_into(consts.RTE_PACK_STRING, data, ...)")
    fv = ["i", "route", "key", "mask"]
    out.append(defn("lrte_rec_offset", ["i"], "Z", tr(a[2], ["i"], consts)))
    out.append(defn("lrte_rec_values", fv, "list Z",
                    "[" + "; ".join(tr(x, fv, consts) for x in a[3:]) + "]"))
    # write, then the router-load command
    need(U(b[7]) == "self.write(buf, data, x, y)", b[7], "self.write(buf, data, x, y)")
    need(isinstance(b[8], ast.Expr), b[8], "self._send_scp(...)")
    a = call_args(b[8].value, "self._send_scp", 7)
    need([U(x) for x in a[:2]] == ["x", "y"], b[8], "load sent to (x, y)")
    fv = ["count", "app_id", "buf", "rtr_base"]
    out.append(defn("lrte_load_p", [], "Z", tr(a[2], [], consts)))
    out.append(defn("lrte_load_cmd", [], "Z", tr(a[3], [], consts)))
    out.append(defn("lrte_load_arg1", fv, "Z", tr(a[4], fv, consts)))
    out.append(defn("lrte_load_arg2", fv, "Z", tr(a[5], fv, consts)))
    out.append(defn("lrte_load_arg3", fv, "Z", tr(a[6], fv, consts)))

    # ================================================================== get_routing_table_entries
    fn = py2v.find_function(tree, "MachineController.get_routing_table_entries")
    out.append("(* %s : get_routing_table_entries, line %d *)" % (MC, fn.lineno))
    need([a.arg for a in fn.args.args] == ["self", "x", "y"], fn, "parameters")
    b = strip_doc(fn.body)
    need(len(b) == 6, fn, "six statements")
    need(U(b[0]) == "rtr_addr = self.read_struct_field('sv', 'rtr_copy', x, y)", b[0],
         "rtr_addr = self.read_struct_field('sv', 'rtr_copy', x, y)")
    need(U(b[1]) == "read_size = struct.calcsize(consts.RTE_PACK_STRING)", b[1], "read_size = calcsize")
    need(isinstance(b[2], ast.Assign) and U(b[2].targets[0]) == "rtr_data", b[2], "rtr_data = self.read(...)")
    a = call_args(b[2].value, "self.read", 4)
    need(U(a[0]) == "rtr_addr" and [U(x) for x in a[2:]] == ["x", "y"], b[2], "self.read(rtr_addr, <n>, x, y)")
    out.append(defn("grte_read_len", ["read_size"], "Z", tr(a[1], ["read_size"], consts)))
    need(U(b[3]) == "table = list()", b[3], "table = list()")
    need(isinstance(b[4], ast.While) and not b[4].orelse and U(b[4].test) == "len(rtr_data) > 0"
         and len(b[4].body) == 2
         and U(b[4].body[0]) == "entry, rtr_data = (rtr_data[:read_size], rtr_data[read_size:])"
         and U(b[4].body[1]) == "table.append(unpack_routing_table_entry(entry))", b[4],
         "while len(rtr_data) > 0: split off read_size bytes; append unpack_routing_table_entry(entry)")
    need(U(b[5]) == "return table", b[5], "return table")

    # ================================================================== unpack_routing_table_entry
    fn = py2v.find_function(tree, "unpack_routing_table_entry")
    out.append("(* %s : unpack_routing_table_entry, line %d *)" % (MC, fn.lineno))
    need([a.arg for a in fn.args.args] == ["packed"], fn, "parameters")
    b = strip_doc(fn.body)
    need(len(b) == 7, fn, "seven statements")
    need(isinstance(b[0], ast.Assign) and isinstance(b[0].targets[0], ast.Tuple)
         and U(b[0].value) == "struct.unpack(consts.RTE_PACK_STRING, packed)", b[0],
         "<names> = struct.unpack(consts.RTE_PACK_STRING, packed)")
    names = [U(t) for t in b[0].targets[0].elts]
    need(sorted(n for n in names if n != "_") == ["free", "key", "mask", "route"] and len(names) == 5,
         b[0], "unpacked names _, free, route, key, mask in some order")
    for n in ("free", "route", "key", "mask"):
        out.append(defn("urte_pos_" + n, [], "nat", "%d%%nat" % names.index(n)))
    need(isinstance(b[1], ast.If) and not b[1].orelse and len(b[1].body) == 1
         and U(b[1].body[0]) == "return None", b[1], "if <unused test>: return None")
    out.append(defn("urte_unused", ["route"], "bool", tr(b[1].test, ["route"], consts, "bool")))
    need(isinstance(b[2], ast.Assign) and U(b[2].targets[0]) == "routes"
         and isinstance(b[2].value, ast.SetComp) and U(b[2].value.elt) == "r"
         and len(b[2].value.generators) == 1 and U(b[2].value.generators[0].target) == "r"
         and U(b[2].value.generators[0].iter) == "routing_table.Routes"
         and len(b[2].value.generators[0].ifs) == 1, b[2],
         "routes = {r for r in routing_table.Routes if <test>}")
    test = b[2].value.generators[0].ifs[0]
    f = py2v.Fn(None, dict(name=MC, ret="Z"), {})
    f.types = {"route": "Z", "r": "Z"}
    out.append(defn("urte_has_route", ["route", "r"], "bool", f.as_bool(test)))
    need(U(b[3]) == "rte = routing_table.RoutingTableEntry(routes, key, mask)", b[3],
         "rte = RoutingTableEntry(routes, key, mask)   (sources default to {None})")
    need(isinstance(b[4], ast.Assign) and U(b[4].targets[0]) == "app_id", b[4], "app_id = ...")
    out.append(defn("urte_app_id", ["free"], "Z", tr(b[4].value, ["free"], consts)))
    need(isinstance(b[5], ast.Assign) and U(b[5].targets[0]) == "core", b[5], "core = ...")
    out.append(defn("urte_core", ["free"], "Z", tr(b[5].value, ["free"], consts)))
    need(U(b[6]) == "return (rte, app_id, core)", b[6], "return (rte, app_id, core)")

    # ================================================================== live objects
    head = [dumplib.HEADER % "dump_c10.py"]
    head.append("(* live objects *)")
    for name in sorted(ENUMS_USED):
        head.append(dumplib.definition(name, "Z", dumplib.z(ENUMS_USED[name])))
    for name in ("read", "write"):
        head.append(dumplib.definition("SCPCommands_" + name, "Z", dumplib.z(consts.SCPCommands[name])))
    head.append(dumplib.definition("RTR_ENTRIES", "Z", dumplib.z(consts.RTR_ENTRIES)))
    head.append(dumplib.definition("RTE_PACK_STRING", "string", dumplib.string(consts.RTE_PACK_STRING)))
    head.append(dumplib.definition("rte_field_sizes", "list Z", dumplib.zlist(fmt_sizes(consts.RTE_PACK_STRING))))
    head.append(dumplib.definition("rte_size", "Z", dumplib.z(struct.calcsize(consts.RTE_PACK_STRING))))
    R, L = rt.Routes, links.Links
    head.append("(* list(Routes): the order in which `for r in Routes` iterates *)")
    head.append(dumplib.definition("Routes_values", "list Z", dumplib.zlist(list(R))))
    head.append(dumplib.definition("Links_values", "list Z", dumplib.zlist(list(L))))

    def opp(cls):
        rows = []
        for m in cls:
            try:
                rows.append(dumplib.pair(dumplib.z(m), dumplib.z(m.opposite)))
            except ValueError:
                pass
        return dumplib.lst(rows)
    head.append("(* <member>.opposite for every member that has one (Routes.opposite raises ValueError on cores) *)")
    head.append(dumplib.definition("Routes_opposite_tbl", "list (Z * Z)", opp(R)))
    head.append(dumplib.definition("Links_opposite_tbl", "list (Z * Z)", opp(L)))
    rows = []
    for n in range(-2, 40):
        try:
            rows.append(dumplib.pair(dumplib.z(n), dumplib.z(R.core(n))))
        except ValueError:
            pass
    head.append("(* Routes.core(n) for every n in -2..39 on which it does not raise ValueError *)")
    head.append(dumplib.definition("Routes_core_tbl", "list (Z * Z)", dumplib.lst(rows)))
    # default struct file: addresses of the two sv fields the functions read
    mc = mcmod.MachineController.__new__(mcmod.MachineController)
    import pkg_resources
    from rig.machine_control import struct_file
    mc.structs = struct_file.read_struct_file(pkg_resources.resource_string("rig", "boot/sark.struct"))
    for fld in ("sdram_sys", "rtr_copy"):
        field, address, pack_chars = mc._get_struct_field_and_address("sv", fld)
        need(field.length == 1 and pack_chars == b"<I", fld, "a single little-endian 32-bit word")
        head.append(dumplib.definition("sv_%s_addr" % fld, "Z", dumplib.z(address)))
    head.append(dumplib.definition("sv_field_size", "Z", dumplib.z(4)))
    head.append("(* expressions translated from the source text *)")
    sys.stdout.write("\n".join(head + out))


if __name__ == "__main__":
    try:
        main()
    except Shape as e:            # fail closed, with one clean line for the obligation's detail
        sys.stderr.write("Unsupported: %s\n" % e)
        sys.exit(2)
    except Exception as e:         # anything unforeseen is also a refusal, never a silent pass
        sys.stderr.write("Unsupported: %s: %s\n" % (type(e).__name__, e))
        sys.exit(2)
