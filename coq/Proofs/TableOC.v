(* Ordered covering, part 1: the loop invariant and its preservation by _Merge.apply for a merge that
   satisfies the up-check and down-check conditions. *)
From Coq Require Import ZArith List Bool Lia Arith.
Require Import Rig.Generated.GenTable.
Require Import Rig.Model.Base Rig.Model.Table Rig.Spec.Table.
Require Import Rig.Proofs.TableCheck Rig.Proofs.Table Rig.Proofs.TableBits Rig.Proofs.TableIns.
Import ListNotations.
Open Scope Z_scope.

(* ------------------------------------------------------------------------------------------------ *)
(** * Lists, positions, lookups *)

Lemma km_eqb_eq : forall a b : km, km_eqb a b = true <-> a = b.
Proof.
  intros [a1 a2] [b1 b2]. unfold km_eqb; simpl. rewrite andb_true_iff, !Z.eqb_eq.
  split; [intros [-> ->]; reflexivity | intros H; injection H as -> ->; split; reflexivity].
Qed.

Lemma km_eqb_refl : forall a, km_eqb a a = true.
Proof. intros a. apply km_eqb_eq. reflexivity. Qed.

Lemma nmem_In : forall x l, nmem x l = true <-> In x l.
Proof.
  intros x l. induction l as [| y l IH]; simpl; [split; [discriminate | intros []] |].
  rewrite orb_true_iff, Nat.eqb_eq, IH. split; intros [H | H]; auto.
Qed.

Lemma lookup_app : forall a b k,
  lookup (a ++ b) k = match lookup a k with Some e => Some e | None => lookup b k end.
Proof.
  intros a b k. unfold lookup. induction a as [| x a IH]; simpl; [reflexivity |].
  destruct (matches x k); [reflexivity | exact IH].
Qed.

(* the position of the first match *)
Lemma lookup_pos : forall t k e, lookup t k = Some e ->
  exists p, nth_error t p = Some e /\ matches e k = true
            /\ forall q x, (q < p)%nat -> nth_error t q = Some x -> matches x k = false.
Proof.
  unfold lookup. induction t as [| y t IH]; intros k e H; simpl in H; [discriminate |].
  destruct (matches y k) eqn:Hm.
  - injection H as <-. exists 0%nat. split; [reflexivity | split; [exact Hm |]]. intros q x Hq. lia.
  - destruct (IH k e H) as [p [Hp [Hme Hbefore]]]. exists (S p).
    split; [exact Hp | split; [exact Hme |]]. intros q x Hq Hx.
    destruct q as [| q']; simpl in Hx; [injection Hx as <-; exact Hm |].
    apply (Hbefore q' x); [lia | exact Hx].
Qed.

(* the entries of t (whose head has index i) whose index is not in E *)
Fixpoint keep (t : table) (i : nat) (E : list nat) : table :=
  match t with
  | [] => []
  | e :: r => (if nmem i E then [] else [e]) ++ keep r (S i) E
  end.

Lemma In_keep : forall t i E x,
  In x (keep t i E) -> exists q, nth_error t q = Some x /\ ~ In (i + q)%nat E.
Proof.
  induction t as [| e r IH]; intros i E x H; simpl in H; [destruct H |].
  apply in_app_or in H. destruct H as [H | H].
  - destruct (nmem i E) eqn:Hn; [destruct H |]. destruct H as [<- | []].
    exists 0%nat. split; [reflexivity |]. rewrite Nat.add_0_r. intro Hin. apply nmem_In in Hin. congruence.
  - destruct (IH (S i) E x H) as [q [Hq Hn]]. exists (S q). split; [exact Hq |].
    replace (i + S q)%nat with (S i + q)%nat by lia. exact Hn.
Qed.

Lemma keep_In : forall t i E x, In x (keep t i E) -> In x t.
Proof.
  intros t i E x H. destruct (In_keep t i E x H) as [q [Hq _]]. apply (nth_error_In _ _ Hq).
Qed.

Lemma keep_length : forall t i E, (length (keep t i E) <= length t)%nat.
Proof.
  induction t as [| e r IH]; intros i E; simpl; [lia |].
  rewrite app_length. specialize (IH (S i) E). destruct (nmem i E); simpl; lia.
Qed.

(* first match of a kept list *)
Lemma keep_lookup : forall t i E k p x,
  nth_error t p = Some x -> ~ In (i + p)%nat E -> matches x k = true ->
  (forall q y, (q < p)%nat -> nth_error t q = Some y -> matches y k = false) ->
  lookup (keep t i E) k = Some x.
Proof.
  induction t as [| e r IH]; intros i E k p x Hp Hn Hm Hbefore; [destruct p; discriminate |].
  cbn [keep]. rewrite lookup_app. destruct p as [| p'].
  - simpl in Hp. injection Hp as <-. rewrite Nat.add_0_r in Hn.
    destruct (nmem i E) eqn:Hmem; [apply nmem_In in Hmem; contradiction |].
    unfold lookup at 1. cbn [find]. rewrite Hm. reflexivity.
  - assert (He : matches e k = false) by (apply (Hbefore 0%nat e); [lia | reflexivity]).
    assert (Hhead : lookup (if nmem i E then [] else [e]) k = None).
    { destruct (nmem i E); unfold lookup; simpl; [reflexivity | rewrite He; reflexivity]. }
    rewrite Hhead. apply (IH (S i) E k p' x); try assumption.
    + replace (S i + p')%nat with (i + S p')%nat by lia. exact Hn.
    + intros q y Hq Hy. apply (Hbefore (S q) y); [lia | exact Hy].
Qed.

Lemma apply_table_split : forall t i ins E new,
  (i <= ins)%nat -> (ins <= i + length t)%nat ->
  apply_table t i ins E new =
  keep (firstn (ins - i) t) i E ++ [new] ++ keep (skipn (ins - i) t) ins E.
Proof.
  induction t as [| e r IH]; intros i ins E new Hlo Hhi; simpl in Hhi.
  - assert (ins = i) by lia. subst ins. simpl. rewrite Nat.eqb_refl. rewrite Nat.sub_diag. reflexivity.
  - simpl apply_table. destruct (Nat.eqb i ins) eqn:Heq.
    + apply Nat.eqb_eq in Heq. subst ins. rewrite Nat.sub_diag. simpl firstn. simpl skipn. simpl keep at 1.
      simpl app at 1.
      (* nothing further is inserted: the rest of the table is simply kept *)
      assert (Hrest : forall r' j, (i < j)%nat -> apply_table r' j i E new = keep r' j E).
      { induction r' as [| e' r'' IHr]; intros j Hj; simpl.
        - destruct (Nat.eqb i j) eqn:Hc; [apply Nat.eqb_eq in Hc; lia | reflexivity].
        - destruct (Nat.eqb j i) eqn:Hc; [apply Nat.eqb_eq in Hc; lia |]. simpl.
          rewrite IHr by lia. reflexivity. }
      rewrite (Hrest r (S i)) by lia. simpl. reflexivity.
    + apply Nat.eqb_neq in Heq. simpl app at 1.
      rewrite (IH (S i) ins E new) by lia.
      replace (ins - i)%nat with (S (ins - S i)) by lia. simpl firstn. simpl skipn. simpl keep.
      rewrite <- app_assoc. reflexivity.
Qed.

Lemma In_members : forall t idxs x,
  In x (members t idxs) <-> exists i, In i idxs /\ nth_error t i = Some x.
Proof.
  intros t idxs x. unfold members. rewrite in_flat_map. split.
  - intros [i [Hi Hx]]. exists i. split; [exact Hi |].
    destruct (nth_error t i) as [e |]; [destruct Hx as [<- | []]; reflexivity | destruct Hx].
  - intros [i [Hi Hx]]. exists i. split; [exact Hi |]. rewrite Hx. left. reflexivity.
Qed.

(* ------------------------------------------------------------------------------------------------ *)
(** * The aliases dictionary through _Merge.apply *)

(* the key-masks an entry of the table stands for *)
Definition al (A : aliases) (x : entry) : list km :=
  match alias_get (km_of x) A with Some s => s | None => [km_of x] end.

Lemma alias_get_remove_same : forall k A, alias_get k (alias_remove k A) = None.
Proof.
  intros k A. induction A as [| [k' v] A IH]; simpl; [reflexivity |].
  destruct (km_eqb k k') eqn:Hc; [exact IH |]. simpl. rewrite Hc. exact IH.
Qed.

Lemma alias_get_remove_other : forall k k' A, km_eqb k k' = false ->
  alias_get k (alias_remove k' A) = alias_get k A.
Proof.
  intros k k' A Hne. induction A as [| [k2 v] A IH]; simpl; [reflexivity |].
  destruct (km_eqb k' k2) eqn:Hc.
  - apply km_eqb_eq in Hc. subst k2. rewrite Hne. exact IH.
  - simpl. destruct (km_eqb k k2); [reflexivity | exact IH].
Qed.

Lemma alias_get_app : forall k A B,
  alias_get k (A ++ B) = match alias_get k A with Some v => Some v | None => alias_get k B end.
Proof.
  intros k A B. induction A as [| [k' v] A IH]; simpl; [reflexivity |].
  destruct (km_eqb k k'); [reflexivity | exact IH].
Qed.

Lemma km_mem_In : forall k s, km_mem k s = true <-> In k s.
Proof.
  intros k s. unfold km_mem. rewrite existsb_exists. split.
  - intros [x [Hx Hk]]. apply km_eqb_eq in Hk. subst x. exact Hx.
  - intros H. exists k. split; [exact H | apply km_eqb_refl].
Qed.

Lemma km_union_l : forall add s c, In c s -> In c (km_union s add).
Proof.
  unfold km_union. induction add as [| a add IH]; intros s c H; simpl; [exact H |].
  apply IH. destruct (km_mem a s); [exact H | apply in_or_app; left; exact H].
Qed.

Lemma km_union_r : forall add s c, In c add -> In c (km_union s add).
Proof.
  unfold km_union. induction add as [| a add IH]; intros s c H; simpl; [destruct H |].
  destruct H as [<- | H]; [| apply IH; exact H].
  apply (km_union_l add). destruct (km_mem a s) eqn:Hm; [apply km_mem_In; exact Hm |].
  apply in_or_app. right. left. reflexivity.
Qed.

(* the state of the walk over the merged entries in _Merge.apply *)
Definition alias_step (mkm : km) (st : aliases * list km * bool) (e : entry) : aliases * list km * bool :=
  let '(al, ours, live) := st in
  let k := km_of e in
  if km_eqb k mkm then
    (if (live : bool) then (al, ours, false) else (al, km_union ours [k], false))
  else match alias_get k al with
       | Some s => (alias_remove k al, km_union ours s, live)
       | None => (al, km_union ours [k], live)
       end.

Definition alias_inv (mkm : km) (A : aliases) (st : aliases * list km * bool) : Prop :=
  let '(a, ours, live) := st in
  alias_get mkm a = None
  /\ (forall kk, alias_get kk a = None \/ alias_get kk a = alias_get kk A)
  /\ (live = true -> forall kk s, km_eqb kk mkm = false -> alias_get kk a = None ->
                                  alias_get kk A = Some s -> incl s ours).

Lemma alias_step_inv : forall mkm A st e,
  alias_inv mkm A st -> alias_inv mkm A (alias_step mkm st e).
Proof.
  intros mkm A [[a ours] live] e [J1 [J2 J3]]. unfold alias_step.
  destruct (km_eqb (km_of e) mkm) eqn:Hk.
  - destruct live; (split; [exact J1 | split; [exact J2 | intros Hl; discriminate]]).
  - destruct (alias_get (km_of e) a) as [s |] eqn:Hg.
    + split; [| split].
      * destruct (km_eqb mkm (km_of e)) eqn:Hc.
        -- apply km_eqb_eq in Hc. rewrite <- Hc, km_eqb_refl in Hk. discriminate.
        -- rewrite alias_get_remove_other by exact Hc. exact J1.
      * intros kk. destruct (km_eqb kk (km_of e)) eqn:Hc.
        -- apply km_eqb_eq in Hc. subst kk. left. apply alias_get_remove_same.
        -- rewrite alias_get_remove_other by exact Hc. apply J2.
      * intros Hl kk s' Hne Hnone HA c Hc.
        destruct (km_eqb kk (km_of e)) eqn:Hkk.
        -- apply km_eqb_eq in Hkk. subst kk.
           destruct (J2 (km_of e)) as [Hx | Hx]; [congruence |].
           rewrite Hg in Hx. rewrite HA in Hx. injection Hx as ->.
           apply km_union_r. exact Hc.
        -- rewrite alias_get_remove_other in Hnone by exact Hkk.
           apply km_union_l. apply (J3 Hl kk s' Hne Hnone HA c Hc).
    + split; [exact J1 | split; [exact J2 |]].
      intros Hl kk s' Hne Hnone HA c Hc. apply km_union_l. apply (J3 Hl kk s' Hne Hnone HA c Hc).
Qed.

(* whatever an entry walked over stood for is in [ours] afterwards (while the record is live) *)
Definition alias_collected (mkm : km) (A : aliases) (st : aliases * list km * bool) (e : entry) : Prop :=
  let '(_, ours, live) := st in live = true -> incl (al A e) ours.

Lemma alias_step_collects : forall mkm A st e,
  alias_inv mkm A st -> alias_collected mkm A (alias_step mkm st e) e.
Proof.
  intros mkm A [[a ours] live] e [J1 [J2 J3]]. unfold alias_step, alias_collected.
  destruct (km_eqb (km_of e) mkm) eqn:Hk.
  - destruct live; intros Hl; discriminate.
  - unfold al. destruct (alias_get (km_of e) a) as [s |] eqn:Hg.
    + intros Hl c Hc. destruct (J2 (km_of e)) as [Hx | Hx]; [congruence |].
      rewrite <- Hx, Hg in Hc. apply km_union_r. exact Hc.
    + intros Hl c Hc. destruct (alias_get (km_of e) A) as [s |] eqn:HA.
      * apply km_union_l. apply (J3 Hl (km_of e) s Hk Hg HA c Hc).
      * apply km_union_r. exact Hc.
Qed.

Lemma alias_step_keeps_collected : forall mkm A st e e',
  alias_collected mkm A st e -> alias_collected mkm A (alias_step mkm st e') e.
Proof.
  intros mkm A [[a ours] live] e e' H. unfold alias_step, alias_collected in *.
  destruct (km_eqb (km_of e') mkm).
  - destruct live; intros Hl; discriminate.
  - destruct (alias_get (km_of e') a); intros Hl c Hc; apply km_union_l; apply (H Hl c Hc).
Qed.

Lemma alias_fold : forall mkm A es st,
  alias_inv mkm A st ->
  alias_inv mkm A (fold_left (alias_step mkm) es st)
  /\ (forall e, In e es -> alias_collected mkm A (fold_left (alias_step mkm) es st) e)
  /\ (forall e, alias_collected mkm A st e -> alias_collected mkm A (fold_left (alias_step mkm) es st) e).
Proof.
  intros mkm A es. induction es as [| x es IH]; intros st Hinv; simpl.
  - split; [exact Hinv | split; [intros e [] | intros e H; exact H]].
  - pose proof (alias_step_inv mkm A st x Hinv) as Hinv'.
    destruct (IH _ Hinv') as [H1 [H2 H3]].
    split; [exact H1 | split].
    + intros e [<- | He]; [| apply H2; exact He].
      apply H3. apply alias_step_collects. exact Hinv.
    + intros e He. apply H3. apply alias_step_keeps_collected. exact He.
Qed.
