UNITS = {
    # constants of boot.py, header / word formats of boot_packet, the parsed live `sv` struct of
    # rig/boot/sark.struct, the spinN presets, the default value of boot()'s sv_overrides parameter
    "GenBoot": dict(props=["C20", "C17"], dumper="dump_c20.py", args=["consts"]),
    # the bundled boot image rig/boot/scamp.boot, byte for byte
    # fail-closed ast shape of MachineController.__init__/.boot and of boot()'s file reads; the live
    # flag -> options table of rig-boot (rig/scripts/rig_boot.py)
    "GenBootCtrl": dict(props=["C20"], dumper="dump_c20w.py"),
    "GenBootImage": dict(props=["C20"], dumper="dump_c20.py", args=["image"]),
}
