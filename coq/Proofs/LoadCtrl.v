(* C09, the controller side, part 1: what the primitive operations of the controller model (send,
   scp_data_length, read, the struct reads) send and return, as facts about the machine. *)
From Coq Require Import ZArith List Bool Lia Sorted.
Require Import Rig.Generated.GenLoad Rig.Model.Base Rig.Model.Regions Rig.Spec.Regions Rig.Model.Load Rig.Spec.Load.
Require Import Rig.Proofs.LoadBits Rig.Proofs.LoadMachine.
Import ListNotations.
Open Scope Z_scope.

Ltac Zify.zify_post_hook ::= Z.to_euclidean_division_equations.

(* ---------------------------------------------------------------- send *)
(* w' is w after sending exactly qs *)
Definition extends (w w' : world) (qs : list pkt) : Prop :=
  sent w' = sent w ++ qs /\ w_m w' = fst (replay (w_m w) qs).

Lemma extends_refl : forall w, extends w w [].
Proof. intros w. split; [rewrite app_nil_r; reflexivity|reflexivity]. Qed.

Lemma extends_trans : forall w1 w2 w3 a b, extends w1 w2 a -> extends w2 w3 b -> extends w1 w3 (a ++ b).
Proof.
  intros w1 w2 w3 a b [Hs1 Hm1] [Hs2 Hm2]. split.
  - rewrite Hs2, Hs1, app_assoc. reflexivity.
  - rewrite Hm2, Hm1, replay_app. reflexivity.
Qed.

Lemma send_inv : forall w q w' r, send w q = Ok (w', r) ->
  extends w w' [q] /\ r = snd (mstep (w_m w) q) /\ r <> RError /\ w_m w' = fst (mstep (w_m w) q).
Proof.
  intros w q w' r H. unfold send in H. destruct (packable q); [|discriminate].
  destruct (mstep (w_m w) q) as [m1 r1] eqn:E.
  assert (Hr : r1 <> RError -> Ok (mkWorld m1 ((q, r1) :: w_log w), r1) = Ok (w', r) ->
               extends w w' [q] /\ r = r1 /\ r <> RError /\ w_m w' = m1).
  { intros Hne Heq. inversion Heq; subst. split; [split|repeat split; assumption].
    - unfold sent. cbn [w_log map rev fst]. reflexivity.
    - cbn [w_m replay]. rewrite E. reflexivity. }
  cbn [fst snd]. destruct r1; try discriminate; apply Hr; try exact H; discriminate.
Qed.

Lemma send__inv : forall w q w', send_ w q = Ok w' ->
  extends w w' [q] /\ w_m w' = fst (mstep (w_m w) q) /\ snd (mstep (w_m w) q) <> RError.
Proof.
  intros w q w' H. unfold send_ in H. apply bind_ok in H. destruct H as [[w1 r] [Hs Heq]].
  cbn [fst] in Heq. inversion Heq; subst. apply send_inv in Hs. destruct Hs as (He & Hr & Hne & Hm).
  repeat split; try apply He; try exact Hm. rewrite <- Hr. exact Hne.
Qed.

(* a reply other than RError means that the destination exists *)
Lemma mstep_dest : forall m q, snd (mstep m q) <> RError -> dest_chip m (q_x q) (q_y q) <> None.
Proof. intros m q H E. unfold mstep in H. rewrite E in H. apply H. reflexivity. Qed.

(* ---------------------------------------------------------------- sver / scp_data_length *)
Definition sver_pkt : pkt := mkPkt 255 255 0 SCPCommands_sver 0 0 0 [].

Lemma mstep_sver : forall m, mstep m sver_pkt =
  match hd_error (m_chips m) with Some _ => (m, RSver (m_buffer m)) | None => (m, RError) end.
Proof.
  intros m. unfold mstep, sver_pkt. cbn [q_x q_y q_cmd]. unfold dest_chip. cbn [Z.eqb Pos.eqb andb].
  destruct (hd_error (m_chips m)) as [[xy c]|]; reflexivity.
Qed.

(* the sver command is sent only while the cache is empty *)
Definition pre_of (c : ctrl) : list pkt := match c_buffer c with Some _ => [] | None => [sver_pkt] end.

Lemma get_buffer_inv : forall c w c1 w1 b,
  ctrl_wf c (w_m w) -> get_buffer c w = Ok (c1, w1, b) ->
  b = m_buffer (w_m w) /\ c_buffer c1 = Some b /\ c_nn c1 = c_nn c /\ w_m w1 = w_m w
  /\ extends w w1 (pre_of c).
Proof.
  intros c w c1 w1 b [Hnn Hb] H. unfold get_buffer in H. destruct (c_buffer c) as [b0|] eqn:Ec.
  - inversion H; subst. destruct Hb as [Hb|Hb]; [discriminate|]. inversion Hb; subst.
    repeat split; try assumption; try reflexivity; unfold pre_of; rewrite Ec; apply extends_refl.
  - apply bind_ok in H. destruct H as [[w2 r] [Hs H]]. fold sver_pkt in Hs.
    apply send_inv in Hs. destruct Hs as (He & Hr & Hne & Hm).
    rewrite mstep_sver in Hr, Hm. destruct (hd_error (m_chips (w_m w))); cbn [fst snd] in *; [|congruence].
    subst r. inversion H; subst. repeat split; try reflexivity; try assumption;
      unfold pre_of; rewrite Ec; apply He.
Qed.

Lemma ctrl_wf_buffer : forall c m b, ctrl_wf c m -> b = m_buffer m -> forall n, 0 <= n <= 126 ->
  ctrl_wf (mkCtrl n (Some b)) m.
Proof. intros c m b _ -> n Hn. split; [exact Hn|right; reflexivity]. Qed.

(* ---------------------------------------------------------------- read *)
Lemma mstep_read : forall m x y p a l dt,
  mstep m (mkPkt x y p SCPCommands_read a l dt []) =
  match dest_chip m x y with
  | None => (m, RError)
  | Some (xy, ch) => if l >? m_buffer m then (m, RError) else (m, RData (mread m (m_vcpu m xy) (ch_cores ch) a l))
  end.
Proof. intros. unfold mstep. cbn [q_x q_y q_cmd q_a1 q_a2]. destruct (dest_chip m x y) as [[xy ch]|]; reflexivity. Qed.

Lemma mread_length : forall m vb cs a l, zlen (mread m vb cs a l) = Z.max 0 l.
Proof. intros. unfold mread, zlen. rewrite map_length, seq_length. lia. Qed.

Lemma read_loop_done : forall fuel w x y p a buffer acc,
  read_loop fuel w x y p a 0 buffer acc = Ok (w, acc).
Proof. intros. destruct fuel; reflexivity. Qed.

(* a read that fits the buffer is one command; it leaves the machine alone and returns its memory *)
Lemma read_inv : forall c w x y p addr len c' w' d,
  ctrl_wf c (w_m w) -> 0 < len <= m_buffer (w_m w) ->
  read c w x y p addr len = Ok (c', w', d) ->
  w_m w' = w_m w /\ c_buffer c' = Some (m_buffer (w_m w)) /\ c_nn c' = c_nn c
  /\ (exists xy ch, dest_chip (w_m w) x y = Some (xy, ch) /\ d = mread (w_m w) (m_vcpu (w_m w) xy) (ch_cores ch) addr len)
  /\ (exists q, extends w w' (pre_of c ++ [q]) /\ is_read q /\ q_x q = x /\ q_y q = y).
Proof.
  intros c w x y p addr len c' w' d Hc Hlen H. unfold read in H.
  apply bind_ok in H. destruct H as [[[c1 w1] b] [Hg H]].
  apply get_buffer_inv in Hg; [|exact Hc]. destruct Hg as (Hb & Hcb & Hcn & Hm1 & Hext).
  destruct (b <=? 0) eqn:Eb; [apply Z.leb_le in Eb; lia|].
  apply bind_ok in H. destruct H as [[w2 d2] [Hl H]]. inversion H; subst c' w' d. clear H.
  cbn [read_loop] in Hl.
  destruct (len >? 0) eqn:El; [|rewrite Z.gtb_ltb in El; apply Z.ltb_ge in El; lia].
  rewrite Z.min_l in Hl by lia.
  destruct (dtype_lookup (addr mod 4, len mod 4) address_length_dtype) as [dt|]; [|discriminate].
  apply bind_ok in Hl. destruct Hl as [[w3 r] [Hs Hl]]. cbn [fst snd] in Hl.
  apply send_inv in Hs. destruct Hs as (He & Hr & Hne & Hm3).
  rewrite mstep_read in Hr, Hm3. rewrite Hm1 in Hr, Hm3.
  destruct (dest_chip (w_m w) x y) as [[xy ch]|] eqn:Ed; [|cbn [snd] in Hr; congruence].
  destruct (len >? m_buffer (w_m w)) eqn:Eg; [cbn [snd] in Hr; congruence|].
  cbn [fst snd] in Hr, Hm3. subst r.
  destruct (zlen (mread (w_m w) (m_vcpu (w_m w) xy) (ch_cores ch) addr len) =? len) eqn:Ez; [|discriminate].
  rewrite Z.sub_diag, read_loop_done in Hl. inversion Hl; subst w2 d2. cbn [app].
  split; [exact Hm3|]. split; [rewrite Hcb, Hb; reflexivity|]. split; [exact Hcn|]. split.
  - exists xy, ch. split; reflexivity.
  - exists (mkPkt x y p SCPCommands_read addr len dt []).
    split; [apply (extends_trans _ _ _ _ _ Hext He)|]. split; [reflexivity|]. split; reflexivity.
Qed.

(* ---------------------------------------------------------------- the memory the loader reads *)
Lemma of_le32_le32 : forall v, 0 <= v < 2 ^ 32 -> of_le32 (le32 v) = Some v.
Proof.
  intros v Hv. change (2 ^ 32) with 4294967296 in Hv. unfold le32, of_le32. f_equal. lia.
Qed.

Lemma seq4 : seq 0 (Z.to_nat 4) = [0; 1; 2; 3]%nat.
Proof. reflexivity. Qed.

Lemma mread_sdram_sys : forall m vb cs, mread m vb cs (sv_base + sv_sdram_sys_offset) 4 = le32 (m_base m).
Proof.
  intros m vb cs. unfold mread. rewrite seq4. cbn [map]. unfold mem_byte.
  change (sv_base + sv_sdram_sys_offset) with 4110450632.
  change (SV_BASE + SV_SDRAM_SYS) with 4110450632.
  cbn [Z.of_nat Z.add Pos.add Pos.succ Z.leb Z.ltb Z.compare Pos.compare Pos.compare_cont andb Pos.of_succ_nat].
  reflexivity.
Qed.

Lemma mread_vcpu_base : forall m vb cs, mread m vb cs (sv_base + sv_vcpu_base_offset) 4 = le32 vb.
Proof.
  intros m vb cs. unfold mread. rewrite seq4. cbn [map]. unfold mem_byte.
  change (sv_base + sv_vcpu_base_offset) with 4110450636.
  change (SV_BASE + SV_SDRAM_SYS) with 4110450632. change (SV_BASE + SV_VCPU_BASE) with 4110450636.
  cbn [Z.of_nat Z.add Pos.add Pos.succ Z.leb Z.ltb Z.compare Pos.compare Pos.compare_cont andb Pos.of_succ_nat].
  reflexivity.
Qed.

Lemma mread_cpu_state : forall m vb cs p,
  (vb + VCPU_SIZE * N_CORES <= SV_BASE \/ SV_BASE + 256 <= vb) -> 0 <= p < 18 ->
  mread m vb cs (vb + vcpu_size * p + vcpu_cpu_state_offset) vcpu_cpu_state_size =
  [match nth_error cs (Z.to_nat p) with Some c => cs_state c mod 256 | None => 0 end].
Proof.
  intros m vb cs p Hlay Hp. unfold mread. change (Z.to_nat vcpu_cpu_state_size) with 1%nat. cbn [seq map].
  f_equal. unfold mem_byte. unfold VCPU_SIZE, N_CORES, SV_BASE, SV_SDRAM_SYS, SV_VCPU_BASE in *.
  change vcpu_size with 128. change vcpu_cpu_state_offset with 46. cbn [Z.of_nat]. rewrite Z.add_0_r.
  destruct ((4110450432 + 200 <=? vb + 128 * p + 46) && (vb + 128 * p + 46 <? 4110450432 + 200 + 4)) eqn:E1.
  { apply andb_prop in E1. destruct E1 as [A B]. apply Z.leb_le in A. apply Z.ltb_lt in B. lia. }
  destruct ((4110450432 + 204 <=? vb + 128 * p + 46) && (vb + 128 * p + 46 <? 4110450432 + 204 + 4)) eqn:E2.
  { apply andb_prop in E2. destruct E2 as [A B]. apply Z.leb_le in A. apply Z.ltb_lt in B. lia. }
  destruct ((vb <=? vb + 128 * p + 46) && (vb + 128 * p + 46 <? vb + 128 * 18)) eqn:E3.
  - assert (Hq : (vb + 128 * p + 46 - vb) / 128 = p) by lia.
    assert (Hr : (vb + 128 * p + 46 - vb) mod 128 = 46) by lia.
    rewrite Hq, Hr. destruct (nth_error cs (Z.to_nat p)); reflexivity.
  - apply andb_false_iff in E3. destruct E3 as [A|A]; [apply Z.leb_gt in A|apply Z.ltb_ge in A]; lia.
Qed.

(* read_struct_field("sv", ..) / read_vcpu_struct_field("cpu_state", ..) *)
Lemma read_sv_word_inv : forall c w off x y c' w' v,
  ctrl_wf c (w_m w) -> 4 <= m_buffer (w_m w) ->
  read_sv_word c w off x y = Ok (c', w', v) ->
  w_m w' = w_m w /\ c_buffer c' = Some (m_buffer (w_m w)) /\ c_nn c' = c_nn c
  /\ (exists xy ch, dest_chip (w_m w) x y = Some (xy, ch) /\ of_le32 (mread (w_m w) (m_vcpu (w_m w) xy) (ch_cores ch) (sv_base + off) 4) = Some v)
  /\ (exists q, extends w w' (pre_of c ++ [q]) /\ is_read q /\ q_x q = x /\ q_y q = y).
Proof.
  intros c w off x y c' w' v Hc Hm H. unfold read_sv_word in H.
  apply bind_ok in H. destruct H as [[[c1 w1] d] [Hr H]]. cbn [fst snd] in H.
  apply read_inv in Hr; [|exact Hc|lia]. destruct Hr as (Hm1 & Hcb & Hcn & (xy & ch & Hd & Hdata) & Hq).
  destruct (of_le32 d) as [v0|] eqn:Ev; [|discriminate]. inversion H; subst.
  split; [exact Hm1|]. split; [exact Hcb|]. split; [exact Hcn|]. split; [|exact Hq].
  exists xy, ch. split; [exact Hd|exact Ev].
Qed.
