(* Completeness of assign_fields for flat bit fields, and the refutations of the general clause. *)
From Coq Require Import ZArith List Bool Lia.
Require Import Rig.Generated.GenBitField Rig.Model.Base Rig.Model.BitField Rig.Spec.BitField.
Require Import Rig.Proofs.BitFieldBits Rig.Proofs.BitFieldTree Rig.Proofs.BitFieldAssign
               Rig.Proofs.BitFieldAdd.
Import ListNotations.
Open Scope Z_scope.

Definition sumw (s : list field) (l : list (ident * nat)) : Z :=
  fold_right Z.add 0 (map (fun p => width_of s (snd p)) l).

(* the scan succeeds below any bound above which nothing is assigned *)
Lemma first_fit_succeeds a len h L :
  0 <= h -> 0 < len -> h + len <= L ->
  (forall k, Z.testbit a k = true -> k < h) ->
  exists b, first_fit (Z.to_nat (L - len + 1)) 0 a (Z.shiftl 1 len - 1) = Some b /\ 0 <= b <= h.
Proof.
  intros Hh Hlen HL Ha.
  assert (Hfree : Z.land a (Z.shiftl (Z.shiftl 1 len - 1) h) = 0).
  { rewrite scan_mask by lia. apply land_range_zero; try lia. intros k Hk.
    destruct (Z.testbit a k) eqn:E; [|reflexivity]. apply Ha in E. lia. }
  destruct (first_fit (Z.to_nat (L - len + 1)) 0 a (Z.shiftl 1 len - 1)) as [b|] eqn:Ef.
  - exists b. split; [reflexivity|]. pose proof (first_fit_spec _ _ _ _ _ Ef) as [Hb _].
    split; [lia|]. destruct (Z_le_gt_dec b h); [assumption|]. exfalso.
    apply (first_fit_lowest _ _ _ _ _ Ef h); [lia|exact Hfree].
  - exfalso. apply (first_fit_none _ _ _ _ Ef h); [|exact Hfree]. rewrite Z2Nat.id; lia.
Qed.

Lemma potential_bits_unpositioned s : forall pf acc,
  (forall i f, In (i, f) pf -> f_start (sget s f) = None) -> potential_bits s pf acc = Ok acc.
Proof.
  induction pf as [|[i f] pf IH]; intros acc H; simpl; [reflexivity|].
  rewrite (H i f (or_introl eq_refl)). destruct (f_len (sget s f)); apply IH; intros; eapply H; right; eauto.
Qed.

(* first pass: nothing has a position, nothing happens *)
Lemma assign_idents_nopos L orig t fv s : forall ids a,
  (forall i f, In (i, f) ids -> get_field t i fv = Some f /\ f_start (sget s f) = None) ->
  assign_idents L orig false t fv ids a s = (s, None).
Proof.
  induction ids as [|[i f] ids IH]; intros a H; simpl; [reflexivity|].
  destruct (H i f (or_introl eq_refl)) as [Hg Hs]. rewrite Hg, Hs.
  destruct (f_len (sget s f)); simpl; apply IH; intros; apply H; now right.
Qed.

Lemma width_of_pos t s e : LenMax t s -> In e (entries t) -> 0 < width_of s (e_fid e).
Proof.
  intros HM He. unfold width_of. destruct (HM _ He) as [M1 M2].
  destruct (f_len (sget s (e_fid e))) as [l|] eqn:El; [now apply M2|apply bitlen_pos].
Qed.

(* second pass over the fields of the only node of a flat bit field *)
Lemma assign_idents_flat L t : forall ids a s h,
  0 <= h -> (forall k, Z.testbit a k = true -> k < h) ->
  h + sumw s ids <= L ->
  NoDup (map snd ids) ->
  (forall i f, In (i, f) ids -> get_field t i [] = Some f /\ (f < length s)%nat
                                /\ f_start (sget s f) = None /\ 0 < width_of s f) ->
  exists s', assign_idents L false true t [] ids a s = (s', None).
Proof.
  induction ids as [|[i f] ids IH]; intros a s h Hh Ha Hsum Hnd Hids; simpl.
  - eauto.
  - destruct (Hids i f (or_introl eq_refl)) as [Hg [Hb [Hs Hw]]]. rewrite Hg, Hs.
    unfold sumw in Hsum. simpl in Hsum. fold (sumw s ids) in Hsum.
    assert (Hsumpos : 0 <= sumw s ids).
    { clear - Hids. assert (H : forall i f, In (i, f) ids -> 0 < width_of s f).
      { intros i0 f0 Hin. apply (Hids i0 f0). now right. }
      clear Hids. unfold sumw. induction ids as [|[i0 f0] ids IH]; simpl; [lia|].
      pose proof (H i0 f0 (or_introl eq_refl)). assert (0 <= fold_right Z.add 0 (map (fun p => width_of s (snd p)) ids)).
      { apply IH. intros; eapply H; right; eauto. } lia. }
    assert (Hstep : exists a' b, assign_field L false a (sget s f) = Ok (a', set_pos (sget s f) (width_of s f) b)
                                 /\ 0 <= b /\ (forall k, Z.testbit a' k = true -> k < h + width_of s f)).
    { unfold assign_field. rewrite Hs. fold (width_of s f).
      destruct (first_fit_succeeds a (width_of s f) h L Hh Hw ltac:(lia) Ha) as [b [Hf Hb01]].
      replace (L - width_of s f + 1) with (L - width_of s f + 1) by reflexivity.
      rewrite Hf. destruct (b + width_of s f <=? L) eqn:E; [|apply Z.leb_gt in E; lia].
      eexists. exists b. split; [reflexivity|]. split; [lia|].
      intros k Hk. rewrite Z.lor_spec in Hk. apply orb_true_iff in Hk. destruct Hk as [Hk|Hk].
      - apply Ha in Hk. lia.
      - rewrite scan_mask in Hk by lia. apply range_mask_bit in Hk; lia. }
    destruct Hstep as [a' [b [Ea [Hb0 Ha']]]].
    assert (Hcont : exists s', assign_idents L false true t [] ids a'
                                 (sset s f (set_pos (sget s f) (width_of s f) b)) = (s', None)).
    { inversion Hnd as [|? ? Hnot Hnd']; subst.
      apply (IH _ _ (h + width_of s f)); auto; try lia.
      - assert (E : sumw (sset s f (set_pos (sget s f) (width_of s f) b)) ids = sumw s ids).
        { unfold sumw. f_equal. apply map_ext_in. intros [i0 f0] Hin. simpl.
          unfold width_of. rewrite sget_sset_other; [reflexivity|].
          intros ->. apply Hnot. apply in_map_iff. exists (i0, f0). auto. }
        rewrite E. lia.
      - intros i0 f0 Hin. destruct (Hids i0 f0 (or_intror Hin)) as [G1 [G2 [G3 G4]]].
        assert (f <> f0). { intros ->. apply Hnot. apply in_map_iff. exists (i0, f0). auto. }
        rewrite length_sset. unfold width_of. rewrite sget_sset_other by assumption. auto. }
    destruct Hcont as [s' Hs'].
    destruct (f_len (sget s f)); simpl; rewrite Ea; eauto.
Qed.

(* assign_complete_flat: a bit field without sub-scopes in which nothing is positioned yet and whose
   fields' widths sum to at most the length is always laid out *)
Lemma assign_complete_flat st fs :
  Inv st -> s_tree st = Node fs [] ->
  unpositioned (s_tree st) (s_store st) ->
  widths_fit (s_len st) (s_tree st) (s_store st) ->
  exists st', assign_fields st = (st', None).
Proof.
  intros [W [HD [HR HM]]] Ht HU HW. unfold assign_fields, gen_scan_orig, assign_fields_gen. rewrite Ht in *.
  assert (Hent : forall i f, In (i, f) fs -> In ([], (i, f)) (entries (Node fs []))).
  { intros i f Hin. unfold entries. simpl. rewrite app_nil_r. apply in_map_iff. exists (i, f). auto. }
  assert (Hall : forall i f, In (i, f) fs -> In (i, f) (all_fields (Node fs []))).
  { intros i f Hin. apply all_fields_flat. eauto. }
  assert (Hget : forall i f, In (i, f) fs -> get_field (Node fs []) i [] = Some f).
  { intros i f Hin.
    destruct (enabled_get_field (Node fs []) i [] f) as [f' Hf'].
    { simpl. rewrite app_nil_r. exact Hin. }
    rewrite Hf'. f_equal. eapply wf_get_field; eauto. }
  assert (Hpot : potential_fields (Node fs []) [] = fs) by (simpl; apply app_nil_r).
  (* first pass *)
  assert (E1 : assign_nodes (s_len st) false false (Node fs []) (s_store st) (nodes_bfs (Node fs []))
               = (s_store st, None)).
  { unfold nodes_bfs. simpl. unfold assign_node. simpl fst. simpl snd. rewrite Hpot.
    rewrite potential_bits_unpositioned by (intros i f Hin; apply (HU i f); auto).
    rewrite assign_idents_nopos; [reflexivity|].
    intros i f Hin. split; [now apply Hget|apply (HU i f); auto]. }
  rewrite E1. simpl nodes_post. simpl assign_nodes. unfold assign_node. simpl fst. simpl snd. rewrite Hpot.
  rewrite potential_bits_unpositioned by (intros i f Hin; apply (HU i f); auto).
  destruct (assign_idents_flat (s_len st) (Node fs []) fs 0 (s_store st) 0) as [s' Hs']; try lia.
  - intros k Hk. rewrite Z.testbit_0_l in Hk. discriminate.
  - specialize (HW []). simpl in HW. rewrite app_nil_r in HW. unfold sumw. lia.
  - pose proof (wf_nodup _ _ W) as Hnd. unfold entries in Hnd. simpl in Hnd. rewrite app_nil_r in Hnd.
    rewrite map_map in Hnd. exact Hnd.
  - intros i f Hin. split; [now apply Hget|]. split; [apply (wf_bound _ _ W _ (Hent _ _ Hin))|].
    split; [apply (HU i f); auto|]. apply (width_of_pos _ _ _ HM (Hent _ _ Hin)).
  - rewrite Hs'. eauto.
Qed.
