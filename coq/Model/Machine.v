(* The environment of property C07: a SpiNNaker machine as seen through the memory commands of SC&MP /
   SARK (the documented command semantics; SC&MP itself is not verified, see DESIGN 3.6).  Definitions
   only.

   A machine is a byte-addressed memory per chip.  A command is executed by the chip it is addressed to
   (link commands act on the neighbour across the named link).  The *data-type rule*: `read` and `write`
   transfer floor(len / unit) units of 1, 2 or 4 bytes starting at the address with its low bits
   cleared (an ARM968 ignores them for a half-word / word access); the len mod unit bytes that remain are
   not transferred (a read returns 0 for them).  So a command is byte-exact only when its address and its
   length are multiples of its unit -- which is why the library has to choose the unit from the alignment
   of both.  A command longer than the machine's data buffer is refused (RC_ARG), as is an unknown data
   type; a write whose length argument differs from its payload length is refused (RC_LEN).  `fill`
   stores size / 4 copies of a little-endian word; link reads / writes are word transfers (unit 4) on the
   neighbouring chip.  The simulated machine of the harness (harness/sim_machine_c07.py) is written
   independently in Python; every reply it gives is re-checked against [exec] by [replay]. *)
From Coq Require Import ZArith List Bool.
Require Import Rig.Generated.GenMemOps Rig.Generated.GenSCP Rig.Model.Base.
Import ListNotations.
Open Scope Z_scope.

Definition memory := Z -> Z.               (* address -> byte *)
Definition machine := chip -> memory.

(* [0; 1; ...; n-1] (an accumulator in Z: evaluation stays linear) *)
Fixpoint zseq_from (start : Z) (n : nat) : list Z :=
  match n with
  | O => []
  | S k => start :: zseq_from (start + 1) k
  end.
Definition zseq (n : Z) : list Z := zseq_from 0 (Z.to_nat n).
Definition zlen {A} (l : list A) : Z := Z.of_nat (length l).

(* bytes per unit of a data type (consts.DataType, from the live enum) *)
Definition unit_of (dtype : Z) : option Z :=
  if dtype =? DataType_byte then Some 1
  else if dtype =? DataType_short then Some 2
  else if dtype =? DataType_word then Some 4
  else None.

Definition acc_base (addr u : Z) : Z := addr - addr mod u.
Definition acc_bytes (len u : Z) : Z := u * (len / u).

Definition mem_read (m : memory) (addr len u : Z) : list Z :=
  let base := acc_base addr u in
  let whole := acc_bytes len u in
  map (fun i => if i <? whole then m (base + i) else 0) (zseq len).

Definition mem_write (m : memory) (addr len u : Z) (data : list Z) : memory :=
  let base := acc_base addr u in
  let whole := acc_bytes len u in
  fun a => let i := a - base in
           if (0 <=? i) && (i <? whole) then nth (Z.to_nat i) data 0 else m a.

Definition word_byte (w k : Z) : Z := (w / 256 ^ k) mod 256.

Definition mem_fill (m : memory) (addr word size : Z) : memory :=
  let base := acc_base addr 4 in
  let whole := acc_bytes size 4 in
  fun a => let i := a - base in
           if (0 <=? i) && (i <? whole) then word_byte word (i mod 4) else m a.

Definition set_chip (M : machine) (c : chip) (m : memory) : machine :=
  fun c' => if chip_eqb c' c then m else M c'.

Inductive cmd :=
| CRead (addr len dtype : Z)
| CWrite (addr len dtype : Z) (data : list Z)
| CFill (addr word size : Z)
| CLinkRead (addr len link : Z)
| CLinkWrite (addr len link : Z) (data : list Z).

(* destination chip, destination core, command *)
Record request := { rq_chip : chip; rq_core : Z; rq_cmd : cmd }.

Inductive reply :=
| ROk (data : list Z)
| RErr (rc : Z).

(* [buffer]: the data-buffer size the machine advertises; [nbr c l]: the chip across link l of chip c *)
Definition exec (buffer : Z) (nbr : chip -> Z -> chip) (M : machine) (r : request) : machine * reply :=
  let c := rq_chip r in
  match rq_cmd r with
  | CRead addr len dtype =>
      match unit_of dtype with
      | None => (M, RErr rc_arg)
      | Some u => if len >? buffer then (M, RErr rc_arg)
                  else (M, ROk (mem_read (M c) addr len u))
      end
  | CWrite addr len dtype data =>
      match unit_of dtype with
      | None => (M, RErr rc_arg)
      | Some u => if len >? buffer then (M, RErr rc_arg)
                  else if negb (zlen data =? len) then (M, RErr rc_len)
                  else (set_chip M c (mem_write (M c) addr len u data), ROk [])
      end
  | CFill addr word size => (set_chip M c (mem_fill (M c) addr word size), ROk [])
  | CLinkRead addr len link =>
      if len >? buffer then (M, RErr rc_arg)
      else (M, ROk (mem_read (M (nbr c link)) addr len 4))
  | CLinkWrite addr len link data =>
      if len >? buffer then (M, RErr rc_arg)
      else if negb (zlen data =? len) then (M, RErr rc_len)
      else (set_chip M (nbr c link) (mem_write (M (nbr c link)) addr len 4 data), ROk [])
  end.

(* the machine executes a sequence of requests *)
Fixpoint exec_all (buffer : Z) (nbr : chip -> Z -> chip) (M : machine) (rs : list request) : machine :=
  match rs with
  | [] => M
  | r :: rs' => exec_all buffer nbr (fst (exec buffer nbr M r)) rs'
  end.

(* ---- trace validator: re-execute a recorded trace (request, reply the simulator gave) ---- *)
Fixpoint list_eqb (a b : list Z) : bool :=
  match a, b with
  | [], [] => true
  | x :: a', y :: b' => (x =? y) && list_eqb a' b'
  | _, _ => false
  end.

Definition reply_eqb (a b : reply) : bool :=
  match a, b with
  | ROk x, ROk y => list_eqb x y
  | RErr x, RErr y => x =? y
  | _, _ => false
  end.

(* returns the final machine and the number of replies that differ from the Gallina semantics *)
Fixpoint replay (buffer : Z) (nbr : chip -> Z -> chip) (M : machine) (tr : list (request * reply))
  : machine * Z :=
  match tr with
  | [] => (M, 0)
  | (r, rep) :: tr' =>
      let '(M', rep') := exec buffer nbr M r in
      let '(M'', bad) := replay buffer nbr M' tr' in
      (M'', (if reply_eqb rep rep' then 0 else 1) + bad)
  end.

(* ---- the memories the harness starts from: a pattern with sparse overrides; the torus of the harness ---- *)
Definition pattern_byte (seed : Z) (c : chip) (a : Z) : Z :=
  Z.land (Z.land a 255 * 167 + Z.land (Z.shiftr a 8) 255 * 91 + fst c * 59 + snd c * 101 + seed * 13) 255.

Definition pattern_machine (seed : Z) (over : list (chip * list (Z * Z))) : machine :=
  fun c a => match cassoc c over with
             | Some l => match zassoc a l with Some b => b | None => pattern_byte seed c a end
             | None => pattern_byte seed c a
             end.

Definition data_byte (seed i : Z) : Z := Z.land (i * 73 + Z.shiftr i 8 * 5 + seed * 29 + 11) 255.
Definition pattern_data (seed n : Z) : list Z := map (data_byte seed) (zseq n).

(* links 0..5 = E, NE, N, W, SW, S on a w x h torus *)
Definition torus_nbr (w h : Z) (c : chip) (l : Z) : chip :=
  let '(dx, dy) := if l =? 0 then (1, 0) else if l =? 1 then (1, 1) else if l =? 2 then (0, 1)
                   else if l =? 3 then (-1, 0) else if l =? 4 then (-1, -1) else (0, -1) in
  ((fst c + dx) mod w, (snd c + dy) mod h).

(* polynomial digest of a byte list (the harness computes the same in Python) *)
Definition digest (l : list Z) : Z :=
  fold_left (fun h b => Z.land (h * 257 + b + 1) 1073741823) l 0.

Definition probe (M : machine) (ps : list (chip * Z * Z)) : Z :=
  digest (flat_map (fun '(c, a, n) => map (fun i => M c (a + i)) (zseq n)) ps).
