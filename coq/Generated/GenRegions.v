(* translation of GenRegions failed: dumper failed: Unsupported: RegionCoreTree.add_core subregion: expression mentions ['int'], the model expects only ['x', 'y', 'shift']
 *)
