"""C01 driver: run rig's whole mapping pipeline (by hand or through either wrapper) on a problem spec and
report the final routing tables plus, per net, where its packets must end up."""
import random
import warnings

warnings.simplefilter("ignore")
import pnr_gen  # noqa: E402

DOCUMENTED = ("InsufficientResourceError", "InvalidConstraintError", "MachineHasDisconnectedSubregion",
              "MinimisationFailedError", "MultisourceRouteError")


def placer(name):
    from rig.place_and_route.place.sequential import place as seq
    from rig.place_and_route.place.hilbert import place as hb
    from rig.place_and_route.place.rcm import place as rcm
    from rig.place_and_route.place.breadth_first import place as bf
    from rig.place_and_route.place.rand import place as rd
    from rig.place_and_route.place.sa import place as sa
    from rig.place_and_route.place.sa.python_kernel import PythonKernel
    return {"sequential": (seq, {}), "hilbert": (hb, {}), "rcm": (rcm, {}), "breadth_first": (bf, {}),
            "rand": (rd, {"random": None}), "sa_c": (sa, {"effort": 0.05, "random": None}),
            "sa_py": (sa, {"effort": 0.05, "random": None, "kernel": PythonKernel})}[name]


def entry(e):
    route = 0
    for r in e.route:
        route |= 1 << int(r)
    src = 0
    for s in e.sources:
        src |= (1 << 24) if s is None else (1 << int(s))
    return [route, e.key, e.mask, src]


def system_info(machine, core_res=None):
    from rig.machine_control.machine_controller import SystemInfo, ChipInfo
    from rig.machine_control.consts import AppState
    from rig.place_and_route.machine import Cores, SDRAM, SRAM
    from rig.links import Links
    chips = {}
    for (x, y) in machine:
        res = machine[(x, y)]
        n = res[core_res if core_res is not None else Cores]
        chips[(x, y)] = ChipInfo(
            num_cores=n, core_states=[AppState.run] + [AppState.idle] * (n - 1) if n else [],
            working_links=set(l for l in Links if (x, y, l) in machine),
            largest_free_sdram_block=res[SDRAM], largest_free_sram_block=res.get(SRAM, 32768),
            largest_free_rtr_mc_block=1023, ethernet_up=(x, y) == (0, 0), ip_address="127.0.0.1",
            local_ethernet_chip=(0, 0))
    return SystemInfo(machine.width, machine.height, chips)


def run_case(c):
    from rig.place_and_route import allocate, route
    from rig.place_and_route.machine import Cores
    from rig.place_and_route.constraints import RouteEndpointConstraint, ReserveResourceConstraint
    from rig.routing_table import routing_tree_to_tables, minimise_tables
    from rig.routing_table import remove_default_routes, ordered_covering
    from rig.place_and_route.wrapper import wrapper as w_wrapper, place_and_route_wrapper as w_pnr
    machine, vres, nets, cons, net_keys = pnr_gen.build(c["problem"])
    core_res = Cores
    if c.get("custom_cores"):
        # the caller names its core resource itself: every stage must use the name it is given
        core_res = "my-cores"
        ren = lambda d: type(d)((core_res if k is Cores else k, v) for k, v in d.items())
        vres = type(vres)((v, ren(r)) for v, r in vres.items())
        machine.chip_resources = ren(machine.chip_resources)
        machine.chip_resource_exceptions = type(machine.chip_resource_exceptions)(
            (xy, ren(r)) for xy, r in machine.chip_resource_exceptions.items())
        for k in cons:
            if isinstance(k, ReserveResourceConstraint) and k.resource is Cores:
                k.resource = core_res
    random.seed(c["seed"])
    pf, kw = placer(c["placer"])
    if "random" in kw:
        kw = dict(kw, random=random.Random(c["seed"]))
    methods = [{"rd": remove_default_routes.minimise, "oc": ordered_covering.minimise}[m] for m in c["methods"]]
    stage = "?"
    try:
        if c["mode"] == "manual":
            stage = "place"
            pl = pf(vres, nets, machine, cons, **kw)
            stage = "allocate"
            # allocate and route read their constraints once: a caller may hand them a generator / filter object
            once = (lambda: (k for k in cons)) if c.get("oneshot") else (lambda: cons)
            al = allocate(vres, nets, machine, once(), pl)
            stage = "route"
            rt = route(vres, nets, machine, once(), pl, al, core_res, radius=c["radius"])
            stage = "tables"
            tb = routing_tree_to_tables(rt, net_keys)
            stage = "minimise"
            target = c["target"]
            if target == "dict":
                target = {chip: max(0, len(t) - 1) for chip, t in tb.items()}
            tables = minimise_tables(tb, target, methods) if methods else dict(tb)
        elif c["mode"] == "wrapper":
            stage = "wrapper"
            apps = {v: "app" for v in vres}
            pl, al, _, tables = w_wrapper(vres, apps, nets, net_keys, machine, cons, place=pf, place_kwargs=kw,
                                          route_kwargs={"radius": c["radius"]}, core_resource=core_res)
        else:
            stage = "place_and_route_wrapper"
            apps = {v: "app" for v in vres}
            # the SystemInfo describes the same machine; monitor cores are busy, which the wrapper reserves
            si = system_info(machine, core_res)
            cons2 = [k for k in cons if not (isinstance(k, ReserveResourceConstraint))]
            pl, al, _, tables = w_pnr(
                vres, apps, nets, net_keys, si, cons2, place=pf, place_kwargs=kw,
                route_kwargs={"radius": c["radius"]}, minimise_tables_methods=methods or (remove_default_routes.minimise,),
                core_resource=core_res)
    except Exception as e:
        name = type(e).__name__
        return dict(status="raised", exc=name, stage=stage, documented=name in DOCUMENTED, msg=str(e)[:200])
    # what the caller asked for, taken from the problem description itself (not from the constraint objects
    # handed to the library, which a defective stage might have altered)
    endpoint = {k[1]: int(k[2]) for k in c["problem"]["constraints"] if k[0] == "endpoint"}
    out_nets = []
    for n in nets:
        key, mask = net_keys[n]
        cores, links = set(), set()
        for s in n.sinks:
            x, y = pl[s]
            if s in endpoint:
                links.add((x, y, endpoint[s]))
            else:
                sl = al.get(s, {}).get(core_res)
                if sl is not None:
                    for core in range(sl.start, sl.stop):
                        cores.add((x, y, core))
        out_nets.append(dict(key=key, mask=mask, src=list(pl[n.source]), cores=sorted(map(list, cores)),
                             links=sorted(map(list, links))))
    return dict(status="ok", tables=[[x, y, [entry(e) for e in t]] for (x, y), t in sorted(tables.items())],
                nets=out_nets, placements=sorted([v, list(xy)] for v, xy in pl.items()))


if __name__ == "__main__":
    import implutil
    implutil.run_cases(run_case, per_case_s=60)
