"""Dumper of unit GenPackets (property C15): reads rig/machine_control/packets.py of the current
/repo with `ast` (the module is never imported or run) and prints, as Coq definitions,

  * the flag constants, every `struct` format string, the slice offsets (10, 4),
  * the eight header values handed to struct.pack by SDPPacket.bytestring, in the order written
    (expressions translated by tools/py2v.py: masks, shifts, the order of x and y),
  * the field expressions of _unpack_sdp_into_packet, in the order of the unpacked tuple,
  * the guards / steps of the unrolled argument loop of SCPPacket.from_bytestring.

The control *shape* of the five functions is matched statement by statement against the shape the
hand-written model (coq/Model/Packet.v) follows; any other shape raises (fail closed), which the check
reports as the broken obligation translate:GenPackets.
"""
import ast
import importlib.util
import os
import sys

sys.path.insert(0, os.path.dirname(os.path.abspath(__file__)))
import dumplib  # noqa: E402
import py2v  # noqa: E402

REL = "rig/machine_control/packets.py"
HEADER_FIELDS = ["reply_expected", "tag", "dest_port", "dest_cpu", "src_port", "src_cpu",
                 "dest_x", "dest_y", "src_x", "src_y"]          # canonical order used by the model


class Shape(Exception):
    pass


def need(cond, node, what):
    if not cond:
        raise Shape("%s:%s: source no longer has the modelled shape: %s [%s]" % (
            REL, getattr(node, "lineno", "?"), what,
            ast.dump(node)[:200] if isinstance(node, ast.AST) else node))


def strip_doc(body):
    body = list(body)
    if body and isinstance(body[0], ast.Expr) and isinstance(body[0].value, ast.Constant) \
            and isinstance(body[0].value.value, str):
        body = body[1:]
    return body


def is_name(n, name):
    return isinstance(n, ast.Name) and n.id == name


def is_attr(n, obj, attr=None):
    return isinstance(n, ast.Attribute) and is_name(n.value, obj) and (attr is None or n.attr == attr)


def struct_call(n, fn):
    """n is `struct.<fn>(FMT, args...)` -> (fmt, [args])"""
    need(isinstance(n, ast.Call) and is_attr(n.func, "struct", fn) and not n.keywords and n.args
         and isinstance(n.args[0], ast.Constant) and isinstance(n.args[0].value, str),
         n, "struct.%s with a literal format" % fn)
    return n.args[0].value, list(n.args[1:])


class Subst(ast.NodeTransformer):
    """obj.attr -> attr (so that py2v sees plain integer variables)"""

    def __init__(self, obj, allowed):
        self.obj, self.allowed = obj, allowed

    def visit_Attribute(self, n):
        if is_name(n.value, self.obj):
            need(n.attr in self.allowed, n, "use of an attribute the model does not know")
            return ast.copy_location(ast.Name(id=n.attr, ctx=ast.Load()), n)
        return self.generic_visit(n)


def translator(types):
    fn = py2v.Fn(None, dict(name=REL, ret="Z"), {})
    fn.types = dict(types)
    return fn


def zexpr(e, obj, allowed, types, consts):
    e = Subst(obj, allowed).visit(e)
    casts = set()
    for n in ast.walk(e):
        # int(<expr>) is the identity on the integer value the model speaks of (py2v translates it so); it is
        # how the source reduces a numpy integer scalar to a Python int before masking and shifting
        if isinstance(n, ast.Call) and is_name(n.func, "int") and len(n.args) == 1 and not n.keywords:
            casts.add(id(n.func))
    for n in ast.walk(e):
        if isinstance(n, ast.Name) and id(n) not in casts:
            need(n.id in allowed or n.id in consts, n, "free name in a translated expression")
    return translator(types).expr(e)


def main():
    spec = importlib.util.find_spec("rig")          # located through PYTHONPATH; not executed
    root = os.path.dirname(list(spec.submodule_search_locations)[0])
    with open(os.path.join(root, REL)) as f:
        tree = ast.parse(f.read())
    out = [dumplib.HEADER.replace("from the live objects of the current /repo",
                                   "from the source text (ast) of the current /repo") % "dump_c15.py",
           "(* source: %s *)" % REL]

    # ---------------------------------------------------------------- inventory: nothing that can hold state
    # module level: docstring, `import struct`, the two integer flag constants, the two classes, one function;
    # class level: docstring, __slots__ (a list of names), methods; no global / nonlocal anywhere.  Any other
    # binding (a shared buffer, a cache, a precompiled Struct, a class attribute) is refused.
    for n in strip_doc(tree.body):
        ok = (isinstance(n, ast.Import) and [a.name for a in n.names] == ["struct"] and n.names[0].asname is None) \
            or (isinstance(n, ast.Assign) and len(n.targets) == 1 and isinstance(n.targets[0], ast.Name)
                and n.targets[0].id in ("FLAG_REPLY", "FLAG_NO_REPLY")) \
            or (isinstance(n, ast.ClassDef) and n.name in ("SDPPacket", "SCPPacket") and not n.decorator_list
                and not n.keywords) \
            or (isinstance(n, ast.FunctionDef) and n.name == "_unpack_sdp_into_packet" and not n.decorator_list)
        need(ok, n, "module-level statement outside the modelled inventory (new module state?)")
    for c in tree.body:
        if isinstance(c, ast.ClassDef):
            for n in strip_doc(c.body):
                ok = isinstance(n, ast.FunctionDef) or (
                    isinstance(n, ast.Assign) and len(n.targets) == 1 and is_name(n.targets[0], "__slots__")
                    and isinstance(n.value, ast.List)
                    and all(isinstance(e, ast.Constant) and isinstance(e.value, str) for e in n.value.elts))
                need(ok, n, "class-level statement other than __slots__ and methods (class state?)")
    for n in ast.walk(tree):
        need(not isinstance(n, (ast.Global, ast.Nonlocal)), n, "global / nonlocal statement")
    slots = {c.name: [e.value for n in c.body if isinstance(n, ast.Assign) for e in n.value.elts]
             for c in tree.body if isinstance(c, ast.ClassDef)}
    need(slots.get("SDPPacket") == HEADER_FIELDS + ["data"], tree, "SDPPacket.__slots__ are the ten header fields and data")
    need(slots.get("SCPPacket") == ["cmd_rc", "seq", "arg1", "arg2", "arg3"], tree, "SCPPacket.__slots__")

    # ---------------------------------------------------------------- module constants
    consts = {}
    for n in tree.body:
        if isinstance(n, ast.Assign) and len(n.targets) == 1 and isinstance(n.targets[0], ast.Name):
            need(isinstance(n.value, ast.Constant) and isinstance(n.value.value, int)
                 and not isinstance(n.value.value, bool), n, "module constant is an int literal")
            consts[n.targets[0].id] = n.value.value
    need(set(consts) == {"FLAG_REPLY", "FLAG_NO_REPLY"}, tree, "module constants FLAG_REPLY, FLAG_NO_REPLY")
    for k in ("FLAG_REPLY", "FLAG_NO_REPLY"):
        out.append(dumplib.definition(k, "Z", dumplib.z(consts[k])))

    sdp = py2v.find_function(tree, "SDPPacket.bytestring")
    sdp_pd = py2v.find_function(tree, "SDPPacket.packed_data")
    scp_pd = py2v.find_function(tree, "SCPPacket.packed_data")
    scp_from = py2v.find_function(tree, "SCPPacket.from_bytestring")
    sdp_from = py2v.find_function(tree, "SDPPacket.from_bytestring")
    unpack = py2v.find_function(tree, "_unpack_sdp_into_packet")
    scp_cls = [n for n in tree.body if isinstance(n, ast.ClassDef) and n.name == "SCPPacket"][0]
    need([ast.unparse(b) for b in scp_cls.bases] == ["SDPPacket"], scp_cls, "SCPPacket(SDPPacket)")
    need(not any(isinstance(n, ast.FunctionDef) and n.name == "bytestring" for n in scp_cls.body),
         scp_cls, "SCPPacket inherits bytestring")

    def is_property(fn):
        return [ast.unparse(d) for d in fn.decorator_list] == ["property"]
    need(is_property(sdp) and is_property(sdp_pd) and is_property(scp_pd), sdp, "properties")

    # ---------------------------------------------------------------- SDPPacket.bytestring
    body = strip_doc(sdp.body)
    need(len(body) == 1 and isinstance(body[0], ast.Return) and isinstance(body[0].value, ast.BinOp)
         and isinstance(body[0].value.op, ast.Add) and is_attr(body[0].value.right, "self", "packed_data"),
         sdp, "return struct.pack(...) + self.packed_data")
    fmt, args = struct_call(body[0].value.left, "pack")
    types = {f: "Z" for f in HEADER_FIELDS}
    types["reply_expected"] = "bool"
    # are the port / core operands reduced with int(...) before masking and shifting?  (all four, or none)
    coerced = {}
    for a in args:
        inside = set()
        for n in ast.walk(a):
            if isinstance(n, ast.Call) and is_name(n.func, "int") and len(n.args) == 1 and not n.keywords \
                    and is_attr(n.args[0], "self"):
                inside.add(id(n.args[0]))
        for n in ast.walk(a):
            if is_attr(n, "self") and n.attr in ("dest_port", "dest_cpu", "src_port", "src_cpu"):
                need(n.attr not in coerced, n, "each port / core field used once")
                coerced[n.attr] = id(n) in inside
    need(len(coerced) == 4 and len(set(coerced.values())) == 1, sdp,
         "the four port / core operands are all int(...)-coerced or none is")
    vals = []
    for a in args:
        v, t = zexpr(a, "self", HEADER_FIELDS, types, consts)
        need(t == "Z", a, "header value is an integer expression")
        vals.append(v)
    out.append("(* SDPPacket.bytestring, line %d: struct.pack(sdp_header_fmt, *sdp_header_values) "
               "+ self.packed_data *)" % sdp.lineno)
    out.append(dumplib.definition("sdp_header_fmt", "string", dumplib.string(fmt)))
    out.append("(* the port and core operands are written int(self.<field>) in the source: %s *)" % coerced["dest_port"])
    out.append(dumplib.definition("sdp_port_operands_coerced", "bool", "true" if coerced["dest_port"] else "false"))
    out.append("Definition sdp_header_values (reply_expected : bool) (%s : Z) : list Z :=\n  [%s].\n"
               % (" ".join(HEADER_FIELDS[1:]), ";\n   ".join(vals)))

    # ---------------------------------------------------------------- SDPPacket.packed_data
    body = strip_doc(sdp_pd.body)
    need(len(body) == 1 and isinstance(body[0], ast.Return) and is_attr(body[0].value, "self", "data"),
         sdp_pd, "SDPPacket.packed_data returns self.data")

    # ---------------------------------------------------------------- SCPPacket.packed_data
    body = strip_doc(scp_pd.body)
    need(len(body) == 5, scp_pd, "five statements")
    need(isinstance(body[0], ast.Assign) and len(body[0].targets) == 1
         and is_name(body[0].targets[0], "scp_header"), body[0], "scp_header = struct.pack(...)")
    fmt, args = struct_call(body[0].value, "pack")
    need(len(args) == 2 and is_attr(args[0], "self", "cmd_rc") and is_attr(args[1], "self", "seq"),
         body[0], "struct.pack(fmt, self.cmd_rc, self.seq)")
    out.append("(* SCPPacket.packed_data, line %d: pack(scp_header_fmt, cmd_rc, seq), then each argument "
               "that is not None packed with its format, in the order arg1, arg2, arg3, then self.data *)"
               % scp_pd.lineno)
    out.append(dumplib.definition("scp_header_fmt", "string", dumplib.string(fmt)))
    for k in (1, 2, 3):
        s = body[k]
        arg = "arg%d" % k
        need(isinstance(s, ast.If) and not s.orelse and len(s.body) == 1
             and isinstance(s.test, ast.Compare) and is_attr(s.test.left, "self", arg)
             and len(s.test.ops) == 1 and isinstance(s.test.ops[0], ast.IsNot)
             and isinstance(s.test.comparators[0], ast.Constant) and s.test.comparators[0].value is None,
             s, "if self.%s is not None:" % arg)
        a = s.body[0]
        need(isinstance(a, ast.AugAssign) and is_name(a.target, "scp_header") and isinstance(a.op, ast.Add),
             a, "scp_header += struct.pack(...)")
        fmt, args = struct_call(a.value, "pack")
        need(len(args) == 1 and is_attr(args[0], "self", arg), a, "struct.pack(fmt, self.%s)" % arg)
        out.append(dumplib.definition("scp_pack_%s_fmt" % arg, "string", dumplib.string(fmt)))
    r = body[4]
    need(isinstance(r, ast.Return) and isinstance(r.value, ast.BinOp) and isinstance(r.value.op, ast.Add)
         and is_name(r.value.left, "scp_header") and is_attr(r.value.right, "self", "data"),
         r, "return scp_header + self.data")

    # ---------------------------------------------------------------- SDPPacket.from_bytestring
    body = strip_doc(sdp_from.body)
    need([ast.unparse(s) for s in body] == ["packet = cls()", "_unpack_sdp_into_packet(packet, bytestring)",
                                            "return packet"], sdp_from, "SDPPacket.from_bytestring body")

    # ---------------------------------------------------------------- _unpack_sdp_into_packet
    need([a.arg for a in unpack.args.args] == ["packet", "bytestring"], unpack, "parameters")
    body = strip_doc(unpack.body)
    s = body[0]
    need(isinstance(s, ast.Assign) and len(s.targets) == 1 and is_attr(s.targets[0], "packet", "data")
         and isinstance(s.value, ast.Subscript) and is_name(s.value.value, "bytestring")
         and isinstance(s.value.slice, ast.Slice) and s.value.slice.upper is None
         and s.value.slice.step is None and isinstance(s.value.slice.lower, ast.Constant)
         and isinstance(s.value.slice.lower.value, int), s, "packet.data = bytestring[N:]")
    out.append("(* _unpack_sdp_into_packet, line %d *)" % unpack.lineno)
    out.append(dumplib.definition("sdp_data_offset", "Z", dumplib.z(s.value.slice.lower.value)))
    s = body[1]
    need(isinstance(s, ast.Assign) and len(s.targets) == 1 and isinstance(s.targets[0], ast.Tuple),
         s, "(...) = struct.unpack_from(fmt, bytestring)")
    fmt, args = struct_call(s.value, "unpack_from")
    need(len(args) == 1 and is_name(args[0], "bytestring"), s, "unpack_from(fmt, bytestring)")
    out.append(dumplib.definition("sdp_unpack_fmt", "string", dumplib.string(fmt)))
    params, direct, local = [], {}, []
    for t in s.targets[0].elts:
        if isinstance(t, ast.Name):
            need(t.id not in params and t.id not in HEADER_FIELDS, t, "fresh local name")
            params.append(t.id)
            local.append(t.id)
        else:
            need(is_attr(t, "packet") and t.attr in HEADER_FIELDS and t.attr not in direct, t,
                 "unpack target is a local or a header field of packet")
            params.append("w_" + t.attr)
            direct[t.attr] = "w_" + t.attr
    exprs = dict(direct)
    for s in body[2:]:
        need(isinstance(s, ast.Assign) and len(s.targets) == 1 and is_attr(s.targets[0], "packet")
             and s.targets[0].attr in HEADER_FIELDS and s.targets[0].attr not in exprs, s,
             "packet.<field> = <expression of the unpacked values>, each field once")
        v, t = zexpr(s.value, "packet", [], {}, dict(consts, **{n: 0 for n in local}))
        f = s.targets[0].attr
        need(t == ("bool" if f == "reply_expected" else "Z"), s, "type of the field")
        exprs[f] = v
    need(sorted(exprs) == sorted(HEADER_FIELDS), unpack, "every header field assigned exactly once")
    out.append("(* the unpacked values in wire order -> the fields (%s) *)" % ", ".join(HEADER_FIELDS))
    out.append("Definition sdp_decode_fields (%s : Z) :=\n  (%s).\n" % (
        " ".join(py2v.ident(p) for p in params), ",\n   ".join(exprs[f] for f in HEADER_FIELDS)))
    out.append(dumplib.definition("sdp_unpack_arity", "nat", "%d%%nat" % len(params)))

    # ---------------------------------------------------------------- SCPPacket.from_bytestring
    a = scp_from.args
    need([x.arg for x in a.args] == ["cls", "scp_packet", "n_args"] and len(a.defaults) == 1
         and isinstance(a.defaults[0], ast.Constant) and isinstance(a.defaults[0].value, int),
         scp_from, "from_bytestring(cls, scp_packet, n_args=<int>)")
    out.append("(* SCPPacket.from_bytestring, line %d *)" % scp_from.lineno)
    out.append(dumplib.definition("scp_default_n_args", "Z", dumplib.z(a.defaults[0].value)))
    body = strip_doc(scp_from.body)
    need(len(body) == 9, scp_from, "nine statements")
    need([ast.unparse(s) for s in body[:2]] == ["packet = cls()", "_unpack_sdp_into_packet(packet, scp_packet)"],
         scp_from, "packet = cls(); _unpack_sdp_into_packet(packet, scp_packet)")
    s = body[2]
    need(isinstance(s, ast.Assign) and len(s.targets) == 1 and is_name(s.targets[0], "data")
         and isinstance(s.value, ast.Subscript) and is_attr(s.value.value, "packet", "data")
         and isinstance(s.value.slice, ast.Slice) and s.value.slice.upper is None
         and s.value.slice.step is None and isinstance(s.value.slice.lower, ast.Constant)
         and isinstance(s.value.slice.lower.value, int), s, "data = packet.data[N:]")
    out.append(dumplib.definition("scp_args_offset", "Z", dumplib.z(s.value.slice.lower.value)))
    s = body[3]
    need(isinstance(s, ast.Assign) and len(s.targets) == 1 and isinstance(s.targets[0], ast.Tuple)
         and len(s.targets[0].elts) == 2 and is_attr(s.targets[0].elts[0], "packet", "cmd_rc")
         and is_attr(s.targets[0].elts[1], "packet", "seq"), s, "packet.cmd_rc, packet.seq = ...")
    fmt, args = struct_call(s.value, "unpack_from")
    need(len(args) == 1 and is_attr(args[0], "packet", "data"), s, "unpack_from(fmt, packet.data)")
    out.append(dumplib.definition("scp_unpack_header_fmt", "string", dumplib.string(fmt)))
    need([ast.unparse(s) for s in body[4:6]] == ["data_len = len(data)", "offset = 0"], body[4],
         "data_len = len(data); offset = 0")
    need([ast.unparse(s) for s in body[7:]] == ["packet.data = data[offset:]", "return packet"], body[7],
         "packet.data = data[offset:]; return packet")
    level = body[6]
    for k in (1, 2, 3):
        arg = "arg%d" % k
        need(isinstance(level, ast.If) and not level.orelse and len(level.body) == (3 if k < 3 else 2),
             level, "if <guard>: unpack %s; offset += step%s" % (arg, "; nested if" if k < 3 else ""))
        g, t = zexpr(level.test, "packet", [], {}, {"n_args": 0, "data_len": 0})
        need(t == "bool", level.test, "boolean guard")
        for n in ast.walk(level.test):
            need(not isinstance(n, ast.Name) or n.id in ("n_args", "data_len"), n, "guard over n_args, data_len")
        u = level.body[0]
        need(isinstance(u, ast.Assign) and len(u.targets) == 1 and isinstance(u.targets[0], ast.Tuple)
             and len(u.targets[0].elts) == 1 and is_attr(u.targets[0].elts[0], "packet", arg), u,
             "packet.%s, = struct.unpack_from(...)" % arg)
        fmt, args = struct_call(u.value, "unpack_from")
        need(len(args) == 2 and is_name(args[0], "data") and is_name(args[1], "offset"), u,
             "unpack_from(fmt, data, offset)")
        inc = level.body[1]
        need(isinstance(inc, ast.AugAssign) and is_name(inc.target, "offset") and isinstance(inc.op, ast.Add)
             and isinstance(inc.value, ast.Constant) and isinstance(inc.value.value, int)
             and not isinstance(inc.value.value, bool), inc, "offset += <int>")
        out.append("Definition scp_take_%s (n_args data_len : Z) : bool :=\n  %s.\n" % (arg, g))
        out.append(dumplib.definition("scp_unpack_%s_fmt" % arg, "string", dumplib.string(fmt)))
        out.append(dumplib.definition("scp_%s_step" % arg, "Z", dumplib.z(inc.value.value)))
        if k < 3:
            level = level.body[2]
    sys.stdout.write("\n".join(out))


if __name__ == "__main__":
    try:
        main()
    except (Shape, py2v.Unsupported) as e:
        sys.stderr.write("dump_c15: %s\n" % e)
        sys.stdout.write("dump_c15 failed (fail closed): %s\n" % e)
        sys.exit(1)
