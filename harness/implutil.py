"""Helpers for implementation drivers (run under /venv/bin/python with PYTHONPATH=/repo:/verif/harness)."""
import json
import signal
import sys
import warnings


class Hang(BaseException):
    pass


def _alarm(signum, frame):
    raise Hang()


def run_cases(fn, per_case_s=5):
    """Read a JSON list of cases from stdin, apply fn to each under a per-case limit and write the JSON
    list of results.  A case that does not finish yields ["hang"].  The limit is per_case_s seconds of this
    process's CPU time (a busy machine must not turn a slow case into a "hang"), backed by a wall-clock alarm
    of 20 x per_case_s (at least 120 s) for a call that blocks without using the processor."""
    warnings.simplefilter("ignore")
    cases = json.load(sys.stdin)
    signal.signal(signal.SIGALRM, _alarm)
    signal.signal(signal.SIGPROF, _alarm)
    out = []
    hangs = 0
    for c in cases:
        if hangs >= 3:                 # enough evidence; do not spend minutes on the rest
            out.append(["skipped"])
            continue
        signal.setitimer(signal.ITIMER_PROF, per_case_s)
        signal.alarm(max(120, 20 * int(per_case_s)))
        try:
            out.append(fn(c))
        except Hang:
            hangs += 1
            out.append(["hang"])
        finally:
            signal.setitimer(signal.ITIMER_PROF, 0)
            signal.alarm(0)
    json.dump(out, sys.stdout)
