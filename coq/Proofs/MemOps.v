(* C07: list and memory lemmas -- zseq, ranges, slices, the result-buffer splice, one command against the
   machine. *)
From Coq Require Import ZArith List Bool Lia.
Require Import Rig.Generated.GenMemOps Rig.Generated.GenSCP Rig.Model.Base Rig.Model.Machine Rig.Model.MemOps
  Rig.Spec.MemOps Rig.Proofs.MemOpsArith.
Import ListNotations.
Open Scope Z_scope.

(* ------------------------------------------------------------------ chips *)
Lemma chip_eqb_eq : forall a b : chip, chip_eqb a b = true <-> a = b.
Proof.
  intros [a1 a2] [b1 b2]. unfold chip_eqb. simpl. rewrite andb_true_iff, !Z.eqb_eq.
  split; [intros [-> ->]; reflexivity | intros H; inversion H; auto].
Qed.

Lemma chip_eqb_refl : forall a : chip, chip_eqb a a = true.
Proof. intros. apply chip_eqb_eq. reflexivity. Qed.

Lemma chip_eqb_neq : forall a b : chip, a <> b -> chip_eqb a b = false.
Proof.
  intros a b H. destruct (chip_eqb a b) eqn:E; [|reflexivity]. apply chip_eqb_eq in E. contradiction.
Qed.

(* ------------------------------------------------------------------ nth of firstn / skipn / repeat *)
Lemma nth_firstn_lt : forall (A : Type) (l : list A) (n i : nat) (d : A),
  (i < n)%nat -> nth i (firstn n l) d = nth i l d.
Proof.
  intros A l. induction l as [|x l IH]; intros n i d H.
  - rewrite firstn_nil. reflexivity.
  - destruct n as [|n]; [lia|]. destruct i as [|i]; simpl; [reflexivity|]. apply IH. lia.
Qed.

Lemma nth_skipn_add : forall (A : Type) (l : list A) (n i : nat) (d : A),
  nth i (skipn n l) d = nth (n + i) l d.
Proof.
  intros A l. induction l as [|x l IH]; intros n i d.
  - rewrite skipn_nil. destruct i; destruct n; reflexivity.
  - destruct n as [|n]; simpl; [reflexivity|]. apply IH.
Qed.

Lemma nth_repeat_any : forall (A : Type) (x : A) (n i : nat), nth i (repeat x n) x = x.
Proof.
  intros A x n. induction n as [|n IH]; intros i; destruct i; simpl; auto.
Qed.

Lemma zlen_nonneg : forall (A : Type) (l : list A), 0 <= zlen l.
Proof. intros. unfold zlen. lia. Qed.

Lemma zlen_app : forall (A : Type) (a b : list A), zlen (a ++ b) = zlen a + zlen b.
Proof. intros. unfold zlen. rewrite app_length. lia. Qed.

Lemma zlen_repeat : forall (A : Type) (x : A) n, zlen (repeat x n) = Z.of_nat n.
Proof. intros. unfold zlen. rewrite repeat_length. reflexivity. Qed.

(* ------------------------------------------------------------------ zseq *)
Lemma zseq_from_length : forall n s, length (zseq_from s n) = n.
Proof. induction n as [|n IH]; intros s; simpl; [reflexivity|]. rewrite IH. reflexivity. Qed.

Lemma zseq_from_nth : forall n s i d, (i < n)%nat -> nth i (zseq_from s n) d = s + Z.of_nat i.
Proof.
  induction n as [|n IH]; intros s i d H; [lia|].
  destruct i as [|i]; simpl zseq_from; simpl nth.
  - lia.
  - rewrite IH by lia. lia.
Qed.

Lemma zseq_from_in : forall n s x, In x (zseq_from s n) -> s <= x < s + Z.of_nat n.
Proof.
  induction n as [|n IH]; intros s x H; simpl in H; [contradiction|].
  destruct H as [H | H]; [lia|]. apply IH in H. lia.
Qed.

Lemma zseq_length : forall n, length (zseq n) = Z.to_nat n.
Proof. intros. unfold zseq. apply zseq_from_length. Qed.

Lemma zseq_in : forall n x, In x (zseq n) -> 0 <= x < n.
Proof. intros n x H. unfold zseq in H. apply zseq_from_in in H. lia. Qed.

Lemma zseq_nth : forall n i d, (i < Z.to_nat n)%nat -> nth i (zseq n) d = Z.of_nat i.
Proof. intros. unfold zseq. rewrite zseq_from_nth by assumption. lia. Qed.

(* ------------------------------------------------------------------ ranges of memory *)
Lemma mem_range_length : forall m a n, length (mem_range m a n) = Z.to_nat n.
Proof. intros. unfold mem_range. rewrite map_length. apply zseq_length. Qed.

Lemma zlen_mem_range : forall m a n, 0 <= n -> zlen (mem_range m a n) = n.
Proof. intros. unfold zlen. rewrite mem_range_length. lia. Qed.

Lemma mem_range_nth : forall m a n i, 0 <= i < n -> nth (Z.to_nat i) (mem_range m a n) 0 = m (a + i).
Proof.
  intros m a n i H. unfold mem_range. set (f := fun j => m (a + j)).
  rewrite nth_indep with (d' := f 0) by (rewrite map_length, zseq_length; lia).
  rewrite map_nth. rewrite zseq_nth by lia. unfold f. f_equal. lia.
Qed.

(* an aligned read returns the bytes that are there *)
Lemma mem_read_aligned : forall m a n u, 0 < u -> a mod u = 0 -> n mod u = 0 ->
  mem_read m a n u = mem_range m a n.
Proof.
  intros m a n u Hu Ha Hn. unfold mem_read, mem_range.
  destruct (acc_aligned a n u Hu Ha Hn) as [-> ->].
  apply map_ext_in. intros i Hi. apply zseq_in in Hi.
  destruct (i <? n) eqn:E; [reflexivity|]. apply Z.ltb_ge in E. lia.
Qed.

(* an aligned write of len = |data| bytes stores exactly the data *)
Lemma mem_write_aligned : forall m a u data x, 0 < u -> a mod u = 0 -> zlen data mod u = 0 ->
  mem_write m a (zlen data) u data x =
  if (a <=? x) && (x <? a + zlen data) then nth (Z.to_nat (x - a)) data 0 else m x.
Proof.
  intros m a u data x Hu Ha Hn. unfold mem_write.
  destruct (acc_aligned a (zlen data) u Hu Ha Hn) as [-> ->].
  destruct (a <=? x) eqn:E1; destruct (x <? a + zlen data) eqn:E2;
    destruct (0 <=? x - a) eqn:E3; destruct (x - a <? zlen data) eqn:E4; simpl; try reflexivity;
    try apply Z.leb_le in E1; try apply Z.leb_gt in E1; try apply Z.ltb_lt in E2; try apply Z.ltb_ge in E2;
    try apply Z.leb_le in E3; try apply Z.leb_gt in E3; try apply Z.ltb_lt in E4; try apply Z.ltb_ge in E4; lia.
Qed.

(* ------------------------------------------------------------------ Python slices *)
Lemma py_slice_block : forall (l : list Z) pos size,
  0 <= pos -> 0 <= size -> pos + size <= zlen l \/ True ->
  py_slice l pos (pos + size) =
  firstn (Z.to_nat (Z.min size (zlen l - pos))) (skipn (Z.to_nat pos) l) \/ zlen l < pos.
Proof.
  intros l pos size Hp Hs _.
  destruct (Z_lt_dec (zlen l) pos) as [Hlt | Hge]; [right; assumption | left].
  unfold py_slice.
  destruct (pos + size <? 0) eqn:E; [apply Z.ltb_lt in E; lia|].
  replace (Z.min pos (zlen l)) with pos by lia.
  f_equal. lia.
Qed.

Lemma py_slice_eq : forall (l : list Z) pos size,
  0 <= pos <= zlen l -> 0 <= size ->
  py_slice l pos (pos + size) = firstn (Z.to_nat (Z.min size (zlen l - pos))) (skipn (Z.to_nat pos) l).
Proof.
  intros l pos size Hp Hs.
  destruct (py_slice_block l pos size ltac:(lia) Hs (or_intror I)) as [H | H]; [assumption | lia].
Qed.

Lemma firstn_skipn_length : forall (l : list Z) pos k,
  0 <= pos -> 0 <= k -> pos + k <= zlen l ->
  zlen (firstn (Z.to_nat k) (skipn (Z.to_nat pos) l)) = k.
Proof.
  intros l pos k Hp Hk H. unfold zlen in *. rewrite firstn_length, skipn_length. lia.
Qed.

Lemma firstn_skipn_nth : forall (l : list Z) pos k j,
  0 <= pos -> 0 <= j < k ->
  nth (Z.to_nat j) (firstn (Z.to_nat k) (skipn (Z.to_nat pos) l)) 0 = nth (Z.to_nat (pos + j)) l 0.
Proof.
  intros l pos k j Hp Hj. rewrite nth_firstn_lt by lia. rewrite nth_skipn_add. f_equal. lia.
Qed.

(* ------------------------------------------------------------------ the splice of a reply into the result buffer *)
Lemma splice_ok : forall buf lo hi d,
  0 <= lo <= hi -> hi <= zlen buf -> zlen d = hi - lo ->
  exists buf', splice buf lo hi d = Ok buf' /\ zlen buf' = zlen buf /\
    forall i, 0 <= i < zlen buf ->
      nth (Z.to_nat i) buf' 0 =
      if (lo <=? i) && (i <? hi) then nth (Z.to_nat (i - lo)) d 0 else nth (Z.to_nat i) buf 0.
Proof.
  intros buf lo hi d Hlo Hhi Hd. unfold splice.
  replace (Z.min lo (zlen buf)) with lo by lia.
  replace (Z.max lo (Z.min hi (zlen buf))) with hi by lia.
  rewrite Hd, Z.eqb_refl. eexists. split; [reflexivity|]. split.
  - rewrite !zlen_app. unfold zlen in *. rewrite firstn_length, skipn_length. lia.
  - intros i Hi.
    assert (Hfl : length (firstn (Z.to_nat lo) buf) = Z.to_nat lo).
    { rewrite firstn_length. unfold zlen in *. lia. }
    destruct (lo <=? i) eqn:E1; destruct (i <? hi) eqn:E2; simpl;
      try apply Z.leb_le in E1; try apply Z.leb_gt in E1; try apply Z.ltb_lt in E2; try apply Z.ltb_ge in E2.
    + rewrite app_nth2 by lia. rewrite Hfl. rewrite app_nth1 by (unfold zlen in *; lia).
      f_equal. lia.
    + rewrite app_nth2 by lia. rewrite Hfl. rewrite app_nth2 by (unfold zlen in *; lia).
      rewrite nth_skipn_add. f_equal. unfold zlen in *. lia.
    + rewrite app_nth1 by lia. apply nth_firstn_lt. lia.
    + lia.
Qed.

(* ------------------------------------------------------------------ one command against the machine *)
Lemma u32_true : forall a, 0 <= a < 2 ^ 32 -> u32 a = true.
Proof.
  intros a H. unfold u32. apply andb_true_iff. split; [apply Z.leb_le | apply Z.ltb_lt]; lia.
Qed.

Lemma recv_payload_all : forall rl d, zlen d + read_reply_data_offset <= rl -> recv_payload rl d = d.
Proof.
  intros rl d H. unfold recv_payload. apply firstn_all2. unfold zlen in H. lia.
Qed.

Lemma set_chip_at : forall M c m c' x,
  set_chip M c m c' x = if chip_eqb c' c then m x else M c' x.
Proof. intros. unfold set_chip. destruct (chip_eqb c' c); reflexivity. Qed.

Lemma exec_read_eq : forall buffer nbr M c core a n t u, unit_of t = Some u -> n <= buffer ->
  exec buffer nbr M {| rq_chip := c; rq_core := core; rq_cmd := CRead a n t |} =
  (M, ROk (mem_read (M c) a n u)).
Proof.
  intros buffer nbr M c core a n t u Hu Hn. unfold exec. cbn [rq_cmd rq_chip]. rewrite Hu.
  destruct (n >? buffer) eqn:E; [apply Z.gtb_lt in E; lia | reflexivity].
Qed.

Lemma exec_write_eq : forall buffer nbr M c core a t u data, unit_of t = Some u -> zlen data <= buffer ->
  exec buffer nbr M {| rq_chip := c; rq_core := core; rq_cmd := CWrite a (zlen data) t data |} =
  (set_chip M c (mem_write (M c) a (zlen data) u data), ROk []).
Proof.
  intros buffer nbr M c core a t u data Hu Hn. unfold exec. cbn [rq_cmd rq_chip]. rewrite Hu.
  destruct (zlen data >? buffer) eqn:E; [apply Z.gtb_lt in E; lia |].
  rewrite Z.eqb_refl. reflexivity.
Qed.

Lemma u32_dtype : forall d u, unit_of d = Some u -> u32 d = true.
Proof.
  intros d u Hu. apply u32_true.
  destruct (unit_of_cases _ _ Hu) as [[-> _] | [[-> _] | [-> _]]]; vm_compute; split; congruence.
Qed.

(* a well-formed read command is answered with the bytes stored there and leaves the machine alone *)
Lemma issue_read : forall E M c core k u,
  c_code k = SCPCommands_read -> unit_of (c_arg3 k) = Some u ->
  0 <= c_arg1 k < 2 ^ 32 -> 0 <= c_arg2 k <= e_buffer E -> c_arg2 k < 2 ^ 32 ->
  c_arg1 k mod u = 0 -> c_arg2 k mod u = 0 ->
  c_arg2 k + read_reply_data_offset <= e_rl E ->
  issue E M c core k =
    Ok (M, {| rq_chip := c; rq_core := core; rq_cmd := CRead (c_arg1 k) (c_arg2 k) (c_arg3 k) |},
        mem_range (M c) (c_arg1 k) (c_arg2 k)).
Proof.
  intros E M c core k u Hcode Hu Ha Hn Htop Hma Hmn Hrl.
  pose proof (unit_pos _ _ Hu) as Hup.
  unfold issue. rewrite (u32_true (c_arg1 k)), (u32_true (c_arg2 k)), (u32_dtype _ _ Hu) by lia.
  cbn [andb]. unfold decode_cmd. rewrite Hcode, Z.eqb_refl.
  rewrite (exec_read_eq _ _ _ _ _ _ _ _ u) by (assumption || lia).
  rewrite mem_read_aligned by assumption.
  rewrite recv_payload_all by (rewrite zlen_mem_range; lia). reflexivity.
Qed.

(* the effect of a store of [data] at address a of chip tc, pointwise *)
Definition stored_at (M M' : machine) (tc : chip) (a : Z) (data : list Z) : Prop :=
  forall c' x, M' c' x =
    if chip_eqb c' tc && ((a <=? x) && (x <? a + zlen data)) then nth (Z.to_nat (x - a)) data 0 else M c' x.

Lemma issue_write : forall E M c core k u,
  c_code k = SCPCommands_write -> unit_of (c_arg3 k) = Some u ->
  0 <= c_arg1 k < 2 ^ 32 -> c_arg2 k = zlen (c_data k) -> c_arg2 k <= e_buffer E -> c_arg2 k < 2 ^ 32 ->
  c_arg1 k mod u = 0 -> c_arg2 k mod u = 0 ->
  exists M', issue E M c core k =
    Ok (M', {| rq_chip := c; rq_core := core;
               rq_cmd := CWrite (c_arg1 k) (c_arg2 k) (c_arg3 k) (c_data k) |}, []) /\
    stored_at M M' c (c_arg1 k) (c_data k).
Proof.
  intros E M c core k u Hcode Hu Ha Hn Hb Htop Hma Hmn.
  pose proof (unit_pos _ _ Hu) as Hup.
  pose proof (zlen_nonneg _ (c_data k)) as Hnn.
  assert (Hneq : SCPCommands_write =? SCPCommands_read = false) by (vm_compute; reflexivity).
  unfold issue. rewrite (u32_true (c_arg1 k)), (u32_true (c_arg2 k)), (u32_dtype _ _ Hu) by lia.
  cbn [andb]. unfold decode_cmd. rewrite Hcode, Hneq, Z.eqb_refl.
  rewrite Hn. rewrite (exec_write_eq _ _ _ _ _ _ _ u) by (assumption || lia).
  unfold recv_payload. rewrite firstn_nil.
  eexists. split; [reflexivity|].
  intros c' x. rewrite set_chip_at.
  destruct (chip_eqb c' c) eqn:Ec; cbn [andb]; [|reflexivity].
  apply chip_eqb_eq in Ec. subst c'.
  apply mem_write_aligned; try assumption. rewrite <- Hn. assumption.
Qed.
