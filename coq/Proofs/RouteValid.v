(* C03 -- avoid_dead_links returns one valid tree or the documented error on a machine that is not connected;
   route() for one net returns a tree satisfying the property's whole sentence, or that error. *)
From Coq Require Import ZArith List Bool Lia Relations.
Require Import Rig.Model.Base Rig.Model.Geometry Rig.Model.Route Rig.Spec.Route Rig.Proofs.Route
        Rig.Proofs.RouteTree Rig.Proofs.RouteNer Rig.Proofs.RouteGeom Rig.Proofs.RouteMain Rig.Proofs.RouteFull
        Rig.Proofs.RouteCopy Rig.Proofs.RouteRepair Rig.Proofs.RouteAstar Rig.Proofs.RouteSever
        Rig.Proofs.RouteSplice Rig.Proofs.RouteAvoid.
Import ListNotations.
Open Scope Z_scope.

(* the iteration order of the set broken_links: any duplicate-free enumeration of it *)
Definition order_ok (root : rtree) (m : rmachine) (order : option (list (chip * chip))) : Prop :=
  match order with
  | None => True
  | Some o => forall f br, copy_and_disconnect root m = Ok (f, br) ->
                           NoDup o /\ forall pc, In pc o <-> In pc br
  end.

Lemma snd_inj_on : forall (br : list (chip * chip)) a b,
    NoDup (map snd br) -> In a br -> In b br -> snd a = snd b -> a = b.
Proof.
  induction br as [|x br IH]; intros a b Hnd Ha Hb Heq; [destruct Ha|].
  cbn [map] in Hnd. apply NoDup_cons_iff in Hnd. destruct Hnd as [Hx Hnd].
  destruct Ha as [Ha|Ha]; destruct Hb as [Hb|Hb].
  - congruence.
  - subst a. exfalso. apply Hx. rewrite Heq. apply in_map. exact Hb.
  - subst b. exfalso. apply Hx. rewrite <- Heq. apply in_map. exact Ha.
  - apply IH; assumption.
Qed.

Lemma nodup_map_snd_sub : forall (o br : list (chip * chip)),
    NoDup o -> (forall pc, In pc o -> In pc br) -> NoDup (map snd br) -> NoDup (map snd o).
Proof.
  induction o as [|a o IH]; intros br Hnd Hsub Hbr; [constructor|].
  apply NoDup_cons_iff in Hnd. destruct Hnd as [Ha Hnd]. cbn [map]. constructor.
  - intros Hin. apply in_map_iff in Hin. destruct Hin as [b [Heq Hb]]. apply Ha.
    rewrite (snd_inj_on br a b Hbr (Hsub a (or_introl eq_refl)) (Hsub b (or_intror Hb)) (eq_sym Heq)). exact Hb.
  - apply (IH br); [exact Hnd | intros pc H; apply Hsub; right; exact H | exact Hbr].
Qed.

Lemma nodup_of_map : forall (br : list (chip * chip)), NoDup (map snd br) -> NoDup br.
Proof.
  induction br as [|x br IH]; intros H; [constructor|]. cbn [map] in H. apply NoDup_cons_iff in H.
  destruct H as [Hx H]. constructor; [|apply IH; exact H]. intros Hin. apply Hx. apply in_map. exact Hin.
Qed.

Theorem avoid_dead_links_tree : forall m root wrap order r0,
    1 <= rm_w m -> 1 <= rm_h m ->
    NoDup (chips root) -> leafless root -> root_chip root = Some r0 -> working_chip m r0 ->
    order_ok root m order ->
    (exists t, avoid_dead_links root m wrap order = Ok [t]
               /\ root_chip t = Some r0 /\ NoDup (chips t)
               /\ (forall p r c, In (p, r, c) (tree_hops t) -> exists l, r = Some l /\ hop_ok m p l c)
               /\ (forall x, In x (chips t) -> working_chip m x)
               /\ leafless t
               /\ (forall x, In x (chips root) -> working_chip m x -> In x (chips t))) \/
    (avoid_dead_links root m wrap order = Failed 0 /\ ~ Connected m).
Proof.
  intros m root wrap order r0 Hw Hh Hnd Hlf Hroot Hr0 Hord.
  destruct root as [c0 kids0|v]; [|discriminate]. cbn [root_chip] in Hroot. inversion Hroot; subst c0.
  destruct (copy_loop_ok m (S (tree_size (RNode r0 kids0))) [(None, None, RNode r0 kids0)] [] []) as [f [br [Ec Hfl]]].
  { constructor; [|constructor]. split; [exact Hlf|]. split; [exists r0, kids0; reflexivity|].
    intros _ c ks Heq. cbn [snd] in Heq. inversion Heq; subst. apply rt_chip_alive_iff. exact Hr0. }
  { intros t []. }
  { simpl. lia. }
  fold (copy_and_disconnect (RNode r0 kids0) m) in Ec.
  destruct (copy_disconnect_inv m (RNode r0 kids0) Hnd) as [_ Hcopy].
  destruct (Hcopy f br Ec) as [C1 [C2 [C3 [C4 [C5 [C6 [t0 [f0 [Hf0 Ht0]]]]]]]]].
  cbn [root_chip] in Ht0.
  set (ord := match order with Some o => o | None => br end).
  assert (Hord' : NoDup (map snd ord) /\ (forall pc, In pc ord -> In pc br) /\ length ord = length br).
  { subst ord. destruct order as [o|].
    - destruct (Hord f br Ec) as [Ho Hiff]. split; [|split].
      + apply (nodup_map_snd_sub o br Ho); [intros pc H; apply Hiff; exact H | exact C6].
      + intros pc H. apply Hiff. exact H.
      + apply Nat.le_antisymm; apply NoDup_incl_length.
        * exact Ho.
        * intros pc H. apply Hiff. exact H.
        * apply nodup_of_map. exact C6.
        * intros pc H. apply Hiff. exact H.
    - split; [exact C6|]. split; [auto | reflexivity]. }
  destruct Hord' as [O1 [O2 O3]].
  assert (I : rinv m f (map snd ord) r0).
  { constructor.
    - apply cnt_nodup. exact C2.
    - exact C3.
    - intros x Hx. apply C1 in Hx. exact (proj2 Hx).
    - exact Hfl.
    - exists t0, f0. split; assumption.
    - split; [exact O1|]. intros Hin. apply in_map_iff in Hin. destruct Hin as [[p c] [Hc Hpc]]. cbn [snd] in Hc. subst c.
      destruct (C4 p r0 (O2 _ Hpc)) as [_ [t [Ht Hr]]]. rewrite Hf0 in Ht. cbn [tl] in Ht.
      pose proof (proj1 (cnt_nodup _) C2 r0) as Hn. rewrite Hf0, cnt_forest_cons in Hn.
      assert (1 <= occ r0 t0)%nat by (apply root_occ; exact Ht0).
      assert (1 <= cnt r0 (forest_chips f0))%nat.
      { apply cnt_in. unfold forest_chips. apply in_flat_map. exists t. split; [exact Ht|]. apply occ_in. apply root_occ. exact Hr. }
      lia.
    - intros c Hc. apply in_map_iff in Hc. destruct Hc as [[p c'] [Hc' Hpc]]. cbn [snd] in Hc'. subst c'.
      destruct (C4 p c (O2 _ Hpc)) as [_ [t [Ht Hr]]]. apply in_map_iff. exists t. split; [exact Hr|].
      apply in_tl_roots. exact Ht.
    - rewrite map_length, O3. exact C5. }
  unfold avoid_dead_links, avoid_dead_links_gen. rewrite Ec. cbn [bind]. fold ord. fold (repair_all m wrap ord f).
  destruct (repair_all_ok m wrap ord f r0 Hw Hh I) as [[t [E [It Hin]]]|[E Hnc]].
  - left. exists t. split; [exact E|]. destruct It as [Ind Ihops Iwk Ilf [t1 [f1 [Hf1 Hr1]]] _ _ _].
    inversion Hf1; subst t1 f1. split; [exact Hr1|]. split.
    + apply cnt_nodup. intros x. pose proof (Ind x) as Hn. unfold forest_chips in Hn. cbn [flat_map] in Hn.
      rewrite app_nil_r in Hn. exact Hn.
    + split; [intros p r c He; apply (Ihops t p r c (or_introl eq_refl) He)|]. split.
      * intros x Hx. apply Iwk. unfold forest_chips. cbn [flat_map]. rewrite app_nil_r. exact Hx.
      * split; [apply Ilf; left; reflexivity|]. intros x Hx Hwx. apply Hin. apply C1. split; assumption.
  - right. split; [exact E | exact Hnc].
Qed.

(* ---- attaching the sinks to a valid tree of nodes *)
Lemma sinks_valid : forall m src sinks dests pl cons allocs t,
    root_chip t = Some src -> NoDup (chips t) ->
    (forall p r c, In (p, r, c) (tree_hops t) -> exists l, r = Some l /\ hop_ok m p l c) ->
    leafless t -> (forall d, In d dests -> In d (chips t)) ->
    (forall v, In v sinks -> exists c, zassoc v pl = Some c /\ In c dests) ->
    (forall v a b, In v sinks -> zassoc v allocs = Some (a, b) -> 0 <= a /\ b <= 18) ->
    exists t', add_sinks sinks pl cons allocs [t] = Ok [t'] /\
               ValidTree m src (sink_reqs sinks pl cons allocs) t'.
Proof.
  intros m src sinks dests pl cons allocs t Hroot Hnod Hhops Hnl Hdest Hsinks Hal.
  destruct (add_sinks_ok pl cons allocs sinks t) as [t' [Ea [B1 [B2 [B3 B4]]]]].
  { intros v Hv. destruct (Hsinks v Hv) as [c [Hc Hin]]. exists c. split; [exact Hc | apply Hdest; exact Hin]. }
  { intros v Hv. apply sink_routes_ok. intros a b Hab. apply (Hal v a b Hv Hab). }
  exists t'. split; [exact Ea|]. unfold ValidTree. split; [rewrite B1; exact Hroot|]. split.
  { apply nodup_occ. intros x. rewrite B2. apply (proj1 (nodup_occ t) Hnod). }
  split; [intros p r c Hin; apply B3 in Hin; apply Hhops; exact Hin|]. split.
  { intros c r v Hin. apply B4 in Hin. destruct Hin as [Hin|[Hv [Hc [rs [Hrs Hr]]]]].
    - exfalso. exact (Hnl _ Hin).
    - exists rs. split; [|exact Hr]. apply in_sink_reqs. split; [exact Hv|]. split; [exact Hc|].
      apply sink_routes_expected. exact Hrs. }
  { intros v c rs r Hin Hr. apply in_sink_reqs in Hin. destruct Hin as [Hv [Hc Hrs]].
    apply B4. right. split; [exact Hv|]. split; [exact Hc|].
    destruct (sink_routes_ok v cons allocs (fun a b Hab => Hal v a b Hv Hab)) as [rs' Hrs'].
    exists rs'. split; [exact Hrs'|]. rewrite (sink_routes_expected _ _ _ _ Hrs'), <- Hrs. exact Hr. }
Qed.

Definition order_ok_route (m : rmachine) (src : chip) (dests : list chip) (radius : Z) (s : stream)
           (order : option (list (chip * chip))) : Prop :=
  forall tr, ner_net src dests (rm_w m) (rm_h m) (has_wrap m) radius s = Ok tr -> order_ok (fst tr) m order.

(* U: route() for one net, every machine, every fault map *)
Theorem route_valid :
  forall m source sinks dests pl cons allocs radius s order src,
    1 <= rm_w m -> 1 <= rm_h m ->
    zassoc source pl = Some src -> working_chip m src ->
    Forall (working_chip m) dests -> stream_ok s ->
    (forall v, In v sinks -> exists c, zassoc v pl = Some c /\ In c dests) ->
    (forall v a b, In v sinks -> zassoc v allocs = Some (a, b) -> 0 <= a /\ b <= 18) ->
    order_ok_route m src dests radius s order ->
    (exists t, route_net m source sinks dests pl cons allocs radius s order = Ok t /\
               ValidTree m src (sink_reqs sinks pl cons allocs) t) \/
    (route_net m source sinks dests pl cons allocs radius s order = Failed 0 /\ ~ Connected m).
Proof.
  intros m source sinks dests pl cons allocs radius s order src Hw Hh Hsrc Hsw Hdw Hs Hsinks Hal Hord.
  assert (Hsr : in_range (rm_w m) (rm_h m) src) by (apply working_in_range; exact Hsw).
  assert (Hd : Forall (in_range (rm_w m) (rm_h m)) dests).
  { apply Forall_forall. intros d Hdin. apply working_in_range. rewrite Forall_forall in Hdw. apply Hdw. exact Hdin. }
  pose proof (sok_stream_ok s Hs) as Hs'.
  set (w := rm_w m) in *. set (h := rm_h m) in *.
  assert (N : exists t route,
             ner_net src dests w h (has_wrap m) radius s = Ok (t, route)
             /\ root_chip t = Some src /\ NoDup (chips t)
             /\ (forall p r c, In (p, r, c) (tree_hops t) -> exists l, r = Some l /\ adjacent m p l c)
             /\ (forall d, In d dests -> In d (chips t))
             /\ (forall e, ~ In e (tree_leaves t))).
  { destruct (has_wrap m).
    - destruct (ner_net_tree_gen (adjacent (perfect w h)) src dests w h true radius s sok
                                 (geom_torus w h Hw Hh) Hsr Hd Hs')
        as [t [route [E [Hroot [Hnod [Hhops [Hdest [_ [_ Hnl]]]]]]]]].
      exists t, route. repeat (split; [assumption|]). exact Hnl.
    - destruct (ner_net_tree_gen (mesh_adjacent w h) src dests w h false radius s sok
                                 (geom_mesh w h Hw Hh) Hsr Hd Hs')
        as [t [route [E [Hroot [Hnod [Hhops [Hdest [_ [_ Hnl]]]]]]]]].
      exists t, route. split; [exact E|]. split; [exact Hroot|]. split; [exact Hnod|].
      split; [|split; [exact Hdest | exact Hnl]].
      intros p r c Hin. destruct (Hhops p r c Hin) as [l [Hr [dx [dy [Hv [Hc [Hx Hy]]]]]]].
      exists l. split; [exact Hr|]. exists dx, dy. split; [exact Hv|]. fold w h. rewrite Hc.
      rewrite Hc in Hx, Hy. cbn [fst snd] in Hx, Hy. rewrite !Z.mod_small by lia. reflexivity. }
  destruct N as [t [route [E [Hroot [Hnod [Hhops [Hdest Hnl]]]]]]].
  unfold route_net. rewrite Hsrc. fold w h. rewrite E. cbn [bind fst].
  destruct (has_dead_links m t) eqn:Edl.
  - (* the tree touches dead hardware: repair *)
    destruct (avoid_dead_links_tree m t (has_wrap m) order src Hw Hh Hnod Hnl Hroot Hsw (Hord (t, route) E))
      as [[t1 [Ea [R1 [R2 [R3 [R4 [R5 R6]]]]]]]|[Ea Hnc]].
    + left. rewrite Ea. cbn [bind].
      destruct (sinks_valid m src sinks dests pl cons allocs t1 R1 R2 R3 R5) as [t' [Es Hv]].
      * intros d Hdin. apply R6; [apply Hdest; exact Hdin|]. rewrite Forall_forall in Hdw. apply Hdw. exact Hdin.
      * exact Hsinks.
      * exact Hal.
      * exists t'. rewrite Es. cbn [bind]. split; [reflexivity | exact Hv].
    + right. rewrite Ea. cbn [bind]. split; [reflexivity | exact Hnc].
  - (* no dead link in the tree: it is used as it is *)
    left. cbn [bind].
    destruct (sinks_valid m src sinks dests pl cons allocs t Hroot Hnod) as [t' [Es Hv]].
    + intros p r c Hin. destruct (Hhops p r c Hin) as [l [Hr Hadj]]. exists l. split; [exact Hr|].
      split; [|exact Hadj]. apply rt_link_alive_iff. subst r. apply (no_dead_links_hops m t Edl p l c Hin).
    + exact Hnl.
    + exact Hdest.
    + exact Hsinks.
    + exact Hal.
    + exists t'. rewrite Es. cbn [bind]. split; [reflexivity | exact Hv].
Qed.

(* on a connected machine route() always succeeds *)
Corollary route_connected_succeeds :
  forall m source sinks dests pl cons allocs radius s order src,
    1 <= rm_w m -> 1 <= rm_h m ->
    zassoc source pl = Some src -> working_chip m src ->
    Forall (working_chip m) dests -> stream_ok s ->
    (forall v, In v sinks -> exists c, zassoc v pl = Some c /\ In c dests) ->
    (forall v a b, In v sinks -> zassoc v allocs = Some (a, b) -> 0 <= a /\ b <= 18) ->
    order_ok_route m src dests radius s order ->
    Connected m ->
    exists t, route_net m source sinks dests pl cons allocs radius s order = Ok t /\
              ValidTree m src (sink_reqs sinks pl cons allocs) t.
Proof.
  intros m source sinks dests pl cons allocs radius s order src Hw Hh Hsrc Hsw Hdw Hs Hsinks Hal Hord Hconn.
  destruct (route_valid m source sinks dests pl cons allocs radius s order src Hw Hh Hsrc Hsw Hdw Hs Hsinks Hal Hord)
    as [H|[_ Hnc]]; [exact H | contradiction].
Qed.

(* ---- instances: a repair on the machine of the refutation (with the logged set order), and a failure *)
Definition ex_cut_machine : rmachine :=
  {| rm_w := 2; rm_h := 1; rm_dead_chips := [];
     rm_dead_links := [((0, 0), 0); ((0, 0), 1); ((0, 0), 2); ((0, 0), 3); ((0, 0), 4); ((0, 0), 5)] |}.

Lemma ex_route_repair :
  order_ok_route ex_dup_machine (0, 3) [(2, 0)] 20 [0] ex_dup_order /\
  working_chip ex_dup_machine (0, 3) /\ working_chip ex_dup_machine (2, 0) /\
  exists t, route_net ex_dup_machine 0 [1] [(2, 0)] [(0, (0, 3)); (1, (2, 0))] [] [(1, (1, 2))] 20 [0] ex_dup_order = Ok t
            /\ check_tree ex_dup_machine (0, 3) (sink_reqs [1] [(0, (0, 3)); (1, (2, 0))] [] [(1, (1, 2))]) t = true
            /\ has_dead_links ex_dup_machine
                 (RNode (0, 3) [(Some 5, RNode (0, 2) [(Some 5, RNode (0, 1) [(Some 5, RNode (0, 0)
                    [(Some 0, RNode (1, 0) [(Some 0, RNode (2, 0) [])])])])])]) = true.
Proof.
  split; [|split; [|split]].
  - intros tr H. vm_compute in H. inversion H; subst tr. cbn [fst]. intros f br Hc. vm_compute in Hc.
    inversion Hc; subst f br. split.
    + unfold ex_dup_order. repeat (constructor; [simpl; intuition congruence|]). constructor.
    + intros pc. simpl. tauto.
  - unfold working_chip. simpl. repeat split; try lia; try (intros []).    
  - unfold working_chip. simpl. repeat split; try lia; try (intros []).    
  - eexists. split; [vm_compute; reflexivity|]. split; vm_compute; reflexivity.
Qed.

Lemma ex_route_failure :
  route_net ex_cut_machine 0 [1] [(1, 0)] [(0, (0, 0)); (1, (1, 0))] [] [] 20 [] None = Failed 0
  /\ check_connected ex_cut_machine = false.
Proof. split; vm_compute; reflexivity. Qed.
