(* What the Spec's borrowed notions mean, stated without reference to the code (audit follow-up for C05):
   "overlap" of two ranges, and which reservations apply on a chip. *)
From Coq Require Import ZArith List Bool Lia.
Require Import Rig.Generated.GenAlloc Rig.Model.Base Rig.Model.Alloc Rig.Spec.Alloc.
Import ListNotations.
Open Scope Z_scope.

(* two half-open ranges overlap exactly when some unit belongs to both *)
Lemma overlap_meaning : forall a b : slice,
  slices_overlap a b = true <-> exists x, fst a <= x < snd a /\ fst b <= x < snd b.
Proof.
  intros [a0 a1] [b0 b1]; unfold slices_overlap; cbn [fst snd]. rewrite Z.ltb_lt. split.
  - intros H. exists (Z.max a0 b0). lia.
  - intros [x Hx]. lia.
Qed.

Lemma chip_eqb_true_iff : forall c c' : chip, chip_eqb c c' = true <-> c = c'.
Proof.
  intros [x y] [x' y']; unfold chip_eqb; cbn [fst snd]. rewrite andb_true_iff, !Z.eqb_eq. split.
  - intros [-> ->]; reflexivity.
  - intros H; injection H as -> ->; split; reflexivity.
Qed.

Lemma global_reserved_in : forall r s cs,
  In s (global_reserved r cs) <-> In (CReserve r s None) cs.
Proof.
  intros r s cs; induction cs as [|c cs IH]; cbn [global_reserved]; [tauto|].
  destruct c as [r' s' [loc|]|r' al|].
  - rewrite IH; cbn [In]; split; [tauto | intros [H|H]; [discriminate H | exact H]].
  - destruct (r =? r') eqn:E.
    + apply Z.eqb_eq in E; subst r'. cbn [In]. rewrite IH. split.
      * intros [->|H]; [left; reflexivity | right; exact H].
      * intros [H|H]; [injection H as ->; left; reflexivity | right; exact H].
    + rewrite IH; cbn [In]; split; [tauto|].
      intros [H|H]; [injection H as Hr _; subst r'; rewrite Z.eqb_refl in E; discriminate E | exact H].
  - rewrite IH; cbn [In]; split; [tauto | intros [H|H]; [discriminate H | exact H]].
  - rewrite IH; cbn [In]; split; [tauto | intros [H|H]; [discriminate H | exact H]].
Qed.

Lemma local_reserved_in : forall xy r s cs,
  In s (local_reserved xy r cs) <-> In (CReserve r s (Some xy)) cs.
Proof.
  intros xy r s cs; induction cs as [|c cs IH]; cbn [local_reserved]; [tauto|].
  destruct c as [r' s' [loc|]|r' al|].
  - destruct ((r =? r') && chip_eqb xy loc) eqn:E.
    + apply andb_true_iff in E; destruct E as [E1 E2]. apply Z.eqb_eq in E1; apply chip_eqb_true_iff in E2; subst r' loc.
      cbn [In]. rewrite IH. split.
      * intros [->|H]; [left; reflexivity | right; exact H].
      * intros [H|H]; [injection H as ->; left; reflexivity | right; exact H].
    + rewrite IH; cbn [In]; split; [tauto|].
      intros [H|H]; [|exact H]. injection H as Hr _ Hl; subst r' loc.
      rewrite Z.eqb_refl in E; cbn [andb] in E.
      assert (chip_eqb xy xy = true) by (apply chip_eqb_true_iff; reflexivity). congruence.
  - rewrite IH; cbn [In]; split; [tauto | intros [H|H]; [discriminate H | exact H]].
  - rewrite IH; cbn [In]; split; [tauto | intros [H|H]; [discriminate H | exact H]].
  - rewrite IH; cbn [In]; split; [tauto | intros [H|H]; [discriminate H | exact H]].
Qed.

(* the reservations that bind on chip xy for resource r are exactly the global ones and the chip's own *)
Lemma reservations_meaning : forall r xy s cs,
  In s (reservations r xy cs) <-> In (CReserve r s None) cs \/ In (CReserve r s (Some xy)) cs.
Proof.
  intros r xy s cs; unfold reservations. rewrite in_app_iff, global_reserved_in, local_reserved_in. tauto.
Qed.

(* zero-size requests: next to a reservation and with the pointer at the chip's capacity *)
Definition exz_machine : machine :=
  {| m_width := 1; m_height := 1; m_res := [(0, 6)]; m_exc := []; m_dead := [] |}.
Lemma exz_instance :
  allocate [(1, [(0, 4)]); (2, [(0, 0)]); (3, [(0, 0)])] exz_machine [CReserve 0 (4, 6) None]
           [(1, (0, 0)); (2, (0, 0)); (3, (0, 0))]
  = Ok [(1, [(0, (0, 4))]); (2, [(0, (4, 4))]); (3, [(0, (4, 4))])].
Proof. vm_compute. reflexivity. Qed.
