(* Front ends of rig.routing_table beyond the default call of Model/Table.v:
     minimise_table / minimise_tables with a caller-supplied `methods` list,
     remove_default_routes.minimise(check_for_aliases=False),
     RoutingTableEntry.__new__ (frozenset / set normalisation and the {None} default of sources).
   Definitions only.  The default method list, the comparison of _identity and the default of `sources`
   are regenerated from the source on every run (Generated/GenTableFront.v, a fail-closed ast dump). *)
From Coq Require Import ZArith List Bool.
Require Import Rig.Generated.GenTableFront Rig.Model.Base Rig.Model.Table.
Import ListNotations.
Open Scope Z_scope.

(* the minimisers a caller can put in `methods` *)
Inductive method_id := MRde | MOc.
Definition method_of_z (z : Z) : option method_id :=
  if z =? 1 then Some MRde else if z =? 2 then Some MOc else None.
Definition run_method (m : method_id) : table -> option Z -> result table :=
  match m with MRde => remove_default | MOc => oc_minimise end.
(* the default of `methods`, as dumped *)
Definition default_method_ids : list method_id :=
  flat_map (fun z => match method_of_z z with Some m => [m] | None => [] end) default_methods_z.

(* _identity with the dumped comparison *)
Definition identity_gen (t : table) (target : option Z) : result table :=
  match target with
  | None => Ok t
  | Some tl => if identity_accepts (len t) tl then Ok t else Failed (len t)
  end.

(* minimise_table(table, target_length, methods): _identity is put in front of the given list *)
Definition minimise_table_with (ms : list method_id) (t : table) (target : option Z) : result table :=
  let fs := identity_gen :: map run_method ms in
  match target with
  | Some tl => try_methods fs t tl (len t)
  | None => bind (all_results fs t) (fun rs =>
            match rs with [] => OtherError | r :: rs' => Ok (shortest r rs') end)
  end.

(* minimise_tables(routing_tables, target_lengths, methods) *)
Fixpoint minimise_tables_go_with (f : table -> option Z -> result table) (ts : list (chip * table))
         (tg : targets) (acc : list (chip * table)) : tables_outcome :=
  match ts with
  | [] => TablesOk (rev acc)
  | (c, t) :: ts' =>
      match target_for tg c with
      | None => TablesOther
      | Some tl =>
          match f t tl with
          | Ok [] => minimise_tables_go_with f ts' tg acc
          | Ok r => minimise_tables_go_with f ts' tg ((c, r) :: acc)
          | Failed fl => TablesFailed c fl
          | OtherError => TablesOther
          | OutOfFuel => TablesOutOfFuel
          end
      end
  end.
Definition minimise_tables_with (ms : list method_id) (ts : list (chip * table)) (tg : targets) :=
  minimise_tables_go_with (minimise_table_with ms) ts tg [].

(* remove_default_routes.minimise(table, target, check_for_aliases=False) *)
Definition remove_default_nocheck : table -> option Z -> result table := remove_default_gen false.

(* RoutingTableEntry(route, key, mask[, sources]): route and sources become sets; here bit sets.
   A source is a Routes value or None (bit none_bit). *)
Definition bits_of (l : list Z) : Z := fold_left Z.lor (map (Z.shiftl 1) l) 0.
Definition source_code (s : option Z) : Z := match s with Some r => r | None => none_bit end.
Definition entry_new (route : list Z) (key mask : Z) (sources : option (list (option Z))) : entry :=
  mkEntry (bits_of route) key mask
          (bits_of (map source_code (match sources with Some s => s | None => entry_new_default_sources end))).
