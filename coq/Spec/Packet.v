(* What C15 asks of the SDP/SCP codec, stated on packets and byte lists only: the documented wire layout
   written out byte by byte (no struct formats, no masks or shifts: plain positional arithmetic), the widths
   of the fields, which bits of which byte belong to which field.  Definitions only. *)
From Coq Require Import ZArith List Bool.
Require Import Rig.Model.Base Rig.Model.Packet.
Import ListNotations.
Open Scope Z_scope.

Definition byte (b : Z) : Prop := 0 <= b < 256.
Definition bytes (l : list Z) : Prop := Forall byte l.

(* ------------------------------------------------------------------ widths (the property's quantifier) *)
(* 3-bit ports, 5-bit cores, 8-bit coordinates and tag *)
Definition sdp_in_width (p : sdp) : Prop :=
  byte (tag p) /\ 0 <= dest_port p < 8 /\ 0 <= dest_cpu p < 32 /\ 0 <= src_port p < 8 /\ 0 <= src_cpu p < 32
  /\ byte (dest_x p) /\ byte (dest_y p) /\ byte (src_x p) /\ byte (src_y p).

Definition word32 (v : Z) : Prop := 0 <= v < 4294967296.
Definition opt_word32 (a : option Z) : Prop := match a with None => True | Some v => word32 v end.

(* 16-bit command and sequence, 32-bit arguments *)
Definition scp_in_width (q : scp) : Prop :=
  sdp_in_width (sdp_part q) /\ 0 <= cmd_rc q < 65536 /\ 0 <= seq q < 65536
  /\ opt_word32 (arg1 q) /\ opt_word32 (arg2 q) /\ opt_word32 (arg3 q).

(* the fields that struct.pack checks (ports and cores are masked by the code instead) *)
Definition sdp_packable (p : sdp) : Prop :=
  byte (tag p) /\ byte (dest_x p) /\ byte (dest_y p) /\ byte (src_x p) /\ byte (src_y p).
Definition scp_packable (q : scp) : Prop :=
  sdp_packable (sdp_part q) /\ 0 <= cmd_rc q < 65536 /\ 0 <= seq q < 65536
  /\ opt_word32 (arg1 q) /\ opt_word32 (arg2 q) /\ opt_word32 (arg3 q).

(* ------------------------------------------------------------------ the documented layout *)
Definition flag_byte (reply : bool) : Z := if reply then 135 (* 0x87 *) else 7 (* 0x07 *).

(* two padding bytes, flags, tag, destination port/core, source port/core (port in the top three bits,
   core in the low five), destination y then x, source y then x *)
Definition sdp_wire_header (p : sdp) : list Z :=
  [0; 0; flag_byte (reply_expected p); tag p;
   32 * dest_port p + dest_cpu p; 32 * src_port p + src_cpu p;
   dest_y p; dest_x p; src_y p; src_x p].

Definition le16 (v : Z) : list Z := [v mod 256; v / 256].
Definition le32 (v : Z) : list Z := [v mod 256; v / 256 mod 256; v / 65536 mod 256; v / 16777216].
Definition opt_le32 (a : option Z) : list Z := match a with None => [] | Some v => le32 v end.

Definition sdp_wire (p : sdp) : list Z := sdp_wire_header p ++ data p.

(* ... then for SCP the command, the sequence number, the present arguments and the payload *)
Definition scp_wire (q : scp) : list Z :=
  sdp_wire_header (sdp_part q) ++ le16 (cmd_rc q) ++ le16 (seq q)
  ++ opt_le32 (arg1 q) ++ opt_le32 (arg2 q) ++ opt_le32 (arg3 q) ++ data (sdp_part q).

(* ports and cores reduced to their widths, as the code's masks do *)
Definition mask_ports (p : sdp) : sdp :=
  {| reply_expected := reply_expected p; tag := tag p;
     dest_port := dest_port p mod 8; dest_cpu := dest_cpu p mod 32;
     src_port := src_port p mod 8; src_cpu := src_cpu p mod 32;
     dest_x := dest_x p; dest_y := dest_y p; src_x := src_x p; src_y := src_y p; data := data p |}.
Definition scp_mask_ports (q : scp) : scp :=
  {| sdp_part := mask_ports (sdp_part q); cmd_rc := cmd_rc q; seq := seq q;
     arg1 := arg1 q; arg2 := arg2 q; arg3 := arg3 q |}.

(* ------------------------------------------------------------------ arguments *)
Definition present (a : option Z) : Z := match a with None => 0 | Some _ => 1 end.
Definition n_present (q : scp) : Z := present (arg1 q) + present (arg2 q) + present (arg3 q).

(* the present arguments are arg1..argk (the wire carries no presence bits) *)
Definition args_prefix (q : scp) : Prop :=
  (arg1 q = None -> arg2 q = None) /\ (arg2 q = None -> arg3 q = None).

(* little-endian value of the n bytes of bs from position i on *)
Definition word_at (bs : list Z) (i n : nat) : Z := le_value (firstn n (skipn i bs)).

(* the number of arguments decoding must take: as many as both the caller allows and the data contains,
   three at most *)
Definition args_taken (n_args : Z) (len : nat) : nat :=
  Z.to_nat (Z.max 0 (Z.min (Z.min n_args ((Z.of_nat len - 14) / 4)) 3)).

Definition arg_expected (bs : list Z) (k i : nat) : option Z :=
  if Nat.ltb i k then Some (word_at bs (14 + 4 * i) 4) else None.

(* what decoding a string with a complete SCP header must give, field by field *)
Definition scp_decoded (bs : list Z) (n_args : Z) (q : scp) : Prop :=
  let k := args_taken n_args (length bs) in
  let p := sdp_part q in
  reply_expected p = (nth 2 bs 0 =? 135)
  /\ tag p = nth 3 bs 0
  /\ dest_port p = nth 4 bs 0 / 32 /\ dest_cpu p = nth 4 bs 0 mod 32
  /\ src_port p = nth 5 bs 0 / 32 /\ src_cpu p = nth 5 bs 0 mod 32
  /\ dest_y p = nth 6 bs 0 /\ dest_x p = nth 7 bs 0 /\ src_y p = nth 8 bs 0 /\ src_x p = nth 9 bs 0
  /\ cmd_rc q = word_at bs 10 2 /\ seq q = word_at bs 12 2
  /\ arg1 q = arg_expected bs k 0 /\ arg2 q = arg_expected bs k 1 /\ arg3 q = arg_expected bs k 2
  /\ data p = skipn (14 + 4 * k) bs.

Definition sdp_decoded (bs : list Z) (p : sdp) : Prop :=
  reply_expected p = (nth 2 bs 0 =? 135)
  /\ tag p = nth 3 bs 0
  /\ dest_port p = nth 4 bs 0 / 32 /\ dest_cpu p = nth 4 bs 0 mod 32
  /\ src_port p = nth 5 bs 0 / 32 /\ src_cpu p = nth 5 bs 0 mod 32
  /\ dest_y p = nth 6 bs 0 /\ dest_x p = nth 7 bs 0 /\ src_y p = nth 8 bs 0 /\ src_x p = nth 9 bs 0
  /\ data p = skipn 10 bs.

(* ------------------------------------------------------------------ field isolation *)
Inductive field :=
| FReply | FTag | FDestPort | FDestCpu | FSrcPort | FSrcCpu | FDestX | FDestY | FSrcX | FSrcY
| FCmd | FSeq | FArg1 | FArg2 | FArg3 | FData.

(* p and p' agree on every SDP field but f *)
Definition sdp_same_except (f : field) (p p' : sdp) : Prop :=
  (f = FReply \/ reply_expected p = reply_expected p') /\ (f = FTag \/ tag p = tag p')
  /\ (f = FDestPort \/ dest_port p = dest_port p') /\ (f = FDestCpu \/ dest_cpu p = dest_cpu p')
  /\ (f = FSrcPort \/ src_port p = src_port p') /\ (f = FSrcCpu \/ src_cpu p = src_cpu p')
  /\ (f = FDestX \/ dest_x p = dest_x p') /\ (f = FDestY \/ dest_y p = dest_y p')
  /\ (f = FSrcX \/ src_x p = src_x p') /\ (f = FSrcY \/ src_y p = src_y p')
  /\ (f = FData \/ data p = data p').

(* q and q' agree on every field but f; for an argument field, the argument is present in both *)
Definition same_except (f : field) (q q' : scp) : Prop :=
  sdp_same_except f (sdp_part q) (sdp_part q')
  /\ (f = FCmd \/ cmd_rc q = cmd_rc q') /\ (f = FSeq \/ seq q = seq q')
  /\ ((f = FArg1 /\ arg1 q <> None /\ arg1 q' <> None) \/ arg1 q = arg1 q')
  /\ ((f = FArg2 /\ arg2 q <> None /\ arg2 q' <> None) \/ arg2 q = arg2 q')
  /\ ((f = FArg3 /\ arg3 q <> None /\ arg3 q' <> None) \/ arg3 q = arg3 q').

(* [others f q i b]: what remains of byte b at position i of q's encoding when the bits owned by field f are
   removed.  Header fields own fixed bytes (ports the top three bits, cores the low five); cmd_rc owns bytes
   10-11, seq 12-13; the j-th present argument owns the four bytes from 14+4j; the payload owns everything
   from 14 + 4 * (number of present arguments) -- from 10 in an SDP packet. *)
Definition header_others (f : field) (i : nat) (b : Z) : Z :=
  match f with
  | FReply => if Nat.eqb i 2 then 0 else b
  | FTag => if Nat.eqb i 3 then 0 else b
  | FDestPort => if Nat.eqb i 4 then b mod 32 else b
  | FDestCpu => if Nat.eqb i 4 then b / 32 else b
  | FSrcPort => if Nat.eqb i 5 then b mod 32 else b
  | FSrcCpu => if Nat.eqb i 5 then b / 32 else b
  | FDestY => if Nat.eqb i 6 then 0 else b
  | FDestX => if Nat.eqb i 7 then 0 else b
  | FSrcY => if Nat.eqb i 8 then 0 else b
  | FSrcX => if Nat.eqb i 9 then 0 else b
  | _ => b
  end.

Definition sdp_others (f : field) (i : nat) (b : Z) : Z :=
  match f with
  | FData => if Nat.leb 10 i then 0 else b
  | _ => header_others f i b
  end.

Definition presentn (a : option Z) : nat := match a with None => 0%nat | Some _ => 1%nat end.

Definition arg_start (q : scp) (f : field) : nat :=
  match f with
  | FArg1 => 14
  | FArg2 => 14 + 4 * presentn (arg1 q)
  | FArg3 => 14 + 4 * (presentn (arg1 q) + presentn (arg2 q))
  | _ => 14 + 4 * (presentn (arg1 q) + presentn (arg2 q) + presentn (arg3 q))
  end.

Definition others (f : field) (q : scp) (i : nat) (b : Z) : Z :=
  match f with
  | FCmd => if (Nat.leb 10 i && Nat.ltb i 12)%bool then 0 else b
  | FSeq => if (Nat.leb 12 i && Nat.ltb i 14)%bool then 0 else b
  | FArg1 | FArg2 | FArg3 =>
      if (Nat.leb (arg_start q f) i && Nat.ltb i (arg_start q f + 4))%bool then 0 else b
  | FData => if Nat.leb (arg_start q f) i then 0 else b
  | _ => header_others f i b
  end.

(* the two encodings differ only in the bits owned by f (and, unless f is the payload, have equal length) *)
Definition differ_only_in (f : field) (q : scp) (bs bs' : list Z) : Prop :=
  (f <> FData -> length bs = length bs')
  /\ forall i, (i < length bs)%nat -> (i < length bs')%nat ->
               others f q i (nth i bs 0) = others f q i (nth i bs' 0).

Definition sdp_differ_only_in (f : field) (bs bs' : list Z) : Prop :=
  (f <> FData -> length bs = length bs')
  /\ forall i, (i < length bs)%nat -> (i < length bs')%nat ->
               sdp_others f i (nth i bs 0) = sdp_others f i (nth i bs' 0).

(* numpy's int8 arithmetic: results are reduced to -128..127 (used only to record why the source converts the
   ports with int() before masking and shifting; numpy itself is modelled, not verified) *)
Definition wrap_int8 (z : Z) : Z := (z + 128) mod 256 - 128.
