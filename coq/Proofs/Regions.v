(* C12: the RegionCoreTree model against the documented meaning of region words.
   Invariant: the number of emitted pairs selecting a core ([cnt]) is 0 or 1 and add_core adds exactly
   the new core to the set of cores counted once. *)
From Coq Require Import ZArith List Bool Lia Sorted.
Require Import Rig.Generated.GenRegions Rig.Model.Base Rig.Model.Regions Rig.Spec.Regions.
Require Import Rig.Proofs.RegionsBits Rig.Proofs.RegionsLists.
Import ListNotations.
Open Scope Z_scope.
Ltac Zify.zify_post_hook ::= Z.to_euclidean_division_equations.

Definition side (n : nat) : Z := 4 ^ Z.of_nat n.
Definition blk (bx by_ sz x y : Z) : bool :=
  (bx <=? x) && (x <? bx + sz) && (by_ <=? y) && (y <? by_ + sz).
Definition subi (n : nat) (x y : Z) : Z := (x / side n) mod 4 + 4 * ((y / side n) mod 4).
Definition base_ok (n : nat) (bx by_ : Z) : Prop :=
  0 <= bx /\ bx + 4 * side n <= 256 /\ bx mod (4 * side n) = 0 /\
  0 <= by_ /\ by_ + 4 * side n <= 256 /\ by_ mod (4 * side n) = 0.

Definition mkword (bx by_ l m : Z) : Z := (bx * 256 + by_ + l) * 65536 + m.

Lemma decode_word : forall bx by_ l m,
  0 <= bx < 256 -> 0 <= by_ < 256 -> by_ mod 4 = 0 -> 0 <= l <= 3 -> 0 <= m < 65536 ->
  word_level (mkword bx by_ l m) = l /\ word_x (mkword bx by_ l m) = bx /\
  word_y (mkword bx by_ l m) = by_ /\ word_blocks (mkword bx by_ l m) = m /\
  0 <= mkword bx by_ l m < 2 ^ 32.
Proof.
  intros bx by_ l m Hx Hy Hy4 Hl Hm.
  unfold word_y, word_level, word_x, word_blocks, mkword.
  change (2 ^ 16) with 65536. change (2 ^ 24) with 16777216. change (2 ^ 32) with 4294967296.
  repeat split; lia.
Qed.

Lemma side_cases : forall n, (n <= 3)%nat -> side n = 1 \/ side n = 4 \/ side n = 16 \/ side n = 64.
Proof.
  intros n Hn. destruct n as [|[|[|[|n]]]]; try lia; unfold side; simpl Z.of_nat;
    [left | right; left | right; right; left | right; right; right]; reflexivity.
Qed.

Lemma sub_side_level : forall n, (n <= 3)%nat -> sub_side (level_of n) = side n.
Proof.
  intros n Hn. unfold sub_side, level_of, side. f_equal. lia.
Qed.

Lemma local_word : forall n bx by_ m, (n <= 3)%nat -> base_ok n bx by_ -> 0 <= m < 65536 ->
  Z.lor (region_code bx by_ (level_of n)) m = mkword bx by_ (level_of n) m.
Proof.
  intros n bx by_ m Hn Hb Hm. unfold base_ok in Hb.
  destruct (side_cases n Hn) as [Hs | [Hs | [Hs | Hs]]]; rewrite Hs in Hb;
  (rewrite region_code_digits by (unfold level_of; lia));
  (rewrite (lor_high_low _ 16 m) by (change (2 ^ 16) with 65536; lia)); reflexivity.
Qed.

Lemma selects_local : forall n bx by_ m x y, (n <= 3)%nat -> base_ok n bx by_ -> 0 <= m < 65536 ->
  selects (Z.lor (region_code bx by_ (level_of n)) m) x y
  = blk bx by_ (4 * side n) x y && Z.testbit m (subi n x y).
Proof.
  intros n bx by_ m x y Hn Hb Hm. rewrite local_word by assumption.
  unfold base_ok in Hb.
  assert (Hl : 0 <= level_of n <= 3) by (unfold level_of; lia).
  destruct (side_cases n Hn) as [Hs | [Hs | [Hs | Hs]]]; rewrite Hs in Hb;
  (destruct (decode_word bx by_ (level_of n) m) as [D1 [D2 [D3 [D4 _]]]]; try lia);
  unfold selects, subi, blk; rewrite D1, D2, D3, D4, (sub_side_level n Hn), Hs;
  (destruct (Z.testbit m _); [rewrite !andb_true_r | rewrite !andb_false_r; reflexivity]);
  apply eq_true_iff_eq; rewrite !andb_true_iff, !Z.eqb_eq, !Z.leb_le, !Z.ltb_lt; lia.
Qed.

(* ------------------------------------------------------------------------------------------ *)
(* block arithmetic                                                                             *)
(* ------------------------------------------------------------------------------------------ *)
Lemma side_S : forall k, side (S k) = 4 * side k.
Proof. intros k. unfold side. rewrite Nat2Z.inj_succ, Z.pow_succ_r by lia. reflexivity. Qed.

Lemma side_pos : forall n, 0 < side n.
Proof. intros n. unfold side. apply Z.pow_pos_nonneg; lia. Qed.

Lemma subi_range : forall n x y, 0 <= subi n x y < 16.
Proof. intros n x y. unfold subi. pose proof (side_pos n). lia. Qed.

(* the block of child j of a node of height S k with base (bx, by) *)
Definition cbx (k : nat) (bx j : Z) : Z := bx + side (S k) * (j mod 4).
Definition cby (k : nat) (by_ j : Z) : Z := by_ + side (S k) * (j / 4).

Lemma child_base_ok : forall k bx by_ j, (S k <= 3)%nat -> base_ok (S k) bx by_ -> 0 <= j < 16 ->
  base_ok k (cbx k bx j) (cby k by_ j).
Proof.
  intros k bx by_ j Hk Hb Hj. unfold base_ok, cbx, cby in *. rewrite side_S in *.
  destruct (side_cases k ltac:(lia)) as [Hs | [Hs | [Hs | Hs]]]; rewrite Hs in *; lia.
Qed.

Lemma child_blk_in : forall k bx by_ j x y, (S k <= 3)%nat -> base_ok (S k) bx by_ -> 0 <= j < 16 ->
  blk (cbx k bx j) (cby k by_ j) (4 * side k) x y = true ->
  blk bx by_ (4 * side (S k)) x y = true /\ subi (S k) x y = j.
Proof.
  intros k bx by_ j x y Hk Hb Hj. unfold base_ok, cbx, cby, blk, subi in *. rewrite side_S in *.
  rewrite !andb_true_iff, !Z.leb_le, !Z.ltb_lt.
  destruct (side_cases k ltac:(lia)) as [Hs | [Hs | [Hs | Hs]]]; rewrite Hs in *; lia.
Qed.

Lemma child_blk_of : forall k bx by_ x y, (S k <= 3)%nat -> base_ok (S k) bx by_ ->
  blk bx by_ (4 * side (S k)) x y = true ->
  blk (cbx k bx (subi (S k) x y)) (cby k by_ (subi (S k) x y)) (4 * side k) x y = true.
Proof.
  intros k bx by_ x y Hk Hb. unfold base_ok, cbx, cby, blk, subi in *. rewrite side_S in *.
  rewrite !andb_true_iff, !Z.leb_le, !Z.ltb_lt.
  destruct (side_cases k ltac:(lia)) as [Hs | [Hs | [Hs | Hs]]]; rewrite Hs in *; lia.
Qed.

Lemma blk_bounds : forall n bx by_ x y, base_ok n bx by_ -> blk bx by_ (4 * side n) x y = true ->
  0 <= x < 256 /\ 0 <= y < 256.
Proof.
  intros n bx by_ x y Hb. unfold base_ok, blk in *.
  rewrite !andb_true_iff, !Z.leb_le, !Z.ltb_lt. lia.
Qed.

(* at the finest level two chips of one block with the same sub-block index are the same chip *)
Lemma subi_0_inj : forall bx by_ x y x' y', base_ok 0 bx by_ ->
  blk bx by_ (4 * side 0) x y = true -> blk bx by_ (4 * side 0) x' y' = true ->
  subi 0 x' y' = subi 0 x y -> x' = x /\ y' = y.
Proof.
  intros bx by_ x y x' y' Hb. unfold base_ok, blk, subi, side in *. simpl Z.of_nat in *.
  change (4 ^ 0) with 1 in *. rewrite !andb_true_iff, !Z.leb_le, !Z.ltb_lt. lia.
Qed.

(* ------------------------------------------------------------------------------------------ *)
(* well-formed trees, and how often a core is selected by the pairs a tree emits                *)
(* ------------------------------------------------------------------------------------------ *)
Definition child (k : nat) (t : tree (S k)) (j : Z) : option (tree k) :=
  znth j (t_subs t : list (option (tree k))) None.

Definition wf_node (n : nat) {K} (t : node K) : Prop :=
  base_ok n (t_bx t) (t_by t) /\ length (t_sel t) = 18%nat /\
  Forall (fun m => 0 <= m < 65536) (t_sel t).

Fixpoint wf (n : nat) : tree n -> Prop :=
  match n return tree n -> Prop with
  | O => fun t => wf_node O t
  | S k => fun t =>
      wf_node (S k) t /\ length (t_subs t : list (option (tree k))) = 16%nat /\
      forall j c, 0 <= j < 16 -> child k t j = Some c ->
        wf k c /\ t_bx c = cbx k (t_bx t) j /\ t_by c = cby k (t_by t) j
  end.

Lemma wf_node_of : forall n t, wf n t -> wf_node n t.
Proof. intros [|k] t H; [exact H | exact (proj1 H)]. Qed.

Definition inb (n : nat) {K} (t : node K) (x y : Z) : bool := blk (t_bx t) (t_by t) (4 * side n) x y.

Definition cnt (n : nat) (t : tree n) (x y p : Z) : nat := times_selected (regions n t) x y p.

Definition loc (n : nat) (sel : list Z) (x y p : Z) : nat :=
  b2n ((0 <=? p) && (p <? 18) && Z.testbit (znth p sel 0) (subi n x y)).

Definition sub_cnt (k : nat) (t : tree (S k)) (i x y p : Z) : nat :=
  match child k t i with Some c => cnt k c x y p | None => 0%nat end.

Lemma times_selected_cnt_if : forall out x y p,
  times_selected out x y p = cnt_if (fun rc => pair_selects rc x y p) out.
Proof. reflexivity. Qed.

Lemma regions_O : forall (t : tree O),
  regions O t = local_pairs (region_code (t_bx t) (t_by t) (level_of O)) (t_sel t).
Proof. reflexivity. Qed.

Lemma regions_S : forall k (t : tree (S k)),
  regions (S k) t
  = local_pairs (region_code (t_bx t) (t_by t) (level_of (S k))) (t_sel t)
    ++ flat_map (fun i => match child k t i with
                          | Some c => regions k c
                          | None => []
                          end) child_order.
Proof. reflexivity. Qed.

Lemma cnt_local : forall n bx by_ sel x y p, (n <= 3)%nat -> base_ok n bx by_ ->
  length sel = 18%nat -> Forall (fun m => 0 <= m < 65536) sel ->
  times_selected (local_pairs (region_code bx by_ (level_of n)) sel) x y p
  = if blk bx by_ (4 * side n) x y then loc n sel x y p else 0%nat.
Proof.
  intros n bx by_ sel x y p Hn Hb Hlen Hsel.
  rewrite times_selected_cnt_if. unfold local_pairs. rewrite cnt_if_map, cnt_if_py_sorted.
  destruct (group_all (subi n x y) p sel) as [[_ Hok] Hw].
  rewrite (cnt_if_ext _ _ (fun e => blk bx by_ (4 * side n) x y
                                     && (Z.testbit (fst e) (subi n x y) && Z.testbit (snd e) p))).
  - destruct (blk bx by_ (4 * side n) x y).
    + simpl. fold (wgt (subi n x y) p (group 0 sel [])). rewrite Hw, Hlen. reflexivity.
    + apply cnt_if_none. reflexivity.
  - intros e He. unfold pair_selects. simpl fst. simpl snd.
    destruct (Hok e He) as [_ [Hin _]]. rewrite Forall_forall in Hsel.
    rewrite selects_local by (auto). rewrite andb_assoc. reflexivity.
Qed.

Lemma cnt_O : forall t x y p, wf O t ->
  cnt O t x y p = if inb O t x y then loc O (t_sel t) x y p else 0%nat.
Proof.
  intros t x y p [Hb [Hl Hs]]. unfold cnt. rewrite regions_O. apply cnt_local; auto.
Qed.

Lemma cnt_outside : forall n t x y p, (n <= 3)%nat -> wf n t -> inb n t x y = false -> cnt n t x y p = 0%nat.
Proof.
  induction n as [|k IH]; intros t x y p Hn Hwf Hout.
  - rewrite cnt_O by exact Hwf. rewrite Hout. reflexivity.
  - destruct Hwf as [[Hb [Hl Hs]] [Hlen Hch]]. unfold cnt. rewrite regions_S.
    rewrite times_selected_cnt_if, cnt_if_app, <- times_selected_cnt_if.
    rewrite cnt_local by auto. unfold inb in Hout. rewrite Hout, Nat.add_0_l.
    rewrite cnt_if_flat_map. apply nsum_zero. intros j Hj.
    assert (Hj16 : 0 <= j < 16).
    { unfold child_order in Hj. simpl in Hj. lia. }
    destruct (child k t j) as [c|] eqn:Hc; [|reflexivity].
    destruct (Hch j c Hj16 Hc) as [Hwc [Hcx Hcy]].
    apply (IH c x y p ltac:(lia) Hwc).
    unfold inb. rewrite Hcx, Hcy.
    destruct (blk (cbx k (t_bx t) j) (cby k (t_by t) j) (4 * side k) x y) eqn:Hblk; [|reflexivity].
    destruct (child_blk_in k _ _ j x y Hn Hb Hj16 Hblk) as [H1 _]. congruence.
Qed.

Lemma child_order_NoDup : NoDup child_order.
Proof. unfold child_order. repeat (constructor; [simpl; lia|]). constructor. Qed.

Lemma child_order_In : forall j, 0 <= j < 16 -> In j child_order.
Proof. intros j Hj. unfold child_order. simpl. lia. Qed.

Lemma child_order_range : forall j, In j child_order -> 0 <= j < 16.
Proof. intros j Hj. unfold child_order in Hj. simpl in Hj. lia. Qed.

Lemma cnt_S : forall k t x y p, (S k <= 3)%nat -> wf (S k) t ->
  cnt (S k) t x y p
  = if inb (S k) t x y
    then (loc (S k) (t_sel t) x y p + sub_cnt k t (subi (S k) x y) x y p)%nat
    else 0%nat.
Proof.
  intros k t x y p Hn Hwf.
  destruct (inb (S k) t x y) eqn:Hin; [|apply cnt_outside; assumption].
  destruct Hwf as [[Hb [Hl Hs]] [Hlen Hch]]. unfold cnt. rewrite regions_S.
  rewrite times_selected_cnt_if, cnt_if_app, <- times_selected_cnt_if.
  rewrite cnt_local by auto. unfold inb in Hin. rewrite Hin. f_equal.
  rewrite cnt_if_flat_map.
  pose proof (subi_range (S k) x y) as Hi.
  rewrite (nsum_single _ _ _ (subi (S k) x y) child_order_NoDup (child_order_In _ Hi)).
  - unfold sub_cnt. destruct (child k t (subi (S k) x y)); reflexivity.
  - intros j Hj Hne. apply child_order_range in Hj.
    destruct (child k t j) as [c|] eqn:Hc; [|reflexivity].
    destruct (Hch j c Hj Hc) as [Hwc [Hcx Hcy]].
    apply (cnt_outside k c x y p ltac:(lia) Hwc).
    unfold inb. rewrite Hcx, Hcy.
    destruct (blk (cbx k (t_bx t) j) (cby k (t_by t) j) (4 * side k) x y) eqn:Hblk; [|reflexivity].
    destruct (child_blk_in k _ _ j x y Hn Hb Hj Hblk) as [_ H2]. congruence.
Qed.

(* ------------------------------------------------------------------------------------------ *)
(* the generated kernels of add_core, read as block arithmetic                                  *)
(* ------------------------------------------------------------------------------------------ *)
Lemma tree_scale_side : forall n, (n <= 3)%nat -> tree_scale (level_of n) = 4 * side n.
Proof.
  intros n Hn. rewrite tree_scale_digits by (unfold level_of; lia).
  rewrite sub_side_level by exact Hn. reflexivity.
Qed.

Lemma out_of_range_blk : forall n bx by_ x y p, (n <= 3)%nat ->
  add_core_out_of_range x y p bx by_ (tree_scale (level_of n))
  = negb (blk bx by_ (4 * side n) x y && (0 <=? p) && (p <? 18)).
Proof.
  intros n bx by_ x y p Hn. rewrite tree_scale_side by exact Hn.
  unfold add_core_out_of_range, blk. generalize (4 * side n) as sz. intros sz.
  rewrite Z.gtb_ltb, !Z.geb_leb.
  match goal with |- ?a = negb ?b => destruct b eqn:E; simpl negb end.
  - rewrite !andb_true_iff, !Z.leb_le, !Z.ltb_lt in E.
    rewrite !orb_false_iff, !Z.ltb_ge, !Z.leb_gt. lia.
  - match goal with |- ?a = true => destruct a eqn:F; [reflexivity|] end.
    rewrite !orb_false_iff, !Z.ltb_ge, !Z.leb_gt in F.
    rewrite <- E. rewrite !andb_true_iff, !Z.leb_le, !Z.ltb_lt. lia.
Qed.

Lemma sub_index_subi : forall n x y, (n <= 3)%nat -> 0 <= x < 256 -> 0 <= y < 256 ->
  subregion_index x y (tree_shift (level_of n)) = subi n x y.
Proof.
  intros n x y Hn Hx Hy. rewrite subregion_index_digits by (unfold level_of; lia).
  rewrite sub_side_level by exact Hn. reflexivity.
Qed.

Lemma not_selected_bit : forall v i, 0 <= i -> add_core_not_selected v i = negb (Z.testbit v i).
Proof.
  intros v i Hi. unfold add_core_not_selected. rewrite negb_involutive. apply land_bit_eqb. exact Hi.
Qed.

Lemma is_full_spec : forall v n,
  add_core_is_full v (level_of n) = (v =? 65535) && negb (Nat.eqb n 3).
Proof.
  intros v n. unfold add_core_is_full, level_of. f_equal. f_equal.
  destruct (Nat.eqb_spec n 3) as [-> | Hne]; [reflexivity|]. apply Z.eqb_neq. lia.
Qed.

Lemma select_range : forall v i, 0 <= v < 65536 -> 0 <= i < 16 -> 0 <= add_core_select v i < 65536.
Proof.
  intros v i Hv Hi. unfold add_core_select. change 65536 with (2 ^ 16) in *. apply lor_bit_range; assumption.
Qed.

Lemma select_bit : forall v i j, 0 <= i -> Z.testbit (add_core_select v i) j = Z.testbit v j || (i =? j).
Proof. intros v i j Hi. unfold add_core_select. apply testbit_lor_bit. exact Hi. Qed.

(* ------------------------------------------------------------------------------------------ *)
(* the count as a function of the node's own array and of its children                          *)
(* ------------------------------------------------------------------------------------------ *)
Definition rest (n : nat) : tree n -> Z -> Z -> Z -> nat :=
  match n return tree n -> Z -> Z -> Z -> nat with
  | O => fun _ _ _ _ => 0%nat
  | S k => fun t x y p => sub_cnt k t (subi (S k) x y) x y p
  end.

Lemma cnt_gen : forall n t x y p, (n <= 3)%nat -> wf n t ->
  cnt n t x y p = if inb n t x y then (loc n (t_sel t) x y p + rest n t x y p)%nat else 0%nat.
Proof.
  intros [|k] t x y p Hn Hwf.
  - rewrite cnt_O by exact Hwf. simpl rest. rewrite Nat.add_0_r. reflexivity.
  - apply cnt_S; assumption.
Qed.

Lemma rest_set_sel : forall n (t : tree n) s x y p, rest n (set_sel t s) x y p = rest n t x y p.
Proof. intros [|k] t s x y p; reflexivity. Qed.

Lemma wf_set_sel : forall n (t : tree n) s, wf n t -> length s = 18%nat ->
  Forall (fun m => 0 <= m < 65536) s -> wf n (set_sel t s).
Proof.
  intros [|k] t s Hwf Hl Hs.
  - destruct Hwf as [Hb _]. split; [exact Hb|]. split; assumption.
  - destruct Hwf as [[Hb _] [Hlen Hch]]. split; [split; [exact Hb | split; assumption]|].
    split; [exact Hlen | exact Hch].
Qed.

Lemma loc_upd_same : forall n sel p v x y, 0 <= p < 18 -> length sel = 18%nat ->
  loc n (zupd p v sel) x y p = b2n (Z.testbit v (subi n x y)).
Proof.
  intros n sel p v x y Hp Hl. unfold loc. rewrite znth_zupd_eq by lia.
  replace (0 <=? p) with true by (symmetry; apply Z.leb_le; lia).
  replace (p <? 18) with true by (symmetry; apply Z.ltb_lt; lia). reflexivity.
Qed.

Lemma loc_upd_other : forall n sel p p' v x y, 0 <= p -> p' <> p ->
  loc n (zupd p v sel) x y p' = loc n sel x y p'.
Proof.
  intros n sel p p' v x y Hp Hne. unfold loc.
  destruct (Z.leb_spec 0 p') as [H0 | H0]; [|reflexivity].
  rewrite znth_zupd_neq by lia. reflexivity.
Qed.

Lemma loc_le1 : forall n sel x y p, (loc n sel x y p <= 1)%nat.
Proof. intros. unfold loc, b2n. destruct (_ && _); lia. Qed.

Lemma loc_bit : forall n sel x y p, 0 <= p < 18 ->
  loc n sel x y p = b2n (Z.testbit (znth p sel 0) (subi n x y)).
Proof.
  intros n sel x y p Hp. unfold loc.
  replace (0 <=? p) with true by (symmetry; apply Z.leb_le; lia).
  replace (p <? 18) with true by (symmetry; apply Z.ltb_lt; lia). reflexivity.
Qed.

(* ------------------------------------------------------------------------------------------ *)
(* what add_core does to the count                                                              *)
(* ------------------------------------------------------------------------------------------ *)
Definition le1 (n : nat) (t : tree n) : Prop := forall x y p, (cnt n t x y p <= 1)%nat.

Lemma core_eqb_eq : forall a b, core_eqb a b = true <-> a = b.
Proof.
  intros [[x y] p] [[x' y'] p']. unfold core_eqb.
  rewrite !andb_true_iff, !Z.eqb_eq. split; [intros [[-> ->] ->]; reflexivity | intros H; inversion H; auto].
Qed.

(* t1 counts exactly the cores t counts, and (x, y, p) *)
Definition Add1 (n : nat) (t t1 : tree n) (x y p : Z) : Prop :=
  forall x' y' p', cnt n t1 x' y' p' = if core_eqb (x', y', p') (x, y, p) then 1%nat else cnt n t x' y' p'.

Definition add_post (n : nat) (t : tree n) (x y p : Z) (t' : tree n) (full : bool) : Prop :=
  wf n t' /\ t_bx t' = t_bx t /\ t_by t' = t_by t /\
  (full = false -> Add1 n t t' x y p) /\
  (full = true ->
     n <> 3%nat /\
     (forall x' y' p', cnt n t' x' y' p' = if p' =? p then 0%nat else cnt n t x' y' p') /\
     (forall x' y', inb n t x' y' = true -> cnt n t x' y' p = 1%nat \/ (x' = x /\ y' = y))).

Lemma add_post_le1 : forall n t x y p t' full, le1 n t -> add_post n t x y p t' full -> le1 n t'.
Proof.
  intros n t x y p t' full Hle [_ [_ [_ [Hf Ht]]]] x' y' p'. destruct full.
  - destruct (Ht eq_refl) as [_ [H _]]. rewrite H. destruct (p' =? p); [lia | apply Hle].
  - rewrite (Hf eq_refl). destruct (core_eqb _ _); [lia | apply Hle].
Qed.

Lemma finish_after_add : forall n (t t1 : tree n) x y p, (n <= 3)%nat ->
  wf n t1 -> t_bx t1 = t_bx t -> t_by t1 = t_by t -> le1 n t -> Add1 n t t1 x y p -> 0 <= p < 18 ->
  exists t' full, finish (level_of n) t1 p = (t', full) /\ add_post n t x y p t' full.
Proof.
  intros n t t1 x y p Hn Hwf Hbx Hby Hle Hadd Hp.
  assert (Hle1 : le1 n t1).
  { intros x' y' p'. rewrite Hadd. destruct (core_eqb _ _); [lia | apply Hle]. }
  unfold finish. rewrite is_full_spec.
  destruct ((znth p (t_sel t1) 0 =? 65535) && negb (Nat.eqb n 3)) eqn:Hfull.
  - apply andb_true_iff in Hfull. destruct Hfull as [Hv Hn3]. apply Z.eqb_eq in Hv.
    apply negb_true_iff in Hn3. apply Nat.eqb_neq in Hn3.
    pose proof (wf_node_of n t1 Hwf) as [Hb [Hl Hs]].
    eexists. exists true. split; [reflexivity|].
    assert (Hwf' : wf n (set_sel t1 (zupd p 0 (t_sel t1)))).
    { apply wf_set_sel; [exact Hwf | rewrite zupd_length; exact Hl | apply Forall_zupd; [exact Hs | lia]]. }
    (* inside the block the whole array entry is set, so the children hold nothing for p *)
    assert (Hrest : forall x' y', inb n t1 x' y' = true -> rest n t1 x' y' p = 0%nat /\ cnt n t1 x' y' p = 1%nat).
    { intros x' y' Hin. pose proof (Hle1 x' y' p) as H1. rewrite cnt_gen in H1 |- * by assumption.
      rewrite Hin in *. rewrite loc_bit in * by exact Hp. rewrite Hv in *.
      rewrite testbit_65535 in * by apply subi_range. simpl b2n in *. lia. }
    split; [exact Hwf'|]. split; [exact Hbx|]. split; [exact Hby|]. split; [discriminate|]. intros _.
    split; [exact Hn3|]. split.
    + intros x' y' p'. rewrite cnt_gen by assumption. rewrite rest_set_sel.
      assert (Hinb : inb n (set_sel t1 (zupd p 0 (t_sel t1))) x' y' = inb n t1 x' y') by reflexivity.
      rewrite Hinb. simpl t_sel.
      destruct (Z.eqb_spec p' p) as [-> | Hne].
      * destruct (inb n t1 x' y') eqn:Hin; [|reflexivity].
        rewrite loc_upd_same by assumption. rewrite Z.bits_0. destruct (Hrest x' y' Hin) as [-> _]. reflexivity.
      * rewrite loc_upd_other by lia. rewrite <- cnt_gen by assumption.
        rewrite Hadd. destruct (core_eqb (x', y', p') (x, y, p)) eqn:He; [|reflexivity].
        apply core_eqb_eq in He. inversion He. contradiction.
    + intros x' y' Hin. assert (Hin1 : inb n t1 x' y' = true).
      { unfold inb in *. rewrite Hbx, Hby. exact Hin. }
      destruct (Hrest x' y' Hin1) as [_ H1]. rewrite Hadd in H1.
      destruct (core_eqb (x', y', p) (x, y, p)) eqn:He.
      * apply core_eqb_eq in He. inversion He. right. split; reflexivity.
      * left. exact H1.
  - exists t1, false. split; [reflexivity|]. split; [exact Hwf|]. split; [exact Hbx|]. split; [exact Hby|].
    split; [intros _; exact Hadd | discriminate].
Qed.

(* ------------------------------------------------------------------------------------------ *)
(* a fresh tree                                                                                 *)
(* ------------------------------------------------------------------------------------------ *)
Lemma regions_new : forall n bx by_, regions n (new_tree n bx by_) = [].
Proof. intros [|k] bx by_; reflexivity. Qed.

Lemma cnt_new : forall n bx by_ x y p, cnt n (new_tree n bx by_) x y p = 0%nat.
Proof. intros. unfold cnt. rewrite regions_new. reflexivity. Qed.

Lemma wf_new : forall n bx by_, base_ok n bx by_ -> wf n (new_tree n bx by_).
Proof.
  intros n bx by_ Hb.
  assert (Hnode : forall K (s : K), wf_node n (mkNode bx by_ (repeat 0 (Z.to_nat n_cores)) s)).
  { intros K s. split; [exact Hb|]. split; [reflexivity|].
    apply Forall_forall. intros m Hm. apply repeat_spec in Hm. subst m. lia. }
  destruct n as [|k].
  - apply Hnode.
  - split; [apply Hnode|]. split; [reflexivity|].
    intros j c Hj Hc.
    assert (E : child k (new_tree (S k) bx by_) j = None) by (unfold child; apply znth_repeat).
    rewrite E in Hc. discriminate.
Qed.

(* ------------------------------------------------------------------------------------------ *)
(* a node whose array and whose child i are replaced                                            *)
(* ------------------------------------------------------------------------------------------ *)
Lemma child_upd : forall k (t : tree (S k)) sel' i (c' : tree k) j,
  length (t_subs t : list (option (tree k))) = 16%nat -> 0 <= i < 16 -> 0 <= j < 16 ->
  child k (mkNode (t_bx t) (t_by t) sel' (zupd i (Some c') (t_subs t : list (option (tree k))))) j
  = if j =? i then Some c' else child k t j.
Proof.
  intros k t sel' i c' j Hlen Hi Hj. unfold child. simpl t_subs.
  destruct (Z.eqb_spec j i) as [-> | Hne].
  - apply znth_zupd_eq.
    change (0 <= i < Z.of_nat (length (t_subs t : list (option (tree k))))). rewrite Hlen. lia.
  - apply znth_zupd_neq; lia.
Qed.

Lemma node_upd : forall k (t : tree (S k)) sel' i (c' : tree k), (S k <= 3)%nat ->
  wf (S k) t -> 0 <= i < 16 -> wf k c' ->
  t_bx c' = cbx k (t_bx t) i -> t_by c' = cby k (t_by t) i ->
  length sel' = 18%nat -> Forall (fun m => 0 <= m < 65536) sel' ->
  let t2 : tree (S k) := mkNode (t_bx t) (t_by t) sel' (zupd i (Some c') (t_subs t : list (option (tree k)))) in
  wf (S k) t2 /\
  forall x y p, cnt (S k) t2 x y p
    = if inb (S k) t x y
      then (loc (S k) sel' x y p
            + (if (subi (S k) x y =? i)%Z then cnt k c' x y p else sub_cnt k t (subi (S k) x y) x y p))%nat
      else 0%nat.
Proof.
  intros k t sel' i c' Hk Hwf Hi Hwc Hcx Hcy Hl' Hs' t2.
  destruct Hwf as [[Hb [Hl Hs]] [Hlen Hch]].
  assert (Hwf2 : wf (S k) t2).
  { split; [split; [exact Hb | split; assumption]|]. split.
    - unfold t2. simpl t_subs. rewrite zupd_length. exact Hlen.
    - intros j c Hj Hc. unfold t2 in Hc. rewrite child_upd in Hc by assumption.
      destruct (Z.eqb_spec j i) as [-> | Hne].
      + inversion Hc. subst c. auto.
      + apply Hch; assumption. }
  split; [exact Hwf2|]. intros x y p. rewrite cnt_S by assumption.
  change (inb (S k) t2 x y) with (inb (S k) t x y).
  destruct (inb (S k) t x y); [|reflexivity]. f_equal.
  unfold sub_cnt, t2. rewrite child_upd by (try assumption; apply subi_range).
  destruct (subi (S k) x y =? i); reflexivity.
Qed.

(* ------------------------------------------------------------------------------------------ *)
(* add_core                                                                                     *)
(* ------------------------------------------------------------------------------------------ *)
Lemma add_core_O_eq : forall (t : tree O) x y p,
  add_core O t x y p =
  let level := level_of O in
  if add_core_out_of_range x y p (t_bx t) (t_by t) (tree_scale level) then Failed 0
  else if Z.of_nat (length (t_sel t)) <=? p then OtherError
  else
    let sub := subregion_index x y (tree_shift level) in
    let t1 := set_sel t (zupd p (add_core_select (znth p (t_sel t) 0) sub) (t_sel t)) in
    Ok (finish level t1 p).
Proof. reflexivity. Qed.

Lemma add_core_S_eq : forall k (t : tree (S k)) x y p,
  add_core (S k) t x y p =
  let level := level_of (S k) in
  let scale := tree_scale level in
  if add_core_out_of_range x y p (t_bx t) (t_by t) scale then Failed 0
  else if Z.of_nat (length (t_sel t)) <=? p then OtherError
  else
    let sub := subregion_index x y (tree_shift level) in
    bind (if add_core_not_selected (znth p (t_sel t) 0) sub then
            let c0 : tree k :=
              match child k t sub with
              | Some c => c
              | None => new_tree k (t_bx t + (scale / 4) * (sub mod 4))
                                   (t_by t + (scale / 4) * (sub / 4))
              end in
            bind (add_core k c0 x y p) (fun r =>
              let t1 : tree (S k) := set_subs t (zupd sub (Some (fst r)) (t_subs t : list (option (tree k)))) in
              Ok (if snd r
                  then set_sel t1 (zupd p (add_core_select (znth p (t_sel t1) 0) sub) (t_sel t1))
                  else t1))
          else Ok t)
         (fun t2 => Ok (finish level t2 p)).
Proof. reflexivity. Qed.

Lemma core_eqb_refl : forall x y p, core_eqb (x, y, p) (x, y, p) = true.
Proof. intros. apply core_eqb_eq. reflexivity. Qed.

Lemma core_eqb_p : forall x' y' p' x y p, p' <> p -> core_eqb (x', y', p') (x, y, p) = false.
Proof.
  intros. destruct (core_eqb _ _) eqn:E; [|reflexivity]. apply core_eqb_eq in E. inversion E. contradiction.
Qed.

Theorem add_core_spec : forall n, (n <= 3)%nat -> forall (t : tree n) x y p,
  wf n t -> le1 n t -> inb n t x y = true -> 0 <= p < 18 ->
  exists t' full, add_core n t x y p = Ok (t', full) /\ add_post n t x y p t' full.
Proof.
  induction n as [|k IH]; intros Hn t x y p Hwf Hle Hin Hp.
  - (* level 3 *)
    pose proof Hwf as [Hb [Hl Hs]].
    destruct (blk_bounds _ _ _ _ _ Hb Hin) as [Hx Hy].
    rewrite add_core_O_eq. cbv zeta.
    rewrite out_of_range_blk by exact Hn. unfold inb in Hin. rewrite Hin.
    replace (0 <=? p) with true by (symmetry; apply Z.leb_le; lia).
    replace (p <? 18) with true by (symmetry; apply Z.ltb_lt; lia). simpl negb. cbv iota.
    rewrite Hl. replace (Z.of_nat 18 <=? p) with false by (symmetry; apply Z.leb_gt; lia).
    rewrite sub_index_subi by assumption.
    set (i := subi O x y). pose proof (subi_range O x y) as Hi. fold i in Hi.
    set (v := znth p (t_sel t) 0).
    assert (Hv : 0 <= v < 65536).
    { pose proof (znth_In _ (t_sel t) p 0 ltac:(lia)) as H. rewrite Forall_forall in Hs. apply Hs. exact H. }
    set (t1 := set_sel t (zupd p (add_core_select v i) (t_sel t))).
    assert (Hwf1 : wf O t1).
    { apply (wf_set_sel O); [exact Hwf | rewrite zupd_length; exact Hl |].
      apply Forall_zupd; [exact Hs | apply select_range; assumption]. }
    assert (Hadd : Add1 O t t1 x y p).
    { intros x' y' p'. rewrite !cnt_O by assumption.
      change (inb O t1 x' y') with (inb O t x' y'). unfold t1. simpl t_sel.
      destruct (Z.eq_dec p' p) as [-> | Hne].
      - destruct (inb O t x' y') eqn:Hin'.
        + rewrite loc_upd_same by assumption. rewrite select_bit by lia.
          rewrite loc_bit by exact Hp. fold v.
          destruct (core_eqb (x', y', p) (x, y, p)) eqn:He.
          * apply core_eqb_eq in He. inversion He. subst x' y'. fold i. rewrite Z.eqb_refl, orb_true_r. reflexivity.
          * replace (i =? subi O x' y') with false; [rewrite orb_false_r; reflexivity|].
            symmetry. apply Z.eqb_neq. intro E.
            destruct (subi_0_inj _ _ x y x' y' Hb Hin Hin' (eq_sym E)) as [-> ->].
            rewrite core_eqb_refl in He. discriminate.
        + destruct (core_eqb (x', y', p) (x, y, p)) eqn:He; [|reflexivity].
          apply core_eqb_eq in He. inversion He. subst x' y'. unfold inb in Hin'. congruence.
      - rewrite loc_upd_other by lia. rewrite core_eqb_p by exact Hne. reflexivity. }
    destruct (finish_after_add O t t1 x y p Hn Hwf1 eq_refl eq_refl Hle Hadd Hp) as [t' [full [Hf Hpost]]].
    exists t', full. rewrite Hf. split; [reflexivity | exact Hpost].
  - (* level < 3 *)
    pose proof Hwf as [[Hb [Hl Hs]] [Hlen Hch]].
    destruct (blk_bounds _ _ _ _ _ Hb Hin) as [Hx Hy].
    rewrite add_core_S_eq. cbv zeta.
    rewrite out_of_range_blk by exact Hn. pose proof Hin as Hin0. unfold inb in Hin0. rewrite Hin0.
    replace (0 <=? p) with true by (symmetry; apply Z.leb_le; lia).
    replace (p <? 18) with true by (symmetry; apply Z.ltb_lt; lia). simpl negb. cbv iota.
    rewrite Hl. replace (Z.of_nat 18 <=? p) with false by (symmetry; apply Z.leb_gt; lia).
    rewrite sub_index_subi by assumption.
    set (i := subi (S k) x y). pose proof (subi_range (S k) x y) as Hi. fold i in Hi.
    set (v := znth p (t_sel t) 0).
    assert (Hv : 0 <= v < 65536).
    { pose proof (znth_In _ (t_sel t) p 0 ltac:(lia)) as H. rewrite Forall_forall in Hs. apply Hs. exact H. }
    rewrite not_selected_bit by lia.
    assert (Hcnt : forall x' y' p', cnt (S k) t x' y' p'
              = if inb (S k) t x' y' then (loc (S k) (t_sel t) x' y' p' + sub_cnt k t (subi (S k) x' y') x' y' p')%nat else 0%nat).
    { intros. apply cnt_S; assumption. }
    (* the node reached after the (possible) recursive call *)
    assert (Hmid : exists t2 : tree (S k),
      (if negb (Z.testbit v i)
       then bind (add_core k match child k t i with
                             | Some c => c
                             | None => new_tree k (t_bx t + tree_scale (level_of (S k)) / 4 * (i mod 4))
                                                  (t_by t + tree_scale (level_of (S k)) / 4 * (i / 4))
                             end x y p)
                 (fun r => Ok (if snd r
                               then set_sel (set_subs t (zupd i (Some (fst r)) (t_subs t : list (option (tree k)))))
                                            (zupd p (add_core_select (znth p (t_sel (set_subs t (zupd i (Some (fst r)) (t_subs t : list (option (tree k)))))) 0) i)
                                                  (t_sel (set_subs t (zupd i (Some (fst r)) (t_subs t : list (option (tree k)))))))
                               else set_subs t (zupd i (Some (fst r)) (t_subs t : list (option (tree k))))))
       else Ok t) = Ok t2
      /\ wf (S k) t2 /\ t_bx t2 = t_bx t /\ t_by t2 = t_by t /\ Add1 (S k) t t2 x y p).
    { destruct (Z.testbit v i) eqn:Hbit; simpl negb; cbv iota.
      - (* already selected for the whole sub-block: nothing to do *)
        exists t. split; [reflexivity|]. split; [exact Hwf|]. split; [reflexivity|]. split; [reflexivity|].
        intros x' y' p'. destruct (core_eqb (x', y', p') (x, y, p)) eqn:He; [|reflexivity].
        apply core_eqb_eq in He. inversion He. subst x' y' p'.
        pose proof (Hle x y p) as H1. rewrite Hcnt in H1 |- *. rewrite Hin in *.
        rewrite loc_bit in * by exact Hp. fold i v in H1 |- *. rewrite Hbit in *. simpl b2n in *. lia.
      - (* recurse into child i *)
        set (c0 := match child k t i with
                   | Some c => c
                   | None => new_tree k (t_bx t + tree_scale (level_of (S k)) / 4 * (i mod 4))
                                        (t_by t + tree_scale (level_of (S k)) / 4 * (i / 4))
                   end).
        assert (Hscale : tree_scale (level_of (S k)) / 4 = side (S k)).
        { rewrite tree_scale_side by exact Hn. rewrite Z.mul_comm. apply Z.div_mul. lia. }
        assert (Hc0 : wf k c0 /\ t_bx c0 = cbx k (t_bx t) i /\ t_by c0 = cby k (t_by t) i /\
                      forall x' y' p', cnt k c0 x' y' p' = sub_cnt k t i x' y' p').
        { unfold c0, sub_cnt. destruct (child k t i) as [c|] eqn:Hc.
          - destruct (Hch i c Hi Hc) as [H1 [H2 H3]]. auto.
          - rewrite Hscale. split; [apply wf_new; apply child_base_ok; assumption|].
            split; [reflexivity|]. split; [reflexivity|]. intros. apply cnt_new. }
        destruct Hc0 as [Hwc0 [Hc0x [Hc0y Hc0cnt]]].
        assert (Hin_c0 : forall x' y', inb k c0 x' y' = true -> inb (S k) t x' y' = true /\ subi (S k) x' y' = i).
        { intros x' y' H. unfold inb in H. rewrite Hc0x, Hc0y in H.
          apply (child_blk_in k _ _ i x' y' Hn Hb Hi H). }
        assert (Hle0 : le1 k c0).
        { intros x' y' p'. destruct (inb k c0 x' y') eqn:Hi0.
          - destruct (Hin_c0 x' y' Hi0) as [Hi1 Hi2].
            pose proof (Hle x' y' p') as H1. rewrite Hcnt, Hi1, Hi2 in H1. rewrite Hc0cnt. lia.
          - rewrite cnt_outside by (try assumption; lia). lia. }
        assert (Hin0' : inb k c0 x y = true).
        { unfold inb. rewrite Hc0x, Hc0y. apply child_blk_of; assumption. }
        destruct (IH ltac:(lia) c0 x y p Hwc0 Hle0 Hin0' Hp) as [c' [fullc [Hrec [Hwc' [Hcx' [Hcy' [Hf Ht]]]]]]].
        rewrite Hrec. simpl bind. simpl fst. simpl snd.
        rewrite Hc0x in Hcx'. rewrite Hc0y in Hcy'.
        destruct fullc.
        + (* the child reports that p is now wanted on all of its chips *)
          destruct (Ht eq_refl) as [_ [Hc'cnt Hall]].
          destruct (node_upd k t (zupd p (add_core_select v i) (t_sel t)) i c' Hn Hwf Hi Hwc' Hcx' Hcy'
                      ltac:(rewrite zupd_length; exact Hl)
                      ltac:(apply Forall_zupd; [exact Hs | apply select_range; assumption])) as [Hwf2 Hcnt2].
          eexists. split; [reflexivity|]. split; [exact Hwf2|]. split; [reflexivity|]. split; [reflexivity|].
          intros x' y' p'. unfold set_sel, set_subs. simpl t_sel. simpl t_subs. simpl t_bx. simpl t_by.
          fold v. rewrite Hcnt2, Hcnt.
          destruct (inb (S k) t x' y') eqn:Hin'.
          * destruct (Z.eq_dec p' p) as [-> | Hne].
            -- rewrite loc_upd_same by assumption. rewrite select_bit by lia.
               rewrite loc_bit by exact Hp. fold v.
               destruct (Z.eqb_spec (subi (S k) x' y') i) as [Ei | Ni].
               ++ rewrite Ei, Hbit, Z.eqb_refl. simpl orb. rewrite Hc'cnt, Z.eqb_refl. simpl b2n.
                  destruct (core_eqb (x', y', p) (x, y, p)) eqn:He; [reflexivity|].
                  assert (Hi0 : inb k c0 x' y' = true).
                  { unfold inb. rewrite Hc0x, Hc0y. rewrite <- Ei. apply child_blk_of; assumption. }
                  destruct (Hall x' y' Hi0) as [H1 | [-> ->]].
                  ** rewrite Hc0cnt in H1. rewrite H1. reflexivity.
                  ** rewrite core_eqb_refl in He. discriminate.
               ++ replace (i =? subi (S k) x' y') with false by (symmetry; apply Z.eqb_neq; lia).
                  rewrite orb_false_r.
                  destruct (core_eqb (x', y', p) (x, y, p)) eqn:He; [|reflexivity].
                  apply core_eqb_eq in He. inversion He. subst x' y'. contradiction.
            -- rewrite loc_upd_other by lia. rewrite core_eqb_p by exact Hne.
               destruct (Z.eqb_spec (subi (S k) x' y') i) as [Ei | Ni]; [|reflexivity].
               rewrite Hc'cnt. replace (p' =? p) with false by (symmetry; apply Z.eqb_neq; exact Hne).
               rewrite Hc0cnt, Ei. reflexivity.
          * destruct (core_eqb (x', y', p') (x, y, p)) eqn:He; [|reflexivity].
            apply core_eqb_eq in He. inversion He. subst x' y'. congruence.
        + (* the child took the core *)
          pose proof (Hf eq_refl) as Hc'cnt.
          destruct (node_upd k t (t_sel t) i c' Hn Hwf Hi Hwc' Hcx' Hcy' Hl Hs) as [Hwf2 Hcnt2].
          eexists. split; [reflexivity|]. split; [exact Hwf2|]. split; [reflexivity|]. split; [reflexivity|].
          intros x' y' p'. unfold set_subs. rewrite Hcnt2, Hcnt.
          destruct (inb (S k) t x' y') eqn:Hin'.
          * destruct (Z.eqb_spec (subi (S k) x' y') i) as [Ei | Ni].
            -- rewrite Hc'cnt, Hc0cnt, Ei.
               destruct (core_eqb (x', y', p') (x, y, p)) eqn:He; [|reflexivity].
               apply core_eqb_eq in He. inversion He. subst x' y' p'.
               rewrite loc_bit by exact Hp. fold i v. rewrite Hbit. reflexivity.
            -- destruct (core_eqb (x', y', p') (x, y, p)) eqn:He; [|reflexivity].
               apply core_eqb_eq in He. inversion He. subst x' y'. contradiction.
          * destruct (core_eqb (x', y', p') (x, y, p)) eqn:He; [|reflexivity].
            apply core_eqb_eq in He. inversion He. subst x' y'. congruence. }
    destruct Hmid as [t2 [Hmid [Hwf2 [Hbx2 [Hby2 Hadd]]]]].
    unfold set_sel, set_subs in Hmid |- *. simpl t_sel in Hmid |- *. simpl t_subs in Hmid |- *.
    simpl t_bx in Hmid |- *. simpl t_by in Hmid |- *.
    fold v in Hmid |- *.
    rewrite Hmid. simpl bind.
    destruct (finish_after_add (S k) t t2 x y p Hn Hwf2 Hbx2 Hby2 Hle Hadd Hp) as [t' [full [Hf Hpost]]].
    exists t', full. split; [f_equal; exact Hf | exact Hpost].
Qed.

(* ------------------------------------------------------------------------------------------ *)
(* compress_flood_fill_regions: exactness                                                       *)
(* ------------------------------------------------------------------------------------------ *)
Definition root_ok (t : tree 3) : Prop := wf 3 t /\ le1 3 t /\ t_bx t = 0 /\ t_by t = 0.

Lemma side_3 : side 3 = 64.
Proof. reflexivity. Qed.

Lemma root_new : root_ok (new_tree 3 0 0).
Proof.
  split; [|split; [|split; reflexivity]].
  - apply wf_new. unfold base_ok. rewrite side_3. simpl. lia.
  - intros x y p. rewrite cnt_new. lia.
Qed.

Definition in_spaceb (c : core) : bool :=
  let '(x, y, p) := c in blk 0 0 256 x y && (0 <=? p) && (p <? 18).

Lemma in_spaceb_spec : forall c, in_spaceb c = true <-> in_space c.
Proof.
  intros [[x y] p]. unfold in_spaceb, in_space, blk.
  rewrite !andb_true_iff, !Z.leb_le, !Z.ltb_lt. lia.
Qed.

Lemma add_core_root : forall t x y p, root_ok t -> in_space (x, y, p) ->
  exists t1, add_core 3 t x y p = Ok (t1, false) /\ root_ok t1 /\ Add1 3 t t1 x y p.
Proof.
  intros t x y p [Hwf [Hle [Hbx Hby]]] Hsp.
  assert (Hin : inb 3 t x y = true).
  { unfold inb. rewrite Hbx, Hby, side_3. apply in_spaceb_spec in Hsp. unfold in_spaceb in Hsp.
    apply andb_true_iff in Hsp. destruct Hsp as [Hsp _]. apply andb_true_iff in Hsp. apply Hsp. }
  assert (Hp : 0 <= p < 18) by (unfold in_space in Hsp; lia).
  destruct (add_core_spec 3 (le_n 3) t x y p Hwf Hle Hin Hp) as [t1 [full [Hadd Hpost]]].
  pose proof (add_post_le1 _ _ _ _ _ _ _ Hle Hpost) as Hle1.
  destruct Hpost as [Hwf1 [Hbx1 [Hby1 [Hf Ht]]]].
  destruct full.
  - destruct (Ht eq_refl) as [Hne _]. contradiction.
  - exists t1. split; [exact Hadd|]. split; [|apply Hf; reflexivity].
    split; [exact Hwf1|]. split; [exact Hle1|]. split; congruence.
Qed.

Lemma add_core_root_outside : forall t x y p, root_ok t -> ~ in_space (x, y, p) ->
  add_core 3 t x y p = Failed 0.
Proof.
  intros t x y p [Hwf [Hle [Hbx Hby]]] Hsp.
  rewrite add_core_S_eq. cbv zeta. rewrite out_of_range_blk by lia.
  rewrite Hbx, Hby, side_3.
  change (blk 0 0 (4 * 64) x y && (0 <=? p) && (p <? 18)) with (in_spaceb (x, y, p)).
  destruct (in_spaceb (x, y, p)) eqn:E; [|reflexivity].
  apply in_spaceb_spec in E. contradiction.
Qed.

Lemma add_all_cons : forall n (t : tree n) x y p r,
  add_all n t ((x, y, p) :: r) = bind (add_core n t x y p) (fun tb => add_all n (fst tb) r).
Proof. reflexivity. Qed.

Lemma add_all_spec : forall cs t, root_ok t -> Forall in_space cs ->
  exists t', add_all 3 t cs = Ok t' /\ root_ok t' /\
    forall x y p, cnt 3 t' x y p = if requested cs x y p then 1%nat else cnt 3 t x y p.
Proof.
  induction cs as [|[[x0 y0] p0] cs IH]; intros t Hroot Hall.
  - exists t. split; [reflexivity|]. split; [exact Hroot|]. reflexivity.
  - inversion Hall as [|? ? Hc Hcs]; subst.
    destruct (add_core_root t x0 y0 p0 Hroot Hc) as [t1 [Hadd [Hroot1 Hadd1]]].
    destruct (IH t1 Hroot1 Hcs) as [t' [Hall' [Hroot' Hcnt]]].
    exists t'. rewrite add_all_cons, Hadd. simpl bind. simpl fst. split; [exact Hall'|]. split; [exact Hroot'|].
    intros x y p. rewrite Hcnt. unfold requested. simpl existsb. fold (requested cs x y p).
    destruct (requested cs x y p); [rewrite orb_true_r; reflexivity|].
    rewrite orb_false_r. apply Hadd1.
Qed.

Lemma times_selected_sorted : forall l x y p, times_selected (py_sorted l) x y p = times_selected l x y p.
Proof. intros. rewrite !times_selected_cnt_if. apply cnt_if_py_sorted. Qed.

Theorem compress_exact : forall cs, Forall in_space cs ->
  exists out, compress cs = Ok out /\
    forall x y p, times_selected out x y p = if requested cs x y p then 1%nat else 0%nat.
Proof.
  intros cs Hall. destruct (add_all_spec cs _ root_new Hall) as [t' [Hadd [_ Hcnt]]].
  exists (py_sorted (regions 3 t')). unfold compress. rewrite Hadd. split; [reflexivity|].
  intros x y p. rewrite times_selected_sorted. fold (cnt 3 t' x y p). rewrite Hcnt, cnt_new. reflexivity.
Qed.

(* the error branch: a core outside the space makes the call raise ValueError *)
Lemma add_all_outside : forall cs t, root_ok t -> Exists (fun c => ~ in_space c) cs ->
  add_all 3 t cs = Failed 0.
Proof.
  induction cs as [|[[x0 y0] p0] cs IH]; intros t Hroot Hex; [inversion Hex|].
  rewrite add_all_cons. destruct (in_spaceb (x0, y0, p0)) eqn:E.
  - apply in_spaceb_spec in E.
    destruct (add_core_root t x0 y0 p0 Hroot E) as [t1 [Hadd [Hroot1 _]]].
    rewrite Hadd. simpl bind. simpl fst. apply IH; [exact Hroot1|].
    inversion Hex as [? ? Hbad | ? ? Hrest]; subst; [contradiction | exact Hrest].
  - rewrite add_core_root_outside; [reflexivity | exact Hroot |].
    intro H. apply in_spaceb_spec in H. congruence.
Qed.

Theorem compress_outside : forall cs, Exists (fun c => ~ in_space c) cs -> compress cs = Failed 0.
Proof.
  intros cs Hex. unfold compress. rewrite (add_all_outside cs _ root_new Hex). reflexivity.
Qed.

Lemma in_space_all_or_not : forall cs, Forall in_space cs \/ Exists (fun c => ~ in_space c) cs.
Proof.
  induction cs as [|c cs IH]; [left; constructor|].
  destruct (in_spaceb c) eqn:E.
  - apply in_spaceb_spec in E. destruct IH as [IH | IH]; [left; constructor; assumption | right; apply Exists_cons_tl; exact IH].
  - right. apply Exists_cons_hd. intro H. apply in_spaceb_spec in H. congruence.
Qed.

Theorem compress_ok_iff : forall cs, (exists out, compress cs = Ok out) <-> Forall in_space cs.
Proof.
  intros cs. split.
  - intros [out Hout]. destruct (in_space_all_or_not cs) as [H | H]; [exact H|].
    rewrite (compress_outside cs H) in Hout. discriminate.
  - intros H. destruct (compress_exact cs H) as [out [Hout _]]. exists out. exact Hout.
Qed.
