(* "Never fails with any other exception": on a well-formed, consistent problem (and documented orders) the
   sequential family, the random placer and the annealer's preparation end in a placement, in
   InsufficientResourceError or in InvalidConstraintError -- the model's OtherError outcome (KeyError,
   IndexError, ValueError, ...) is unreachable. *)
From Coq Require Import ZArith List Bool Lia.
Require Import Rig.Model.Base Rig.Model.Place Rig.Spec.Place Rig.Proofs.Place Rig.Proofs.PlaceCore
        Rig.Proofs.PlaceMerge Rig.Proofs.PlaceSeq Rig.Proofs.PlaceComplete Rig.Proofs.PlaceSA.
Import ListNotations.
Open Scope Z_scope.

(* the outcome is a value or one of the two documented placement errors *)
Definition documented {A} (r : result A) : Prop :=
  match r with
  | Ok _ => True
  | Failed k => k = E_insufficient \/ k = E_invalid
  | OtherError => False
  | OutOfFuel => False
  end.

Ltac doc_triv := first [exact I | left; reflexivity | right; reflexivity].

Lemma bind_doc : forall {A B} (r : result A) (f : A -> result B),
  documented r -> (forall a, r = Ok a -> documented (f a)) -> documented (bind r f).
Proof.
  intros A B r f Hr Hf. destruct r as [a| k | |]; cbn [bind documented] in *.
  - apply Hf. reflexivity.
  - exact Hr.
  - exact Hr.
  - exact Hr.
Qed.

(* ---------------------------------------------------------------------------------------------- *)
(* Merging never hits an unknown vertex                                                             *)
(* ---------------------------------------------------------------------------------------------- *)
Lemma vr_pop_some : forall v (vr : vresources), In v (map fst vr) -> exists d vr', vr_pop v vr = Some (d, vr').
Proof.
  intros v vr. induction vr as [|[u du] t IH]; intros H; [destruct H|]. cbn [vr_pop].
  destruct (v =? u) eqn:E; [eexists; eexists; reflexivity|].
  destruct IH as [d [t' Ht]].
  - destruct H as [H | H]; [cbn [fst] in H; subst; rewrite Z.eqb_refl in E; discriminate | exact H].
  - rewrite Ht. eexists; eexists; reflexivity.
Qed.

Lemma pop_all_some : forall S (vr : vresources) tot,
  NoDup S -> NoDup (map fst vr) -> (forall v, In v S -> In v (map fst vr)) ->
  exists total vr', pop_all S vr tot = Some (total, vr').
Proof.
  induction S as [|v S IH]; intros vr tot HS Hnd Hin; cbn [pop_all]; [eexists; eexists; reflexivity|].
  inversion HS as [|? ? Hv HS']. subst.
  destruct (vr_pop_some v vr (Hin v (or_introl eq_refl))) as [d [vr1 Hp]]. rewrite Hp.
  destruct (vr_pop_spec v vr d vr1 Hp Hnd) as [_ [P2 [P3 _]]].
  apply IH; [exact HS' | exact P2|].
  intros u Hu. apply P3. split; [apply Hin; right; exact Hu | intros E; subst; contradiction].
Qed.

Lemma step_ids : forall m (vr : vresources) cur vs (subs : list substitution) total (vr' : vresources),
  pwf m vr cur -> pop_all (dedup vs) vr [] = Some (total, vr') ->
  ids_above (- Z.of_nat (S (length subs))) vr cur ->
  ids_above (- Z.of_nat (S (length (subs ++ [(- Z.of_nat (S (length subs)), vs)]))))
            (vr' ++ [(- Z.of_nat (S (length subs)), total)])
            (map (subst_c (subst_v (- Z.of_nat (S (length subs))) (dedup vs))) cur).
Proof.
  intros m vr cur vs subs total vr' Hwf Epop [I1 I2]. rewrite app_length. cbn [length].
  destruct (pop_all_spec (dedup vs) vr [] total vr' Epop (dedup_NoDup vs) (pwf_nodup _ _ _ Hwf) (pwf_dnodup _ _ _ Hwf))
    as [_ [_ [G3 _]]].
  set (mv := - Z.of_nat (S (length subs))) in *.
  assert (Hlt : - Z.of_nat (S (length subs + 1)) < mv) by (unfold mv; lia).
  split.
  - intros v Hv. rewrite map_app, in_app_iff in Hv. cbn [map fst In] in Hv.
    destruct Hv as [Hv | [Hv | []]]; [apply G3 in Hv; destruct Hv as [Hv _]; apply I1 in Hv; lia | subst v; exact Hlt].
  - intros k v Hk Hv. apply in_map_iff in Hk. destruct Hk as [k0 [E Hk0]]. subst k.
    rewrite constr_vertices_subst in Hv. apply in_map_iff in Hv. destruct Hv as [u [E Hu]]. subst v.
    unfold subst_v. destruct (zmem u (dedup vs)); [exact Hlt | apply (I2 k0 u Hk0) in Hu; lia].
Qed.

Lemma remove_first_ok : forall x (l : list Z), NoDup l -> In x l ->
  exists l', remove_first x l = Some l' /\ NoDup l' /\ forall z, In z l' <-> In z l /\ z <> x.
Proof.
  intros x l. induction l as [|h t IH]; intros Hnd Hin; [destruct Hin|]. cbn [remove_first].
  inversion Hnd as [|? ? Hni Hnd']. subst. destruct (h =? x) eqn:E.
  - apply Z.eqb_eq in E. subst h. exists t. split; [reflexivity|]. split; [exact Hnd'|].
    intros z. cbn [In]. split; [intros Hz; split; [right; exact Hz | intros Heq; subst; contradiction]|].
    intros [[Hz | Hz] Hne]; [congruence | exact Hz].
  - apply Z.eqb_neq in E. destruct Hin as [Hin | Hin]; [congruence|].
    destruct (IH Hnd' Hin) as [t' [R1 [R2 R3]]]. rewrite R1. exists (h :: t'). split; [reflexivity|]. split.
    + constructor; [|exact R2]. intros Hh. apply R3 in Hh. tauto.
    + intros z. cbn [In]. rewrite R3. split.
      * intros [Hz | [Hz Hne]]; [subst; split; [left; reflexivity | exact E] | split; [right; exact Hz | exact Hne]].
      * intros [[Hz | Hz] Hne]; [left; exact Hz | right; split; assumption].
Qed.

Lemma replace_first_ok : forall x y (l : list Z), NoDup l -> In x l -> ~ In y l ->
  exists l', replace_first x y l = Some l' /\ NoDup l' /\ forall z, In z l' <-> z = y \/ (In z l /\ z <> x).
Proof.
  intros x y l. induction l as [|h t IH]; intros Hnd Hin Hy; [destruct Hin|]. cbn [replace_first].
  inversion Hnd as [|? ? Hni Hnd']. subst. destruct (h =? x) eqn:E.
  - apply Z.eqb_eq in E. subst h. exists (y :: t). split; [reflexivity|]. split.
    + constructor; [intros H; apply Hy; right; exact H | exact Hnd'].
    + intros z. cbn [In]. split.
      * intros [Hz | Hz]; [left; symmetry; exact Hz | right; split; [right; exact Hz | intros Heq; subst; contradiction]].
      * intros [Hz | [[Hz | Hz] Hne]]; [left; symmetry; exact Hz | congruence | right; exact Hz].
  - apply Z.eqb_neq in E. destruct Hin as [Hin | Hin]; [congruence|].
    destruct (IH Hnd' Hin) as [t' [R1 [R2 R3]]]; [intros H; apply Hy; right; exact H|].
    rewrite R1. exists (h :: t'). split; [reflexivity|]. split.
    + constructor; [|exact R2]. intros Hh. apply R3 in Hh. destruct Hh as [Hh | [Hh _]]; [|contradiction].
      subst h. apply Hy. left. reflexivity.
    + intros z. cbn [In]. rewrite R3. split.
      * intros [Hz | [Hz | [Hz Hne]]]; [right; subst; split; [left; reflexivity | exact E] | left; exact Hz | right; split; [right; exact Hz | exact Hne]].
      * intros [Hz | [[Hz | Hz] Hne]]; [right; left; exact Hz | left; exact Hz | right; right; split; assumption].
Qed.

Lemma remove_members_ok : forall vs removed (vo : list Z),
  NoDup vo -> (forall v, In v vs -> In v removed \/ In v vo) -> (forall x, In x removed -> ~ In x vo) ->
  exists vo', remove_members vs removed vo = Some vo' /\ NoDup vo'
              /\ forall x, In x vo' <-> In x vo /\ ~ In x vs.
Proof.
  induction vs as [|v vs IH]; intros removed vo Hnd Hmem Hrem; cbn [remove_members].
  - exists vo. split; [reflexivity|]. split; [exact Hnd|]. intros x. cbn [In]. tauto.
  - destruct (zmem v removed) eqn:Ez.
    + apply zmem_In in Ez. destruct (IH removed vo Hnd) as [vo' [R1 [R2 R3]]].
      * intros u Hu. apply Hmem. right. exact Hu.
      * exact Hrem.
      * exists vo'. split; [exact R1|]. split; [exact R2|]. intros x. rewrite R3. cbn [In]. split.
        -- intros [H1 H2]. split; [exact H1|]. intros [H | H]; [subst; apply (Hrem x Ez H1) | contradiction].
        -- intros [H1 H2]. split; [exact H1 | intros H; apply H2; right; exact H].
    + apply zmem_false in Ez. assert (Hv : In v vo).
      { destruct (Hmem v (or_introl eq_refl)) as [H | H]; [contradiction | exact H]. }
      destruct (remove_first_ok v vo Hnd Hv) as [vo1 [F1 [F2 F3]]]. rewrite F1.
      destruct (IH (v :: removed) vo1 F2) as [vo' [R1 [R2 R3]]].
      * intros u Hu. destruct (Z.eq_dec u v) as [E | E]; [left; left; symmetry; exact E|].
        destruct (Hmem u (or_intror Hu)) as [H | H]; [left; right; exact H | right; apply F3; split; assumption].
      * intros x [Hx | Hx] Hin; apply F3 in Hin; destruct Hin as [Hin Hne]; [congruence | apply (Hrem x Hx Hin)].
      * exists vo'. split; [exact R1|]. split; [exact R2|]. intros x. rewrite R3, F3. cbn [In]. split.
        -- intros [[H1 H2] H3]. split; [exact H1|]. intros [H | H]; [congruence | contradiction].
        -- intros [H1 H2]. split; [split; [exact H1 | intros E; apply H2; left; congruence] | intros H; apply H2; right; exact H].
Qed.

(* apply_sc succeeds, and a documented vertex order is rewritten into one for the merged problem *)
Lemma apply_sc_ok : forall m todo f done vr subs,
  pwf m vr (done ++ map (subst_c f) todo) ->
  ids_above (- Z.of_nat (S (length subs))) vr (done ++ map (subst_c f) todo) ->
  exists vr1 cs1 new, apply_sc f done todo vr subs = Ok (vr1, cs1, subs ++ new)
    /\ forall vo, NoDup vo -> (forall x, In x vo <-> In x (map fst vr)) ->
         exists vo', subst_order new vo = Ok vo' /\ NoDup vo' /\ forall x, In x vo' <-> In x (map fst vr1).
Proof.
  intros m todo. induction todo as [|c0 rest IH]; intros f done vr subs Hwf Hids.
  - exists vr, done, []. cbn [apply_sc]. rewrite app_nil_r. split; [reflexivity|].
    intros vo Hnd Hcov. exists vo. split; [reflexivity|]. split; assumption.
  - cbn [apply_sc]. cbn [map] in Hwf, Hids.
    assert (Hassoc : forall l : list pconstr, done ++ subst_c f c0 :: l = (done ++ [subst_c f c0]) ++ l)
      by (intros l; rewrite <- app_assoc; reflexivity).
    assert (Hskip : exists vr1 cs1 new, apply_sc f (done ++ [subst_c f c0]) rest vr subs = Ok (vr1, cs1, subs ++ new)
              /\ forall vo, NoDup vo -> (forall x, In x vo <-> In x (map fst vr)) ->
                   exists vo', subst_order new vo = Ok vo' /\ NoDup vo' /\ forall x, In x vo' <-> In x (map fst vr1)).
    { rewrite Hassoc in Hwf, Hids. apply (IH f (done ++ [subst_c f c0]) vr subs Hwf Hids). }
    destruct (subst_c f c0) as [v l | vs | r s e loc | ] eqn:Ec; try exact Hskip.
    destruct (length vs <=? 1)%nat eqn:Elen; [exact Hskip|]. clear Hskip.
    set (mv := - Z.of_nat (S (length subs))) in *.
    set (cur := done ++ PCSameChip vs :: map (subst_c f) rest) in *.
    assert (Hincur : In (PCSameChip vs) cur) by (unfold cur; apply in_app_iff; right; left; reflexivity).
    assert (Hvsne : vs <> []) by (intros E; subst vs; cbn in Elen; discriminate).
    assert (Hvs_keys : forall v, In v vs -> In v (map fst vr)) by (intros v Hv; apply (pwf_cv _ _ _ Hwf _ v Hincur Hv)).
    destruct (pop_all_some (dedup vs) vr [] (dedup_NoDup vs) (pwf_nodup _ _ _ Hwf)) as [total [vr' Epop]].
    { intros v Hv. apply Hvs_keys. apply dedup_In. exact Hv. }
    rewrite Epop.
    set (g := subst_v mv (dedup vs)) in *.
    assert (Hcur' : map (subst_c g) (done ++ [PCSameChip vs]) ++ map (subst_c (fun v => g (f v))) rest
                    = map (subst_c g) cur).
    { unfold cur. rewrite (Hassoc (map (subst_c f) rest)), (map_app (subst_c g) (done ++ [PCSameChip vs])).
      f_equal. rewrite map_map. apply map_ext. intros k. apply subst_c_comp. }
    assert (Hwf2 : pwf m (vr' ++ [(mv, total)]) (map (subst_c g) cur))
      by (exact (step_pwf m vr cur vs mv total vr' Hwf Hincur Hvsne Epop Hids)).
    pose proof (step_ids m vr cur vs subs total vr' Hwf Epop Hids) as Hids2. fold mv in Hids2. fold g in Hids2.
    rewrite <- Hcur' in Hwf2, Hids2.
    destruct (IH (fun v => g (f v)) (map (subst_c g) (done ++ [PCSameChip vs])) (vr' ++ [(mv, total)])
                 (subs ++ [(mv, vs)]) Hwf2 Hids2) as [vr1 [cs1 [new' [N1 N2]]]].
    exists vr1, cs1, ((mv, vs) :: new'). split; [rewrite N1, <- app_assoc; reflexivity|].
    intros vo Hnd Hcov. cbn [subst_order]. destruct vs as [|v0 vs']; [congruence|].
    destruct (pop_all_spec (dedup (v0 :: vs')) vr [] total vr' Epop (dedup_NoDup _) (pwf_nodup _ _ _ Hwf) (pwf_dnodup _ _ _ Hwf))
      as [_ [_ [G3 _]]].
    assert (Hmv_vr : ~ In mv (map fst vr)).
    { intros H. destruct Hids as [I1 _]. apply I1 in H. unfold mv in H. lia. }
    assert (Hmv_vo : ~ In mv vo) by (intros H; apply Hmv_vr; apply Hcov; exact H).
    destruct (replace_first_ok v0 mv vo Hnd) as [vo1 [R1 [R2 R3]]].
    { apply Hcov. apply Hvs_keys. left. reflexivity. }
    { exact Hmv_vo. }
    rewrite R1.
    destruct (remove_members_ok vs' [v0] vo1 R2) as [vo2 [M1 [M2 M3]]].
    { intros v Hv. destruct (Z.eq_dec v v0) as [E | E]; [left; left; symmetry; exact E|].
      right. apply R3. right. split; [apply Hcov; apply Hvs_keys; right; exact Hv | exact E]. }
    { intros x [Hx | []] Hin. subst x. apply R3 in Hin. destruct Hin as [Hin | [_ Hin]]; [|congruence].
      apply Hmv_vr. rewrite <- Hin. apply Hvs_keys. left. reflexivity. }
    rewrite M1. apply (N2 vo2 M2).
    intros x. rewrite M3, R3, map_app, in_app_iff, G3, dedup_In. cbn [map fst In]. split.
    + intros [[Hx | [Hx Hne]] Hn]; [right; left; symmetry; exact Hx|].
      left. split; [apply Hcov; exact Hx | intros [H | H]; [congruence | contradiction]].
    + intros [[Hx Hn] | [Hx | []]].
      * split; [right; split; [apply Hcov; exact Hx | intros E; apply Hn; left; symmetry; exact E] | intros H; apply Hn; right; exact H].
      * subst x. split; [left; reflexivity|]. intros H. apply Hmv_vr. apply Hvs_keys. right. exact H.
Qed.

(* ---------------------------------------------------------------------------------------------- *)
(* The constraint loop never hits an unknown resource or a dead chip by accident                    *)
(* ---------------------------------------------------------------------------------------------- *)
Record KInv (m0 m : pmachine) : Prop := {
  ki_frame : same_frame m0 m;
  ki_res : map fst (pm_res m) = map fst (pm_res m0);
  ki_exc : forall c d r, cassoc c (pm_exc m) = Some d -> resource_known m0 r -> In r (map fst d);
  ki_nodup : NoDup (map fst (pm_exc m)) }.

Lemma KInv_init : forall m, NoDup (map fst (pm_exc m)) -> KInv m m.
Proof.
  intros m H. constructor; [apply same_frame_refl | reflexivity | | exact H].
  intros c d r Hc [_ Hk]. apply (Hk c d). apply cassoc_In. exact Hc.
Qed.

Lemma KInv_chip : forall m0 m c r, KInv m0 m -> resource_known m0 r -> In r (map fst (chip_res m c)).
Proof.
  intros m0 m c r K Hk. unfold chip_res. destruct (cassoc c (pm_exc m)) as [d|] eqn:E.
  - apply (ki_exc _ _ K c d r E Hk).
  - rewrite (ki_res _ _ K). apply Hk.
Qed.

Lemma KInv_mset : forall m0 m c d m', KInv m0 m ->
  mset m c (subtract_resources (chip_res m c) d) = Some m' -> KInv m0 m'.
Proof.
  intros m0 m c d m' K Hs. pose proof (fun r => KInv_chip m0 m c r K) as Hkn.
  destruct K as [K1 K2 K3 K4]. apply mset_spec in Hs. destruct Hs as [F [R [_ [X _]]]]. constructor.
  - eapply same_frame_trans; eassumption.
  - rewrite R. exact K2.
  - intros c' d' r Hc Hk. rewrite X, cassoc_cupdate in Hc. destruct (chip_eqb c' c).
    + inversion Hc. subst d'. rewrite subtract_keys. apply Hkn. exact Hk.
    + apply (K3 c' d' r Hc Hk).
  - rewrite X. apply cupdate_NoDup. exact K4.
Qed.

Lemma reserve_exceptions_doc : forall todo m r size,
  (forall c, In c (map fst todo) -> exists d, cassoc c (pm_exc m) = Some d /\ In r (map fst d)) ->
  NoDup (map fst todo) ->
  documented (reserve_exceptions m r size todo).
Proof.
  induction todo as [|[loc x] todo IH]; intros m r size H Hnd; cbn [reserve_exceptions]; [doc_triv|].
  cbn [map fst] in H, Hnd. inversion Hnd as [|? ? Hni Hnd']. subst.
  destruct (H loc (or_introl eq_refl)) as [d [Hc Hr]]. rewrite Hc.
  destruct (after_reservation_some d r size Hr) as [d' Hd']. rewrite Hd'.
  match goal with |- documented (if ?b then _ else _) => destruct b end; [doc_triv|].
  apply IH; [|exact Hnd']. intros c Hin. destruct (H c (or_intror Hin)) as [d1 [G1 G2]]. exists d1. split; [|exact G2].
  unfold with_exc. cbn [pm_exc]. rewrite cassoc_cupdate. destruct (chip_eqb c loc) eqn:E; [|exact G1].
  apply chip_eqb_eq in E. subst. contradiction.
Qed.

Lemma apply_reserve_doc : forall m0 m r size loc,
  KInv m0 m -> resource_known m0 r ->
  documented (apply_reserve m r size loc)
  /\ forall m', apply_reserve m r size loc = Ok m' -> KInv m0 m'.
Proof.
  intros m0 m r size loc K Hk. split.
  - unfold apply_reserve. destruct loc as [c|].
    + destruct (negb (live m c)) eqn:El; [doc_triv|]. apply negb_false_iff in El.
      destruct (after_reservation_some (chip_res m c) r size (KInv_chip m0 m c r K Hk)) as [d' Hd']. rewrite Hd'.
      destruct (mset_live m c d' El) as [m1 Hs]. rewrite Hs. destruct (overallocated (chip_res m1 c)); doc_triv.
    + assert (Hr : In r (map fst (pm_res m))) by (rewrite (ki_res _ _ K); apply Hk).
      destruct (after_reservation_some (pm_res m) r size Hr) as [d' Hd']. rewrite Hd'.
      destruct (overallocated d'); [doc_triv|]. apply reserve_exceptions_doc; [|exact (ki_nodup _ _ K)].
      intros c Hin. change (pm_exc (with_res m d')) with (pm_exc m) in *.
      destruct (zassoc_key_Some_c c (pm_exc m) Hin) as [d Hd]. exists d. split; [exact Hd|].
      apply (ki_exc _ _ K c d r Hd Hk).
  - intros m' H. pose proof (fun c r' => KInv_chip m0 m c r' K) as Hkn. destruct K as [K1 K2 K3 K4].
    destruct (apply_reserve_spec m r size loc m' K4 H) as [F [N _]].
    destruct (apply_reserve_extra m r size loc m' K4 H) as [R X]. constructor.
    + eapply same_frame_trans; eassumption.
    + destruct loc as [c|]; [rewrite R; exact K2|].
      apply after_reservation_spec in R. destruct R as [Hkeys _]. rewrite Hkeys. exact K2.
    + intros c d' r' Hc Hk'. rewrite (X c d' Hc). apply Hkn. exact Hk'.
    + exact N.
Qed.

Lemma handle_cs_doc : forall vr m0 cs m pl,
  KInv m0 m ->
  (forall k v, In k cs -> In v (constr_vertices k) -> In v (map fst vr)) ->
  (forall r s e loc, In (PCReserve r s e loc) cs -> resource_known m0 r) ->
  documented (handle_cs vr cs m pl).
Proof.
  intros vr m0 cs. induction cs as [|k cs IH]; intros m pl K Hcv Hrk; cbn [handle_cs]; [doc_triv|].
  assert (Hcv' : forall k0 v, In k0 cs -> In v (constr_vertices k0) -> In v (map fst vr))
    by (intros k0 v H1 H2; apply (Hcv k0 v (or_intror H1) H2)).
  assert (Hrk' : forall r s e loc, In (PCReserve r s e loc) cs -> resource_known m0 r)
    by (intros r s e loc H1; apply (Hrk r s e loc (or_intror H1))).
  destruct k as [v loc | vs | r s e loc |]; try (apply IH; assumption).
  - destruct (negb (live m loc)) eqn:El; [doc_triv|]. apply negb_false_iff in El.
    destruct (match zassoc v pl with Some l => chip_eqb l loc | None => false end); [apply IH; assumption|].
    assert (Hv : In v (map fst vr)) by (apply (Hcv (PCLocation v loc) v (or_introl eq_refl)); left; reflexivity).
    apply zassoc_key_Some in Hv. destruct Hv as [d Hd]. rewrite Hd. unfold mget. rewrite El.
    destruct (mset_live m loc (subtract_resources (chip_res m loc) d) El) as [m1 Hs]. rewrite Hs.
    destruct (overallocated (chip_res m1 loc)); [doc_triv|].
    apply IH; [apply (KInv_mset m0 m loc d m1 K Hs) | assumption | assumption].
  - destruct (apply_reserve_doc m0 m r (e - s) loc K (Hrk r s e loc (or_introl eq_refl))) as [D1 D2].
    apply bind_doc; [exact D1|]. intros m1 Hm1. apply IH; [apply D2; exact Hm1 | assumption | assumption].
Qed.

(* ---------------------------------------------------------------------------------------------- *)
(* The placement loops                                                                              *)
(* ---------------------------------------------------------------------------------------------- *)
Lemma try_chip_doc : forall m d c, live m c = true -> documented (try_chip m d c).
Proof. intros m d c H. unfold try_chip, mget. rewrite H. exact I. Qed.

Lemma scan_doc : forall m d last cands passed,
  (forall x, In x cands -> live m x = true) -> documented (scan m d last passed cands).
Proof.
  intros m d last cands. induction cands as [|x cs IH]; intros passed H; cbn [scan]; [doc_triv|].
  destruct (chip_eqb x last); [doc_triv|].
  apply bind_doc; [apply try_chip_doc; apply H; left; reflexivity|].
  intros o _. destruct o; [doc_triv|]. apply IH. intros y Hy. apply H. right. exact Hy.
Qed.

Lemma place_loop_doc : forall vr vs m pl cur rest,
  (forall v, In v vs -> In v (map fst vr)) ->
  live m cur = true -> (forall x, In x rest -> live m x = true) ->
  documented (place_loop vr vs m pl cur rest).
Proof.
  intros vr vs. induction vs as [|v vs IH]; intros m pl cur rest Hvs Hcur Hrest; cbn [place_loop]; [doc_triv|].
  assert (Hvs' : forall u, In u vs -> In u (map fst vr)) by (intros u Hu; apply Hvs; right; exact Hu).
  destruct (pl_mem v pl); [apply IH; assumption|].
  destruct (zassoc_key_Some v vr (Hvs v (or_introl eq_refl))) as [d Hd]. rewrite Hd.
  assert (Hstep : forall c r' rest', live m c = true -> (forall x, In x rest' -> live m x = true) ->
             documented (match mset m c r' with
                         | Some m' => place_loop vr vs m' (pl_set v c pl) c rest'
                         | None => OtherError end)).
  { intros c r' rest' Hc Hr'. destruct (mset_live m c r' Hc) as [m1 Hs]. rewrite Hs.
    pose proof (mset_spec _ _ _ _ Hs) as [F _].
    apply IH; [exact Hvs' | rewrite (live_frame m m1 c F); exact Hc|].
    intros x Hx. rewrite (live_frame m m1 x F). apply Hr'. exact Hx. }
  apply bind_doc; [apply try_chip_doc; exact Hcur|]. intros o _. destruct o as [r'|].
  - apply (Hstep cur r' rest Hcur Hrest).
  - apply bind_doc; [apply scan_doc; exact Hrest|]. intros o2 Ho2. destruct o2 as [[[c r'] rest']|]; [|doc_triv].
    apply scan_some in Ho2. destruct Ho2 as [S1 [S2 [_ [_ S5]]]]. apply (Hstep c r' rest' S2).
    intros x Hx. specialize (S5 x Hx). cbn [app In] in S5. destruct S5 as [S5 | S5]; [subst; exact Hcur | apply Hrest; exact S5].
Qed.

Lemma wf_KInv_cs : forall vr m cs vr1 cs1 subs,
  wf_problem vr m cs -> consistent cs -> apply_same_chip vr cs = Ok (vr1, cs1, subs) ->
  forall r s e loc, In (PCReserve r s e loc) cs1 -> resource_known m r.
Proof.
  intros vr m cs vr1 cs1 subs W Hc Ea. unfold apply_same_chip in Ea.
  (* reservations are never touched by the substitutions *)
  assert (Hgen : forall todo f done vr0 subs0 vr2 cs2 subs2,
            apply_sc f done todo vr0 subs0 = Ok (vr2, cs2, subs2) ->
            forall r s e loc, In (PCReserve r s e loc) cs2 -> In (PCReserve r s e loc) (done ++ todo)).
  { induction todo as [|c0 rest IH]; intros f done vr0 subs0 vr2 cs2 subs2 H r s e loc Hin; cbn [apply_sc] in H.
    - inversion H. subst. rewrite app_nil_r. exact Hin.
    - assert (Hstep : forall f' done' vr' subs',
                 apply_sc f' done' rest vr' subs' = Ok (vr2, cs2, subs2) ->
                 (forall r s e loc, In (PCReserve r s e loc) done' -> In (PCReserve r s e loc) (done ++ [c0])) ->
                 In (PCReserve r s e loc) (done ++ c0 :: rest)).
      { intros f' done' vr' subs' H' Hd. apply (IH _ _ _ _ _ _ _ H') in Hin.
        apply in_app_iff in Hin. destruct Hin as [Hin | Hin].
        - apply Hd in Hin. apply in_app_iff in Hin. apply in_app_iff. cbn [In] in *. tauto.
        - apply in_app_iff. right. right. exact Hin. }
      assert (Hsame : forall r s e loc, In (PCReserve r s e loc) (done ++ [subst_c f c0]) ->
                                        In (PCReserve r s e loc) (done ++ [c0])).
      { intros r1 s1 e1 loc1 H1. apply in_app_iff in H1. apply in_app_iff. destruct H1 as [H1 | [H1 | []]]; [left; exact H1|].
        right. left. destruct c0; cbn [subst_c] in H1; try discriminate. exact H1. }
      destruct (subst_c f c0) as [v l | vs | r1 s1 e1 loc1 | ] eqn:Ec; try (apply (Hstep _ _ _ _ H); exact Hsame).
      destruct (length vs <=? 1)%nat; [apply (Hstep _ _ _ _ H); exact Hsame|].
      destruct (pop_all (dedup vs) vr0 []) as [[total vr']|]; [|discriminate].
      apply (Hstep _ _ _ _ H). intros r1 s1 e1 loc1 H1. apply in_map_iff in H1. destruct H1 as [k [Ek Hk]].
      destruct k; cbn [subst_c] in Ek; try discriminate. inversion Ek. subst.
      apply Hsame. exact Hk. }
  intros r s e loc Hin. apply (Hgen _ _ _ _ _ _ _ _ Ea) in Hin. cbn [app] in Hin.
  apply (wf_reserve_known _ _ _ W r s e loc Hin).
Qed.

(* ---------------------------------------------------------------------------------------------- *)
(* sequential family                                                                                *)
(* ---------------------------------------------------------------------------------------------- *)
Theorem seq_place_documented_errors : forall vr m cs vorder corder,
  wf_problem vr m cs -> consistent cs ->
  (forall vo, vorder = Some vo -> NoDup vo /\ vertex_order_ok vr vo) ->
  (exists pl, seq_place vr m cs vorder corder = Ok pl)
  \/ seq_place vr m cs vorder corder = Failed E_insufficient
  \/ seq_place vr m cs vorder corder = Failed E_invalid.
Proof.
  intros vr m cs vorder corder W Hc Hvo.
  assert (Hdoc : documented (seq_place vr m cs vorder corder)).
  { unfold seq_place. destruct (length vr =? 0)%nat; [doc_triv|].
    destruct (apply_sc_ok m cs (fun v => v) [] vr []) as [vr1 [cs1 [new [Ea Hord]]]].
    { cbn [app]. rewrite subst_c_id. apply wf_problem_pwf; assumption. }
    { cbn [app length]. rewrite subst_c_id. split.
      - intros v Hv. apply (wf_vr_ids _ _ _ W) in Hv. lia.
      - intros k v Hk Hv. apply (wf_constr_vertices _ _ _ W k v Hk) in Hv. apply (wf_vr_ids _ _ _ W) in Hv. lia. }
    cbn [app] in Ea. unfold apply_same_chip. rewrite Ea. cbn [bind].
    destruct (merged_problem vr m cs vr1 cs1 new W Hc Ea) as [Hp [Hdeg [_ Hfin]]].
    apply bind_doc.
    { apply (handle_cs_doc vr1 m cs1 m [] (KInv_init m (wf_exc_nodup _ _ _ W)) (pwf_cv _ _ _ Hp)).
      apply (wf_KInv_cs vr m cs vr1 cs1 new W Hc Ea). }
    intros [m1 pl0] Eh.
    assert (Hfr : same_frame m m1).
    { pose proof (pwf_core _ _ _ Hp) as Hwc.
      destruct (handle_cs_inv vr1 m cs1 [] m [] m1 pl0 Hwc (Inv_init vr1 m (wf_problem_machine _ _ _ W))
                  (PlInv_init vr1 m) Eh) as [Hinv _]. exact (inv_frame _ _ _ _ _ Hinv). }
    assert (Hvo1 : exists vo1, (match vorder with Some vo => subst_order new vo | None => Ok (map fst vr1) end) = Ok vo1
                               /\ forall v, In v vo1 -> In v (map fst vr1)).
    { destruct vorder as [vo|].
      - destruct (Hvo vo eq_refl) as [Hnd Hok]. destruct (Hord vo Hnd Hok) as [vo' [E1 [_ E3]]].
        exists vo'. split; [exact E1 | intros v Hv; apply E3; exact Hv].
      - exists (map fst vr1). split; [reflexivity | intros v Hv; exact Hv]. }
    destruct Hvo1 as [vo1 [Evo Hvo1]]. rewrite Evo. cbn [bind].
    destruct (filter (live m1) (match corder with Some co => co | None => raster m1 end)) as [|c0 crest] eqn:Ef;
      [doc_triv|].
    assert (Hlive : forall c, In c (c0 :: crest) -> live m1 c = true).
    { intros c Hin. rewrite <- Ef in Hin. apply filter_In in Hin. tauto. }
    apply bind_doc.
    { apply place_loop_doc; [exact Hvo1 | apply Hlive; left; reflexivity | intros x Hx; apply Hlive; right; exact Hx]. }
    intros pl1 El.
    (* a placement was found: it is feasible for the merged problem, hence it expands *)
    assert (Hf1 : Feasible vr1 m cs1 pl1).
    { apply (seq_core_sound vr1 m cs1 vo1 m1 pl0 c0 crest pl1).
      - exact (pwf_core _ _ _ Hp).
      - exact (wf_problem_machine _ _ _ W).
      - exact (pwf_cv _ _ _ Hp).
      - apply consistent_agree. exact (pwf_consistent _ _ _ Hp).
      - exact Hdeg.
      - destruct vorder as [vo|].
        + destruct (Hvo vo eq_refl) as [Hnd Hok]. destruct (Hord vo Hnd Hok) as [vo' [E1 [_ E3]]].
          rewrite E1 in Evo. inversion Evo. subst vo'. intros v Hv. apply E3. exact Hv.
        + inversion Evo. subst vo1. intros v Hv. exact Hv.
      - exact Eh.
      - apply Hlive. left. reflexivity.
      - intros c Hin. apply Hlive. right. exact Hin.
      - exact El. }
    destruct (Hfin pl1 Hf1) as [pl' [Hfe _]]. rewrite Hfe. exact I. }
  destruct (seq_place vr m cs vorder corder) as [pl | k | |] eqn:E; cbn [documented] in Hdoc.
  - left. exists pl. reflexivity.
  - destruct Hdoc as [Hk | Hk]; subst k; [right; left | right; right]; reflexivity.
  - destruct Hdoc.
  - destruct Hdoc.
Qed.

Lemma vr_pop_length : forall x (vr : vresources) d vr1, vr_pop x vr = Some (d, vr1) -> (length vr1 + 1 = length vr)%nat.
Proof.
  intros x vr. induction vr as [|[u du] t IH]; intros d vr1 Ev; cbn [vr_pop] in Ev; [discriminate|].
  destruct (x =? u); [inversion Ev; subst; cbn [length]; lia|].
  destruct (vr_pop x t) as [[d1 t1]|]; [|discriminate]. inversion Ev. subst. cbn [length].
  specialize (IH _ _ eq_refl). lia.
Qed.

Lemma pop_all_length : forall S (vr : vresources) tot total vr',
  pop_all S vr tot = Some (total, vr') -> (length vr' + length S = length vr)%nat.
Proof.
  induction S as [|x S IH]; intros vr tot total vr' Ep; cbn [pop_all] in Ep.
  - inversion Ep. subst. cbn [length]. lia.
  - destruct (vr_pop x vr) as [[d vr1]|] eqn:Ev; [|discriminate].
    specialize (IH _ _ _ _ Ep). apply vr_pop_length in Ev. cbn [length]. lia.
Qed.

(* merging never increases the number of vertices *)
Lemma apply_sc_length : forall todo f done (vr : vresources) subs vr1 cs1 subs1,
  apply_sc f done todo vr subs = Ok (vr1, cs1, subs1) -> (length vr1 <= length vr)%nat.
Proof.
  induction todo as [|k rest IH]; intros f done vr subs vr1 cs1 subs1 H; cbn [apply_sc] in H.
  - inversion H. subst. lia.
  - destruct (subst_c f k) as [| vs | |]; try (apply (IH _ _ _ _ _ _ _ H)).
    destruct (length vs <=? 1)%nat eqn:El; [apply (IH _ _ _ _ _ _ _ H)|].
    destruct (pop_all (dedup vs) vr []) as [[total vr']|] eqn:Ep; [|discriminate].
    specialize (IH _ _ _ _ _ _ _ H). rewrite app_length in IH. cbn [length] in IH.
    apply pop_all_length in Ep.
    assert (Hd : (1 <= length (dedup vs))%nat).
    { destruct vs as [|a t]; [cbn in El; discriminate|].
      assert (Hin : In a (dedup (a :: t))) by (apply dedup_In; left; reflexivity).
      destruct (dedup (a :: t)); [destruct Hin | cbn [length]; lia]. }
    unfold vresources, resources, vertex, res in *. lia.
Qed.

(* ---------------------------------------------------------------------------------------------- *)
(* random placer                                                                                    *)
(* ---------------------------------------------------------------------------------------------- *)
Lemma rand_vertex_doc : forall m d fuel locs oracle,
  (length locs < fuel)%nat -> (length locs <= length oracle)%nat ->
  (forall c, In c locs -> live m c = true) ->
  documented (rand_vertex fuel m d locs oracle).
Proof.
  intros m d fuel. induction fuel as [|fuel IH]; intros locs oracle Hf Ho Hlive; [lia|].
  cbn [rand_vertex]. destruct locs as [|l0 lt] eqn:El; [doc_triv|]. rewrite <- El in *.
  assert (Hlen : (0 < length locs)%nat) by (subst locs; cbn [length]; lia).
  destruct oracle as [|n oracle1]; [cbn [length] in Ho; lia|].
  set (c := nth (Nat.modulo n (length locs)) locs l0).
  assert (Hc : In c locs) by (apply nth_In; apply Nat.mod_upper_bound; lia).
  apply bind_doc; [apply try_chip_doc; apply Hlive; exact Hc|]. intros o _. destruct o; [exact I|].
  pose proof (remove_chip_length c locs Hc) as Hrl. cbn [length] in Ho.
  apply IH; [lia | lia|]. intros x Hx. apply Hlive. eapply remove_chip_subset. exact Hx.
Qed.

Lemma rand_loop_doc : forall vr vs m pl locs oracle,
  (forall v, In v vs -> In v (map fst vr)) -> (forall c, In c locs -> live m c = true) ->
  (length vs + length locs <= length oracle)%nat ->
  documented (rand_loop vr vs m pl locs oracle).
Proof.
  intros vr vs. induction vs as [|v vs IH]; intros m pl locs oracle Hvs Hlive Hlen; cbn [rand_loop]; [exact I|].
  destruct (zassoc_key_Some v vr (Hvs v (or_introl eq_refl))) as [d Hd]. rewrite Hd. cbn [length] in Hlen.
  apply bind_doc; [apply rand_vertex_doc; [lia | lia | exact Hlive]|].
  intros [[[c r'] locs'] oracle'] Hv.
  pose proof (rand_vertex_nofuel m d (S (length locs)) locs oracle ltac:(lia) ltac:(lia)) as Hacc. rewrite Hv in Hacc.
  apply rand_vertex_some in Hv. destruct Hv as [R1 [R2 [_ [_ R5]]]].
  destruct (mset_live m c r' R2) as [m1 Hs]. rewrite Hs. pose proof (mset_spec _ _ _ _ Hs) as [F _].
  apply IH; [intros u Hu; apply Hvs; right; exact Hu | | lia].
  intros x Hx. rewrite (live_frame m m1 x F). apply Hlive. apply R5. exact Hx.
Qed.

Theorem rand_place_documented_errors : forall vr m cs oracle,
  wf_problem vr m cs -> consistent cs ->
  (length vr + length (raster m) <= length oracle)%nat ->
  (exists pl, rand_place vr m cs oracle = Ok pl)
  \/ rand_place vr m cs oracle = Failed E_insufficient
  \/ rand_place vr m cs oracle = Failed E_invalid.
Proof.
  intros vr m cs oracle W Hc Hlen.
  assert (Hdoc : documented (rand_place vr m cs oracle)).
  { unfold rand_place.
    destruct (apply_sc_ok m cs (fun v => v) [] vr []) as [vr1 [cs1 [new [Ea _]]]].
    { cbn [app]. rewrite subst_c_id. apply wf_problem_pwf; assumption. }
    { cbn [app length]. rewrite subst_c_id. split.
      - intros v Hv. apply (wf_vr_ids _ _ _ W) in Hv. lia.
      - intros k v Hk Hv. apply (wf_constr_vertices _ _ _ W k v Hk) in Hv. apply (wf_vr_ids _ _ _ W) in Hv. lia. }
    cbn [app] in Ea. unfold apply_same_chip. rewrite Ea. cbn [bind].
    destruct (merged_problem vr m cs vr1 cs1 new W Hc Ea) as [Hp [Hdeg [_ Hfin]]].
    apply bind_doc.
    { apply (handle_cs_doc vr1 m cs1 m [] (KInv_init m (wf_exc_nodup _ _ _ W)) (pwf_cv _ _ _ Hp)).
      apply (wf_KInv_cs vr m cs vr1 cs1 new W Hc Ea). }
    intros [m1 pl0] Eh.
    pose proof (pwf_core _ _ _ Hp) as Hwc.
    destruct (handle_cs_inv vr1 m cs1 [] m [] m1 pl0 Hwc (Inv_init vr1 m (wf_problem_machine _ _ _ W))
                (PlInv_init vr1 m) Eh) as [Hinv [Hpl [_ Hlocs]]].
    cbn [app] in Hinv. destruct (Hlocs (consistent_agree _ (pwf_consistent _ _ _ Hp))) as [_ Hloc0].
    set (movable := filter (fun v => negb (pl_mem v pl0)) (map fst vr1)).
    (* the vertex count does not grow by merging: reuse the bound proved for termination *)
    assert (Hbound : (length movable + length (raster m1) <= length oracle)%nat).
    { rewrite (raster_frame m m1 (inv_frame _ _ _ _ _ Hinv)).
      assert (length movable <= length (map fst vr1))%nat by (unfold movable; apply filter_len_le).
      pose proof (apply_sc_length _ _ _ _ _ _ _ _ Ea) as Hk.
      rewrite map_length in H. lia. }
    apply bind_doc.
    { apply rand_loop_doc; [| |exact Hbound].
      - intros v Hv. unfold movable in Hv. apply filter_In in Hv. tauto.
      - intros c Hin. apply raster_In in Hin. exact Hin. }
    intros pl1 El.
    destruct (rand_loop_inv vr1 m cs1 movable m1 pl0 (raster m1) oracle pl1 Hwc Hinv Hpl) as [[m2 Hinv2] [Hpl2 [Hkeep Hplaced]]].
    { intros c Hin. apply raster_In in Hin. rewrite <- (live_frame m m1 c (inv_frame _ _ _ _ _ Hinv)). exact Hin. }
    { exact El. }
    assert (Hmov : forall v, In v movable <-> In v (map fst vr1) /\ ~ In v (map fst pl0)).
    { intros v. unfold movable. rewrite filter_In, negb_true_iff. split.
      - intros [H1 H2]. split; [exact H1|]. intros Hin. apply pl_mem_true in Hin. congruence.
      - intros [H1 H2]. split; [exact H1|]. destruct (pl_mem v pl0) eqn:E; [|reflexivity]. apply pl_mem_true in E. contradiction. }
    assert (Hkeep' : forall v c, zassoc v pl0 = Some c -> zassoc v pl1 = Some c).
    { intros v c Hz. apply Hkeep; [|exact Hz]. intros Hin. apply Hmov in Hin. destruct Hin as [_ Hn].
      apply Hn. apply zassoc_Some_key in Hz. exact Hz. }
    assert (Hf1 : Feasible vr1 m cs1 pl1).
    { apply (feasible_of_inv vr1 m cs1 m2 pl1 Hwc Hinv2 Hpl2).
      - intros v Hv. destruct (in_dec Z.eq_dec v (map fst pl0)) as [Hin | Hni].
        + apply zassoc_key_Some in Hin. destruct Hin as [c Hc']. apply (zassoc_Some_key v pl1 c). apply Hkeep'. exact Hc'.
        + apply Hplaced. apply Hmov. split; assumption.
      - intros v c Hin. apply Hkeep'. apply Hloc0. exact Hin.
      - exact (pwf_cv _ _ _ Hp).
      - exact Hdeg. }
    destruct (Hfin pl1 Hf1) as [pl' [Hfe _]]. rewrite Hfe. exact I. }
  destruct (rand_place vr m cs oracle) as [pl | k | |] eqn:E; cbn [documented] in Hdoc.
  - left. exists pl. reflexivity.
  - destruct Hdoc as [Hk | Hk]; subst k; [right; left | right; right]; reflexivity.
  - destruct Hdoc.
  - destruct Hdoc.
Qed.


(* ---------------------------------------------------------------------------------------------- *)
(* the annealer up to the kernel (constraints, shuffles, initial placement) and its trivial exit    *)
(* ---------------------------------------------------------------------------------------------- *)
Lemma initial_vertex_doc : forall m d locs,
  (forall c, In c locs -> live m c = true) -> documented (initial_vertex m d locs).
Proof.
  intros m d locs. induction locs as [|x t IH]; intros H; cbn [initial_vertex]; [doc_triv|].
  apply bind_doc; [apply try_chip_doc; apply H; left; reflexivity|].
  intros o _. destruct o; [exact I|]. apply IH. intros c Hc. apply H. right. exact Hc.
Qed.

Lemma initial_loop_doc : forall vr vs m pl locs,
  (forall v, In v vs -> In v (map fst vr)) -> (forall c, In c locs -> live m c = true) ->
  documented (initial_loop vr vs m pl locs).
Proof.
  intros vr vs. induction vs as [|v vs IH]; intros m pl locs Hvs Hlive; cbn [initial_loop]; [exact I|].
  destruct (zassoc_key_Some v vr (Hvs v (or_introl eq_refl))) as [d Hd]. rewrite Hd.
  apply bind_doc; [apply initial_vertex_doc; exact Hlive|].
  intros [[c r'] locs'] Hv. apply initial_vertex_some in Hv. destruct Hv as [_ [R2 [_ [_ R5]]]].
  destruct (mset_live m c r' R2) as [m1 Hs]. rewrite Hs. pose proof (mset_spec _ _ _ _ Hs) as [F _].
  apply IH; [intros u Hu; apply Hvs; right; exact Hu|].
  intros x Hx. rewrite (live_frame m m1 x F). apply Hlive. apply R5. exact Hx.
Qed.

Theorem sa_prepare_documented_errors : forall vr m cs lp vp,
  wf_problem vr m cs -> consistent cs ->
  (exists s0, sa_prepare vr m cs lp vp = Ok s0)
  \/ sa_prepare vr m cs lp vp = Failed E_insufficient
  \/ sa_prepare vr m cs lp vp = Failed E_invalid.
Proof.
  intros vr m cs lp vp W Hc.
  assert (Hdoc : documented (sa_prepare vr m cs lp vp)).
  { unfold sa_prepare.
    destruct (apply_sc_ok m cs (fun v => v) [] vr []) as [vr1 [cs1 [new [Ea _]]]].
    { cbn [app]. rewrite subst_c_id. apply wf_problem_pwf; assumption. }
    { cbn [app length]. rewrite subst_c_id. split.
      - intros v Hv. apply (wf_vr_ids _ _ _ W) in Hv. lia.
      - intros k v Hk Hv. apply (wf_constr_vertices _ _ _ W k v Hk) in Hv. apply (wf_vr_ids _ _ _ W) in Hv. lia. }
    cbn [app] in Ea. unfold apply_same_chip. rewrite Ea. cbn [bind].
    destruct (merged_problem vr m cs vr1 cs1 new W Hc Ea) as [Hp _].
    apply bind_doc.
    { apply (handle_cs_doc vr1 m cs1 m [] (KInv_init m (wf_exc_nodup _ _ _ W)) (pwf_cv _ _ _ Hp)).
      apply (wf_KInv_cs vr m cs vr1 cs1 new W Hc Ea). }
    intros [m1 fixed] Eh.
    set (movable := filter (fun v => negb (pl_mem v fixed)) (map fst vr1)).
    destruct (shuffle (length (raster m1)) lp (raster m1)) as [|l0 lt] eqn:El; [doc_triv|]. rewrite <- El.
    apply bind_doc.
    { apply initial_loop_doc.
      - intros v Hv. apply shuffle_In in Hv; [|lia]. unfold movable in Hv. apply filter_In in Hv. tauto.
      - intros c Hc'. apply shuffle_In in Hc'; [|lia]. apply raster_In in Hc'. exact Hc'. }
    intros [m2 pl] _. exact I. }
  destruct (sa_prepare vr m cs lp vp) as [s0 | k | |] eqn:E; cbn [documented] in Hdoc.
  - left. exists s0. reflexivity.
  - destruct Hdoc as [Hk | Hk]; subst k; [right; left | right; right]; reflexivity.
  - destruct Hdoc.
  - destruct Hdoc.
Qed.

(* place() when no annealing is done: a placement or a documented error, for all shuffles *)
Theorem sa_trivial_documented_errors : forall vr m cs lp vp,
  wf_problem vr m cs -> consistent cs ->
  documented_outcome (sa_place_trivial vr m cs lp vp).
Proof.
  intros vr m cs lp vp W Hc. unfold documented_outcome, sa_place_trivial.
  destruct (length vr =? 0)%nat; [left; eexists; reflexivity|].
  destruct (sa_prepare_documented_errors vr m cs lp vp W Hc) as [[s0 E] | [E | E]]; rewrite E; cbn [bind].
  - destruct (sa_prepare_inv vr m cs lp vp s0 W Hc E) as [cs1 [Ea Hsa]].
    destruct (merged_problem vr m cs (ss_vr s0) cs1 (ss_subs s0) W Hc Ea) as [Hp [Hdeg [_ Hfin]]].
    pose proof (SAInv_feasible _ _ _ _ _ (pwf_core _ _ _ Hp) (pwf_cv _ _ _ Hp) Hdeg Hsa) as Hf1.
    destruct (Hfin _ Hf1) as [pl' [Hfe _]]. cbn [sa_init_state st_pl] in Hfe. left. exists pl'. exact Hfe.
  - right. left. reflexivity.
  - right. right. reflexivity.
Qed.

(* ---------------------------------------------------------------------------------------------- *)
(* completeness of the annealer's preparation (initial placement) under the property's premise      *)
(* ---------------------------------------------------------------------------------------------- *)
Lemma take_nth_NoDup : forall {A} n (l : list A) x l', take_nth n l = Some (x, l') -> NoDup l -> NoDup l' /\ ~ In x l'.
Proof.
  intros A n l. revert n. induction l as [|h t IH]; intros n x l' H Hnd; [destruct n; discriminate|].
  inversion Hnd as [|? ? Hh Ht]. subst. destruct n as [|n]; cbn [take_nth] in H.
  - inversion H. subst. split; assumption.
  - destruct (take_nth n t) as [[x1 t1]|] eqn:E; [|discriminate]. inversion H. subst.
    destruct (IH n x t1 E Ht) as [G1 G2]. destruct (take_nth_spec n t x t1 E) as [S1 _]. split.
    + constructor; [|exact G1]. intros Hin. apply Hh. apply S1. right. exact Hin.
    + intros [Hx | Hx]; [|contradiction]. subst. apply Hh. apply S1. left. reflexivity.
Qed.

Lemma shuffle_NoDup : forall {A} fuel picks (l : list A), NoDup l -> NoDup (shuffle fuel picks l).
Proof.
  intros A fuel. induction fuel as [|fuel IH]; intros picks l Hnd; cbn [shuffle]; [exact Hnd|].
  destruct l as [|h t] eqn:El; [constructor|]. rewrite <- El in *.
  set (n := match picks with [] => O | p :: _ => Nat.modulo p (length l) end).
  destruct (take_nth n l) as [[x l']|] eqn:E; [|exact Hnd].
  destruct (take_nth_NoDup n l x l' E Hnd) as [G1 G2]. constructor; [|apply IH; exact G1].
  intros Hin. destruct (Nat.le_gt_cases (length l') fuel) as [Hle | Hgt].
  - apply shuffle_In in Hin; [contradiction | exact Hle].
  - (* not enough fuel left: the remainder is returned unshuffled or partly shuffled, still a sub-list *)
    clear -Hin G2. revert picks l' Hin G2. induction fuel as [|f IHf]; intros picks l' Hin G2; cbn [shuffle] in Hin; [contradiction|].
    destruct l' as [|h' t']; [destruct Hin|].
    destruct (take_nth (match tl picks with [] => O | p :: _ => Nat.modulo p (length (h' :: t')) end) (h' :: t')) as [[y l2]|] eqn:E2;
      [|contradiction].
    destruct (take_nth_spec _ _ _ _ E2) as [S1 _]. destruct Hin as [Hin | Hin].
    + subst. apply G2. apply S1. left. reflexivity.
    + apply (IHf (tl picks) l2 Hin). intros H. apply G2. apply S1. right. exact H.
Qed.

Lemma initial_vertex_ok : forall m d locs,
  (forall c, In c locs -> live m c = true) ->
  (exists c, In c locs /\ overallocated (subtract_resources (chip_res m c) d) = false) ->
  exists c r' locs',
    initial_vertex m d locs = Ok (c, r', locs')
    /\ In c locs' /\ live m c = true /\ r' = subtract_resources (chip_res m c) d /\ overallocated r' = false
    /\ (forall x, In x locs' -> In x locs)
    /\ (forall x, In x locs -> ~ In x locs' -> overallocated (subtract_resources (chip_res m x) d) = true).
Proof.
  intros m d locs. induction locs as [|x t IH]; intros Hlive [c0 [Hc0 Hfit0]]; [destruct Hc0|].
  cbn [initial_vertex]. unfold try_chip, mget. rewrite (Hlive x (or_introl eq_refl)). cbn [bind].
  destruct (overallocated (subtract_resources (chip_res m x) d)) eqn:Eo.
  - destruct IH as [c [r' [locs' [G1 [G2 [G3 [G4 [G5 [G6 G7]]]]]]]]].
    + intros c Hc. apply Hlive. right. exact Hc.
    + exists c0. split; [|exact Hfit0]. destruct Hc0 as [E | E]; [subst; congruence | exact E].
    + exists c, r', locs'. split; [exact G1|]. split; [exact G2|]. split; [exact G3|]. split; [exact G4|]. split; [exact G5|].
      split; [intros y Hy; right; apply G6; exact Hy|].
      intros y [Hy | Hy] Hn; [subst; exact Eo | apply G7; assumption].
  - exists x, (subtract_resources (chip_res m x) d), (x :: t).
    split; [reflexivity|]. split; [left; reflexivity|]. split; [apply Hlive; left; reflexivity|]. split; [reflexivity|].
    split; [exact Eo|]. split; [intros y Hy; exact Hy | intros y Hy Hn; contradiction].
Qed.

(* [P] is the placement used for the bookkeeping (fixed vertices and the vertices placed so far); the loop's own
   dictionary only collects the new vertices *)
Lemma initial_loop_complete : forall vr m0 cs r0,
  wf_problem vr m0 cs -> unit_premise vr m0 cs r0 ->
  forall vs m P pl locs,
    LoopInv vr m0 r0 m P -> NoDup vs ->
    (forall v, In v vs -> In v (map fst vr) /\ pl_mem v P = false) ->
    locs <> [] -> (forall c, In c locs -> live m0 c = true) ->
    (forall c, live m0 c = true -> ~ In c locs -> rget r0 (chip_res m c) <= 0) ->
    exists res, initial_loop vr vs m pl locs = Ok res.
Proof.
  intros vr m0 cs r0 W U vs. induction vs as [|v vs IH]; intros m P pl locs Hinv Hnd Hvs Hne Hlocs Hfull.
  - eexists. reflexivity.
  - cbn [initial_loop]. inversion Hnd as [|? ? Hv_ni Hnd']. subst.
    destruct (Hvs v (or_introl eq_refl)) as [Hvk Hnew].
    destruct (zassoc_key_Some v vr Hvk) as [d Hd]. rewrite Hd.
    assert (Hdin : In (v, d) vr) by (apply zassoc_In; exact Hd).
    assert (Hlm : forall c, live m c = live m0 c) by (intros c; apply live_frame; exact (li_frame _ _ _ _ _ Hinv)).
    assert (Hroom : forall c, live m0 c = true -> rget r0 d <= rget r0 (chip_res m c) ->
                              overallocated (subtract_resources (chip_res m c) d) = false).
    { intros c Hc Hle. apply overallocated_false_intro. intros r q' Hin. apply subtract_entries in Hin.
      destruct Hin as [q [Hq Eq]]. pose proof (li_nn _ _ _ _ _ Hinv c r q Hc Hq) as Hqn.
      destruct (Z.eq_dec r r0) as [E | E].
      - subst r. assert (Hqq : rget r0 (chip_res m c) = q).
        { unfold rget. rewrite (zassoc_NoDup_In r0 q (chip_res m c)); [reflexivity | | exact Hq].
          exact (eq_ind_r (fun l => NoDup l) (chip_res_nodup vr m0 cs r0 c U) (li_keys _ _ _ _ _ Hinv c Hc)). }
        lia.
      - rewrite (rget_other_zero vr m0 cs r0 v d r U Hdin E) in Eq. lia. }
    assert (Hnn0 : forall c, live m0 c = true -> 0 <= rget r0 (chip_res m c)).
    { intros c Hc. apply rget_nonneg_of_entries. intros r q Hq. apply (li_nn _ _ _ _ _ Hinv c r q Hc Hq). }
    assert (Hex : exists c, In c locs /\ overallocated (subtract_resources (chip_res m c) d) = false).
    { destruct (rget_unit vr m0 cs r0 v d U Hdin) as [Hz | Ho].
      - destruct locs as [|c t]; [congruence|]. exists c. split; [left; reflexivity|].
        apply Hroom; [apply Hlocs; left; reflexivity|]. rewrite Hz. apply Hnn0. apply Hlocs. left. reflexivity.
      - assert (Hpos : 0 < tfree r0 (raster m0) m).
        { pose proof (li_budget _ _ _ _ _ Hinv) as Hb.
          pose proof (unplaced_set r0 vr P v d (0, 0) (wf_vr_nodup _ _ _ W) Hd Hnew) as Hu.
          pose proof (unplaced_nonneg r0 vr (pl_set v (0, 0) P) (wf_demand_nonneg _ _ _ W)). lia. }
        apply sumf_exists_pos in Hpos. destruct Hpos as [c [Hc Hgc]]. apply raster_In in Hc.
        exists c. split.
        + destruct (in_dec chip_eq_dec c locs) as [Hi | Hn]; [exact Hi|]. specialize (Hfull c Hc Hn). lia.
        + apply Hroom; [exact Hc | lia]. }
    destruct (initial_vertex_ok m d locs) as [c [r' [locs' [G1 [G2 [G3 [G4 [G5 [G6 G7]]]]]]]]].
    + intros c Hc. rewrite Hlm. apply Hlocs. exact Hc.
    + exact Hex.
    + rewrite G1. cbn [bind]. destruct (mset_live m c r' G3) as [m1 Hs]. rewrite Hs. subst r'.
      rewrite Hlm in G3. pose proof (mset_spec _ _ _ _ Hs) as [_ [_ [_ [_ Hcr]]]].
      apply (IH m1 (pl_set v c P) (pl_set v c pl) locs').
      * apply (LoopInv_place vr m0 cs r0 m P v d c m1 W Hinv Hd Hnew G3 G5 Hs).
      * exact Hnd'.
      * intros u Hu. destruct (Hvs u (or_intror Hu)) as [H1 H2]. split; [exact H1|].
        rewrite pl_mem_set. destruct (u =? v) eqn:E; [|exact H2]. apply Z.eqb_eq in E. subst u. contradiction.
      * intros E. subst locs'. destruct G2.
      * intros x Hx. apply Hlocs. apply G6. exact Hx.
      * intros x Hx Hn. rewrite Hcr. destruct (chip_eqb x c) eqn:E; [apply chip_eqb_eq in E; subst x; contradiction|].
        destruct (in_dec chip_eq_dec x locs) as [Hi | Hni]; [|apply Hfull; assumption].
        specialize (G7 x Hi Hn).
        destruct (Z_le_gt_dec (rget r0 d) (rget r0 (chip_res m x))) as [Hle | Hgt].
        -- rewrite (Hroom x Hx Hle) in G7. discriminate.
        -- destruct (rget_unit vr m0 cs r0 v d U Hdin) as [Hz | Ho]; [|lia]. specialize (Hnn0 x Hx). lia.
Qed.

Theorem sa_prepare_complete : forall vr m cs r0 lp vp,
  wf_problem vr m cs -> unit_premise vr m cs r0 -> vr <> [] ->
  exists s0, sa_prepare vr m cs lp vp = Ok s0.
Proof.
  intros vr m cs r0 lp vp W U Hvrne. unfold sa_prepare.
  unfold apply_same_chip. rewrite (apply_sc_none cs [] vr [] (up_no_groups _ _ _ _ U)). cbn [app bind].
  destruct (handle_cs_complete vr m cs r0 W U cs [] m [] eq_refl (InvEq_init vr m (wf_exc_nodup _ _ _ W)))
    as [m1 [pl0 [Hh [Hinv Hfrom]]]].
  { intros v l Hz. discriminate. }
  rewrite Hh. cbn [bind].
  pose proof (LoopInv_after_constraints vr m cs r0 m1 pl0 W U Hinv Hfrom) as Hloop.
  rewrite (raster_frame m m1 (ie_frame _ _ _ _ _ Hinv)).
  set (movable := filter (fun v => negb (pl_mem v pl0)) (map fst vr)).
  set (locs := shuffle (length (raster m)) lp (raster m)).
  assert (Hlocs_in : forall c, In c locs <-> In c (raster m)) by (intros c; unfold locs; apply shuffle_In; lia).
  destruct (up_some_chip _ _ _ _ U Hvrne) as [c1 Hc1].
  destruct locs as [|l0 lt] eqn:El.
  { exfalso. apply raster_In in Hc1. apply Hlocs_in in Hc1. destruct Hc1. }
  rewrite <- El in *.
  destruct (initial_loop_complete vr m cs r0 W U (shuffle (length movable) vp movable) m1 pl0 [] locs Hloop)
    as [[m2 pl] Hres].
  - apply shuffle_NoDup. unfold movable. apply NoDup_filter. exact (wf_vr_nodup _ _ _ W).
  - intros v Hv. apply shuffle_In in Hv; [|lia]. unfold movable in Hv. apply filter_In in Hv. destruct Hv as [H1 H2].
    split; [exact H1 | apply negb_true_iff; exact H2].
  - rewrite El. discriminate.
  - intros c Hc. apply Hlocs_in in Hc. apply raster_In. exact Hc.
  - intros c Hc Hn. exfalso. apply Hn. apply Hlocs_in. apply raster_In. exact Hc.
  - rewrite Hres. cbn [bind]. eexists. reflexivity.
Qed.

Theorem sa_trivial_complete : forall vr m cs r0 lp vp,
  wf_problem vr m cs -> unit_premise vr m cs r0 ->
  exists pl, sa_place_trivial vr m cs lp vp = Ok pl.
Proof.
  intros vr m cs r0 lp vp W U. unfold sa_place_trivial.
  destruct (length vr =? 0)%nat eqn:Elen; [eexists; reflexivity|].
  assert (Hvrne : vr <> []) by (intros E; subst vr; cbn in Elen; discriminate).
  destruct (sa_prepare_complete vr m cs r0 lp vp W U Hvrne) as [s0 Hs0]. rewrite Hs0. cbn [bind].
  (* no same-chip groups: nothing to expand *)
  assert (Hsubs : ss_subs s0 = []).
  { unfold sa_prepare, apply_same_chip in Hs0. rewrite (apply_sc_none cs [] vr [] (up_no_groups _ _ _ _ U)) in Hs0.
    cbn [app bind] in Hs0. destruct (handle_cs vr cs m []) as [[m1 fixed]| | |]; cbn [bind] in Hs0; try discriminate.
    destruct (shuffle (length (raster m1)) lp (raster m1)); [discriminate|].
    destruct (initial_loop vr _ m1 [] _) as [[m2 pl]| | |]; cbn [bind] in Hs0; try discriminate.
    inversion Hs0. reflexivity. }
  rewrite Hsubs. cbn [rev finalise]. eexists. reflexivity.
Qed.
